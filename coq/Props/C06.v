(* Props/C06.v — C06: a write interrupted at any byte leaves a prefix that is reported, not misread.
   Theorem families (model of lib/src/chunk/read.rs, archive/read.rs incl. read_next_archive; proofs in
   Proofs/{ChunkFacts,ArchiveFacts,PartsFacts}.v):
     chunk      every proper prefix of a serialised chunk reads as UnexpectedEof; a complete chunk reads back
     archive    every proper prefix of every archive the writer produces ends with UnexpectedEof after exactly
                the completely written entries; a complete archive reads back and ends Ok
     multipart  the same for a chain of part files cut at any byte of any part (entries may straddle parts);
                a complete chain reads back; a missing part is NotFound
     converse   for ALL inputs: a read (single archive or chain) ends Ok only at an AEND chunk that no ANXT
                precedes in its part — so no truncated input is ever taken for a complete one
     readers    stream and slice readers are the same functions *)
From PNA Require Import Base Crc32 Codec Chunk Archive Entry BaseFacts ChunkFacts ArchiveFacts EntryFacts OffsetFacts PartsFacts.
From PNA Require ArchiveRun.
Open Scope N_scope.

Theorem C06_truncated_chunk_is_eof :
  forall c n, wf_chunk c -> (n < length (ser_chunk c))%nat ->
  read_chunk_stream (firstn n (ser_chunk c)) = Err UnexpectedEof.
Proof. exact read_chunk_trunc. Qed.
Check C06_truncated_chunk_is_eof :
  forall c n, wf_chunk c -> (n < length (ser_chunk c))%nat ->
  read_chunk_stream (firstn n (ser_chunk c)) = Err UnexpectedEof.
Print Assumptions C06_truncated_chunk_is_eof.

Theorem C06_complete_chunk_reads_back :
  forall c, wf_chunk c -> forall rest, read_chunk_stream (ser_chunk c ++ rest) = Ok (c, rest).
Proof. exact read_chunk_ser. Qed.
Print Assumptions C06_complete_chunk_reads_back.

Theorem C06_slice_reader_same : forall bs, read_chunk_slice bs = read_chunk_stream bs.
Proof. exact read_chunk_slice_eq. Qed.
Print Assumptions C06_slice_reader_same.

(* ---- archive level ------------------------------------------------------------------------
   every proper prefix of every archive the writer model produces reads as an error (UnexpectedEof),
   never as success, and the entries returned before it are exactly the completely written ones *)
Theorem C06_truncation :
  forall num es n, Forall wf_entry es -> num < 2 ^ 32 ->
  (n < length (write_raw_archive num es))%nat ->
  match raw_entries read_chunk_stream (firstn n (write_raw_archive num es)) with
  | Err UnexpectedEof => (n < 28)%nat
  | Ok (got, FinErr UnexpectedEof, _) => (28 <= n)%nat /\ got = firstn (entries_complete_within num es n) es
  | _ => False
  end.
Proof. exact truncation. Qed.
Print Assumptions C06_truncation.

(* a completely written archive reads back completely and ends Ok *)
Theorem C06_complete_archive_reads_back :
  forall num es, num < 2 ^ 32 -> Forall wf_entry es ->
  raw_entries read_chunk_stream (write_raw_archive num es) =
  Ok (es, FinOk, {| r_rest := []; r_buf := []; r_next := false;
                    r_hdr := {| a_major := 0; a_minor := 0; a_number := num |} |}).
Proof. exact read_written. Qed.
Print Assumptions C06_complete_archive_reads_back.

Theorem C06_all_readers_same :
  forall bs, (raw_entries read_chunk_slice bs = raw_entries read_chunk_stream bs /\ chunks_slice bs = chunks_stream bs)
             /\ entries read_chunk_slice bs = entries read_chunk_stream bs.
Proof. exact (fun bs => conj (stream_slice_agree bs) (entries_stream_slice_agree bs)). Qed.
Print Assumptions C06_all_readers_same.

Theorem C06_part_chain_readers_same :
  forall parts, read_parts read_chunk_slice parts = read_parts read_chunk_stream parts.
Proof. exact stream_slice_agree_parts. Qed.
Print Assumptions C06_part_chain_readers_same.

(* ---- multipart ------------------------------------------------------------------------------
   part_bytes num body last = header(num) ++ body chunks ++ (ANXT unless last) ++ AEND;  chain_nl n0 pre = the part
   files for the bodies `pre`, numbered from n0, all announcing a successor; body_ok = well-formed chunks, none of
   them ANXT/AEND; scan = cut a chunk sequence behind every FEND/SEND; chunks_before b m = the chunks of b wholly
   within its first m bytes.  A chain cut at ANY byte n of ANY part (last or not): never Ok, never a panic;
   UnexpectedEof after exactly the entries that the delivered chunks complete. *)
Theorem C06_truncation_multipart :
  forall pre bk lf n0 n, Forall body_ok pre -> body_ok bk -> n0 + len pre < 2 ^ 32 ->
  (n < length (part_bytes (n0 + len pre) bk lf))%nat ->
  read_parts read_chunk_stream (chain_nl n0 pre ++ [firstn n (part_bytes (n0 + len pre) bk lf)]) =
  if is_nil pre && Nat.ltb n 28 then Err UnexpectedEof
  else Ok (fst (scan [] (concat pre ++ chunks_before bk (n - 28))), FinErr UnexpectedEof).
Proof. exact truncation_multipart. Qed.
Check C06_truncation_multipart :
  forall pre bk lf n0 n, Forall body_ok pre -> body_ok bk -> n0 + len pre < 2 ^ 32 ->
  (n < length (part_bytes (n0 + len pre) bk lf))%nat ->
  read_parts read_chunk_stream (chain_nl n0 pre ++ [firstn n (part_bytes (n0 + len pre) bk lf)]) =
  if is_nil pre && Nat.ltb n 28 then Err UnexpectedEof
  else Ok (fst (scan [] (concat pre ++ chunks_before bk (n - 28))), FinErr UnexpectedEof).
Print Assumptions C06_truncation_multipart.

(* the chain on the left is what the `ptrunc` correspondence cases hand to the real readers *)
Theorem C06_cut_parts_is_the_cut_chain :
  forall n0 pre p later n,
  ArchiveRun.cut_parts (chain_nl n0 pre ++ p :: later) (length pre) n = chain_nl n0 pre ++ [firstn n p].
Proof. exact cut_parts_chain. Qed.
Check C06_cut_parts_is_the_cut_chain :
  forall n0 pre p later n,
  ArchiveRun.cut_parts (chain_nl n0 pre ++ p :: later) (length pre) n = chain_nl n0 pre ++ [firstn n p].
Print Assumptions C06_cut_parts_is_the_cut_chain.

(* in terms of entries: the chunk stream of the well-formed entries `es` distributed in any way over the part
   files pre ++ bk :: post (as the split writer does; cuts between chunks), cut inside part k = length pre at byte n:
   exactly the first `complete_chunks es delivered` entries, delivered = number of chunks wholly delivered *)
Theorem C06_truncation_multipart_entries :
  forall es pre bk post n0 n,
  Forall wf_entry es -> concat (pre ++ bk :: post) = concat es -> n0 + len pre < 2 ^ 32 ->
  let p := part_bytes (n0 + len pre) bk (is_nil post) in
  (n < length p)%nat ->
  let delivered := (length (concat pre) + length (chunks_before bk (n - 28)))%nat in
  read_parts read_chunk_stream (firstn (length pre) (chain n0 (pre ++ bk :: post)) ++ [firstn n p]) =
  if is_nil pre && Nat.ltb n 28 then Err UnexpectedEof
  else Ok (firstn (complete_chunks es delivered) es, FinErr UnexpectedEof).
Proof. exact truncation_multipart_entries. Qed.
Check C06_truncation_multipart_entries :
  forall es pre bk post n0 n,
  Forall wf_entry es -> concat (pre ++ bk :: post) = concat es -> n0 + len pre < 2 ^ 32 ->
  let p := part_bytes (n0 + len pre) bk (is_nil post) in
  (n < length p)%nat ->
  let delivered := (length (concat pre) + length (chunks_before bk (n - 28)))%nat in
  read_parts read_chunk_stream (firstn (length pre) (chain n0 (pre ++ bk :: post)) ++ [firstn n p]) =
  if is_nil pre && Nat.ltb n 28 then Err UnexpectedEof
  else Ok (firstn (complete_chunks es delivered) es, FinErr UnexpectedEof).
Print Assumptions C06_truncation_multipart_entries.

(* premises are met and the statement is not vacuous: a three-part chain with an entry straddling both boundaries *)
Example C06_multipart_example :
  Forall body_ok [exp_b0; exp_b1; exp_b2] /\ Forall wf_entry [exp_e1; exp_e2; exp_e3] /\
  concat [exp_b0; exp_b1; exp_b2] = concat [exp_e1; exp_e2; exp_e3] /\
  read_parts read_chunk_stream exp_chain = Ok ([exp_e1; exp_e2; exp_e3], FinOk) /\
  read_parts read_chunk_stream (firstn 1 exp_chain ++ [firstn 45 (nth 1 exp_chain [])]) = Ok ([exp_e1], FinErr UnexpectedEof).
Proof. exact (conj (proj1 exp_wf) (conj (proj1 (proj2 exp_wf)) (conj (proj2 (proj2 exp_wf)) (conj exp_read exp_cut)))). Qed.

(* a completely written chain reads back: all parts are consumed, exactly the entries come out, the end is Ok *)
Theorem C06_complete_chain_reads_back :
  forall es pre b n0, Forall wf_entry es -> concat (pre ++ [b]) = concat es -> n0 + len pre < 2 ^ 32 ->
  read_parts read_chunk_stream (chain n0 (pre ++ [b])) = Ok (es, FinOk).
Proof. exact chain_read_entries. Qed.
Check C06_complete_chain_reads_back :
  forall es pre b n0, Forall wf_entry es -> concat (pre ++ [b]) = concat es -> n0 + len pre < 2 ^ 32 ->
  read_parts read_chunk_stream (chain n0 (pre ++ [b])) = Ok (es, FinOk).
Print Assumptions C06_complete_chain_reads_back.

(* the writer was interrupted between two part files: the announced part is missing — NotFound, not Ok *)
Theorem C06_missing_part :
  forall pre b n0, Forall body_ok (b :: pre) -> n0 + len pre < 2 ^ 32 ->
  read_parts read_chunk_stream (chain_nl n0 (b :: pre)) = Ok (fst (scan [] (concat (b :: pre))), FinErr NotFound).
Proof. exact chain_missing_part. Qed.
Check C06_missing_part :
  forall pre b n0, Forall body_ok (b :: pre) -> n0 + len pre < 2 ^ 32 ->
  read_parts read_chunk_stream (chain_nl n0 (b :: pre)) = Ok (fst (scan [] (concat (b :: pre))), FinErr NotFound).
Print Assumptions C06_missing_part.

(* ---- converse, for ALL inputs -------------------------------------------------------------------
   ends_ok p: p = signature ++ AHED chunk ++ chunks none of which is ANXT or AEND ++ AEND chunk ++ anything.
   Whatever byte strings are handed to the reader as parts: if the read ends Ok, the part at which it stopped has
   that form.  (A single archive is the chain of one part.) *)
Theorem C06_ok_only_at_aend :
  forall ps es, read_parts read_chunk_stream ps = Ok (es, FinOk) ->
  exists k p, nth_error ps k = Some p /\ ends_ok p.
Proof. exact read_parts_ok_inv. Qed.
Check C06_ok_only_at_aend :
  forall ps es, read_parts read_chunk_stream ps = Ok (es, FinOk) ->
  exists k p, nth_error ps k = Some p /\ ends_ok p.
Print Assumptions C06_ok_only_at_aend.

Theorem C06_single_ok_only_at_aend :
  forall fuel s es s', raw_entries_loop read_chunk_stream fuel s = (es, FinOk, s') ->
  exists cs a, r_rest s = ser_chunks cs ++ ser_chunk a ++ r_rest s' /\ Forall wf_chunk cs /\ wf_chunk a /\
    Forall (fun x => ty_is x AEND = false) cs /\ ty_is a AEND = true /\ r_next s' = r_next s || has_anxt cs.
Proof. exact raw_loop_ok_inv. Qed.
Check C06_single_ok_only_at_aend :
  forall fuel s es s', raw_entries_loop read_chunk_stream fuel s = (es, FinOk, s') ->
  exists cs a, r_rest s = ser_chunks cs ++ ser_chunk a ++ r_rest s' /\ Forall wf_chunk cs /\ wf_chunk a /\
    Forall (fun x => ty_is x AEND = false) cs /\ ty_is a AEND = true /\ r_next s' = r_next s || has_anxt cs.
Print Assumptions C06_single_ok_only_at_aend.
