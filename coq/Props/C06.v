(* Props/C06.v — C06: a write interrupted at any byte leaves a prefix that is reported, not misread.
   Chunk level (this file, growing): every proper prefix of a serialised chunk reads as
   UnexpectedEof — never a success, never a panic; a chunk that was completely written reads back
   exactly. *)
From PNA Require Import Base Crc32 Chunk BaseFacts ChunkFacts.
Open Scope N_scope.

Theorem C06_truncated_chunk_is_eof :
  forall c n, wf_chunk c -> (n < length (ser_chunk c))%nat ->
  read_chunk_stream (firstn n (ser_chunk c)) = Err UnexpectedEof.
Proof. exact read_chunk_trunc. Qed.
Check C06_truncated_chunk_is_eof :
  forall c n, wf_chunk c -> (n < length (ser_chunk c))%nat ->
  read_chunk_stream (firstn n (ser_chunk c)) = Err UnexpectedEof.
Print Assumptions C06_truncated_chunk_is_eof.

Theorem C06_complete_chunk_reads_back :
  forall c, wf_chunk c -> forall rest, read_chunk_stream (ser_chunk c ++ rest) = Ok (c, rest).
Proof. exact read_chunk_ser. Qed.
Print Assumptions C06_complete_chunk_reads_back.

Theorem C06_slice_reader_same : forall bs, read_chunk_slice bs = read_chunk_stream bs.
Proof. exact read_chunk_slice_eq. Qed.
Print Assumptions C06_slice_reader_same.
