(* Props/C06.v — C06: a write interrupted at any byte leaves a prefix that is reported, not misread.
   Chunk level (this file, growing): every proper prefix of a serialised chunk reads as
   UnexpectedEof — never a success, never a panic; a chunk that was completely written reads back
   exactly. *)
From PNA Require Import Base Crc32 Codec Chunk Archive Entry BaseFacts ChunkFacts ArchiveFacts EntryFacts.
Open Scope N_scope.

Theorem C06_truncated_chunk_is_eof :
  forall c n, wf_chunk c -> (n < length (ser_chunk c))%nat ->
  read_chunk_stream (firstn n (ser_chunk c)) = Err UnexpectedEof.
Proof. exact read_chunk_trunc. Qed.
Check C06_truncated_chunk_is_eof :
  forall c n, wf_chunk c -> (n < length (ser_chunk c))%nat ->
  read_chunk_stream (firstn n (ser_chunk c)) = Err UnexpectedEof.
Print Assumptions C06_truncated_chunk_is_eof.

Theorem C06_complete_chunk_reads_back :
  forall c, wf_chunk c -> forall rest, read_chunk_stream (ser_chunk c ++ rest) = Ok (c, rest).
Proof. exact read_chunk_ser. Qed.
Print Assumptions C06_complete_chunk_reads_back.

Theorem C06_slice_reader_same : forall bs, read_chunk_slice bs = read_chunk_stream bs.
Proof. exact read_chunk_slice_eq. Qed.
Print Assumptions C06_slice_reader_same.

(* ---- archive level ------------------------------------------------------------------------
   every proper prefix of every archive the writer model produces reads as an error (UnexpectedEof),
   never as success, and the entries returned before it are exactly the completely written ones *)
Theorem C06_truncation :
  forall num es n, Forall wf_entry es -> num < 2 ^ 32 ->
  (n < length (write_raw_archive num es))%nat ->
  match raw_entries read_chunk_stream (firstn n (write_raw_archive num es)) with
  | Err UnexpectedEof => (n < 28)%nat
  | Ok (got, FinErr UnexpectedEof, _) => (28 <= n)%nat /\ got = firstn (entries_complete_within num es n) es
  | _ => False
  end.
Proof. exact truncation. Qed.
Print Assumptions C06_truncation.

(* a completely written archive reads back completely and ends Ok *)
Theorem C06_complete_archive_reads_back :
  forall num es, num < 2 ^ 32 -> Forall wf_entry es ->
  raw_entries read_chunk_stream (write_raw_archive num es) =
  Ok (es, FinOk, {| r_rest := []; r_buf := []; r_next := false;
                    r_hdr := {| a_major := 0; a_minor := 0; a_number := num |} |}).
Proof. exact read_written. Qed.
Print Assumptions C06_complete_archive_reads_back.

Theorem C06_all_readers_same :
  forall bs, (raw_entries read_chunk_slice bs = raw_entries read_chunk_stream bs /\ chunks_slice bs = chunks_stream bs)
             /\ entries read_chunk_slice bs = entries read_chunk_stream bs.
Proof. exact (fun bs => conj (stream_slice_agree bs) (entries_stream_slice_agree bs)). Qed.
Print Assumptions C06_all_readers_same.

Theorem C06_part_chain_readers_same :
  forall parts, read_parts read_chunk_slice parts = read_parts read_chunk_stream parts.
Proof. exact stream_slice_agree_parts. Qed.
Print Assumptions C06_part_chain_readers_same.
