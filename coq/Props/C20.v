(* Props/C20.v — C20: without `--overwrite` no existing file is ever replaced or modified.
   Only statements, closed by `exact`, pinned by `Check`, audited by `Print Assumptions`.

   `run c fs0` (Model/Overwrite.v) is the model of one command run: c says which command
   (create, concat, stdio -c, create --split, split, extract, stdio -x), whether --overwrite was given
   and which concrete output paths the run needs, in order; fs0 is the file system before.
   `node s p` is what lstat sees at p, `existed s p` says there is something.
   The theorems are about the REPAIRED code; the last three record what the code did before.
   Outside the proof: the kernel's semantics of open/rename/mkdir beyond the finite-map model, other
   processes racing between a test and the open, and the faithfulness of the step lists (tied to the
   real binary by the scenarios of props/C20.py). *)
From PNA Require Import Base Overwrite OverwriteFacts.

Theorem C20_no_clobber : forall c fs0, overwrite c = false ->
  forall p, existed fs0 p -> node (fst (run c fs0)) p = node fs0 p.
Proof. exact no_clobber. Qed.
Check C20_no_clobber : forall c fs0, overwrite c = false ->
  forall p, existed fs0 p -> node (fst (run c fs0)) p = node fs0 p.
Print Assumptions C20_no_clobber.

Theorem C20_conflict_reported : forall c fs0, overwrite c = false ->
  (exists p, In p (outputs c) /\ existed fs0 p) -> snd (run c fs0) <> 0.
Proof. exact conflict_reported. Qed.
Check C20_conflict_reported : forall c fs0, overwrite c = false ->
  (exists p, In p (outputs c) /\ existed fs0 p) -> snd (run c fs0) <> 0.
Print Assumptions C20_conflict_reported.

(* nothing appears anywhere else: what is new after the run sits at an output path or is a directory above one,
   so nothing is created through a symbolic link (the write-through of the old Path::exists guard is excluded) *)
Theorem C20_no_stray : forall c fs0, overwrite c = false ->
  forall q, ~ existed fs0 q -> existed (fst (run c fs0)) q ->
  exists p, In p (map snd (outs c)) /\ is_prefix q p = true.
Proof. exact no_stray. Qed.
Check C20_no_stray : forall c fs0, overwrite c = false ->
  forall q, ~ existed fs0 q -> existed (fst (run c fs0)) q ->
  exists p, In p (map snd (outs c)) /\ is_prefix q p = true.
Print Assumptions C20_no_stray.

(* the premises are met by a real conflict (a canary at part 2 of a three-part create --split): exit 1,
   part 1 written, canary intact *)
Theorem C20_conflict_example :
  overwrite ex_cmd = false /\
  (exists p, In p (outputs ex_cmd) /\ existed ex_fs p) /\
  snd (run ex_cmd ex_fs) = 1 /\
  node (fst (run ex_cmd ex_fs)) [lit "ar.part2.pna"] = Some (File (lit "canary")) /\
  node (fst (run ex_cmd ex_fs)) [lit "ar.part1.pna"] = Some (File new_content).
Proof. exact conflict_example. Qed.
Print Assumptions C20_conflict_example.

(* `pna split x.part1.pna --out-dir o` whose whole output is ONE part: the part is o/x.part1.pna, the very name the
   finished archive gets (outs = [head; head]).  A run into a clean place — nothing at that path, the output directory
   can be made — exits 0 and leaves the part there (fix 067bc08d: no refusal without a pre-existing object); the three
   theorems above quantify over every command and hold for this one as they stand (its third clause is C20_no_clobber) *)
Theorem C20_selfnamed_split_clean : forall head fs0, head <> [] -> ~ existed fs0 head ->
  (exists s1, mkdirs fs0 (parent head) = Some s1) ->
  let c := {| kind := Split; overwrite := false; outs := [(OFile, head); (OFile, head)] |} in
  snd (run c fs0) = 0 /\ node (fst (run c fs0)) head = Some (File new_content) /\
  (forall p, existed fs0 p -> node (fst (run c fs0)) p = node fs0 p).
Proof. exact split_selfnamed_clean. Qed.
Check C20_selfnamed_split_clean : forall head fs0, head <> [] -> ~ existed fs0 head ->
  (exists s1, mkdirs fs0 (parent head) = Some s1) ->
  let c := {| kind := Split; overwrite := false; outs := [(OFile, head); (OFile, head)] |} in
  snd (run c fs0) = 0 /\ node (fst (run c fs0)) head = Some (File new_content) /\
  (forall p, existed fs0 p -> node (fst (run c fs0)) p = node fs0 p).
Print Assumptions C20_selfnamed_split_clean.

(* the code between 36c3adfe and 067bc08d (finish_parts_orig: the existence test in front of the rename also when the
   single part IS the archive path): the empty file system, no object at any output path — and exit 1, the test saw the
   part the run itself had written; the repaired code exits 0 *)
Theorem C20_selfnamed_split_unrepaired_refuted :
  sn_head <> [] /\ ~ existed [] sn_head /\ (exists s1, mkdirs [] (parent sn_head) = Some s1) /\
  (forall p, In p (outputs {| kind := Split; overwrite := false; outs := [(OFile, sn_head); (OFile, sn_head)] |}) -> ~ existed [] p) /\
  snd (run_split_orig false sn_head [sn_head] []) = 1 /\
  snd (run_split false sn_head [sn_head] []) = 0.
Proof. exact split_selfnamed_unrepaired. Qed.
Check C20_selfnamed_split_unrepaired_refuted :
  sn_head <> [] /\ ~ existed [] sn_head /\ (exists s1, mkdirs [] (parent sn_head) = Some s1) /\
  (forall p, In p (outputs {| kind := Split; overwrite := false; outs := [(OFile, sn_head); (OFile, sn_head)] |}) -> ~ existed [] p) /\
  snd (run_split_orig false sn_head [sn_head] []) = 1 /\
  snd (run_split false sn_head [sn_head] []) = 0.
Print Assumptions C20_selfnamed_split_unrepaired_refuted.

(* D23 as it was: only the archive path tested, parts opened with File::create *)
Theorem C20_unrepaired_clobbers :
  exists head parts fs0 p,
    existed fs0 p /\ In p parts /\
    node (fst (run_create_split_old false head parts fs0)) p <> node fs0 p /\
    snd (run_create_split_old false head parts fs0) = 0.
Proof. exact unrepaired_clobbers. Qed.
Print Assumptions C20_unrepaired_clobbers.

Theorem C20_unrepaired_rename_clobbers :
  exists head parts fs0,
    existed fs0 head /\
    node (fst (run_create_split_old false head parts fs0)) head <> node fs0 head /\
    snd (run_create_split_old false head parts fs0) = 0.
Proof. exact unrepaired_rename_clobbers. Qed.
Print Assumptions C20_unrepaired_rename_clobbers.

(* the symlink-following guard as it was: a dangling link passes and its target is created *)
Theorem C20_follow_guard_writes_through :
  exists p fs0 q,
    existed fs0 p /\ ~ existed fs0 q /\ q <> p /\
    existed (fst (run_single_old false p fs0)) q /\ snd (run_single_old false p fs0) = 0.
Proof. exact follow_guard_writes_through. Qed.
Print Assumptions C20_follow_guard_writes_through.
