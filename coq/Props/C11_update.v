(* Props/C11_update.v — C11 at the container level, second part (Proofs/UpdateContainerFacts.v): the commands that
   REWRITE the archive through run_transform_entry — `experimental delete` and `experimental update` — on the bytes of
   archive files, with and without solid blocks, for both solid strategies.  Only statements here.

   Vocabulary (Proofs/UpdateContainerFacts.v unless noted):
     sel l flags            the elements of l whose flag is set (UpdateFacts.select for any element type)
     flat expand es         the entries the transformer is called with: normal entries and the entries of expanded
                            solid blocks, in reader order
     rw_items expand rebuild keep pwb es flags
                            run_transform_entry with TransformStrategyKeepSolid (keep = true) / UnSolid driven by one
                            flag per entry: a flagged entry is written with add_entry; a block is opened (InvalidInput
                            when it is encrypted and no password was given: pwb), its flagged entries are written as
                            normal entries (unsolid) or the block is built again from them (keep-solid: rebuild)
     expand_p               s.entries(password) = Pipeline.decode_solid run to its end with the buffer sizes srb
     rebuild_pipeline       (WfTransformFacts) SolidEntryBuilder with the codec / cipher / mode of the old header, level
                            lvl and a FRESH cipher context ctx — salt and IV come from the random generator, so ctx is
                            a parameter (the random tape) with the premises strict_ctx ctx (format shape) and
                            wf_ctx verify ctx pw (the password verifies against it)
     hview, update_bytes    the name / mtime view of an entry header the closure of update.rs looks at; the archive
                            update writes: the pass (Update.pass_flags on hview of the flattened entries), then the
                            re-created and new entries, then the end marker
     input_ok               every solid block of the input can be opened and expands to writable entries (block_ok: a
                            theorem for blocks without compression and encryption, C14_solid_inner_writable; a property
                            of the content otherwise), and rb reads every entry to its end (drained)
     srb_drains             the buffer sizes chosen for a solid block read its data to its end
     jobs_ok, Inv, fstep, fhist   the create_entry jobs of a step; "b is the writer's archive of writable entries and
                            abstracts to a"; one command on a file; a history of commands
     xlogical / logical / abs     (AppendContainerFacts) the decoded view of a file and its abstraction to Update.archive
   Premises on primitives: the C01 cipher / compressor laws.  (compress_small — the compressor hands on pieces below
   2^32 bytes — was needed for the rebuilt block to be writable until the chunk sinks were modelled for writes of every
   length: Props/C14_sink.v; it is gone from every theorem here.)
   Outside: the temp file + rename (C12), symbolic links / ctime filters (outside Model/Update.v), multipart input
   of update / delete (read_parts; the theorems are stated on one file), acl / xattr editing commands. *)
From PNA Require Import Base Crc32 Name Codec Chunk Archive Entry Flatten Cbc Ctr Pipeline Aes Camellia
  BaseFacts ChunkFacts ArchiveFacts EntryFacts OffsetFacts PartsFacts CbcFacts PipelineFacts AesFacts CamelliaFacts.
From PNA Require Import Fs Extract CreateTransportFacts AppendContainerFacts.
From PNA Require Import Wf WfFacts WfWriterFacts WfAgreeFacts WfRewriteFacts WfPipelineFacts WfTransformFacts RecutFacts UpdateContainerFacts.
From PNA Require Update UpdateFacts ArchiveRun Transform.
Open Scope N_scope.

(* an entry the strict recogniser accepts (C14 `writable_normal`) is within the ranges the C01 round-trip theorems ask for *)
Theorem C11_writable_meets_pipeline_premises :
  forall n : normal_entry, writable_normal n -> wf_normal n /\ fits n.
Proof. exact writable_wf_fits. Qed.
Check C11_writable_meets_pipeline_premises :
  forall n : normal_entry, writable_normal n -> wf_normal n /\ fits n.
Print Assumptions C11_writable_meets_pipeline_premises.

(* delete (run_edit ... CDelete: the definition the C10 / C14 checks run against the CLI) is run_transform_entry driven by the flags
   `kept sel` of the entries in reader order, whatever expand / rebuild are *)
Theorem C11_delete_is_flag_run :
  forall (expand : solid_entry -> res (list normal_entry))
    (rebuild : solid_entry -> list normal_entry -> solid_entry) (keep pwb : bool)
    (hdr_tok content_tok : normal_entry -> bytes) (sl : bytes -> bool) (es : list read_entry)
    (ns : list normal_entry),
  flat expand es = Ok ns ->
  forall rest : list bool,
  edit_archive hdr_tok content_tok expand rebuild keep pwb Transform.CDelete sl es =
  rw_items expand rebuild keep pwb es (map (kept sl) ns ++ rest).
Proof. exact edit_delete_rw. Qed.
Check C11_delete_is_flag_run :
  forall (expand : solid_entry -> res (list normal_entry))
    (rebuild : solid_entry -> list normal_entry -> solid_entry) (keep pwb : bool)
    (hdr_tok content_tok : normal_entry -> bytes) (sl : bytes -> bool) (es : list read_entry)
    (ns : list normal_entry),
  flat expand es = Ok ns ->
  forall rest : list bool,
  edit_archive hdr_tok content_tok expand rebuild keep pwb Transform.CDelete sl es =
  rw_items expand rebuild keep pwb es (map (kept sl) ns ++ rest).
Print Assumptions C11_delete_is_flag_run.

(* the block SolidEntryBuilder builds from kept entries (fresh context ctx that the password verifies against) expands, with any
   buffers that drain it, to those entries without their empty data chunks *)
Theorem C11_rebuilt_block_expands :
  forall (E D : encryption -> bytes -> bytes -> bytes)
    (compress : compression -> N -> list bytes -> list bytes) (decompress : compression -> bytes -> res bytes)
    (verify : bytes -> bytes -> res bytes),
  (forall (a : encryption) (k c : bytes), len16 c -> len16 (D a k c)) ->
  (forall (a : encryption) (k b : bytes), len16 b -> D a k (E a k b) = b) ->
  (forall (a : encryption) (k b : bytes), len16 b -> len16 (E a k b)) ->
  (forall (c : compression) (lvl : N) (ws : list bytes),
   decompress c (concat (compress c lvl ws)) = Ok (concat ws)) ->
  (forall (c : compression) (lvl : N) (ws ws' : list bytes),
   concat ws = concat ws' -> concat (compress c lvl ws) = concat (compress c lvl ws')) ->
  forall (lvl : N) (ctx : cctx) (pw : bytes),
  wf_ctx verify ctx pw ->
  forall (srb : solid_entry -> list N) (s : solid_entry) (k : list normal_entry),
  Forall writable_normal k ->
  drains (so_data (rebuild_pipeline E compress lvl ctx s k)) (srb (rebuild_pipeline E compress lvl ctx s k)) ->
  expand_p E D decompress verify pw srb (rebuild_pipeline E compress lvl ctx s k) = Ok (map normalize k).
Proof. exact rebuilt_expands. Qed.
Check C11_rebuilt_block_expands :
  forall (E D : encryption -> bytes -> bytes -> bytes)
    (compress : compression -> N -> list bytes -> list bytes) (decompress : compression -> bytes -> res bytes)
    (verify : bytes -> bytes -> res bytes),
  (forall (a : encryption) (k c : bytes), len16 c -> len16 (D a k c)) ->
  (forall (a : encryption) (k b : bytes), len16 b -> D a k (E a k b) = b) ->
  (forall (a : encryption) (k b : bytes), len16 b -> len16 (E a k b)) ->
  (forall (c : compression) (lvl : N) (ws : list bytes),
   decompress c (concat (compress c lvl ws)) = Ok (concat ws)) ->
  (forall (c : compression) (lvl : N) (ws ws' : list bytes),
   concat ws = concat ws' -> concat (compress c lvl ws) = concat (compress c lvl ws')) ->
  forall (lvl : N) (ctx : cctx) (pw : bytes),
  wf_ctx verify ctx pw ->
  forall (srb : solid_entry -> list N) (s : solid_entry) (k : list normal_entry),
  Forall writable_normal k ->
  drains (so_data (rebuild_pipeline E compress lvl ctx s k)) (srb (rebuild_pipeline E compress lvl ctx s k)) ->
  expand_p E D decompress verify pw srb (rebuild_pipeline E compress lvl ctx s k) = Ok (map normalize k).
Print Assumptions C11_rebuilt_block_expands.

(* the core: a flag-driven run over ANY writable items (normal entries and solid blocks, either strategy) succeeds, writes writable
   items, and what it writes decodes to exactly the selected logical entries, unchanged and in order *)
Theorem C11_rw_logical :
  forall (E D : encryption -> bytes -> bytes -> bytes)
    (compress : compression -> N -> list bytes -> list bytes) (decompress : compression -> bytes -> res bytes)
    (verify : bytes -> bytes -> res bytes),
  (forall (a : encryption) (k c : bytes), len16 c -> len16 (D a k c)) ->
  (forall (a : encryption) (k b : bytes), len16 b -> D a k (E a k b) = b) ->
  (forall (a : encryption) (k b : bytes), len16 b -> len16 (E a k b)) ->
  (forall (c : compression) (lvl : N) (ws : list bytes),
   decompress c (concat (compress c lvl ws)) = Ok (concat ws)) ->
  (forall (c : compression) (lvl : N) (ws ws' : list bytes),
   concat ws = concat ws' -> concat (compress c lvl ws) = concat (compress c lvl ws')) ->
  forall (lvl : N) (ctx : cctx),
  strict_ctx ctx ->
  forall pw : bytes,
  wf_ctx verify ctx pw ->
  forall (rb : normal_entry -> list N) (srb : solid_entry -> list N) (keep pwb : bool) 
    (es : list read_entry) (flags : list bool) (ns : list normal_entry) (old : list xentry),
  Forall writable es ->
  Forall (block_ok E D decompress verify pw srb pwb) es ->
  flat (expand_p E D decompress verify pw srb) es = Ok ns ->
  read_entries_x E D decompress verify pw rb ns = Ok old ->
  Forall (drained rb) ns ->
  exists es' : list read_entry,
    rw_items (expand_p E D decompress verify pw srb) (rebuild_pipeline E compress lvl ctx) keep pwb es flags =
    Ok es' /\
    Forall writable es' /\
    (Forall (srb_drains srb) es' ->
     x_items E D decompress verify pw rb srb (map normalize_entry es') = Ok (sel old flags)).
Proof. exact rw_logical. Qed.
Check C11_rw_logical :
  forall (E D : encryption -> bytes -> bytes -> bytes)
    (compress : compression -> N -> list bytes -> list bytes) (decompress : compression -> bytes -> res bytes)
    (verify : bytes -> bytes -> res bytes),
  (forall (a : encryption) (k c : bytes), len16 c -> len16 (D a k c)) ->
  (forall (a : encryption) (k b : bytes), len16 b -> D a k (E a k b) = b) ->
  (forall (a : encryption) (k b : bytes), len16 b -> len16 (E a k b)) ->
  (forall (c : compression) (lvl : N) (ws : list bytes),
   decompress c (concat (compress c lvl ws)) = Ok (concat ws)) ->
  (forall (c : compression) (lvl : N) (ws ws' : list bytes),
   concat ws = concat ws' -> concat (compress c lvl ws) = concat (compress c lvl ws')) ->
  forall (lvl : N) (ctx : cctx),
  strict_ctx ctx ->
  forall pw : bytes,
  wf_ctx verify ctx pw ->
  forall (rb : normal_entry -> list N) (srb : solid_entry -> list N) (keep pwb : bool) 
    (es : list read_entry) (flags : list bool) (ns : list normal_entry) (old : list xentry),
  Forall writable es ->
  Forall (block_ok E D decompress verify pw srb pwb) es ->
  flat (expand_p E D decompress verify pw srb) es = Ok ns ->
  read_entries_x E D decompress verify pw rb ns = Ok old ->
  Forall (drained rb) ns ->
  exists es' : list read_entry,
    rw_items (expand_p E D decompress verify pw srb) (rebuild_pipeline E compress lvl ctx) keep pwb es flags =
    Ok es' /\
    Forall writable es' /\
    (Forall (srb_drains srb) es' ->
     x_items E D decompress verify pw rb srb (map normalize_entry es') = Ok (sel old flags)).
Print Assumptions C11_rw_logical.

(* delete on archives WITH solid blocks, --keep-solid (keep = true) and --unsolid: the archive written is of the written form, accepted,
   and holds exactly the logical entries whose name is not selected *)
Theorem C11_delete_solid_logical :
  forall (E D : encryption -> bytes -> bytes -> bytes)
    (compress : compression -> N -> list bytes -> list bytes) (decompress : compression -> bytes -> res bytes)
    (verify : bytes -> bytes -> res bytes),
  (forall (a : encryption) (k c : bytes), len16 c -> len16 (D a k c)) ->
  (forall (a : encryption) (k b : bytes), len16 b -> D a k (E a k b) = b) ->
  (forall (a : encryption) (k b : bytes), len16 b -> len16 (E a k b)) ->
  (forall (c : compression) (lvl : N) (ws : list bytes),
   decompress c (concat (compress c lvl ws)) = Ok (concat ws)) ->
  (forall (c : compression) (lvl : N) (ws ws' : list bytes),
   concat ws = concat ws' -> concat (compress c lvl ws) = concat (compress c lvl ws')) ->
  forall (lvl : N) (ctx : cctx),
  strict_ctx ctx ->
  forall pw : bytes,
  wf_ctx verify ctx pw ->
  forall (rb : normal_entry -> list N) (srb : solid_entry -> list N) (keep pwb : bool)
    (hdr_tok content_tok : normal_entry -> bytes) (nf : N) (sl : bytes -> bool) (b : bytes)
    (es : list read_entry) (old : list xentry),
  wf_archive b = true ->
  read_archive b = Ok es ->
  input_ok E D decompress verify pw rb srb pwb es ->
  xlogical E D decompress verify pw rb srb b = Ok old ->
  exists (b' : bytes) (es' : list read_entry),
    run_edit hdr_tok content_tok (expand_p E D decompress verify pw srb) (rebuild_pipeline E compress lvl ctx)
      keep pwb Transform.CDelete nf sl b = Ok b' /\
    b' = write_raw_archive 0 (map ser_entry es') /\
    Forall writable es' /\
    wf_archive b' = true /\
    (Forall (srb_drains srb) es' ->
     xlogical E D decompress verify pw rb srb b' = Ok (filter (fun x : xentry => negb (sl (e_name x))) old)).
Proof. exact delete_solid_logical. Qed.
Check C11_delete_solid_logical :
  forall (E D : encryption -> bytes -> bytes -> bytes)
    (compress : compression -> N -> list bytes -> list bytes) (decompress : compression -> bytes -> res bytes)
    (verify : bytes -> bytes -> res bytes),
  (forall (a : encryption) (k c : bytes), len16 c -> len16 (D a k c)) ->
  (forall (a : encryption) (k b : bytes), len16 b -> D a k (E a k b) = b) ->
  (forall (a : encryption) (k b : bytes), len16 b -> len16 (E a k b)) ->
  (forall (c : compression) (lvl : N) (ws : list bytes),
   decompress c (concat (compress c lvl ws)) = Ok (concat ws)) ->
  (forall (c : compression) (lvl : N) (ws ws' : list bytes),
   concat ws = concat ws' -> concat (compress c lvl ws) = concat (compress c lvl ws')) ->
  forall (lvl : N) (ctx : cctx),
  strict_ctx ctx ->
  forall pw : bytes,
  wf_ctx verify ctx pw ->
  forall (rb : normal_entry -> list N) (srb : solid_entry -> list N) (keep pwb : bool)
    (hdr_tok content_tok : normal_entry -> bytes) (nf : N) (sl : bytes -> bool) (b : bytes)
    (es : list read_entry) (old : list xentry),
  wf_archive b = true ->
  read_archive b = Ok es ->
  input_ok E D decompress verify pw rb srb pwb es ->
  xlogical E D decompress verify pw rb srb b = Ok old ->
  exists (b' : bytes) (es' : list read_entry),
    run_edit hdr_tok content_tok (expand_p E D decompress verify pw srb) (rebuild_pipeline E compress lvl ctx)
      keep pwb Transform.CDelete nf sl b = Ok b' /\
    b' = write_raw_archive 0 (map ser_entry es') /\
    Forall writable es' /\
    wf_archive b' = true /\
    (Forall (srb_drains srb) es' ->
     xlogical E D decompress verify pw rb srb b' = Ok (filter (fun x : xentry => negb (sl (e_name x))) old)).
Print Assumptions C11_delete_solid_logical.

(* the bridge for delete, solid blocks included: abs (file after delete) = Update.delete matched (abs file) *)
Theorem C11_delete_solid_abs :
  forall (E D : encryption -> bytes -> bytes -> bytes)
    (compress : compression -> N -> list bytes -> list bytes) (decompress : compression -> bytes -> res bytes)
    (verify : bytes -> bytes -> res bytes),
  (forall (a : encryption) (k c : bytes), len16 c -> len16 (D a k c)) ->
  (forall (a : encryption) (k b : bytes), len16 b -> D a k (E a k b) = b) ->
  (forall (a : encryption) (k b : bytes), len16 b -> len16 (E a k b)) ->
  (forall (c : compression) (lvl : N) (ws : list bytes),
   decompress c (concat (compress c lvl ws)) = Ok (concat ws)) ->
  (forall (c : compression) (lvl : N) (ws ws' : list bytes),
   concat ws = concat ws' -> concat (compress c lvl ws) = concat (compress c lvl ws')) ->
  forall (lvl : N) (ctx : cctx),
  strict_ctx ctx ->
  forall pw : bytes,
  wf_ctx verify ctx pw ->
  forall (rb : normal_entry -> list N) (srb : solid_entry -> list N) (keep pwb : bool)
    (hdr_tok content_tok : normal_entry -> bytes) (nf : N) (matched : list bytes) 
    (b : bytes) (es : list read_entry) (a : Update.archive),
  wf_archive b = true ->
  read_archive b = Ok es ->
  input_ok E D decompress verify pw rb srb pwb es ->
  logical E D decompress verify pw rb srb b = Ok a ->
  exists (b' : bytes) (es' : list read_entry),
    run_edit hdr_tok content_tok (expand_p E D decompress verify pw srb) (rebuild_pipeline E compress lvl ctx)
      keep pwb Transform.CDelete nf (fun p : bytes => Update.mem p matched) b = Ok b' /\
    b' = write_raw_archive 0 (map ser_entry es') /\
    Forall writable es' /\
    wf_archive b' = true /\
    (Forall (srb_drains srb) es' -> logical E D decompress verify pw rb srb b' = Ok (Update.delete matched a)) /\
    Update.step a (Update.ODelete matched) = Ok (Update.delete matched a).
Proof. exact delete_solid_abs. Qed.
Check C11_delete_solid_abs :
  forall (E D : encryption -> bytes -> bytes -> bytes)
    (compress : compression -> N -> list bytes -> list bytes) (decompress : compression -> bytes -> res bytes)
    (verify : bytes -> bytes -> res bytes),
  (forall (a : encryption) (k c : bytes), len16 c -> len16 (D a k c)) ->
  (forall (a : encryption) (k b : bytes), len16 b -> D a k (E a k b) = b) ->
  (forall (a : encryption) (k b : bytes), len16 b -> len16 (E a k b)) ->
  (forall (c : compression) (lvl : N) (ws : list bytes),
   decompress c (concat (compress c lvl ws)) = Ok (concat ws)) ->
  (forall (c : compression) (lvl : N) (ws ws' : list bytes),
   concat ws = concat ws' -> concat (compress c lvl ws) = concat (compress c lvl ws')) ->
  forall (lvl : N) (ctx : cctx),
  strict_ctx ctx ->
  forall pw : bytes,
  wf_ctx verify ctx pw ->
  forall (rb : normal_entry -> list N) (srb : solid_entry -> list N) (keep pwb : bool)
    (hdr_tok content_tok : normal_entry -> bytes) (nf : N) (matched : list bytes) 
    (b : bytes) (es : list read_entry) (a : Update.archive),
  wf_archive b = true ->
  read_archive b = Ok es ->
  input_ok E D decompress verify pw rb srb pwb es ->
  logical E D decompress verify pw rb srb b = Ok a ->
  exists (b' : bytes) (es' : list read_entry),
    run_edit hdr_tok content_tok (expand_p E D decompress verify pw srb) (rebuild_pipeline E compress lvl ctx)
      keep pwb Transform.CDelete nf (fun p : bytes => Update.mem p matched) b = Ok b' /\
    b' = write_raw_archive 0 (map ser_entry es') /\
    Forall writable es' /\
    wf_archive b' = true /\
    (Forall (srb_drains srb) es' -> logical E D decompress verify pw rb srb b' = Ok (Update.delete matched a)) /\
    Update.step a (Update.ODelete matched) = Ok (Update.delete matched a).
Print Assumptions C11_delete_solid_abs.

(* update on the bytes: abs (update_bytes ... b) = the result of Update.update_cmd on abs b; the output is of the written form *)
Theorem C11_update_container :
  forall (E D : encryption -> bytes -> bytes -> bytes)
    (compress : compression -> N -> list bytes -> list bytes) (decompress : compression -> bytes -> res bytes)
    (verify : bytes -> bytes -> res bytes),
  (forall (a : encryption) (k c : bytes), len16 c -> len16 (D a k c)) ->
  (forall (a : encryption) (k b : bytes), len16 b -> D a k (E a k b) = b) ->
  (forall (a : encryption) (k b : bytes), len16 b -> len16 (E a k b)) ->
  (forall (c : compression) (lvl : N) (ws : list bytes),
   decompress c (concat (compress c lvl ws)) = Ok (concat ws)) ->
  (forall (c : compression) (lvl : N) (ws ws' : list bytes),
   concat ws = concat ws' -> concat (compress c lvl ws) = concat (compress c lvl ws')) ->
  forall (lvl : N) (ctx : cctx),
  strict_ctx ctx ->
  forall pw : bytes,
  wf_ctx verify ctx pw ->
  forall (rb : normal_entry -> list N) (srb : solid_entry -> list N) (keep pwb kd kt : bool)
    (excl : list bytes) (cond : N) (walk : list Update.node) (b : bytes) (es : list read_entry)
    (a a' : Update.archive) (jobs : list job) (new : list xentry),
  wf_archive b = true ->
  read_archive b = Ok es ->
  input_ok E D decompress verify pw rb srb pwb es ->
  logical E D decompress verify pw rb srb b = Ok a ->
  Update.update_cmd kd kt excl cond a walk = Ok a' ->
  let targets := Update.update_targets kd walk in
  let r := Update.update_pass excl cond a targets [] in
  map abs new = map (Update.fresh kt) (snd (fst r) ++ snd r) ->
  Forall2 carries jobs new ->
  Forall (wf_job E compress verify pw) jobs ->
  Forall (fun e : xentry => e_kind e <= 3) new ->
  (forall j : job, In j jobs -> reads_to_end E compress rb j) ->
  Forall writable_normal (map (build_job E compress) jobs) ->
  exists (b' : bytes) (es' : list read_entry),
    update_bytes (expand_p E D decompress verify pw srb) (rebuild_pipeline E compress lvl ctx) keep pwb excl
      cond targets (new_raws E compress jobs) b = Ok b' /\
    b' = write_raw_archive 0 (map ser_entry (es' ++ map RNormal (map (build_job E compress) jobs))) /\
    rw_items (expand_p E D decompress verify pw srb) (rebuild_pipeline E compress lvl ctx) keep pwb es
      (Update.pass_flags excl cond a targets []) = Ok es' /\
    Forall writable (es' ++ map RNormal (map (build_job E compress) jobs)) /\
    wf_archive b' = true /\
    (Forall (srb_drains srb) es' -> logical E D decompress verify pw rb srb b' = Ok a').
Proof. exact update_container. Qed.
Check C11_update_container :
  forall (E D : encryption -> bytes -> bytes -> bytes)
    (compress : compression -> N -> list bytes -> list bytes) (decompress : compression -> bytes -> res bytes)
    (verify : bytes -> bytes -> res bytes),
  (forall (a : encryption) (k c : bytes), len16 c -> len16 (D a k c)) ->
  (forall (a : encryption) (k b : bytes), len16 b -> D a k (E a k b) = b) ->
  (forall (a : encryption) (k b : bytes), len16 b -> len16 (E a k b)) ->
  (forall (c : compression) (lvl : N) (ws : list bytes),
   decompress c (concat (compress c lvl ws)) = Ok (concat ws)) ->
  (forall (c : compression) (lvl : N) (ws ws' : list bytes),
   concat ws = concat ws' -> concat (compress c lvl ws) = concat (compress c lvl ws')) ->
  forall (lvl : N) (ctx : cctx),
  strict_ctx ctx ->
  forall pw : bytes,
  wf_ctx verify ctx pw ->
  forall (rb : normal_entry -> list N) (srb : solid_entry -> list N) (keep pwb kd kt : bool)
    (excl : list bytes) (cond : N) (walk : list Update.node) (b : bytes) (es : list read_entry)
    (a a' : Update.archive) (jobs : list job) (new : list xentry),
  wf_archive b = true ->
  read_archive b = Ok es ->
  input_ok E D decompress verify pw rb srb pwb es ->
  logical E D decompress verify pw rb srb b = Ok a ->
  Update.update_cmd kd kt excl cond a walk = Ok a' ->
  let targets := Update.update_targets kd walk in
  let r := Update.update_pass excl cond a targets [] in
  map abs new = map (Update.fresh kt) (snd (fst r) ++ snd r) ->
  Forall2 carries jobs new ->
  Forall (wf_job E compress verify pw) jobs ->
  Forall (fun e : xentry => e_kind e <= 3) new ->
  (forall j : job, In j jobs -> reads_to_end E compress rb j) ->
  Forall writable_normal (map (build_job E compress) jobs) ->
  exists (b' : bytes) (es' : list read_entry),
    update_bytes (expand_p E D decompress verify pw srb) (rebuild_pipeline E compress lvl ctx) keep pwb excl
      cond targets (new_raws E compress jobs) b = Ok b' /\
    b' = write_raw_archive 0 (map ser_entry (es' ++ map RNormal (map (build_job E compress) jobs))) /\
    rw_items (expand_p E D decompress verify pw srb) (rebuild_pipeline E compress lvl ctx) keep pwb es
      (Update.pass_flags excl cond a targets []) = Ok es' /\
    Forall writable (es' ++ map RNormal (map (build_job E compress) jobs)) /\
    wf_archive b' = true /\
    (Forall (srb_drains srb) es' -> logical E D decompress verify pw rb srb b' = Ok a').
Print Assumptions C11_update_container.

(* C11_update_keeps_others, C11_update_spec, C11_update_nodup, C11_update_exactly_once as statements about the files *)
Theorem C11_update_container_props :
  forall (E D : encryption -> bytes -> bytes -> bytes)
    (compress : compression -> N -> list bytes -> list bytes) (decompress : compression -> bytes -> res bytes)
    (verify : bytes -> bytes -> res bytes),
  (forall (a : encryption) (k c : bytes), len16 c -> len16 (D a k c)) ->
  (forall (a : encryption) (k b : bytes), len16 b -> D a k (E a k b) = b) ->
  (forall (a : encryption) (k b : bytes), len16 b -> len16 (E a k b)) ->
  (forall (c : compression) (lvl : N) (ws : list bytes),
   decompress c (concat (compress c lvl ws)) = Ok (concat ws)) ->
  (forall (c : compression) (lvl : N) (ws ws' : list bytes),
   concat ws = concat ws' -> concat (compress c lvl ws) = concat (compress c lvl ws')) ->
  forall (lvl : N) (ctx : cctx),
  strict_ctx ctx ->
  forall pw : bytes,
  wf_ctx verify ctx pw ->
  forall (rb : normal_entry -> list N) (srb : solid_entry -> list N) (keep pwb kd kt : bool)
    (excl : list bytes) (cond : N) (walk : list Update.node) (b : bytes) (es : list read_entry)
    (a a' : Update.archive) (jobs : list job) (new : list xentry),
  wf_archive b = true ->
  read_archive b = Ok es ->
  input_ok E D decompress verify pw rb srb pwb es ->
  logical E D decompress verify pw rb srb b = Ok a ->
  Update.update_cmd kd kt excl cond a walk = Ok a' ->
  let targets := Update.update_targets kd walk in
  let r := Update.update_pass excl cond a targets [] in
  map abs new = map (Update.fresh kt) (snd (fst r) ++ snd r) ->
  Forall2 carries jobs new ->
  Forall (wf_job E compress verify pw) jobs ->
  Forall (fun e : xentry => e_kind e <= 3) new ->
  (forall j : job, In j jobs -> reads_to_end E compress rb j) ->
  Forall writable_normal (map (build_job E compress) jobs) ->
  exists (b' : bytes) (es' : list read_entry),
    update_bytes (expand_p E D decompress verify pw srb) (rebuild_pipeline E compress lvl ctx) keep pwb excl
      cond targets (new_raws E compress jobs) b = Ok b' /\
    wf_archive b' = true /\
    rw_items (expand_p E D decompress verify pw srb) (rebuild_pipeline E compress lvl ctx) keep pwb es
      (Update.pass_flags excl cond a targets []) = Ok es' /\
    (Forall (srb_drains srb) es' ->
     logical E D decompress verify pw rb srb b' = Ok a' /\
     filter (UpdateFacts.unnamed targets) a' = filter (UpdateFacts.unnamed targets) a /\
     (NoDup (Update.names a) ->
      a' =
      filter (UpdateFacts.stays excl cond targets) a ++
      map (Update.fresh kt) (flat_map (UpdateFacts.job excl cond targets) a) ++
      map (Update.fresh kt) (filter (UpdateFacts.not_in a) targets)) /\
     (NoDup (Update.names a) -> NoDup (Update.names a')) /\
     (excl = [] ->
      cond = 0 ->
      forall n : Update.node,
      In n targets ->
      filter (fun e : Update.entry => bytes_eqb (Update.e_path e) (Update.node_name n)) a' =
      [Update.fresh kt n])).
Proof. exact update_container_props. Qed.
Check C11_update_container_props :
  forall (E D : encryption -> bytes -> bytes -> bytes)
    (compress : compression -> N -> list bytes -> list bytes) (decompress : compression -> bytes -> res bytes)
    (verify : bytes -> bytes -> res bytes),
  (forall (a : encryption) (k c : bytes), len16 c -> len16 (D a k c)) ->
  (forall (a : encryption) (k b : bytes), len16 b -> D a k (E a k b) = b) ->
  (forall (a : encryption) (k b : bytes), len16 b -> len16 (E a k b)) ->
  (forall (c : compression) (lvl : N) (ws : list bytes),
   decompress c (concat (compress c lvl ws)) = Ok (concat ws)) ->
  (forall (c : compression) (lvl : N) (ws ws' : list bytes),
   concat ws = concat ws' -> concat (compress c lvl ws) = concat (compress c lvl ws')) ->
  forall (lvl : N) (ctx : cctx),
  strict_ctx ctx ->
  forall pw : bytes,
  wf_ctx verify ctx pw ->
  forall (rb : normal_entry -> list N) (srb : solid_entry -> list N) (keep pwb kd kt : bool)
    (excl : list bytes) (cond : N) (walk : list Update.node) (b : bytes) (es : list read_entry)
    (a a' : Update.archive) (jobs : list job) (new : list xentry),
  wf_archive b = true ->
  read_archive b = Ok es ->
  input_ok E D decompress verify pw rb srb pwb es ->
  logical E D decompress verify pw rb srb b = Ok a ->
  Update.update_cmd kd kt excl cond a walk = Ok a' ->
  let targets := Update.update_targets kd walk in
  let r := Update.update_pass excl cond a targets [] in
  map abs new = map (Update.fresh kt) (snd (fst r) ++ snd r) ->
  Forall2 carries jobs new ->
  Forall (wf_job E compress verify pw) jobs ->
  Forall (fun e : xentry => e_kind e <= 3) new ->
  (forall j : job, In j jobs -> reads_to_end E compress rb j) ->
  Forall writable_normal (map (build_job E compress) jobs) ->
  exists (b' : bytes) (es' : list read_entry),
    update_bytes (expand_p E D decompress verify pw srb) (rebuild_pipeline E compress lvl ctx) keep pwb excl
      cond targets (new_raws E compress jobs) b = Ok b' /\
    wf_archive b' = true /\
    rw_items (expand_p E D decompress verify pw srb) (rebuild_pipeline E compress lvl ctx) keep pwb es
      (Update.pass_flags excl cond a targets []) = Ok es' /\
    (Forall (srb_drains srb) es' ->
     logical E D decompress verify pw rb srb b' = Ok a' /\
     filter (UpdateFacts.unnamed targets) a' = filter (UpdateFacts.unnamed targets) a /\
     (NoDup (Update.names a) ->
      a' =
      filter (UpdateFacts.stays excl cond targets) a ++
      map (Update.fresh kt) (flat_map (UpdateFacts.job excl cond targets) a) ++
      map (Update.fresh kt) (filter (UpdateFacts.not_in a) targets)) /\
     (NoDup (Update.names a) -> NoDup (Update.names a')) /\
     (excl = [] ->
      cond = 0 ->
      forall n : Update.node,
      In n targets ->
      filter (fun e : Update.entry => bytes_eqb (Update.e_path e) (Update.node_name n)) a' =
      [Update.fresh kt n])).
Print Assumptions C11_update_container_props.

(* entries that stay keep their BYTES: from an archive written from writable file entries, update writes the writer's archive of
   the same chunk lists (selected by the pass) followed by the re-created and new entries *)
Theorem C11_update_keeps_bytes :
  forall (expand : solid_entry -> res (list normal_entry))
    (rebuild : solid_entry -> list normal_entry -> solid_entry) (keep pwb : bool) 
    (excl : list bytes) (cond : N) (targets : list Update.node) (news : list (list chunk))
    (ns0 : list normal_entry),
  Forall writable_normal ns0 ->
  update_bytes expand rebuild keep pwb excl cond targets news (write_raw_archive 0 (map ser_normal ns0)) =
  Ok
    (write_raw_archive 0
       (sel (map ser_normal ns0) (Update.pass_flags excl cond (map hview ns0) targets []) ++ news)).
Proof. exact update_bytes_written. Qed.
Check C11_update_keeps_bytes :
  forall (expand : solid_entry -> res (list normal_entry))
    (rebuild : solid_entry -> list normal_entry -> solid_entry) (keep pwb : bool) 
    (excl : list bytes) (cond : N) (targets : list Update.node) (news : list (list chunk))
    (ns0 : list normal_entry),
  Forall writable_normal ns0 ->
  update_bytes expand rebuild keep pwb excl cond targets news (write_raw_archive 0 (map ser_normal ns0)) =
  Ok
    (write_raw_archive 0
       (sel (map ser_normal ns0) (Update.pass_flags excl cond (map hview ns0) targets []) ++ news)).
Print Assumptions C11_update_keeps_bytes.

(* one command of Update.step carried out on a file of the written form that abstracts to a: the file after it is of the written form
   and abstracts to Update.after a o (create, append in place, update and delete through run_transform_entry, re-splitting, failing command) *)
Theorem C11_file_step :
  forall (E D : encryption -> bytes -> bytes -> bytes)
    (compress : compression -> N -> list bytes -> list bytes) (decompress : compression -> bytes -> res bytes)
    (verify : bytes -> bytes -> res bytes),
  (forall (a : encryption) (k c : bytes), len16 c -> len16 (D a k c)) ->
  (forall (a : encryption) (k b : bytes), len16 b -> D a k (E a k b) = b) ->
  (forall (a : encryption) (k b : bytes), len16 b -> len16 (E a k b)) ->
  (forall (c : compression) (lvl : N) (ws : list bytes),
   decompress c (concat (compress c lvl ws)) = Ok (concat ws)) ->
  (forall (c : compression) (lvl : N) (ws ws' : list bytes),
   concat ws = concat ws' -> concat (compress c lvl ws) = concat (compress c lvl ws')) ->
  forall (lvl : N) (ctx : cctx),
  strict_ctx ctx ->
  forall pw : bytes,
  wf_ctx verify ctx pw ->
  forall (rb : normal_entry -> list N) (srb : solid_entry -> list N) (keep pwb : bool)
    (hdr_tok content_tok : normal_entry -> bytes) (b : bytes) (a : Update.archive) 
    (o : Update.op) (b' : bytes),
  Inv E D decompress verify pw rb srb b a ->
  fstep E D compress decompress verify lvl ctx pw rb srb keep pwb hdr_tok content_tok b a o b' ->
  Inv E D decompress verify pw rb srb b' (Update.after a o).
Proof. exact fstep_inv. Qed.
Check C11_file_step :
  forall (E D : encryption -> bytes -> bytes -> bytes)
    (compress : compression -> N -> list bytes -> list bytes) (decompress : compression -> bytes -> res bytes)
    (verify : bytes -> bytes -> res bytes),
  (forall (a : encryption) (k c : bytes), len16 c -> len16 (D a k c)) ->
  (forall (a : encryption) (k b : bytes), len16 b -> D a k (E a k b) = b) ->
  (forall (a : encryption) (k b : bytes), len16 b -> len16 (E a k b)) ->
  (forall (c : compression) (lvl : N) (ws : list bytes),
   decompress c (concat (compress c lvl ws)) = Ok (concat ws)) ->
  (forall (c : compression) (lvl : N) (ws ws' : list bytes),
   concat ws = concat ws' -> concat (compress c lvl ws) = concat (compress c lvl ws')) ->
  forall (lvl : N) (ctx : cctx),
  strict_ctx ctx ->
  forall pw : bytes,
  wf_ctx verify ctx pw ->
  forall (rb : normal_entry -> list N) (srb : solid_entry -> list N) (keep pwb : bool)
    (hdr_tok content_tok : normal_entry -> bytes) (b : bytes) (a : Update.archive) 
    (o : Update.op) (b' : bytes),
  Inv E D decompress verify pw rb srb b a ->
  fstep E D compress decompress verify lvl ctx pw rb srb keep pwb hdr_tok content_tok b a o b' ->
  Inv E D decompress verify pw rb srb b' (Update.after a o).
Print Assumptions C11_file_step.

(* histories: the file at the end abstracts to Update.final a ops, and C11_history_invariant holds of what the file decodes to
   (hist_ok asks nothing of create / update / delete steps, and of an append step only that no walked path has a name the
   archive holds: C11_hist_ok_create / _update / _append in Props/C11.v; create's items are collect_items' since 4cfc8ff5) *)
Theorem C11_file_history :
  forall (E D : encryption -> bytes -> bytes -> bytes)
    (compress : compression -> N -> list bytes -> list bytes) (decompress : compression -> bytes -> res bytes)
    (verify : bytes -> bytes -> res bytes),
  (forall (a : encryption) (k c : bytes), len16 c -> len16 (D a k c)) ->
  (forall (a : encryption) (k b : bytes), len16 b -> D a k (E a k b) = b) ->
  (forall (a : encryption) (k b : bytes), len16 b -> len16 (E a k b)) ->
  (forall (c : compression) (lvl : N) (ws : list bytes),
   decompress c (concat (compress c lvl ws)) = Ok (concat ws)) ->
  (forall (c : compression) (lvl : N) (ws ws' : list bytes),
   concat ws = concat ws' -> concat (compress c lvl ws) = concat (compress c lvl ws')) ->
  forall (lvl : N) (ctx : cctx),
  strict_ctx ctx ->
  forall pw : bytes,
  wf_ctx verify ctx pw ->
  forall (rb : normal_entry -> list N) (srb : solid_entry -> list N) (keep pwb : bool)
    (hdr_tok content_tok : normal_entry -> bytes) (ops : list Update.op) (b : bytes) 
    (a : Update.archive) (b' : bytes),
  Inv E D decompress verify pw rb srb b a ->
  fhist E D compress decompress verify lvl ctx pw rb srb keep pwb hdr_tok content_tok b a ops b' ->
  Inv E D decompress verify pw rb srb b' (Update.final a ops) /\
  (NoDup (Update.names a) ->
   UpdateFacts.hist_ok a ops ->
   exists a' : Update.archive,
     logical E D decompress verify pw rb srb b' = Ok a' /\ a' = Update.final a ops /\ NoDup (Update.names a')).
Proof. exact file_history. Qed.
Check C11_file_history :
  forall (E D : encryption -> bytes -> bytes -> bytes)
    (compress : compression -> N -> list bytes -> list bytes) (decompress : compression -> bytes -> res bytes)
    (verify : bytes -> bytes -> res bytes),
  (forall (a : encryption) (k c : bytes), len16 c -> len16 (D a k c)) ->
  (forall (a : encryption) (k b : bytes), len16 b -> D a k (E a k b) = b) ->
  (forall (a : encryption) (k b : bytes), len16 b -> len16 (E a k b)) ->
  (forall (c : compression) (lvl : N) (ws : list bytes),
   decompress c (concat (compress c lvl ws)) = Ok (concat ws)) ->
  (forall (c : compression) (lvl : N) (ws ws' : list bytes),
   concat ws = concat ws' -> concat (compress c lvl ws) = concat (compress c lvl ws')) ->
  forall (lvl : N) (ctx : cctx),
  strict_ctx ctx ->
  forall pw : bytes,
  wf_ctx verify ctx pw ->
  forall (rb : normal_entry -> list N) (srb : solid_entry -> list N) (keep pwb : bool)
    (hdr_tok content_tok : normal_entry -> bytes) (ops : list Update.op) (b : bytes) 
    (a : Update.archive) (b' : bytes),
  Inv E D decompress verify pw rb srb b a ->
  fhist E D compress decompress verify lvl ctx pw rb srb keep pwb hdr_tok content_tok b a ops b' ->
  Inv E D decompress verify pw rb srb b' (Update.final a ops) /\
  (NoDup (Update.names a) ->
   UpdateFacts.hist_ok a ops ->
   exists a' : Update.archive,
     logical E D decompress verify pw rb srb b' = Ok a' /\ a' = Update.final a ops /\ NoDup (Update.names a')).
Print Assumptions C11_file_history.

(* the compressor of the examples meets the three compressor premises *)
Theorem C11_px_laws :
  (forall (c : compression) (lvl : N) (ws : list bytes),
   px_decompress c (concat (px_compress c lvl ws)) = Ok (concat ws)) /\
  (forall (c : compression) (lvl : N) (ws ws' : list bytes),
   concat ws = concat ws' -> concat (px_compress c lvl ws) = concat (px_compress c lvl ws')) /\
  compress_small px_compress.
Proof. exact px_laws. Qed.
Check C11_px_laws :
  (forall (c : compression) (lvl : N) (ws : list bytes),
   px_decompress c (concat (px_compress c lvl ws)) = Ok (concat ws)) /\
  (forall (c : compression) (lvl : N) (ws ws' : list bytes),
   concat ws = concat ws' -> concat (px_compress c lvl ws) = concat (px_compress c lvl ws')) /\
  compress_small px_compress.
Print Assumptions C11_px_laws.

(* ---- examples, evaluated in the kernel; the premises are satisfiable ------------------------------------------ *)

(* an update that refreshes one of three entries (named ./d/a.txt on the command line), AES-256-CBC, evaluated in the kernel *)
Example C11_update_example :
  ux_logical ux_arch = Ok (map abs ux_tree) /\
  Update.update_cmd false true [] 0 (map abs ux_tree) [ux_node] = Ok ux_after /\
  Update.pass_flags [] 0 (map abs ux_tree) [ux_node] [] = [true; false; true] /\
  (exists b' : bytes,
     update_bytes ux_expand ux_rebuild true true [] 0 [ux_node] (new_raws real_E_of px_compress [ux_job])
       ux_arch = Ok b' /\
     b' =
     write_raw_archive 0
       (sel (map ser_normal (map ux_build tx_jobs)) [true; false; true] ++ [ser_normal (ux_build ux_job)]) /\
     wf_archive b' = true /\
     ux_logical b' = Ok ux_after /\ map Update.e_path ux_after = [lit "d"; lit "d/l"; lit "d/a.txt"]).
Proof. exact update_ex. Qed.
Print Assumptions C11_update_example.

(* the premises of C11_update_container for that run *)
Example C11_update_premises_met :
  strict_ctx tx_ctx /\
  wf_ctx tx_verify tx_ctx tx_pw /\
  wf_archive ux_arch = true /\
  read_archive ux_arch = Ok (map RNormal (map ux_build tx_jobs)) /\
  input_ok real_E_of real_D_of px_decompress tx_verify tx_pw tx_rb2 tx_srb true
    (map RNormal (map ux_build tx_jobs)) /\
  map abs [ux_new] =
  map (Update.fresh true)
    (snd (fst (Update.update_pass [] 0 (map abs ux_tree) [ux_node] [])) ++
     snd (Update.update_pass [] 0 (map abs ux_tree) [ux_node] [])) /\
  jobs_ok real_E_of px_compress tx_verify tx_pw tx_rb2 [ux_job] [ux_new].
Proof. exact update_premises_ex. Qed.
Print Assumptions C11_update_premises_met.

(* delete inside a solid block (and outside it), both strategies, evaluated in the kernel *)
Example C11_delete_solid_example :
  wf_archive ux_solid_arch = true /\
  ux_xlogical ux_solid_arch = Ok (ux_tree ++ ux_tree) /\
  length ux_left = 4%nat /\
  (exists (b' : bytes) (s : solid_entry) (n1 n2 : normal_entry),
     run_edit (fun _ : normal_entry => []) (fun _ : normal_entry => []) ux_expand ux_rebuild true true
       Transform.CDelete 1 (fun p : bytes => Update.mem p [lit "d/a.txt"]) ux_solid_arch = 
     Ok b' /\
     read_archive b' = Ok [RSolid s; RNormal n1; RNormal n2] /\
     ux_expand s = Ok [ux_build (nth 0 tx_jobs ux_job); ux_build (nth 2 tx_jobs ux_job)] /\
     wf_archive b' = true /\ ux_xlogical b' = Ok ux_left) /\
  (exists (b' : bytes) (n1 n2 n3 n4 : normal_entry),
     run_edit (fun _ : normal_entry => []) (fun _ : normal_entry => []) ux_expand ux_rebuild false true
       Transform.CDelete 1 (fun p : bytes => Update.mem p [lit "d/a.txt"]) ux_solid_arch = 
     Ok b' /\
     read_archive b' = Ok [RNormal n1; RNormal n2; RNormal n3; RNormal n4] /\
     wf_archive b' = true /\ ux_xlogical b' = Ok ux_left).
Proof. exact delete_solid_ex. Qed.
Print Assumptions C11_delete_solid_example.

(* the premises of C11_delete_solid_logical for that archive, and the buffers drain the old and the rebuilt block *)
Example C11_delete_solid_premises_met :
  read_archive ux_solid_arch = Ok (RSolid ux_solid :: map RNormal (map ux_build tx_jobs)) /\
  input_ok real_E_of real_D_of px_decompress tx_verify tx_pw tx_rb2 tx_srb true
    (RSolid ux_solid :: map RNormal (map ux_build tx_jobs)) /\
  srb_drains tx_srb (RSolid ux_solid) /\
  srb_drains tx_srb
    (RSolid (ux_rebuild ux_solid [ux_build (nth 0 tx_jobs ux_job); ux_build (nth 2 tx_jobs ux_job)])).
Proof. exact delete_solid_premises_ex. Qed.
Print Assumptions C11_delete_solid_premises_met.
