(* Props/C01 (pipeline part) — library round trip through the whole write and read pipelines:
   EntryBuilder, Archive::write_file, SolidEntryBuilder, SolidArchive, archives of them, and the reader
   (NormalEntry::reader, SolidEntry::entries, Archive::entries), composed from the stream layer of C01_stream.v
   and the entry/archive layer.  Only statements, closed by `exact`, pinned by `Check`, audited by
   `Print Assumptions`.
   The primitives are universally quantified functions; their laws are PREMISES:
     E D        block cipher per algorithm: 16-byte blocks stay 16 bytes, D a k (E a k b) = b
     compress   the pieces a compressor hands on for given writes; decompress (concat pieces) = Ok (concat writes);
                the compressed byte string depends on what was written, not on how the writes were sliced
     verify     hash::verify_password (the key for a PHSF string and a password)
   Named premises (Proofs/PipelineFacts.v):
     wf_ctx verify ctx pw   key 32 bytes, IV 16 bytes, verify (PHSF) pw = Ok key, PHSF is UTF-8
     covers compress cfg ws rbufs   the reader issues more reads than the (compressed) stream has bytes: with positive
                            buffer sizes it reaches the end (the caller's loop "read until 0" does exactly that)
     wf_spec sp             the format's own ranges: name UTF-8 and already sanitised, times < 2^64, permission fields in
                            range, xattr name UTF-8, extra chunks not of a type the entry grammar owns
     fits e                 name, PHSF string, extra chunks and xattrs fit the 32-bit length field of their chunk; extra
                            chunks are no terminators.  Nothing is asked of the data payloads: into_chunks cuts a
                            payload of 2^32 bytes or more into several FDAT chunks (Props/C14_sink.v C01_fits_unfolded;
                            `normalize` = the payloads cut at u32::MAX, C01_normalize_data)
     wf_job pw j            wf_spec, wf_ctx, the writes make up the content, fits
   They are shown satisfiable below by concrete values, and the theorems are instantiated with the executable
   AES-256 / Camellia-256 of Model/Aes.v, Model/Camellia.v (the instance the pipeline area runs against the Rust
   code).  Aes/Camellia satisfy the cipher premises: Props/C01_cipher.v. *)
From PNA Require Import Base Crc32 Name Codec Chunk Archive Entry Flatten Cbc Ctr Pipeline Aes Camellia
  BaseFacts NameFacts CodecFacts Crc32Facts ChunkFacts ArchiveFacts EntryFacts
  FlattenFacts CbcFacts CtrFacts StreamFacts PipelineFacts.
Open Scope N_scope.

(* EntryBuilder -> NormalEntry::reader: for every configuration (codec x cipher x mode), every slicing of the caller's
   writes and every sequence of positive read-buffer sizes long enough to reach the end, the decoded bytes are the written ones *)
Theorem C01_entry_roundtrip :
  forall (E D : encryption -> bytes -> bytes -> bytes) (compress : compression -> N -> list bytes -> list bytes)
    (decompress : compression -> bytes -> res bytes) (verify : bytes -> bytes -> res bytes),
  (forall (a : encryption) (k c : bytes), len16 c -> len16 (D a k c)) ->
  (forall (a : encryption) (k b : bytes), len16 b -> D a k (E a k b) = b) ->
  (forall (a : encryption) (k b : bytes), len16 b -> len16 (E a k b)) ->
  (forall (c : compression) (lvl : N) (ws : list bytes),
   decompress c (concat (compress c lvl ws)) = Ok (concat ws)) ->
  forall (cfg : config) (ctx : cctx) (pw : bytes) (sp : spec) (wcuts : list bytes) (rbufs : list N),
  wf_ctx verify ctx pw ->
  concat (eff_wcuts (sp_kind sp) wcuts) = sp_content sp ->
  Forall (fun n : N => 0 < n) rbufs ->
  covers compress (eff_cfg cfg (sp_kind sp)) (eff_wcuts (sp_kind sp) wcuts) rbufs ->
  decode_normal E D decompress verify (build_normal E compress cfg ctx sp wcuts) pw rbufs = Ok (sp_content sp).
Proof. exact entry_roundtrip. Qed.
Check C01_entry_roundtrip :
  forall (E D : encryption -> bytes -> bytes -> bytes) (compress : compression -> N -> list bytes -> list bytes)
    (decompress : compression -> bytes -> res bytes) (verify : bytes -> bytes -> res bytes),
  (forall (a : encryption) (k c : bytes), len16 c -> len16 (D a k c)) ->
  (forall (a : encryption) (k b : bytes), len16 b -> D a k (E a k b) = b) ->
  (forall (a : encryption) (k b : bytes), len16 b -> len16 (E a k b)) ->
  (forall (c : compression) (lvl : N) (ws : list bytes),
   decompress c (concat (compress c lvl ws)) = Ok (concat ws)) ->
  forall (cfg : config) (ctx : cctx) (pw : bytes) (sp : spec) (wcuts : list bytes) (rbufs : list N),
  wf_ctx verify ctx pw ->
  concat (eff_wcuts (sp_kind sp) wcuts) = sp_content sp ->
  Forall (fun n : N => 0 < n) rbufs ->
  covers compress (eff_cfg cfg (sp_kind sp)) (eff_wcuts (sp_kind sp) wcuts) rbufs ->
  decode_normal E D decompress verify (build_normal E compress cfg ctx sp wcuts) pw rbufs = Ok (sp_content sp).
Print Assumptions C01_entry_roundtrip.

(* two slicings of the same content, two buffer-size sequences: the same decoded bytes; the built entries agree in everything
   but where the data stream is cut *)
Theorem C01_entry_roundtrip_indep_of_slicing :
  forall (E D : encryption -> bytes -> bytes -> bytes) (compress : compression -> N -> list bytes -> list bytes)
    (decompress : compression -> bytes -> res bytes) (verify : bytes -> bytes -> res bytes),
  (forall (a : encryption) (k c : bytes), len16 c -> len16 (D a k c)) ->
  (forall (a : encryption) (k b : bytes), len16 b -> D a k (E a k b) = b) ->
  (forall (a : encryption) (k b : bytes), len16 b -> len16 (E a k b)) ->
  (forall (c : compression) (lvl : N) (ws : list bytes),
   decompress c (concat (compress c lvl ws)) = Ok (concat ws)) ->
  (forall (c : compression) (lvl : N) (ws ws' : list (list byte)),
   concat ws = concat ws' -> concat (compress c lvl ws) = concat (compress c lvl ws')) ->
  forall (cfg : config) (ctx : cctx) (pw : bytes) (sp : spec) (w1 w2 : list bytes) (r1 r2 : list N),
  wf_ctx verify ctx pw ->
  concat (eff_wcuts (sp_kind sp) w1) = sp_content sp ->
  concat (eff_wcuts (sp_kind sp) w2) = sp_content sp ->
  Forall (fun n : N => 0 < n) r1 ->
  Forall (fun n : N => 0 < n) r2 ->
  covers compress (eff_cfg cfg (sp_kind sp)) (eff_wcuts (sp_kind sp) w1) r1 ->
  covers compress (eff_cfg cfg (sp_kind sp)) (eff_wcuts (sp_kind sp) w2) r2 ->
  let e1 := build_normal E compress cfg ctx sp w1 in
  let e2 := build_normal E compress cfg ctx sp w2 in
  decode_normal E D decompress verify e1 pw r1 = decode_normal E D decompress verify e2 pw r2 /\
  n_hdr e1 = n_hdr e2 /\
  n_phsf e1 = n_phsf e2 /\
  n_extra e1 = n_extra e2 /\
  n_meta e1 = n_meta e2 /\ n_xattrs e1 = n_xattrs e2 /\ concat (n_data e1) = concat (n_data e2).
Proof. exact entry_roundtrip_indep_of_slicing. Qed.
Check C01_entry_roundtrip_indep_of_slicing :
  forall (E D : encryption -> bytes -> bytes -> bytes) (compress : compression -> N -> list bytes -> list bytes)
    (decompress : compression -> bytes -> res bytes) (verify : bytes -> bytes -> res bytes),
  (forall (a : encryption) (k c : bytes), len16 c -> len16 (D a k c)) ->
  (forall (a : encryption) (k b : bytes), len16 b -> D a k (E a k b) = b) ->
  (forall (a : encryption) (k b : bytes), len16 b -> len16 (E a k b)) ->
  (forall (c : compression) (lvl : N) (ws : list bytes),
   decompress c (concat (compress c lvl ws)) = Ok (concat ws)) ->
  (forall (c : compression) (lvl : N) (ws ws' : list (list byte)),
   concat ws = concat ws' -> concat (compress c lvl ws) = concat (compress c lvl ws')) ->
  forall (cfg : config) (ctx : cctx) (pw : bytes) (sp : spec) (w1 w2 : list bytes) (r1 r2 : list N),
  wf_ctx verify ctx pw ->
  concat (eff_wcuts (sp_kind sp) w1) = sp_content sp ->
  concat (eff_wcuts (sp_kind sp) w2) = sp_content sp ->
  Forall (fun n : N => 0 < n) r1 ->
  Forall (fun n : N => 0 < n) r2 ->
  covers compress (eff_cfg cfg (sp_kind sp)) (eff_wcuts (sp_kind sp) w1) r1 ->
  covers compress (eff_cfg cfg (sp_kind sp)) (eff_wcuts (sp_kind sp) w2) r2 ->
  let e1 := build_normal E compress cfg ctx sp w1 in
  let e2 := build_normal E compress cfg ctx sp w2 in
  decode_normal E D decompress verify e1 pw r1 = decode_normal E D decompress verify e2 pw r2 /\
  n_hdr e1 = n_hdr e2 /\
  n_phsf e1 = n_phsf e2 /\
  n_extra e1 = n_extra e2 /\
  n_meta e1 = n_meta e2 /\ n_xattrs e1 = n_xattrs e2 /\ concat (n_data e1) = concat (n_data e2).
Print Assumptions C01_entry_roundtrip_indep_of_slicing.

(* what the builder was told (name, kind, times, permission, xattrs, extra chunks) is what parsing the serialised entry gives;
   raw size = content length for files, compressed size = sum of the data chunks (C18) *)
Theorem C01_metadata_roundtrip :
  forall (E D : encryption -> bytes -> bytes -> bytes) (compress : compression -> N -> list bytes -> list bytes)
    (verify : bytes -> bytes -> res bytes),
  (forall (a : encryption) (k c : bytes), len16 c -> len16 (D a k c)) ->
  (forall (a : encryption) (k b : bytes), len16 b -> D a k (E a k b) = b) ->
  (forall (a : encryption) (k b : bytes), len16 b -> len16 (E a k b)) ->
  forall (cfg : config) (ctx : cctx) (pw : bytes) (sp : spec) (wcuts : list bytes),
  wf_spec sp ->
  wf_ctx verify ctx pw ->
  concat (eff_wcuts (sp_kind sp) wcuts) = sp_content sp ->
  let e := build_normal E compress cfg ctx sp wcuts in
  parse_normal (ser_normal e) = Ok (normalize e) /\
  normalize e = e /\
  f_name (n_hdr e) = sp_name sp /\
  f_kind (n_hdr e) = sp_kind sp /\
  m_ctime (n_meta e) = sp_ctime sp /\
  m_mtime (n_meta e) = sp_mtime sp /\
  m_atime (n_meta e) = sp_atime sp /\
  m_perm (n_meta e) = sp_perm sp /\
  n_xattrs e = sp_xattrs sp /\
  n_extra e = sp_extra sp /\
  m_raw_size (n_meta e) = match sp_kind sp with
                          | KFile => Some (len (sp_content sp))
                          | _ => None
                          end /\ m_compressed (n_meta e) = fold_left N.add (map len (n_data e)) 0.
Proof. exact metadata_roundtrip. Qed.
Check C01_metadata_roundtrip :
  forall (E D : encryption -> bytes -> bytes -> bytes) (compress : compression -> N -> list bytes -> list bytes)
    (verify : bytes -> bytes -> res bytes),
  (forall (a : encryption) (k c : bytes), len16 c -> len16 (D a k c)) ->
  (forall (a : encryption) (k b : bytes), len16 b -> D a k (E a k b) = b) ->
  (forall (a : encryption) (k b : bytes), len16 b -> len16 (E a k b)) ->
  forall (cfg : config) (ctx : cctx) (pw : bytes) (sp : spec) (wcuts : list bytes),
  wf_spec sp ->
  wf_ctx verify ctx pw ->
  concat (eff_wcuts (sp_kind sp) wcuts) = sp_content sp ->
  let e := build_normal E compress cfg ctx sp wcuts in
  parse_normal (ser_normal e) = Ok (normalize e) /\
  normalize e = e /\
  f_name (n_hdr e) = sp_name sp /\
  f_kind (n_hdr e) = sp_kind sp /\
  m_ctime (n_meta e) = sp_ctime sp /\
  m_mtime (n_meta e) = sp_mtime sp /\
  m_atime (n_meta e) = sp_atime sp /\
  m_perm (n_meta e) = sp_perm sp /\
  n_xattrs e = sp_xattrs sp /\
  n_extra e = sp_extra sp /\
  m_raw_size (n_meta e) = match sp_kind sp with
                          | KFile => Some (len (sp_content sp))
                          | _ => None
                          end /\ m_compressed (n_meta e) = fold_left N.add (map len (n_data e)) 0.
Print Assumptions C01_metadata_roundtrip.

(* any well-formed entries: Archive::write_header + add_entry* + finalize, read back with entries() *)
Theorem C01_archive_roundtrip_gen :
  forall (compress : compression -> N -> list bytes -> list bytes)
    (decompress : compression -> bytes -> res bytes),
  (forall (c : compression) (lvl : N) (ws : list bytes),
   decompress c (concat (compress c lvl ws)) = Ok (concat ws)) ->
  (forall (c : compression) (lvl : N) (ws ws' : list (list byte)),
   concat ws = concat ws' -> concat (compress c lvl ws) = concat (compress c lvl ws')) ->
  forall es : list normal_entry,
  Forall wf_normal es ->
  Forall fits es ->
  read_archive (write_archive es) = Ok (map (fun e : normal_entry => RNormal (normalize e)) es).
Proof. exact archive_roundtrip_gen. Qed.
Check C01_archive_roundtrip_gen :
  forall (compress : compression -> N -> list bytes -> list bytes)
    (decompress : compression -> bytes -> res bytes),
  (forall (c : compression) (lvl : N) (ws : list bytes),
   decompress c (concat (compress c lvl ws)) = Ok (concat ws)) ->
  (forall (c : compression) (lvl : N) (ws ws' : list (list byte)),
   concat ws = concat ws' -> concat (compress c lvl ws) = concat (compress c lvl ws')) ->
  forall es : list normal_entry,
  Forall wf_normal es ->
  Forall fits es ->
  read_archive (write_archive es) = Ok (map (fun e : normal_entry => RNormal (normalize e)) es).
Print Assumptions C01_archive_roundtrip_gen.

(* archives of built entries read back as exactly those entries *)
Theorem C01_archive_roundtrip :
  forall (E D : encryption -> bytes -> bytes -> bytes) (compress : compression -> N -> list bytes -> list bytes)
    (decompress : compression -> bytes -> res bytes) (verify : bytes -> bytes -> res bytes),
  (forall (a : encryption) (k c : bytes), len16 c -> len16 (D a k c)) ->
  (forall (a : encryption) (k b : bytes), len16 b -> D a k (E a k b) = b) ->
  (forall (a : encryption) (k b : bytes), len16 b -> len16 (E a k b)) ->
  (forall (c : compression) (lvl : N) (ws : list bytes),
   decompress c (concat (compress c lvl ws)) = Ok (concat ws)) ->
  (forall (c : compression) (lvl : N) (ws ws' : list (list byte)),
   concat ws = concat ws' -> concat (compress c lvl ws) = concat (compress c lvl ws')) ->
  forall (pw : bytes) (jobs : list job),
  Forall (wf_job E compress verify pw) jobs ->
  read_archive (write_archive (map (build_job E compress) jobs)) =
  Ok (map (fun j : job => RNormal (build_job E compress j)) jobs).
Proof. exact archive_roundtrip. Qed.
Check C01_archive_roundtrip :
  forall (E D : encryption -> bytes -> bytes -> bytes) (compress : compression -> N -> list bytes -> list bytes)
    (decompress : compression -> bytes -> res bytes) (verify : bytes -> bytes -> res bytes),
  (forall (a : encryption) (k c : bytes), len16 c -> len16 (D a k c)) ->
  (forall (a : encryption) (k b : bytes), len16 b -> D a k (E a k b) = b) ->
  (forall (a : encryption) (k b : bytes), len16 b -> len16 (E a k b)) ->
  (forall (c : compression) (lvl : N) (ws : list bytes),
   decompress c (concat (compress c lvl ws)) = Ok (concat ws)) ->
  (forall (c : compression) (lvl : N) (ws ws' : list (list byte)),
   concat ws = concat ws' -> concat (compress c lvl ws) = concat (compress c lvl ws')) ->
  forall (pw : bytes) (jobs : list job),
  Forall (wf_job E compress verify pw) jobs ->
  read_archive (write_archive (map (build_job E compress) jobs)) =
  Ok (map (fun j : job => RNormal (build_job E compress j)) jobs).
Print Assumptions C01_archive_roundtrip.

(* C01 for normal entries: the archive reads back as the same sequence of entries, metadata equal, and every entry decodes to
   the content its caller wrote, whatever the slicing and the buffer sizes *)
Theorem C01_roundtrip :
  forall (E D : encryption -> bytes -> bytes -> bytes) (compress : compression -> N -> list bytes -> list bytes)
    (decompress : compression -> bytes -> res bytes) (verify : bytes -> bytes -> res bytes),
  (forall (a : encryption) (k c : bytes), len16 c -> len16 (D a k c)) ->
  (forall (a : encryption) (k b : bytes), len16 b -> D a k (E a k b) = b) ->
  (forall (a : encryption) (k b : bytes), len16 b -> len16 (E a k b)) ->
  (forall (c : compression) (lvl : N) (ws : list bytes),
   decompress c (concat (compress c lvl ws)) = Ok (concat ws)) ->
  (forall (c : compression) (lvl : N) (ws ws' : list (list byte)),
   concat ws = concat ws' -> concat (compress c lvl ws) = concat (compress c lvl ws')) ->
  forall (pw : bytes) (jobs : list job),
  Forall (wf_job E compress verify pw) jobs ->
  read_archive (write_archive (map (build_job E compress) jobs)) =
  Ok (map (fun j : job => RNormal (build_job E compress j)) jobs) /\
  (forall j : job,
   In j jobs ->
   (forall rbufs : list N,
    Forall (fun n : N => 0 < n) rbufs ->
    covers compress (eff_cfg (j_cfg j) (sp_kind (j_spec j))) (eff_wcuts (sp_kind (j_spec j)) (j_wcuts j)) rbufs ->
    decode_normal E D decompress verify (build_job E compress j) pw rbufs = Ok (sp_content (j_spec j))) /\
   f_name (n_hdr (build_job E compress j)) = sp_name (j_spec j) /\
   f_kind (n_hdr (build_job E compress j)) = sp_kind (j_spec j) /\
   m_ctime (n_meta (build_job E compress j)) = sp_ctime (j_spec j) /\
   m_mtime (n_meta (build_job E compress j)) = sp_mtime (j_spec j) /\
   m_atime (n_meta (build_job E compress j)) = sp_atime (j_spec j) /\
   m_perm (n_meta (build_job E compress j)) = sp_perm (j_spec j) /\
   n_xattrs (build_job E compress j) = sp_xattrs (j_spec j) /\
   n_extra (build_job E compress j) = sp_extra (j_spec j)).
Proof. exact roundtrip. Qed.
Check C01_roundtrip :
  forall (E D : encryption -> bytes -> bytes -> bytes) (compress : compression -> N -> list bytes -> list bytes)
    (decompress : compression -> bytes -> res bytes) (verify : bytes -> bytes -> res bytes),
  (forall (a : encryption) (k c : bytes), len16 c -> len16 (D a k c)) ->
  (forall (a : encryption) (k b : bytes), len16 b -> D a k (E a k b) = b) ->
  (forall (a : encryption) (k b : bytes), len16 b -> len16 (E a k b)) ->
  (forall (c : compression) (lvl : N) (ws : list bytes),
   decompress c (concat (compress c lvl ws)) = Ok (concat ws)) ->
  (forall (c : compression) (lvl : N) (ws ws' : list (list byte)),
   concat ws = concat ws' -> concat (compress c lvl ws) = concat (compress c lvl ws')) ->
  forall (pw : bytes) (jobs : list job),
  Forall (wf_job E compress verify pw) jobs ->
  read_archive (write_archive (map (build_job E compress) jobs)) =
  Ok (map (fun j : job => RNormal (build_job E compress j)) jobs) /\
  (forall j : job,
   In j jobs ->
   (forall rbufs : list N,
    Forall (fun n : N => 0 < n) rbufs ->
    covers compress (eff_cfg (j_cfg j) (sp_kind (j_spec j))) (eff_wcuts (sp_kind (j_spec j)) (j_wcuts j)) rbufs ->
    decode_normal E D decompress verify (build_job E compress j) pw rbufs = Ok (sp_content (j_spec j))) /\
   f_name (n_hdr (build_job E compress j)) = sp_name (j_spec j) /\
   f_kind (n_hdr (build_job E compress j)) = sp_kind (j_spec j) /\
   m_ctime (n_meta (build_job E compress j)) = sp_ctime (j_spec j) /\
   m_mtime (n_meta (build_job E compress j)) = sp_mtime (j_spec j) /\
   m_atime (n_meta (build_job E compress j)) = sp_atime (j_spec j) /\
   m_perm (n_meta (build_job E compress j)) = sp_perm (j_spec j) /\
   n_xattrs (build_job E compress j) = sp_xattrs (j_spec j) /\
   n_extra (build_job E compress j) = sp_extra (j_spec j)).
Print Assumptions C01_roundtrip.

(* Archive::write_file (the streaming writer): the chunks it writes parse to an entry with the metadata given, no raw size, and the
   written content *)
Theorem C01_write_file_roundtrip :
  forall (E D : encryption -> bytes -> bytes -> bytes) (compress : compression -> N -> list bytes -> list bytes)
    (decompress : compression -> bytes -> res bytes) (verify : bytes -> bytes -> res bytes),
  (forall (a : encryption) (k c : bytes), len16 c -> len16 (D a k c)) ->
  (forall (a : encryption) (k b : bytes), len16 b -> D a k (E a k b) = b) ->
  (forall (a : encryption) (k b : bytes), len16 b -> len16 (E a k b)) ->
  (forall (c : compression) (lvl : N) (ws : list bytes),
   decompress c (concat (compress c lvl ws)) = Ok (concat ws)) ->
  forall (cfg : config) (ctx : cctx) (pw : bytes) (sp : spec) (wcuts : list (list byte)),
  wf_spec sp ->
  wf_ctx verify ctx pw ->
  concat wcuts = sp_content sp ->
  exists e : normal_entry,
    parse_normal (stream_file_chunks E compress cfg ctx sp wcuts) = Ok e /\
    m_raw_size (n_meta e) = None /\
    f_name (n_hdr e) = sp_name sp /\
    f_kind (n_hdr e) = KFile /\
    m_ctime (n_meta e) = sp_ctime sp /\
    m_mtime (n_meta e) = sp_mtime sp /\
    m_atime (n_meta e) = sp_atime sp /\
    m_perm (n_meta e) = sp_perm sp /\
    m_compressed (n_meta e) = fold_left N.add (map len (n_data e)) 0 /\
    (forall rbufs : list N,
     Forall (fun n : N => 0 < n) rbufs ->
     covers compress cfg wcuts rbufs -> decode_normal E D decompress verify e pw rbufs = Ok (sp_content sp)).
Proof. exact write_file_roundtrip. Qed.
Check C01_write_file_roundtrip :
  forall (E D : encryption -> bytes -> bytes -> bytes) (compress : compression -> N -> list bytes -> list bytes)
    (decompress : compression -> bytes -> res bytes) (verify : bytes -> bytes -> res bytes),
  (forall (a : encryption) (k c : bytes), len16 c -> len16 (D a k c)) ->
  (forall (a : encryption) (k b : bytes), len16 b -> D a k (E a k b) = b) ->
  (forall (a : encryption) (k b : bytes), len16 b -> len16 (E a k b)) ->
  (forall (c : compression) (lvl : N) (ws : list bytes),
   decompress c (concat (compress c lvl ws)) = Ok (concat ws)) ->
  forall (cfg : config) (ctx : cctx) (pw : bytes) (sp : spec) (wcuts : list (list byte)),
  wf_spec sp ->
  wf_ctx verify ctx pw ->
  concat wcuts = sp_content sp ->
  exists e : normal_entry,
    parse_normal (stream_file_chunks E compress cfg ctx sp wcuts) = Ok e /\
    m_raw_size (n_meta e) = None /\
    f_name (n_hdr e) = sp_name sp /\
    f_kind (n_hdr e) = KFile /\
    m_ctime (n_meta e) = sp_ctime sp /\
    m_mtime (n_meta e) = sp_mtime sp /\
    m_atime (n_meta e) = sp_atime sp /\
    m_perm (n_meta e) = sp_perm sp /\
    m_compressed (n_meta e) = fold_left N.add (map len (n_data e)) 0 /\
    (forall rbufs : list N,
     Forall (fun n : N => 0 < n) rbufs ->
     covers compress cfg wcuts rbufs -> decode_normal E D decompress verify e pw rbufs = Ok (sp_content sp)).
Print Assumptions C01_write_file_roundtrip.

(* the streamed file inside an archive *)
Theorem C01_write_file_archive_roundtrip :
  forall (E D : encryption -> bytes -> bytes -> bytes) (compress : compression -> N -> list bytes -> list bytes)
    (verify : bytes -> bytes -> res bytes),
  (forall (a : encryption) (k c : bytes), len16 c -> len16 (D a k c)) ->
  (forall (a : encryption) (k b : bytes), len16 b -> D a k (E a k b) = b) ->
  (forall (a : encryption) (k b : bytes), len16 b -> len16 (E a k b)) ->
  forall (cfg : config) (ctx : cctx) (pw : bytes) (sp : spec) (wcuts : list bytes),
  wf_spec sp ->
  wf_ctx verify ctx pw ->
  Forall wf_chunk (stream_file_chunks E compress cfg ctx sp wcuts) ->
  read_archive (write_raw_archive 0 [stream_file_chunks E compress cfg ctx sp wcuts]) =
  Ok [RNormal (streamed_entry E compress cfg ctx sp wcuts)].
Proof. exact write_file_archive_roundtrip. Qed.
Check C01_write_file_archive_roundtrip :
  forall (E D : encryption -> bytes -> bytes -> bytes) (compress : compression -> N -> list bytes -> list bytes)
    (verify : bytes -> bytes -> res bytes),
  (forall (a : encryption) (k c : bytes), len16 c -> len16 (D a k c)) ->
  (forall (a : encryption) (k b : bytes), len16 b -> D a k (E a k b) = b) ->
  (forall (a : encryption) (k b : bytes), len16 b -> len16 (E a k b)) ->
  forall (cfg : config) (ctx : cctx) (pw : bytes) (sp : spec) (wcuts : list bytes),
  wf_spec sp ->
  wf_ctx verify ctx pw ->
  Forall wf_chunk (stream_file_chunks E compress cfg ctx sp wcuts) ->
  read_archive (write_raw_archive 0 [stream_file_chunks E compress cfg ctx sp wcuts]) =
  Ok [RNormal (streamed_entry E compress cfg ctx sp wcuts)].
Print Assumptions C01_write_file_archive_roundtrip.

(* SolidEntryBuilder: any configuration, any slicing of the inner entries' bytes, any buffer sizes: the inner entries come back in order *)
Theorem C01_solid_roundtrip :
  forall (E D : encryption -> bytes -> bytes -> bytes) (compress : compression -> N -> list bytes -> list bytes)
    (decompress : compression -> bytes -> res bytes) (verify : bytes -> bytes -> res bytes),
  (forall (a : encryption) (k c : bytes), len16 c -> len16 (D a k c)) ->
  (forall (a : encryption) (k b : bytes), len16 b -> D a k (E a k b) = b) ->
  (forall (a : encryption) (k b : bytes), len16 b -> len16 (E a k b)) ->
  (forall (c : compression) (lvl : N) (ws : list bytes),
   decompress c (concat (compress c lvl ws)) = Ok (concat ws)) ->
  (forall (c : compression) (lvl : N) (ws ws' : list (list byte)),
   concat ws = concat ws' -> concat (compress c lvl ws) = concat (compress c lvl ws')) ->
  forall (cfg : config) (ctx : cctx) (pw : bytes) (extra : list chunk) (inner : list normal_entry)
    (swcuts : list (list byte)) (rbufs : list N),
  wf_ctx verify ctx pw ->
  Forall wf_normal inner ->
  Forall fits inner ->
  concat swcuts = solid_plain_stream inner ->
  Forall (fun n : N => 0 < n) rbufs ->
  covers compress cfg swcuts rbufs ->
  decode_solid E D decompress verify (build_solid E compress cfg ctx extra swcuts) pw rbufs =
  Ok (map normalize inner, FinOk).
Proof. exact solid_roundtrip. Qed.
Check C01_solid_roundtrip :
  forall (E D : encryption -> bytes -> bytes -> bytes) (compress : compression -> N -> list bytes -> list bytes)
    (decompress : compression -> bytes -> res bytes) (verify : bytes -> bytes -> res bytes),
  (forall (a : encryption) (k c : bytes), len16 c -> len16 (D a k c)) ->
  (forall (a : encryption) (k b : bytes), len16 b -> D a k (E a k b) = b) ->
  (forall (a : encryption) (k b : bytes), len16 b -> len16 (E a k b)) ->
  (forall (c : compression) (lvl : N) (ws : list bytes),
   decompress c (concat (compress c lvl ws)) = Ok (concat ws)) ->
  (forall (c : compression) (lvl : N) (ws ws' : list (list byte)),
   concat ws = concat ws' -> concat (compress c lvl ws) = concat (compress c lvl ws')) ->
  forall (cfg : config) (ctx : cctx) (pw : bytes) (extra : list chunk) (inner : list normal_entry)
    (swcuts : list (list byte)) (rbufs : list N),
  wf_ctx verify ctx pw ->
  Forall wf_normal inner ->
  Forall fits inner ->
  concat swcuts = solid_plain_stream inner ->
  Forall (fun n : N => 0 < n) rbufs ->
  covers compress cfg swcuts rbufs ->
  decode_solid E D decompress verify (build_solid E compress cfg ctx extra swcuts) pw rbufs =
  Ok (map normalize inner, FinOk).
Print Assumptions C01_solid_roundtrip.

(* the same for inner entries made by EntryBuilder: they come back unchanged, and each decodes to its content *)
Theorem C01_solid_roundtrip_jobs :
  forall (E D : encryption -> bytes -> bytes -> bytes) (compress : compression -> N -> list bytes -> list bytes)
    (decompress : compression -> bytes -> res bytes) (verify : bytes -> bytes -> res bytes),
  (forall (a : encryption) (k c : bytes), len16 c -> len16 (D a k c)) ->
  (forall (a : encryption) (k b : bytes), len16 b -> D a k (E a k b) = b) ->
  (forall (a : encryption) (k b : bytes), len16 b -> len16 (E a k b)) ->
  (forall (c : compression) (lvl : N) (ws : list bytes),
   decompress c (concat (compress c lvl ws)) = Ok (concat ws)) ->
  (forall (c : compression) (lvl : N) (ws ws' : list (list byte)),
   concat ws = concat ws' -> concat (compress c lvl ws) = concat (compress c lvl ws')) ->
  forall (cfg : config) (ctx : cctx) (pw : bytes) (extra : list chunk) (jobs : list job)
    (swcuts : list (list byte)) (rbufs : list N),
  wf_ctx verify ctx pw ->
  Forall (wf_job E compress verify pw) jobs ->
  concat swcuts = solid_plain_stream (map (build_job E compress) jobs) ->
  Forall (fun n : N => 0 < n) rbufs ->
  covers compress cfg swcuts rbufs ->
  decode_solid E D decompress verify (build_solid E compress cfg ctx extra swcuts) pw rbufs =
  Ok (map (build_job E compress) jobs, FinOk) /\
  (forall j : job,
   In j jobs ->
   forall rb : list N,
   Forall (fun n : N => 0 < n) rb ->
   covers compress (eff_cfg (j_cfg j) (sp_kind (j_spec j))) (eff_wcuts (sp_kind (j_spec j)) (j_wcuts j)) rb ->
   decode_normal E D decompress verify (build_job E compress j) pw rb = Ok (sp_content (j_spec j))).
Proof. exact solid_roundtrip_jobs. Qed.
Check C01_solid_roundtrip_jobs :
  forall (E D : encryption -> bytes -> bytes -> bytes) (compress : compression -> N -> list bytes -> list bytes)
    (decompress : compression -> bytes -> res bytes) (verify : bytes -> bytes -> res bytes),
  (forall (a : encryption) (k c : bytes), len16 c -> len16 (D a k c)) ->
  (forall (a : encryption) (k b : bytes), len16 b -> D a k (E a k b) = b) ->
  (forall (a : encryption) (k b : bytes), len16 b -> len16 (E a k b)) ->
  (forall (c : compression) (lvl : N) (ws : list bytes),
   decompress c (concat (compress c lvl ws)) = Ok (concat ws)) ->
  (forall (c : compression) (lvl : N) (ws ws' : list (list byte)),
   concat ws = concat ws' -> concat (compress c lvl ws) = concat (compress c lvl ws')) ->
  forall (cfg : config) (ctx : cctx) (pw : bytes) (extra : list chunk) (jobs : list job)
    (swcuts : list (list byte)) (rbufs : list N),
  wf_ctx verify ctx pw ->
  Forall (wf_job E compress verify pw) jobs ->
  concat swcuts = solid_plain_stream (map (build_job E compress) jobs) ->
  Forall (fun n : N => 0 < n) rbufs ->
  covers compress cfg swcuts rbufs ->
  decode_solid E D decompress verify (build_solid E compress cfg ctx extra swcuts) pw rbufs =
  Ok (map (build_job E compress) jobs, FinOk) /\
  (forall j : job,
   In j jobs ->
   forall rb : list N,
   Forall (fun n : N => 0 < n) rb ->
   covers compress (eff_cfg (j_cfg j) (sp_kind (j_spec j))) (eff_wcuts (sp_kind (j_spec j)) (j_wcuts j)) rb ->
   decode_normal E D decompress verify (build_job E compress j) pw rb = Ok (sp_content (j_spec j))).
Print Assumptions C01_solid_roundtrip_jobs.

(* SolidArchive (streaming solid writer): its chunks parse to a solid entry whose stream decodes to the inner entries *)
Theorem C01_solid_archive_roundtrip :
  forall (E D : encryption -> bytes -> bytes -> bytes) (compress : compression -> N -> list bytes -> list bytes)
    (decompress : compression -> bytes -> res bytes) (verify : bytes -> bytes -> res bytes),
  (forall (a : encryption) (k c : bytes), len16 c -> len16 (D a k c)) ->
  (forall (a : encryption) (k b : bytes), len16 b -> D a k (E a k b) = b) ->
  (forall (a : encryption) (k b : bytes), len16 b -> len16 (E a k b)) ->
  (forall (c : compression) (lvl : N) (ws : list bytes),
   decompress c (concat (compress c lvl ws)) = Ok (concat ws)) ->
  (forall (c : compression) (lvl : N) (ws ws' : list (list byte)),
   concat ws = concat ws' -> concat (compress c lvl ws) = concat (compress c lvl ws')) ->
  forall (cfg : config) (ctx : cctx) (pw : bytes) (inner : list normal_entry) (swcuts : list (list byte))
    (rbufs : list N),
  wf_ctx verify ctx pw ->
  Forall wf_normal inner ->
  Forall fits inner ->
  concat swcuts = solid_plain_stream inner ->
  Forall (fun n : N => 0 < n) rbufs ->
  covers compress cfg swcuts rbufs ->
  exists s : solid_entry,
    parse_solid (solid_archive_chunks E compress cfg ctx swcuts) = Ok s /\
    decode_solid E D decompress verify s pw rbufs = Ok (map normalize inner, FinOk).
Proof. exact solid_archive_roundtrip. Qed.
Check C01_solid_archive_roundtrip :
  forall (E D : encryption -> bytes -> bytes -> bytes) (compress : compression -> N -> list bytes -> list bytes)
    (decompress : compression -> bytes -> res bytes) (verify : bytes -> bytes -> res bytes),
  (forall (a : encryption) (k c : bytes), len16 c -> len16 (D a k c)) ->
  (forall (a : encryption) (k b : bytes), len16 b -> D a k (E a k b) = b) ->
  (forall (a : encryption) (k b : bytes), len16 b -> len16 (E a k b)) ->
  (forall (c : compression) (lvl : N) (ws : list bytes),
   decompress c (concat (compress c lvl ws)) = Ok (concat ws)) ->
  (forall (c : compression) (lvl : N) (ws ws' : list (list byte)),
   concat ws = concat ws' -> concat (compress c lvl ws) = concat (compress c lvl ws')) ->
  forall (cfg : config) (ctx : cctx) (pw : bytes) (inner : list normal_entry) (swcuts : list (list byte))
    (rbufs : list N),
  wf_ctx verify ctx pw ->
  Forall wf_normal inner ->
  Forall fits inner ->
  concat swcuts = solid_plain_stream inner ->
  Forall (fun n : N => 0 < n) rbufs ->
  covers compress cfg swcuts rbufs ->
  exists s : solid_entry,
    parse_solid (solid_archive_chunks E compress cfg ctx swcuts) = Ok s /\
    decode_solid E D decompress verify s pw rbufs = Ok (map normalize inner, FinOk).
Print Assumptions C01_solid_archive_roundtrip.

(* a built solid entry survives the archive: add_entry, then entries() *)
Theorem C01_solid_entry_archive_roundtrip :
  forall (E D : encryption -> bytes -> bytes -> bytes) (compress : compression -> N -> list bytes -> list bytes)
    (verify : bytes -> bytes -> res bytes),
  (forall (a : encryption) (k c : bytes), len16 c -> len16 (D a k c)) ->
  (forall (a : encryption) (k b : bytes), len16 b -> D a k (E a k b) = b) ->
  (forall (a : encryption) (k b : bytes), len16 b -> len16 (E a k b)) ->
  forall (cfg : config) (ctx : cctx) (pw : bytes) (extra : list chunk) (swcuts : list bytes),
  wf_ctx verify ctx pw ->
  Forall (fun c : chunk => is_known_solid c = false) extra ->
  Forall (fun c : chunk => is_term c = false) extra ->
  Forall wf_chunk (ser_solid (build_solid E compress cfg ctx extra swcuts)) ->
  read_archive (write_archive_entries [RSolid (build_solid E compress cfg ctx extra swcuts)]) =
  Ok [RSolid (build_solid E compress cfg ctx extra swcuts)].
Proof. exact solid_entry_archive_roundtrip. Qed.
Check C01_solid_entry_archive_roundtrip :
  forall (E D : encryption -> bytes -> bytes -> bytes) (compress : compression -> N -> list bytes -> list bytes)
    (verify : bytes -> bytes -> res bytes),
  (forall (a : encryption) (k c : bytes), len16 c -> len16 (D a k c)) ->
  (forall (a : encryption) (k b : bytes), len16 b -> D a k (E a k b) = b) ->
  (forall (a : encryption) (k b : bytes), len16 b -> len16 (E a k b)) ->
  forall (cfg : config) (ctx : cctx) (pw : bytes) (extra : list chunk) (swcuts : list bytes),
  wf_ctx verify ctx pw ->
  Forall (fun c : chunk => is_known_solid c = false) extra ->
  Forall (fun c : chunk => is_term c = false) extra ->
  Forall wf_chunk (ser_solid (build_solid E compress cfg ctx extra swcuts)) ->
  read_archive (write_archive_entries [RSolid (build_solid E compress cfg ctx extra swcuts)]) =
  Ok [RSolid (build_solid E compress cfg ctx extra swcuts)].
Print Assumptions C01_solid_entry_archive_roundtrip.

(* the write calls that add_entry makes on a solid pipeline (write_chunk_in: length, type, payload, CRC) carry exactly the inner entries' bytes *)
Theorem C01_solid_writes_concat :
  forall inner : list normal_entry, concat (solid_writes inner) = solid_plain_stream inner.
Proof. exact solid_writes_concat. Qed.
Check C01_solid_writes_concat :
  forall inner : list normal_entry, concat (solid_writes inner) = solid_plain_stream inner.
Print Assumptions C01_solid_writes_concat.

(* SolidEntryBuilder driven the way the code drives it (solid_writes) *)
Theorem C01_solid_builder_roundtrip :
  forall (E D : encryption -> bytes -> bytes -> bytes) (compress : compression -> N -> list bytes -> list bytes)
    (decompress : compression -> bytes -> res bytes) (verify : bytes -> bytes -> res bytes),
  (forall (a : encryption) (k c : bytes), len16 c -> len16 (D a k c)) ->
  (forall (a : encryption) (k b : bytes), len16 b -> D a k (E a k b) = b) ->
  (forall (a : encryption) (k b : bytes), len16 b -> len16 (E a k b)) ->
  (forall (c : compression) (lvl : N) (ws : list bytes),
   decompress c (concat (compress c lvl ws)) = Ok (concat ws)) ->
  (forall (c : compression) (lvl : N) (ws ws' : list (list byte)),
   concat ws = concat ws' -> concat (compress c lvl ws) = concat (compress c lvl ws')) ->
  forall (cfg : config) (ctx : cctx) (pw : bytes) (extra : list chunk) (inner : list normal_entry)
    (rbufs : list N),
  wf_ctx verify ctx pw ->
  Forall wf_normal inner ->
  Forall fits inner ->
  Forall (fun n : N => 0 < n) rbufs ->
  covers compress cfg (solid_writes inner) rbufs ->
  decode_solid E D decompress verify (build_solid E compress cfg ctx extra (solid_writes inner)) pw rbufs =
  Ok (map normalize inner, FinOk).
Proof. exact solid_builder_roundtrip. Qed.
Check C01_solid_builder_roundtrip :
  forall (E D : encryption -> bytes -> bytes -> bytes) (compress : compression -> N -> list bytes -> list bytes)
    (decompress : compression -> bytes -> res bytes) (verify : bytes -> bytes -> res bytes),
  (forall (a : encryption) (k c : bytes), len16 c -> len16 (D a k c)) ->
  (forall (a : encryption) (k b : bytes), len16 b -> D a k (E a k b) = b) ->
  (forall (a : encryption) (k b : bytes), len16 b -> len16 (E a k b)) ->
  (forall (c : compression) (lvl : N) (ws : list bytes),
   decompress c (concat (compress c lvl ws)) = Ok (concat ws)) ->
  (forall (c : compression) (lvl : N) (ws ws' : list (list byte)),
   concat ws = concat ws' -> concat (compress c lvl ws) = concat (compress c lvl ws')) ->
  forall (cfg : config) (ctx : cctx) (pw : bytes) (extra : list chunk) (inner : list normal_entry)
    (rbufs : list N),
  wf_ctx verify ctx pw ->
  Forall wf_normal inner ->
  Forall fits inner ->
  Forall (fun n : N => 0 < n) rbufs ->
  covers compress cfg (solid_writes inner) rbufs ->
  decode_solid E D decompress verify (build_solid E compress cfg ctx extra (solid_writes inner)) pw rbufs =
  Ok (map normalize inner, FinOk).
Print Assumptions C01_solid_builder_roundtrip.

(* SolidArchive::add_entry driven the way the code drives it (solid_writes) *)
Theorem C01_solid_archive_add_entry_roundtrip :
  forall (E D : encryption -> bytes -> bytes -> bytes) (compress : compression -> N -> list bytes -> list bytes)
    (decompress : compression -> bytes -> res bytes) (verify : bytes -> bytes -> res bytes),
  (forall (a : encryption) (k c : bytes), len16 c -> len16 (D a k c)) ->
  (forall (a : encryption) (k b : bytes), len16 b -> D a k (E a k b) = b) ->
  (forall (a : encryption) (k b : bytes), len16 b -> len16 (E a k b)) ->
  (forall (c : compression) (lvl : N) (ws : list bytes),
   decompress c (concat (compress c lvl ws)) = Ok (concat ws)) ->
  (forall (c : compression) (lvl : N) (ws ws' : list (list byte)),
   concat ws = concat ws' -> concat (compress c lvl ws) = concat (compress c lvl ws')) ->
  forall (cfg : config) (ctx : cctx) (pw : bytes) (inner : list normal_entry) (rbufs : list N),
  wf_ctx verify ctx pw ->
  Forall wf_normal inner ->
  Forall fits inner ->
  Forall (fun n : N => 0 < n) rbufs ->
  covers compress cfg (solid_writes inner) rbufs ->
  exists s : solid_entry,
    parse_solid (solid_archive_chunks E compress cfg ctx (solid_writes inner)) = Ok s /\
    decode_solid E D decompress verify s pw rbufs = Ok (map normalize inner, FinOk).
Proof. exact solid_archive_add_entry_roundtrip. Qed.
Check C01_solid_archive_add_entry_roundtrip :
  forall (E D : encryption -> bytes -> bytes -> bytes) (compress : compression -> N -> list bytes -> list bytes)
    (decompress : compression -> bytes -> res bytes) (verify : bytes -> bytes -> res bytes),
  (forall (a : encryption) (k c : bytes), len16 c -> len16 (D a k c)) ->
  (forall (a : encryption) (k b : bytes), len16 b -> D a k (E a k b) = b) ->
  (forall (a : encryption) (k b : bytes), len16 b -> len16 (E a k b)) ->
  (forall (c : compression) (lvl : N) (ws : list bytes),
   decompress c (concat (compress c lvl ws)) = Ok (concat ws)) ->
  (forall (c : compression) (lvl : N) (ws ws' : list (list byte)),
   concat ws = concat ws' -> concat (compress c lvl ws) = concat (compress c lvl ws')) ->
  forall (cfg : config) (ctx : cctx) (pw : bytes) (inner : list normal_entry) (rbufs : list N),
  wf_ctx verify ctx pw ->
  Forall wf_normal inner ->
  Forall fits inner ->
  Forall (fun n : N => 0 < n) rbufs ->
  covers compress cfg (solid_writes inner) rbufs ->
  exists s : solid_entry,
    parse_solid (solid_archive_chunks E compress cfg ctx (solid_writes inner)) = Ok s /\
    decode_solid E D decompress verify s pw rbufs = Ok (map normalize inner, FinOk).
Print Assumptions C01_solid_archive_add_entry_roundtrip.

(* ================================================================================================= *)
(* the premises are satisfiable: concrete, non-trivial values                                         *)
(* ================================================================================================= *)
Definition ex_key : bytes := unhex_or_nil "000102030405060708090a0b0c0d0e0f101112131415161718191a1b1c1d1e1f".
Definition ex_iv : bytes := unhex_or_nil "f0f1f2f3f4f5f6f7f8f9fafbfcfdfeff".
Definition ex_phsf : bytes := lit "$argon2id$v=19$m=8,t=1,p=1$c2FsdHNhbHRzYWx0".
Definition ex_pw : bytes := lit "correct horse".
Definition ex_ctx : cctx := {| c_key := ex_key; c_iv := ex_iv; c_phsf := ex_phsf |}.
(* stand-ins for the oracle tables the model is run with: one PHSF string, an identity "compressor" *)
Definition ex_verify (phsf pw : bytes) : res bytes :=
  if bytes_eqb phsf ex_phsf && bytes_eqb pw ex_pw then Ok ex_key else Err InvalidData.
Definition ex_compress (_ : compression) (_ : N) (ws : list bytes) : list bytes := ws.
Definition ex_decompress (_ : compression) (b : bytes) : res bytes := Ok b.
Definition ex_content : bytes := lit "thirty-three bytes of content.../".
Definition ex_spec : spec :=
  {| sp_kind := KFile; sp_name := lit "dir/a.txt"; sp_content := ex_content;
     sp_ctime := Some 1600000000; sp_mtime := Some 1700000001; sp_atime := None;
     sp_perm := Some {| p_uid := 1000; p_uname := lit "user"; p_gid := 100; p_gname := lit "grp"; p_mode := 420 |};
     sp_xattrs := [{| x_name := lit "user.k"; x_value := [x00; xff] |}];
     sp_extra := [mk (lit "vrFy") [x01; x02; x03]] |}.
(* a 3-way write partition of the 33 bytes: 10 + 17 + 6, and read buffers 7,16,1,7,16,1,.. (36 reads) *)
Definition ex_wcuts : list bytes := [firstn 10 ex_content; firstn 17 (skipn 10 ex_content); skipn 27 ex_content].
Definition ex_rbufs : list N := concat (repeat [7; 16; 1] 12).
Definition aes_cbc : config := {| g_comp := CNo; g_level := 0; g_enc := EAes; g_mode := MCbc |}.
Definition aes_ctr : config := {| g_comp := CNo; g_level := 0; g_enc := EAes; g_mode := MCtr |}.
Definition cam_cbc : config := {| g_comp := CDeflate; g_level := 6; g_enc := ECamellia; g_mode := MCbc |}.
Definition cam_ctr : config := {| g_comp := CNo; g_level := 0; g_enc := ECamellia; g_mode := MCtr |}.
Definition ex_job : job := {| j_cfg := aes_cbc; j_ctx := ex_ctx; j_spec := ex_spec; j_wcuts := ex_wcuts |}.

Ltac leaves := repeat (apply Forall_cons || apply Forall_nil || match goal with |- _ /\ _ => split end);
  try (vm_compute; reflexivity); try (vm_compute; discriminate); try exact I.
Example C01_premise_wf_ctx : wf_ctx ex_verify ex_ctx ex_pw.
Proof. cbv [wf_ctx]. leaves. Qed.
Example C01_premise_wcuts : concat (eff_wcuts (sp_kind ex_spec) ex_wcuts) = sp_content ex_spec.
Proof. vm_compute. reflexivity. Qed.
Example C01_premise_rbufs : Forall (fun n : N => 0 < n) ex_rbufs /\ covers ex_compress (eff_cfg aes_cbc (sp_kind ex_spec)) (eff_wcuts (sp_kind ex_spec) ex_wcuts) ex_rbufs.
Proof. split; [unfold ex_rbufs; cbn [repeat concat app]; leaves|vm_compute; reflexivity]. Qed.
Example C01_premise_wf_spec : wf_spec ex_spec.
Proof.
  cbv [wf_spec opt_all wf_perm wf_xattr ex_spec sp_name sp_content sp_ctime sp_mtime sp_atime sp_perm sp_xattrs sp_extra].
  leaves.
Qed.
Example C01_premise_fits : fits (build_job real_E_of ex_compress ex_job).
Proof.
  set (e := build_job real_E_of ex_compress ex_job). vm_compute in e. subst e.
  cbv [fits opt_all wf_chunk n_hdr n_phsf n_extra n_data n_xattrs f_name]. leaves.
Qed.
Example C01_premise_wf_job : wf_job real_E_of ex_compress ex_verify ex_pw ex_job.
Proof. split; [exact C01_premise_wf_spec|]. split; [exact C01_premise_wf_ctx|]. split; [exact C01_premise_wcuts|exact C01_premise_fits]. Qed.
Example C01_premise_compress_law : forall (c : compression) (lvl : N) (ws : list bytes),
  ex_decompress c (concat (ex_compress c lvl ws)) = Ok (concat ws).
Proof. reflexivity. Qed.
Example C01_premise_compress_det : forall (c : compression) (lvl : N) (ws ws' : list (list byte)),
  concat ws = concat ws' -> concat (ex_compress c lvl ws) = concat (ex_compress c lvl ws').
Proof. intros c lvl ws ws' H. exact H. Qed.

(* ================================================================================================= *)
(* instances computed with the real AES-256 / Camellia-256 model (vm_compute)                         *)
(* ================================================================================================= *)
(* EntryBuilder, AES-256-CBC, writes 10+17+6, reads 7,16,1,..: the 33 bytes come back *)
Example C01_instance_aes_cbc :
  decode_normal real_E_of real_D_of ex_decompress ex_verify
    (build_normal real_E_of ex_compress aes_cbc ex_ctx ex_spec ex_wcuts) ex_pw ex_rbufs = Ok ex_content.
Proof. vm_compute. reflexivity. Qed.
Example C01_instance_aes_ctr :
  decode_normal real_E_of real_D_of ex_decompress ex_verify
    (build_normal real_E_of ex_compress aes_ctr ex_ctx ex_spec ex_wcuts) ex_pw ex_rbufs = Ok ex_content.
Proof. vm_compute. reflexivity. Qed.
Example C01_instance_camellia_cbc :
  decode_normal real_E_of real_D_of ex_decompress ex_verify
    (build_normal real_E_of ex_compress cam_cbc ex_ctx ex_spec ex_wcuts) ex_pw ex_rbufs = Ok ex_content.
Proof. vm_compute. reflexivity. Qed.
Example C01_instance_camellia_ctr :
  decode_normal real_E_of real_D_of ex_decompress ex_verify
    (build_normal real_E_of ex_compress cam_ctr ex_ctx ex_spec ex_wcuts) ex_pw ex_rbufs = Ok ex_content.
Proof. vm_compute. reflexivity. Qed.
(* the wrong password does not open it *)
Example C01_instance_wrong_password :
  decode_normal real_E_of real_D_of ex_decompress ex_verify
    (build_normal real_E_of ex_compress aes_cbc ex_ctx ex_spec ex_wcuts) (lit "wrong") ex_rbufs = Err InvalidData.
Proof. vm_compute. reflexivity. Qed.
(* the whole archive: written, read back, the entry equal to the built one *)
Example C01_instance_archive :
  read_archive (write_archive [build_job real_E_of ex_compress ex_job]) = Ok [RNormal (build_job real_E_of ex_compress ex_job)].
Proof. vm_compute. reflexivity. Qed.
(* Archive::write_file under Camellia-CTR: parsed back, decoded *)
Example C01_instance_write_file :
  (do e <- parse_normal (stream_file_chunks real_E_of ex_compress cam_ctr ex_ctx ex_spec ex_wcuts);
   decode_normal real_E_of real_D_of ex_decompress ex_verify e ex_pw ex_rbufs) = Ok ex_content.
Proof. vm_compute. reflexivity. Qed.
(* SolidEntryBuilder under AES-CBC holding the AES-CBC entry and a directory, fed through write_chunk_in *)
Definition ex_dir : normal_entry :=
  build_normal real_E_of ex_compress aes_cbc ex_ctx
    {| sp_kind := KDir; sp_name := lit "dir"; sp_content := []; sp_ctime := None; sp_mtime := Some 5; sp_atime := None;
       sp_perm := None; sp_xattrs := []; sp_extra := [] |} [].
Definition ex_inner : list normal_entry := [build_job real_E_of ex_compress ex_job; ex_dir].
Example C01_instance_solid :
  decode_solid real_E_of real_D_of ex_decompress ex_verify
    (build_solid real_E_of ex_compress aes_cbc ex_ctx [] (solid_writes ex_inner)) ex_pw
    (repeat 64 (S (length (solid_plain_stream ex_inner)))) = Ok (ex_inner, FinOk).
Proof. vm_compute. reflexivity. Qed.
(* SolidArchive (streaming) under Camellia-CTR: one SDAT chunk per write that reaches the sink *)
Example C01_instance_solid_archive :
  (do s <- parse_solid (solid_archive_chunks real_E_of ex_compress cam_ctr ex_ctx (solid_writes ex_inner));
   decode_solid real_E_of real_D_of ex_decompress ex_verify s ex_pw
     (repeat 64 (S (length (solid_plain_stream ex_inner))))) = Ok (ex_inner, FinOk).
Proof. vm_compute. reflexivity. Qed.
