(* Props/C16 (PHC codec part) — the executable PHC string codec of Model/Kdf.v (phc_print_x / phc_parse_x: the
   `$alg[$v=N]$k=v,..$salt[$hash]` format of the `password-hash` crate with decimal parameters and unpadded
   base64), the codec the kdf correspondence runs compare with the library byte for byte, round-trips every
   record a writer prints — every algorithm choice, every parameter value, every salt, no side condition — and
   the reader dispatches on both algorithm names the writer records.  So the two codec premises of the C16
   theorems (Props/C16.v) and of C08_phsf_has_no_hash are discharged for it; the theorems are restated with
   this codec (KDF, its parameter rules and the decrypting pipeline still universally quantified) and with the
   whole executable plumbing (`_x`), leaving no codec premise.
   (That the crate computes the same strings as phc_print_x / phc_parse_x is established by the correspondence
   runs, not by proof.)
   Only statements, closed by `exact`, pinned by `Check`, audited by `Print Assumptions`. *)
From PNA Require Import Base Codec Kdf KdfFacts PhcFacts.
Open Scope N_scope.

(* unpadded base64: decoding undoes encoding, for every byte string *)
Theorem C16_b64_dec_enc :
  forall l : bytes, b64_dec (b64_enc l) = Some l.
Proof. exact b64_dec_enc. Qed.
Check C16_b64_dec_enc :
  forall l : bytes, b64_dec (b64_enc l) = Some l.
Print Assumptions C16_b64_dec_enc.

(* decimal parameter values: parsing undoes printing, for every number *)
Theorem C16_undec_dec :
  forall n : N, undec (dec n) = Some n.
Proof. exact undec_dec. Qed.
Check C16_undec_dec :
  forall n : N, undec (dec n) = Some n.
Print Assumptions C16_undec_dec.

(* one `key=value` parameter: any key without `=` *)
Theorem C16_parse_show_param :
  forall kv : bytes * N, ~ In eqsign (fst kv) -> parse_param (show_param kv) = Some kv.
Proof. exact parse_show_param. Qed.
Check C16_parse_show_param :
  forall kv : bytes * N, ~ In eqsign (fst kv) -> parse_param (show_param kv) = Some kv.
Print Assumptions C16_parse_show_param.

(* the codec premise of Props/C16.v and C08_phsf_has_no_hash, for the executable codec: NO side condition *)
Theorem C16_phc_roundtrip_x :
  forall (h : hash_alg) (salt : bytes),
  phc_parse_x (phc_print_x (writer_record h salt None)) = Some (writer_record h salt None).
Proof. exact phc_roundtrip_x. Qed.
Check C16_phc_roundtrip_x :
  forall (h : hash_alg) (salt : bytes),
  phc_parse_x (phc_print_x (writer_record h salt None)) = Some (writer_record h salt None).
Print Assumptions C16_phc_roundtrip_x.

(* the dispatch premise *)
Theorem C16_alg_supported_x :
  forall h : hash_alg, alg_supported_x (alg_name h) = true.
Proof. exact alg_supported_x_writer. Qed.
Check C16_alg_supported_x :
  forall h : hash_alg, alg_supported_x (alg_name h) = true.
Print Assumptions C16_alg_supported_x.

(* another salt, algorithm or parameter value gives another PHSF *)
Theorem C16_phc_print_x_inj :
  forall (h h' : hash_alg) (salt salt' : bytes),
  phc_print_x (writer_record h salt None) = phc_print_x (writer_record h' salt' None) ->
  writer_record h salt None = writer_record h' salt' None.
Proof. exact phc_print_x_inj. Qed.
Check C16_phc_print_x_inj :
  forall (h h' : hash_alg) (salt salt' : bytes),
  phc_print_x (writer_record h salt None) = phc_print_x (writer_record h' salt' None) ->
  writer_record h salt None = writer_record h' salt' None.
Print Assumptions C16_phc_print_x_inj.

(* C16_right_password_reads with the codec premises discharged: what remains quantified is the KDF and its parameter rules *)
Theorem C16_right_password_reads_codec :
  forall (key : Type) (kdf : bytes -> option N -> list (bytes * N) -> bytes -> bytes -> key)
    (kdf_valid : bytes -> option N -> list (bytes * N) -> bytes -> bool)
    (m : cipher_mode) (h : hash_alg) (pw tape : bytes) (c : ctx key) (t' : bytes),
  writer_context key kdf kdf_valid phc_print_x m h pw tape = Ok (c, t') ->
  reader_key key kdf kdf_valid alg_supported_x phc_parse_x (ctx_phsf c) pw = Ok (ctx_key c).
Proof. exact right_password_reads_codec. Qed.
Check C16_right_password_reads_codec :
  forall (key : Type) (kdf : bytes -> option N -> list (bytes * N) -> bytes -> bytes -> key)
    (kdf_valid : bytes -> option N -> list (bytes * N) -> bytes -> bool)
    (m : cipher_mode) (h : hash_alg) (pw tape : bytes) (c : ctx key) (t' : bytes),
  writer_context key kdf kdf_valid phc_print_x m h pw tape = Ok (c, t') ->
  reader_key key kdf kdf_valid alg_supported_x phc_parse_x (ctx_phsf c) pw = Ok (ctx_key c).
Print Assumptions C16_right_password_reads_codec.

(* C16_right_password_decodes with the codec premises discharged *)
Theorem C16_right_password_decodes_codec :
  forall (key : Type) (kdf : bytes -> option N -> list (bytes * N) -> bytes -> bytes -> key)
    (kdf_valid : bytes -> option N -> list (bytes * N) -> bytes -> bool)
    (decrypt : key -> bytes -> bytes -> res bytes)
    (enc : encryption) (m : cipher_mode) (h : hash_alg) (pw tape : bytes) (c : ctx key)
    (t' : bytes) (ct : list byte) (content : bytes),
  encrypted_b enc = true ->
  writer_context key kdf kdf_valid phc_print_x m h pw tape = Ok (c, t') ->
  (m = MCbc -> (16 <= length ct)%nat) ->
  decrypt (ctx_key c) (ctx_iv c) ct = Ok content ->
  decode key kdf kdf_valid alg_supported_x phc_parse_x decrypt enc m (Some (ctx_phsf c)) (Some pw) (ctx_iv c ++ ct) = Ok content.
Proof. exact right_password_decodes_codec. Qed.
Check C16_right_password_decodes_codec :
  forall (key : Type) (kdf : bytes -> option N -> list (bytes * N) -> bytes -> bytes -> key)
    (kdf_valid : bytes -> option N -> list (bytes * N) -> bytes -> bool)
    (decrypt : key -> bytes -> bytes -> res bytes)
    (enc : encryption) (m : cipher_mode) (h : hash_alg) (pw tape : bytes) (c : ctx key)
    (t' : bytes) (ct : list byte) (content : bytes),
  encrypted_b enc = true ->
  writer_context key kdf kdf_valid phc_print_x m h pw tape = Ok (c, t') ->
  (m = MCbc -> (16 <= length ct)%nat) ->
  decrypt (ctx_key c) (ctx_iv c) ct = Ok content ->
  decode key kdf kdf_valid alg_supported_x phc_parse_x decrypt enc m (Some (ctx_phsf c)) (Some pw) (ctx_iv c ++ ct) = Ok content.
Print Assumptions C16_right_password_decodes_codec.

(* C16_wrong_password_partial with the codec premises discharged: its two named premises remain *)
Theorem C16_wrong_password_partial_codec :
  forall (key : Type) (kdf : bytes -> option N -> list (bytes * N) -> bytes -> bytes -> key)
    (kdf_valid : bytes -> option N -> list (bytes * N) -> bytes -> bool)
    (decrypt : key -> bytes -> bytes -> res bytes)
    (enc : encryption) (m : cipher_mode) (h : hash_alg) (pw pw' tape : bytes) (c : ctx key) (t' ct content : bytes),
  writer_context key kdf kdf_valid phc_print_x m h pw tape = Ok (c, t') ->
  (let salt := firstn SALT_LEN tape in
   kdf (alg_name h) (alg_version h) (alg_params h) salt pw' <> kdf (alg_name h) (alg_version h) (alg_params h) salt pw) ->
  (forall k' : key, k' <> ctx_key c -> decrypt k' (ctx_iv c) ct <> Ok content) ->
  encrypted_b enc = true ->
  decode key kdf kdf_valid alg_supported_x phc_parse_x decrypt enc m (Some (ctx_phsf c)) (Some pw') (ctx_iv c ++ ct) <> Ok content.
Proof. exact wrong_password_partial_codec. Qed.
Check C16_wrong_password_partial_codec :
  forall (key : Type) (kdf : bytes -> option N -> list (bytes * N) -> bytes -> bytes -> key)
    (kdf_valid : bytes -> option N -> list (bytes * N) -> bytes -> bool)
    (decrypt : key -> bytes -> bytes -> res bytes)
    (enc : encryption) (m : cipher_mode) (h : hash_alg) (pw pw' tape : bytes) (c : ctx key) (t' ct content : bytes),
  writer_context key kdf kdf_valid phc_print_x m h pw tape = Ok (c, t') ->
  (let salt := firstn SALT_LEN tape in
   kdf (alg_name h) (alg_version h) (alg_params h) salt pw' <> kdf (alg_name h) (alg_version h) (alg_params h) salt pw) ->
  (forall k' : key, k' <> ctx_key c -> decrypt k' (ctx_iv c) ct <> Ok content) ->
  encrypted_b enc = true ->
  decode key kdf kdf_valid alg_supported_x phc_parse_x decrypt enc m (Some (ctx_phsf c)) (Some pw') (ctx_iv c ++ ct) <> Ok content.
Print Assumptions C16_wrong_password_partial_codec.

(* the PHSF of a context parses to exactly the writer's record: its algorithm, version and parameters, the salt drawn
   from the tape, and no hash (C08_phsf_has_no_hash with the codec premise discharged, and stronger) *)
Theorem C16_phsf_parses_to_record_codec :
  forall (key : Type) (kdf : bytes -> option N -> list (bytes * N) -> bytes -> bytes -> key)
    (kdf_valid : bytes -> option N -> list (bytes * N) -> bytes -> bool)
    (m : cipher_mode) (h : hash_alg) (pw tape : bytes) (c : ctx key) (t' : bytes),
  writer_context key kdf kdf_valid phc_print_x m h pw tape = Ok (c, t') ->
  phc_parse_x (ctx_phsf c) = Some (writer_record h (firstn SALT_LEN tape) None).
Proof. exact phsf_parses_to_record_codec. Qed.
Check C16_phsf_parses_to_record_codec :
  forall (key : Type) (kdf : bytes -> option N -> list (bytes * N) -> bytes -> bytes -> key)
    (kdf_valid : bytes -> option N -> list (bytes * N) -> bytes -> bool)
    (m : cipher_mode) (h : hash_alg) (pw tape : bytes) (c : ctx key) (t' : bytes),
  writer_context key kdf kdf_valid phc_print_x m h pw tape = Ok (c, t') ->
  phc_parse_x (ctx_phsf c) = Some (writer_record h (firstn SALT_LEN tape) None).
Print Assumptions C16_phsf_parses_to_record_codec.

Theorem C16_phsf_has_no_hash_codec :
  forall (key : Type) (kdf : bytes -> option N -> list (bytes * N) -> bytes -> bytes -> key)
    (kdf_valid : bytes -> option N -> list (bytes * N) -> bytes -> bool)
    (m : cipher_mode) (h : hash_alg) (pw tape : bytes) (c : ctx key) (t' : bytes),
  writer_context key kdf kdf_valid phc_print_x m h pw tape = Ok (c, t') ->
  exists p : phc, phc_parse_x (ctx_phsf c) = Some p /\ ph_hash p = None.
Proof. exact phsf_has_no_hash_codec. Qed.
Check C16_phsf_has_no_hash_codec :
  forall (key : Type) (kdf : bytes -> option N -> list (bytes * N) -> bytes -> bytes -> key)
    (kdf_valid : bytes -> option N -> list (bytes * N) -> bytes -> bool)
    (m : cipher_mode) (h : hash_alg) (pw tape : bytes) (c : ctx key) (t' : bytes),
  writer_context key kdf kdf_valid phc_print_x m h pw tape = Ok (c, t') ->
  exists p : phc, phc_parse_x (ctx_phsf c) = Some p /\ ph_hash p = None.
Print Assumptions C16_phsf_has_no_hash_codec.

(* ---- the whole executable plumbing (the model that is run against the library): no premise at all ---- *)
Theorem C16_right_password_reads_x :
  forall (m : cipher_mode) (h : hash_alg) (pw tape : bytes) (c : ctx bytes) (t' : bytes),
  writer_context_x m h pw tape = Ok (c, t') -> reader_key_x (ctx_phsf c) pw = Ok (ctx_key c).
Proof. exact right_password_reads_x. Qed.
Check C16_right_password_reads_x :
  forall (m : cipher_mode) (h : hash_alg) (pw tape : bytes) (c : ctx bytes) (t' : bytes),
  writer_context_x m h pw tape = Ok (c, t') -> reader_key_x (ctx_phsf c) pw = Ok (ctx_key c).
Print Assumptions C16_right_password_reads_x.

Theorem C16_right_password_decodes_x :
  forall (decrypt : bytes -> bytes -> bytes -> res bytes) (enc : encryption) (m : cipher_mode) (h : hash_alg)
    (pw tape : bytes) (c : ctx bytes) (t' : bytes) (ct : list byte) (content : bytes),
  encrypted_b enc = true ->
  writer_context_x m h pw tape = Ok (c, t') ->
  (m = MCbc -> (16 <= length ct)%nat) ->
  decrypt (ctx_key c) (ctx_iv c) ct = Ok content ->
  decode bytes kdf_x kdf_valid_x alg_supported_x phc_parse_x decrypt enc m (Some (ctx_phsf c)) (Some pw) (ctx_iv c ++ ct) = Ok content.
Proof. exact right_password_decodes_x. Qed.
Check C16_right_password_decodes_x :
  forall (decrypt : bytes -> bytes -> bytes -> res bytes) (enc : encryption) (m : cipher_mode) (h : hash_alg)
    (pw tape : bytes) (c : ctx bytes) (t' : bytes) (ct : list byte) (content : bytes),
  encrypted_b enc = true ->
  writer_context_x m h pw tape = Ok (c, t') ->
  (m = MCbc -> (16 <= length ct)%nat) ->
  decrypt (ctx_key c) (ctx_iv c) ct = Ok content ->
  decode bytes kdf_x kdf_valid_x alg_supported_x phc_parse_x decrypt enc m (Some (ctx_phsf c)) (Some pw) (ctx_iv c ++ ct) = Ok content.
Print Assumptions C16_right_password_decodes_x.

Theorem C16_phsf_parses_to_record_x :
  forall (m : cipher_mode) (h : hash_alg) (pw tape : bytes) (c : ctx bytes) (t' : bytes),
  writer_context_x m h pw tape = Ok (c, t') ->
  phc_parse_x (ctx_phsf c) = Some (writer_record h (firstn SALT_LEN tape) None).
Proof. exact phsf_parses_to_record_x. Qed.
Check C16_phsf_parses_to_record_x :
  forall (m : cipher_mode) (h : hash_alg) (pw tape : bytes) (c : ctx bytes) (t' : bytes),
  writer_context_x m h pw tape = Ok (c, t') ->
  phc_parse_x (ctx_phsf c) = Some (writer_record h (firstn SALT_LEN tape) None).
Print Assumptions C16_phsf_parses_to_record_x.

Theorem C16_phsf_has_no_hash_x :
  forall (m : cipher_mode) (h : hash_alg) (pw tape : bytes) (c : ctx bytes) (t' : bytes),
  writer_context_x m h pw tape = Ok (c, t') ->
  exists p : phc, phc_parse_x (ctx_phsf c) = Some p /\ ph_hash p = None.
Proof. exact phsf_has_no_hash_x. Qed.
Check C16_phsf_has_no_hash_x :
  forall (m : cipher_mode) (h : hash_alg) (pw tape : bytes) (c : ctx bytes) (t' : bytes),
  writer_context_x m h pw tape = Ok (c, t') ->
  exists p : phc, phc_parse_x (ctx_phsf c) = Some p /\ ph_hash p = None.
Print Assumptions C16_phsf_has_no_hash_x.

(* every context of a whole write (one per entry, or one per solid stream) reads back under the password and has a
   PHSF without hash *)
Theorem C16_write_all_reads_x :
  forall (k : writer_kind) (enc : encryption) (m : cipher_mode) (h : hash_alg) (pw : bytes) (n : nat) (tape : bytes)
    (cs : list (ctx bytes)) (t' : bytes),
  write_all_x k enc m h pw n tape = Ok (cs, t') ->
  Forall (fun c : ctx bytes =>
            reader_key_x (ctx_phsf c) pw = Ok (ctx_key c) /\
            (exists p : phc, phc_parse_x (ctx_phsf c) = Some p /\ ph_hash p = None)) cs.
Proof. exact write_all_reads_x. Qed.
Check C16_write_all_reads_x :
  forall (k : writer_kind) (enc : encryption) (m : cipher_mode) (h : hash_alg) (pw : bytes) (n : nat) (tape : bytes)
    (cs : list (ctx bytes)) (t' : bytes),
  write_all_x k enc m h pw n tape = Ok (cs, t') ->
  Forall (fun c : ctx bytes =>
            reader_key_x (ctx_phsf c) pw = Ok (ctx_key c) /\
            (exists p : phc, phc_parse_x (ctx_phsf c) = Some p /\ ph_hash p = None)) cs.
Print Assumptions C16_write_all_reads_x.

(* the premises are met: a concrete 16-byte salt (bytes 1..16), both algorithms, default and extreme parameter values;
   the printed strings are the ones the library writes *)
Theorem C16_phc_examples :
  (phc_print_x (writer_record (Argon2Id None None None) ex_salt None) = lit "$argon2id$v=19$m=19456,t=2,p=1$AQIDBAUGBwgJCgsMDQ4PEA" /\
   phc_parse_x (lit "$argon2id$v=19$m=19456,t=2,p=1$AQIDBAUGBwgJCgsMDQ4PEA") = Some (writer_record (Argon2Id None None None) ex_salt None)) /\
  (phc_print_x (writer_record (Pbkdf2Sha256 (Some 4294967295)) ex_salt None) = lit "$pbkdf2-sha256$i=4294967295,l=32$AQIDBAUGBwgJCgsMDQ4PEA" /\
   phc_parse_x (lit "$pbkdf2-sha256$i=4294967295,l=32$AQIDBAUGBwgJCgsMDQ4PEA") = Some (writer_record (Pbkdf2Sha256 (Some 4294967295)) ex_salt None)).
Proof. exact (conj ex_print_argon2 ex_print_pbkdf2). Qed.
Check C16_phc_examples :
  (phc_print_x (writer_record (Argon2Id None None None) ex_salt None) = lit "$argon2id$v=19$m=19456,t=2,p=1$AQIDBAUGBwgJCgsMDQ4PEA" /\
   phc_parse_x (lit "$argon2id$v=19$m=19456,t=2,p=1$AQIDBAUGBwgJCgsMDQ4PEA") = Some (writer_record (Argon2Id None None None) ex_salt None)) /\
  (phc_print_x (writer_record (Pbkdf2Sha256 (Some 4294967295)) ex_salt None) = lit "$pbkdf2-sha256$i=4294967295,l=32$AQIDBAUGBwgJCgsMDQ4PEA" /\
   phc_parse_x (lit "$pbkdf2-sha256$i=4294967295,l=32$AQIDBAUGBwgJCgsMDQ4PEA") = Some (writer_record (Pbkdf2Sha256 (Some 4294967295)) ex_salt None)).
Print Assumptions C16_phc_examples.

(* ... and the hypothesis of the `_x` theorems is satisfiable: writer_context_x succeeds for both algorithms on a 40-byte tape *)
Theorem C16_contexts_exist :
  (exists (c : ctx bytes) (t' : bytes),
     writer_context_x MCtr (Argon2Id None None None) (lit "pw") ex_tape = Ok (c, t') /\
     ctx_phsf c = lit "$argon2id$v=19$m=19456,t=2,p=1$AQIDBAUGBwgJCgsMDQ4PEA" /\
     reader_key_x (ctx_phsf c) (lit "pw") = Ok (ctx_key c)) /\
  (exists (c : ctx bytes) (t' : bytes),
     writer_context_x MCbc (Pbkdf2Sha256 None) (lit "pw") ex_tape = Ok (c, t') /\
     ctx_phsf c = lit "$pbkdf2-sha256$i=600000,l=32$AQIDBAUGBwgJCgsMDQ4PEA" /\
     reader_key_x (ctx_phsf c) (lit "pw") = Ok (ctx_key c)).
Proof. exact ex_contexts_exist. Qed.
Check C16_contexts_exist :
  (exists (c : ctx bytes) (t' : bytes),
     writer_context_x MCtr (Argon2Id None None None) (lit "pw") ex_tape = Ok (c, t') /\
     ctx_phsf c = lit "$argon2id$v=19$m=19456,t=2,p=1$AQIDBAUGBwgJCgsMDQ4PEA" /\
     reader_key_x (ctx_phsf c) (lit "pw") = Ok (ctx_key c)) /\
  (exists (c : ctx bytes) (t' : bytes),
     writer_context_x MCbc (Pbkdf2Sha256 None) (lit "pw") ex_tape = Ok (c, t') /\
     ctx_phsf c = lit "$pbkdf2-sha256$i=600000,l=32$AQIDBAUGBwgJCgsMDQ4PEA" /\
     reader_key_x (ctx_phsf c) (lit "pw") = Ok (ctx_key c)).
Print Assumptions C16_contexts_exist.
