(* Props/C16 (PHC codec part) — the executable PHC string codec of Model/Kdf.v (phc_print_x / phc_parse_x: the
   `$alg[$v=N]$k=v,..$salt[$hash]` format with the rules of password-hash 0.5 — identifier, value, salt and hash
   alphabets and length limits, canonical decimals, unpadded canonical base64), the codec the kdf correspondence runs
   compare with the library byte for byte (also on hostile strings no writer produces), round-trips every record a
   writer prints, for every algorithm choice, under the side condition rt_side: what the FORMAT demands of the variable
   parts (every parameter value at most 64 digits, the parameter string at most 127 bytes, a salt of 3..48 bytes).
   The condition is needed (C16_phc_roundtrip_x_refuted) and it is implied by what the writer checks itself: u32
   parameters (kdf_valid_x refuses anything else) and a 16-byte salt.  The reader dispatches on both algorithm names
   the writer records.  So the two codec premises of the C16 theorems (Props/C16.v) and of C08_phsf_has_no_hash are
   discharged for this codec; the theorems are restated with it (`_codec`: KDF and decrypting pipeline still
   universally quantified, the parameter rules any that refuse non-u32 values) and with the whole executable plumbing
   (`_x`), leaving no codec premise.
   (That the crate computes the same strings as phc_print_x / phc_parse_x is established by the correspondence
   runs, not by proof.)
   Only statements, closed by `exact`, pinned by `Check`, audited by `Print Assumptions`. *)
From PNA Require Import Base Codec Kdf KdfFacts PhcFacts.
Open Scope N_scope.

(* unpadded base64: decoding undoes encoding, for every byte string *)
Theorem C16_b64_dec_enc :
  forall l : bytes, b64_dec (b64_enc l) = Some l.
Proof. exact b64_dec_enc. Qed.
Check C16_b64_dec_enc :
  forall l : bytes, b64_dec (b64_enc l) = Some l.
Print Assumptions C16_b64_dec_enc.

(* decimal parameter values: parsing undoes printing, for every number *)
Theorem C16_undec_dec :
  forall n : N, undec (dec n) = Some n.
Proof. exact undec_dec. Qed.
Check C16_undec_dec :
  forall n : N, undec (dec n) = Some n.
Print Assumptions C16_undec_dec.

(* one `name=value` pair: any identifier, any value of the format *)
Theorem C16_parse_show_param :
  forall kv : bytes * bytes, ident_ok (fst kv) = true /\ value_ok (snd kv) = true -> parse_param (show_param kv) = Some kv.
Proof. exact parse_show_param. Qed.
Check C16_parse_show_param :
  forall kv : bytes * bytes, ident_ok (fst kv) = true /\ value_ok (snd kv) = true -> parse_param (show_param kv) = Some kv.
Print Assumptions C16_parse_show_param.

(* Value::decimal on what ParamsString::add_decimal prints: canonical, the only condition is the u32 range *)
Theorem C16_canon_dec_dec :
  forall n : N, canon_dec (dec n) = (if N.ltb n U32 then Some n else None).
Proof. exact canon_dec_dec. Qed.
Check C16_canon_dec_dec :
  forall n : N, canon_dec (dec n) = (if N.ltb n U32 then Some n else None).
Print Assumptions C16_canon_dec_dec.

(* the codec premise of Props/C16.v and C08_phsf_has_no_hash, for the executable codec: every algorithm choice; the side
   condition is what the format demands of parameter values and salt *)
Theorem C16_phc_roundtrip_x :
  forall (h : hash_alg) (salt : bytes),
  rt_side h salt = true ->
  phc_parse_x (phc_print_x (writer_record h salt None)) = Some (writer_record h salt None).
Proof. exact phc_roundtrip_x. Qed.
Check C16_phc_roundtrip_x :
  forall (h : hash_alg) (salt : bytes),
  rt_side h salt = true ->
  phc_parse_x (phc_print_x (writer_record h salt None)) = Some (writer_record h salt None).
Print Assumptions C16_phc_roundtrip_x.

(* ... it is needed: a value of 65 digits, a salt of 2 or of 49 bytes do not come back (model only: the Rust writer has
   u32 parameters and a 16-byte salt) *)
Theorem C16_phc_roundtrip_x_refuted :
  phc_parse_x (phc_print_x (writer_record (Pbkdf2Sha256 (Some (10 ^ 64))) ex_salt None)) = None /\
  phc_parse_x (phc_print_x (writer_record (Pbkdf2Sha256 None) [x01; x02] None)) = None /\
  phc_parse_x (phc_print_x (writer_record (Pbkdf2Sha256 None) (repeat x01 49) None)) = None.
Proof. exact phc_roundtrip_x_refuted. Qed.
Check C16_phc_roundtrip_x_refuted :
  phc_parse_x (phc_print_x (writer_record (Pbkdf2Sha256 (Some (10 ^ 64))) ex_salt None)) = None /\
  phc_parse_x (phc_print_x (writer_record (Pbkdf2Sha256 None) [x01; x02] None)) = None /\
  phc_parse_x (phc_print_x (writer_record (Pbkdf2Sha256 None) (repeat x01 49) None)) = None.
Print Assumptions C16_phc_roundtrip_x_refuted.

(* ... and it is implied by what the writer checks: u32 parameters and a salt of SALT_LEN bytes *)
Theorem C16_fits_u32_side :
  forall (h : hash_alg) (salt : bytes), fits_u32 h = true -> length salt = SALT_LEN -> rt_side h salt = true.
Proof. exact fits_u32_side. Qed.
Check C16_fits_u32_side :
  forall (h : hash_alg) (salt : bytes), fits_u32 h = true -> length salt = SALT_LEN -> rt_side h salt = true.
Print Assumptions C16_fits_u32_side.

(* the parameter rules of the crates refuse parameters that are not u32 *)
Theorem C16_kdf_valid_x_fits :
  forall (h : hash_alg) (salt : bytes) (hash : option bytes),
  kdf_valid_x (alg_name h) (alg_version h) (alg_params h) salt hash = true -> fits_u32 h = true.
Proof. exact kdf_valid_x_fits. Qed.
Check C16_kdf_valid_x_fits :
  forall (h : hash_alg) (salt : bytes) (hash : option bytes),
  kdf_valid_x (alg_name h) (alg_version h) (alg_params h) salt hash = true -> fits_u32 h = true.
Print Assumptions C16_kdf_valid_x_fits.

(* hence the premise exactly as Props/C16.v states it *)
Theorem C16_phc_roundtrip_x_writer :
  forall (h : hash_alg) (salt : bytes),
  length salt = SALT_LEN ->
  kdf_valid_x (alg_name h) (alg_version h) (alg_params h) salt None = true ->
  phc_parse_x (phc_print_x (writer_record h salt None)) = Some (writer_record h salt None).
Proof. exact phc_roundtrip_x_writer. Qed.
Check C16_phc_roundtrip_x_writer :
  forall (h : hash_alg) (salt : bytes),
  length salt = SALT_LEN ->
  kdf_valid_x (alg_name h) (alg_version h) (alg_params h) salt None = true ->
  phc_parse_x (phc_print_x (writer_record h salt None)) = Some (writer_record h salt None).
Print Assumptions C16_phc_roundtrip_x_writer.

(* the dispatch premise *)
Theorem C16_alg_supported_x :
  forall h : hash_alg, alg_supported_x (alg_name h) = true.
Proof. exact alg_supported_x_writer. Qed.
Check C16_alg_supported_x :
  forall h : hash_alg, alg_supported_x (alg_name h) = true.
Print Assumptions C16_alg_supported_x.

(* another salt, algorithm or parameter value gives another PHSF *)
Theorem C16_phc_print_x_inj :
  forall (h h' : hash_alg) (salt salt' : bytes),
  rt_side h salt = true -> rt_side h' salt' = true ->
  phc_print_x (writer_record h salt None) = phc_print_x (writer_record h' salt' None) ->
  writer_record h salt None = writer_record h' salt' None.
Proof. exact phc_print_x_inj. Qed.
Check C16_phc_print_x_inj :
  forall (h h' : hash_alg) (salt salt' : bytes),
  rt_side h salt = true -> rt_side h' salt' = true ->
  phc_print_x (writer_record h salt None) = phc_print_x (writer_record h' salt' None) ->
  writer_record h salt None = writer_record h' salt' None.
Print Assumptions C16_phc_print_x_inj.

(* C16_right_password_reads with the codec premises discharged: what remains quantified is the KDF and its parameter rules
   (any rules that refuse parameters outside u32, the Rust type of the parameters) *)
Theorem C16_right_password_reads_codec :
  forall (key : Type) (kdf : bytes -> option N -> list (bytes * bytes) -> bytes -> bytes -> key)
    (kdf_valid : bytes -> option N -> list (bytes * bytes) -> bytes -> option bytes -> bool),
  (forall (h : hash_alg) (salt : bytes), kdf_valid (alg_name h) (alg_version h) (alg_params h) salt None = true -> fits_u32 h = true) ->
  forall (m : cipher_mode) (h : hash_alg) (pw tape : bytes) (c : ctx key) (t' : bytes),
  writer_context key kdf kdf_valid phc_print_x m h pw tape = Ok (c, t') ->
  reader_key key kdf kdf_valid alg_supported_x phc_parse_x (ctx_phsf c) pw = Ok (ctx_key c).
Proof. exact right_password_reads_codec. Qed.
Check C16_right_password_reads_codec :
  forall (key : Type) (kdf : bytes -> option N -> list (bytes * bytes) -> bytes -> bytes -> key)
    (kdf_valid : bytes -> option N -> list (bytes * bytes) -> bytes -> option bytes -> bool),
  (forall (h : hash_alg) (salt : bytes), kdf_valid (alg_name h) (alg_version h) (alg_params h) salt None = true -> fits_u32 h = true) ->
  forall (m : cipher_mode) (h : hash_alg) (pw tape : bytes) (c : ctx key) (t' : bytes),
  writer_context key kdf kdf_valid phc_print_x m h pw tape = Ok (c, t') ->
  reader_key key kdf kdf_valid alg_supported_x phc_parse_x (ctx_phsf c) pw = Ok (ctx_key c).
Print Assumptions C16_right_password_reads_codec.

(* C16_right_password_decodes with the codec premises discharged *)
Theorem C16_right_password_decodes_codec :
  forall (key : Type) (kdf : bytes -> option N -> list (bytes * bytes) -> bytes -> bytes -> key)
    (kdf_valid : bytes -> option N -> list (bytes * bytes) -> bytes -> option bytes -> bool)
    (decrypt : key -> bytes -> bytes -> res bytes),
  (forall (h : hash_alg) (salt : bytes), kdf_valid (alg_name h) (alg_version h) (alg_params h) salt None = true -> fits_u32 h = true) ->
  forall (enc : encryption) (m : cipher_mode) (h : hash_alg) (pw tape : bytes) (c : ctx key)
    (t' : bytes) (ct : list byte) (content : bytes),
  encrypted_b enc = true ->
  writer_context key kdf kdf_valid phc_print_x m h pw tape = Ok (c, t') ->
  (m = MCbc -> (16 <= length ct)%nat) ->
  decrypt (ctx_key c) (ctx_iv c) ct = Ok content ->
  decode key kdf kdf_valid alg_supported_x phc_parse_x decrypt enc m (Some (ctx_phsf c)) (Some pw) (ctx_iv c ++ ct) = Ok content.
Proof. exact right_password_decodes_codec. Qed.
Check C16_right_password_decodes_codec :
  forall (key : Type) (kdf : bytes -> option N -> list (bytes * bytes) -> bytes -> bytes -> key)
    (kdf_valid : bytes -> option N -> list (bytes * bytes) -> bytes -> option bytes -> bool)
    (decrypt : key -> bytes -> bytes -> res bytes),
  (forall (h : hash_alg) (salt : bytes), kdf_valid (alg_name h) (alg_version h) (alg_params h) salt None = true -> fits_u32 h = true) ->
  forall (enc : encryption) (m : cipher_mode) (h : hash_alg) (pw tape : bytes) (c : ctx key)
    (t' : bytes) (ct : list byte) (content : bytes),
  encrypted_b enc = true ->
  writer_context key kdf kdf_valid phc_print_x m h pw tape = Ok (c, t') ->
  (m = MCbc -> (16 <= length ct)%nat) ->
  decrypt (ctx_key c) (ctx_iv c) ct = Ok content ->
  decode key kdf kdf_valid alg_supported_x phc_parse_x decrypt enc m (Some (ctx_phsf c)) (Some pw) (ctx_iv c ++ ct) = Ok content.
Print Assumptions C16_right_password_decodes_codec.

(* C16_wrong_password_partial with the codec premises discharged: its two named premises remain *)
Theorem C16_wrong_password_partial_codec :
  forall (key : Type) (kdf : bytes -> option N -> list (bytes * bytes) -> bytes -> bytes -> key)
    (kdf_valid : bytes -> option N -> list (bytes * bytes) -> bytes -> option bytes -> bool)
    (decrypt : key -> bytes -> bytes -> res bytes),
  (forall (h : hash_alg) (salt : bytes), kdf_valid (alg_name h) (alg_version h) (alg_params h) salt None = true -> fits_u32 h = true) ->
  forall (enc : encryption) (m : cipher_mode) (h : hash_alg) (pw pw' tape : bytes) (c : ctx key) (t' ct content : bytes),
  writer_context key kdf kdf_valid phc_print_x m h pw tape = Ok (c, t') ->
  (let salt := firstn SALT_LEN tape in
   kdf (alg_name h) (alg_version h) (alg_params h) salt pw' <> kdf (alg_name h) (alg_version h) (alg_params h) salt pw) ->
  (forall k' : key, k' <> ctx_key c -> decrypt k' (ctx_iv c) ct <> Ok content) ->
  encrypted_b enc = true ->
  decode key kdf kdf_valid alg_supported_x phc_parse_x decrypt enc m (Some (ctx_phsf c)) (Some pw') (ctx_iv c ++ ct) <> Ok content.
Proof. exact wrong_password_partial_codec. Qed.
Check C16_wrong_password_partial_codec :
  forall (key : Type) (kdf : bytes -> option N -> list (bytes * bytes) -> bytes -> bytes -> key)
    (kdf_valid : bytes -> option N -> list (bytes * bytes) -> bytes -> option bytes -> bool)
    (decrypt : key -> bytes -> bytes -> res bytes),
  (forall (h : hash_alg) (salt : bytes), kdf_valid (alg_name h) (alg_version h) (alg_params h) salt None = true -> fits_u32 h = true) ->
  forall (enc : encryption) (m : cipher_mode) (h : hash_alg) (pw pw' tape : bytes) (c : ctx key) (t' ct content : bytes),
  writer_context key kdf kdf_valid phc_print_x m h pw tape = Ok (c, t') ->
  (let salt := firstn SALT_LEN tape in
   kdf (alg_name h) (alg_version h) (alg_params h) salt pw' <> kdf (alg_name h) (alg_version h) (alg_params h) salt pw) ->
  (forall k' : key, k' <> ctx_key c -> decrypt k' (ctx_iv c) ct <> Ok content) ->
  encrypted_b enc = true ->
  decode key kdf kdf_valid alg_supported_x phc_parse_x decrypt enc m (Some (ctx_phsf c)) (Some pw') (ctx_iv c ++ ct) <> Ok content.
Print Assumptions C16_wrong_password_partial_codec.

(* the PHSF of a context parses to exactly the writer's record: its algorithm, version and parameters, the salt drawn
   from the tape, and no hash (C08_phsf_has_no_hash with the codec premise discharged, and stronger) *)
Theorem C16_phsf_parses_to_record_codec :
  forall (key : Type) (kdf : bytes -> option N -> list (bytes * bytes) -> bytes -> bytes -> key)
    (kdf_valid : bytes -> option N -> list (bytes * bytes) -> bytes -> option bytes -> bool),
  (forall (h : hash_alg) (salt : bytes), kdf_valid (alg_name h) (alg_version h) (alg_params h) salt None = true -> fits_u32 h = true) ->
  forall (m : cipher_mode) (h : hash_alg) (pw tape : bytes) (c : ctx key) (t' : bytes),
  writer_context key kdf kdf_valid phc_print_x m h pw tape = Ok (c, t') ->
  phc_parse_x (ctx_phsf c) = Some (writer_record h (firstn SALT_LEN tape) None).
Proof. exact phsf_parses_to_record_codec. Qed.
Check C16_phsf_parses_to_record_codec :
  forall (key : Type) (kdf : bytes -> option N -> list (bytes * bytes) -> bytes -> bytes -> key)
    (kdf_valid : bytes -> option N -> list (bytes * bytes) -> bytes -> option bytes -> bool),
  (forall (h : hash_alg) (salt : bytes), kdf_valid (alg_name h) (alg_version h) (alg_params h) salt None = true -> fits_u32 h = true) ->
  forall (m : cipher_mode) (h : hash_alg) (pw tape : bytes) (c : ctx key) (t' : bytes),
  writer_context key kdf kdf_valid phc_print_x m h pw tape = Ok (c, t') ->
  phc_parse_x (ctx_phsf c) = Some (writer_record h (firstn SALT_LEN tape) None).
Print Assumptions C16_phsf_parses_to_record_codec.

Theorem C16_phsf_has_no_hash_codec :
  forall (key : Type) (kdf : bytes -> option N -> list (bytes * bytes) -> bytes -> bytes -> key)
    (kdf_valid : bytes -> option N -> list (bytes * bytes) -> bytes -> option bytes -> bool),
  (forall (h : hash_alg) (salt : bytes), kdf_valid (alg_name h) (alg_version h) (alg_params h) salt None = true -> fits_u32 h = true) ->
  forall (m : cipher_mode) (h : hash_alg) (pw tape : bytes) (c : ctx key) (t' : bytes),
  writer_context key kdf kdf_valid phc_print_x m h pw tape = Ok (c, t') ->
  exists p : phc, phc_parse_x (ctx_phsf c) = Some p /\ ph_hash p = None.
Proof. exact phsf_has_no_hash_codec. Qed.
Check C16_phsf_has_no_hash_codec :
  forall (key : Type) (kdf : bytes -> option N -> list (bytes * bytes) -> bytes -> bytes -> key)
    (kdf_valid : bytes -> option N -> list (bytes * bytes) -> bytes -> option bytes -> bool),
  (forall (h : hash_alg) (salt : bytes), kdf_valid (alg_name h) (alg_version h) (alg_params h) salt None = true -> fits_u32 h = true) ->
  forall (m : cipher_mode) (h : hash_alg) (pw tape : bytes) (c : ctx key) (t' : bytes),
  writer_context key kdf kdf_valid phc_print_x m h pw tape = Ok (c, t') ->
  exists p : phc, phc_parse_x (ctx_phsf c) = Some p /\ ph_hash p = None.
Print Assumptions C16_phsf_has_no_hash_codec.

(* ---- the whole executable plumbing (the model that is run against the library): no premise at all ---- *)
Theorem C16_right_password_reads_x :
  forall (m : cipher_mode) (h : hash_alg) (pw tape : bytes) (c : ctx bytes) (t' : bytes),
  writer_context_x m h pw tape = Ok (c, t') -> reader_key_x (ctx_phsf c) pw = Ok (ctx_key c).
Proof. exact right_password_reads_x. Qed.
Check C16_right_password_reads_x :
  forall (m : cipher_mode) (h : hash_alg) (pw tape : bytes) (c : ctx bytes) (t' : bytes),
  writer_context_x m h pw tape = Ok (c, t') -> reader_key_x (ctx_phsf c) pw = Ok (ctx_key c).
Print Assumptions C16_right_password_reads_x.

Theorem C16_right_password_decodes_x :
  forall (decrypt : bytes -> bytes -> bytes -> res bytes) (enc : encryption) (m : cipher_mode) (h : hash_alg)
    (pw tape : bytes) (c : ctx bytes) (t' : bytes) (ct : list byte) (content : bytes),
  encrypted_b enc = true ->
  writer_context_x m h pw tape = Ok (c, t') ->
  (m = MCbc -> (16 <= length ct)%nat) ->
  decrypt (ctx_key c) (ctx_iv c) ct = Ok content ->
  decode bytes kdf_x kdf_valid_x alg_supported_x phc_parse_x decrypt enc m (Some (ctx_phsf c)) (Some pw) (ctx_iv c ++ ct) = Ok content.
Proof. exact right_password_decodes_x. Qed.
Check C16_right_password_decodes_x :
  forall (decrypt : bytes -> bytes -> bytes -> res bytes) (enc : encryption) (m : cipher_mode) (h : hash_alg)
    (pw tape : bytes) (c : ctx bytes) (t' : bytes) (ct : list byte) (content : bytes),
  encrypted_b enc = true ->
  writer_context_x m h pw tape = Ok (c, t') ->
  (m = MCbc -> (16 <= length ct)%nat) ->
  decrypt (ctx_key c) (ctx_iv c) ct = Ok content ->
  decode bytes kdf_x kdf_valid_x alg_supported_x phc_parse_x decrypt enc m (Some (ctx_phsf c)) (Some pw) (ctx_iv c ++ ct) = Ok content.
Print Assumptions C16_right_password_decodes_x.

Theorem C16_phsf_parses_to_record_x :
  forall (m : cipher_mode) (h : hash_alg) (pw tape : bytes) (c : ctx bytes) (t' : bytes),
  writer_context_x m h pw tape = Ok (c, t') ->
  phc_parse_x (ctx_phsf c) = Some (writer_record h (firstn SALT_LEN tape) None).
Proof. exact phsf_parses_to_record_x. Qed.
Check C16_phsf_parses_to_record_x :
  forall (m : cipher_mode) (h : hash_alg) (pw tape : bytes) (c : ctx bytes) (t' : bytes),
  writer_context_x m h pw tape = Ok (c, t') ->
  phc_parse_x (ctx_phsf c) = Some (writer_record h (firstn SALT_LEN tape) None).
Print Assumptions C16_phsf_parses_to_record_x.

Theorem C16_phsf_has_no_hash_x :
  forall (m : cipher_mode) (h : hash_alg) (pw tape : bytes) (c : ctx bytes) (t' : bytes),
  writer_context_x m h pw tape = Ok (c, t') ->
  exists p : phc, phc_parse_x (ctx_phsf c) = Some p /\ ph_hash p = None.
Proof. exact phsf_has_no_hash_x. Qed.
Check C16_phsf_has_no_hash_x :
  forall (m : cipher_mode) (h : hash_alg) (pw tape : bytes) (c : ctx bytes) (t' : bytes),
  writer_context_x m h pw tape = Ok (c, t') ->
  exists p : phc, phc_parse_x (ctx_phsf c) = Some p /\ ph_hash p = None.
Print Assumptions C16_phsf_has_no_hash_x.

(* every context of a whole write (one per entry, or one per solid stream) reads back under the password and has a
   PHSF without hash *)
Theorem C16_write_all_reads_x :
  forall (k : writer_kind) (enc : encryption) (m : cipher_mode) (h : hash_alg) (pw : bytes) (n : nat) (tape : bytes)
    (cs : list (ctx bytes)) (t' : bytes),
  write_all_x k enc m h pw n tape = Ok (cs, t') ->
  Forall (fun c : ctx bytes =>
            reader_key_x (ctx_phsf c) pw = Ok (ctx_key c) /\
            (exists p : phc, phc_parse_x (ctx_phsf c) = Some p /\ ph_hash p = None)) cs.
Proof. exact write_all_reads_x. Qed.
Check C16_write_all_reads_x :
  forall (k : writer_kind) (enc : encryption) (m : cipher_mode) (h : hash_alg) (pw : bytes) (n : nat) (tape : bytes)
    (cs : list (ctx bytes)) (t' : bytes),
  write_all_x k enc m h pw n tape = Ok (cs, t') ->
  Forall (fun c : ctx bytes =>
            reader_key_x (ctx_phsf c) pw = Ok (ctx_key c) /\
            (exists p : phc, phc_parse_x (ctx_phsf c) = Some p /\ ph_hash p = None)) cs.
Print Assumptions C16_write_all_reads_x.

(* the reader (reader_key_x with password "pw") on strings no writer of this library produces: the rules of the crates,
   as the correspondence runs observe them on the library *)
Theorem C16_foreign_strings :
  (* non-canonical decimals, upper case, an empty trailing field, an over-long or undecodable salt: errors of the format *)
  outcome_is "$pbkdf2-sha256$i=01,l=32$MDEyMzQ1Njc4OWFiY2RlZg" InvalidData = true /\
  outcome_is "$argon2id$v=019$m=8,t=1,p=1$MDEyMzQ1Njc4OWFiY2RlZg" InvalidData = true /\
  outcome_is "$ARGON2ID$v=19$m=8,t=1,p=1$MDEyMzQ1Njc4OWFiY2RlZg" InvalidData = true /\
  outcome_is "$argon2id$v=19$m=8,t=1,p=1$MDEyMzQ1Njc4OWFiY2RlZg$" InvalidData = true /\
  outcome_is "$pbkdf2-sha256$i=1,l=32$MDE" InvalidData = true /\
  outcome_is "$pbkdf2-sha256$i=1,l=32$MDEyMx" InvalidData = true /\
  (* every p is range-checked *)
  outcome_is "$argon2id$v=19$m=8,t=1,p=1,p=4294967295$MDEyMzQ1Njc4OWFiY2RlZg" InvalidData = true /\
  (* an unsupported algorithm: the format comes first, then the dispatch; the salt is decoded only after it *)
  outcome_is "$scrypt$ln=abc$MDEy.DEy" Unsupported = true /\
  outcome_is "$scrypt$v=01$ln=1$MDEyMzQ1Njc4OWFiY2RlZg" InvalidData = true /\
  (* of a repeated parameter the last one counts; the associated data of argon2 reaches the KDF, the key id does not *)
  key_of "$pbkdf2-sha256$i=1,i=2,l=32$MDEyMzQ1Njc4OWFiY2RlZg" = key_of "$pbkdf2-sha256$i=2$MDEyMzQ1Njc4OWFiY2RlZg" /\
  key_of "$argon2id$v=19$m=8,t=1,keyid=Zm9v,p=1$MDEyMzQ1Njc4OWFiY2RlZg" = key_of "$argon2id$v=19$m=8,t=1,p=1$MDEyMzQ1Njc4OWFiY2RlZg" /\
  key_of "$argon2id$v=19$m=8,t=1,p=1,data=Zm9v$MDEyMzQ1Njc4OWFiY2RlZg" <> key_of "$argon2id$v=19$m=8,t=1,p=1$MDEyMzQ1Njc4OWFiY2RlZg" /\
  key_of "$argon2id$v=19$m=8,t=1,p=1,data=Zm9v$MDEyMzQ1Njc4OWFiY2RlZg" <> None /\
  (* a hash in the string fixes the output length: only 32 bytes make a key *)
  key_of "$argon2id$v=19$m=8,t=1,p=1$MDEyMzQ1Njc4OWFiY2RlZg$AAECAwQFBgcICQoLDA0ODxAREhMUFRYXGBkaGxwdHh8" <> None /\
  outcome_is "$argon2id$v=19$m=8,t=1,p=1$MDEyMzQ1Njc4OWFiY2RlZg$AAECAwQFBgcICQoLDA0ODw" InvalidData = true.
Proof. exact ex_foreign_strings. Qed.
Check C16_foreign_strings :
  (* non-canonical decimals, upper case, an empty trailing field, an over-long or undecodable salt: errors of the format *)
  outcome_is "$pbkdf2-sha256$i=01,l=32$MDEyMzQ1Njc4OWFiY2RlZg" InvalidData = true /\
  outcome_is "$argon2id$v=019$m=8,t=1,p=1$MDEyMzQ1Njc4OWFiY2RlZg" InvalidData = true /\
  outcome_is "$ARGON2ID$v=19$m=8,t=1,p=1$MDEyMzQ1Njc4OWFiY2RlZg" InvalidData = true /\
  outcome_is "$argon2id$v=19$m=8,t=1,p=1$MDEyMzQ1Njc4OWFiY2RlZg$" InvalidData = true /\
  outcome_is "$pbkdf2-sha256$i=1,l=32$MDE" InvalidData = true /\
  outcome_is "$pbkdf2-sha256$i=1,l=32$MDEyMx" InvalidData = true /\
  (* every p is range-checked *)
  outcome_is "$argon2id$v=19$m=8,t=1,p=1,p=4294967295$MDEyMzQ1Njc4OWFiY2RlZg" InvalidData = true /\
  (* an unsupported algorithm: the format comes first, then the dispatch; the salt is decoded only after it *)
  outcome_is "$scrypt$ln=abc$MDEy.DEy" Unsupported = true /\
  outcome_is "$scrypt$v=01$ln=1$MDEyMzQ1Njc4OWFiY2RlZg" InvalidData = true /\
  (* of a repeated parameter the last one counts; the associated data of argon2 reaches the KDF, the key id does not *)
  key_of "$pbkdf2-sha256$i=1,i=2,l=32$MDEyMzQ1Njc4OWFiY2RlZg" = key_of "$pbkdf2-sha256$i=2$MDEyMzQ1Njc4OWFiY2RlZg" /\
  key_of "$argon2id$v=19$m=8,t=1,keyid=Zm9v,p=1$MDEyMzQ1Njc4OWFiY2RlZg" = key_of "$argon2id$v=19$m=8,t=1,p=1$MDEyMzQ1Njc4OWFiY2RlZg" /\
  key_of "$argon2id$v=19$m=8,t=1,p=1,data=Zm9v$MDEyMzQ1Njc4OWFiY2RlZg" <> key_of "$argon2id$v=19$m=8,t=1,p=1$MDEyMzQ1Njc4OWFiY2RlZg" /\
  key_of "$argon2id$v=19$m=8,t=1,p=1,data=Zm9v$MDEyMzQ1Njc4OWFiY2RlZg" <> None /\
  (* a hash in the string fixes the output length: only 32 bytes make a key *)
  key_of "$argon2id$v=19$m=8,t=1,p=1$MDEyMzQ1Njc4OWFiY2RlZg$AAECAwQFBgcICQoLDA0ODxAREhMUFRYXGBkaGxwdHh8" <> None /\
  outcome_is "$argon2id$v=19$m=8,t=1,p=1$MDEyMzQ1Njc4OWFiY2RlZg$AAECAwQFBgcICQoLDA0ODw" InvalidData = true.
Print Assumptions C16_foreign_strings.

(* the premises are met: a concrete 16-byte salt (bytes 1..16), both algorithms, default and extreme parameter values;
   the printed strings are the ones the library writes *)
Theorem C16_phc_examples :
  (phc_print_x (writer_record (Argon2Id None None None) ex_salt None) = lit "$argon2id$v=19$m=19456,t=2,p=1$AQIDBAUGBwgJCgsMDQ4PEA" /\
   phc_parse_x (lit "$argon2id$v=19$m=19456,t=2,p=1$AQIDBAUGBwgJCgsMDQ4PEA") = Some (writer_record (Argon2Id None None None) ex_salt None) /\
   rt_side (Argon2Id None None None) ex_salt = true) /\
  (phc_print_x (writer_record (Pbkdf2Sha256 (Some 4294967295)) ex_salt None) = lit "$pbkdf2-sha256$i=4294967295,l=32$AQIDBAUGBwgJCgsMDQ4PEA" /\
   phc_parse_x (lit "$pbkdf2-sha256$i=4294967295,l=32$AQIDBAUGBwgJCgsMDQ4PEA") = Some (writer_record (Pbkdf2Sha256 (Some 4294967295)) ex_salt None) /\
   rt_side (Pbkdf2Sha256 (Some 4294967295)) ex_salt = true).
Proof. exact (conj ex_print_argon2 ex_print_pbkdf2). Qed.
Check C16_phc_examples :
  (phc_print_x (writer_record (Argon2Id None None None) ex_salt None) = lit "$argon2id$v=19$m=19456,t=2,p=1$AQIDBAUGBwgJCgsMDQ4PEA" /\
   phc_parse_x (lit "$argon2id$v=19$m=19456,t=2,p=1$AQIDBAUGBwgJCgsMDQ4PEA") = Some (writer_record (Argon2Id None None None) ex_salt None) /\
   rt_side (Argon2Id None None None) ex_salt = true) /\
  (phc_print_x (writer_record (Pbkdf2Sha256 (Some 4294967295)) ex_salt None) = lit "$pbkdf2-sha256$i=4294967295,l=32$AQIDBAUGBwgJCgsMDQ4PEA" /\
   phc_parse_x (lit "$pbkdf2-sha256$i=4294967295,l=32$AQIDBAUGBwgJCgsMDQ4PEA") = Some (writer_record (Pbkdf2Sha256 (Some 4294967295)) ex_salt None) /\
   rt_side (Pbkdf2Sha256 (Some 4294967295)) ex_salt = true).
Print Assumptions C16_phc_examples.

(* ... and the hypothesis of the `_x` theorems is satisfiable: writer_context_x succeeds for both algorithms on a 40-byte tape *)
Theorem C16_contexts_exist :
  (exists (c : ctx bytes) (t' : bytes),
     writer_context_x MCtr (Argon2Id None None None) (lit "pw") ex_tape = Ok (c, t') /\
     ctx_phsf c = lit "$argon2id$v=19$m=19456,t=2,p=1$AQIDBAUGBwgJCgsMDQ4PEA" /\
     reader_key_x (ctx_phsf c) (lit "pw") = Ok (ctx_key c)) /\
  (exists (c : ctx bytes) (t' : bytes),
     writer_context_x MCbc (Pbkdf2Sha256 None) (lit "pw") ex_tape = Ok (c, t') /\
     ctx_phsf c = lit "$pbkdf2-sha256$i=600000,l=32$AQIDBAUGBwgJCgsMDQ4PEA" /\
     reader_key_x (ctx_phsf c) (lit "pw") = Ok (ctx_key c)).
Proof. exact ex_contexts_exist. Qed.
Check C16_contexts_exist :
  (exists (c : ctx bytes) (t' : bytes),
     writer_context_x MCtr (Argon2Id None None None) (lit "pw") ex_tape = Ok (c, t') /\
     ctx_phsf c = lit "$argon2id$v=19$m=19456,t=2,p=1$AQIDBAUGBwgJCgsMDQ4PEA" /\
     reader_key_x (ctx_phsf c) (lit "pw") = Ok (ctx_key c)) /\
  (exists (c : ctx bytes) (t' : bytes),
     writer_context_x MCbc (Pbkdf2Sha256 None) (lit "pw") ex_tape = Ok (c, t') /\
     ctx_phsf c = lit "$pbkdf2-sha256$i=600000,l=32$AQIDBAUGBwgJCgsMDQ4PEA" /\
     reader_key_x (ctx_phsf c) (lit "pw") = Ok (ctx_key c)).
Print Assumptions C16_contexts_exist.
