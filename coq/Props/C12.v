(* Props/C12.v — placeholder while the harness is brought up; replaced by the full statements. *)
From PNA Require Import Base Name Update.
Theorem C12_placeholder : forall fs p f, file (put fs p f) p = Some f.
Proof. intros. unfold put. cbn. destruct (bytes_eqb p p) eqn:E; [reflexivity|]. exfalso.
  assert (forall l, bytes_eqb l l = true).
  { induction l; cbn; auto. unfold byte_eqb. rewrite N.eqb_refl. cbn. auto. }
  rewrite H in E. discriminate. Qed.
Check C12_placeholder : forall fs p f, file (put fs p f) p = Some f.
Print Assumptions C12_placeholder.
