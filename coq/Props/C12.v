(* Props/C12.v — C12: a command that fails part-way leaves the archive intact and readable.
   Only statements, closed by `exact`, pinned by `Check`, audited by `Print Assumptions`.

   Model (Model/Update.v, part 2): a command is a script of effects over a small file system (path -> entries
   written so far + "end marker present"); `EItem k` is the point where the k-th processed item is read,
   decoded or built and may fail, upon which the command returns at once (the `?` operator).
     rewrite_script : run_transform_entry (delete, strip, chmod, chown, xattr, acl, migrate): create the
                      temporary file, per entry read (item) and write, finalize, rename onto the target;
     update_script  : the same with the pass over the existing entries (items 0..n-1) followed by the
                      re-created and new entries (items n..);
     append_script  : the repaired append (db651618): every entry is built before the first write.
   `fails_at s k` = item k occurs in the script; `run_failing s fs k` = the file system the failing run leaves.
   Outside the model (the property quantifies over failures of processed items): a failure of the final rename
   itself (cross-device copy interrupted, disk full), process crashes, and the temporary file a failing
   rewriting command leaves in TMPDIR (the model predicts it, the check reports it; it never takes the
   archive's place). *)
From PNA Require Import Base Name Update BaseFacts UpdateFacts.
Open Scope N_scope.

(* rewriting commands: whichever item fails, the target path holds what it held *)
Theorem C12_rewrite_atomic : forall target tmp tr a k fs, tmp <> target ->
  fails_at (rewrite_script tmp target tr a) k ->
  file (run_failing (rewrite_script tmp target tr a) fs k) target = file fs target.
Proof. exact rewrite_atomic. Qed.
Check C12_rewrite_atomic : forall target tmp tr a k fs, tmp <> target ->
  fails_at (rewrite_script tmp target tr a) k ->
  file (run_failing (rewrite_script tmp target tr a) fs k) target = file fs target.
Print Assumptions C12_rewrite_atomic.

Theorem C12_update_atomic : forall target tmp a kept new k fs, tmp <> target ->
  fails_at (update_script tmp target a kept new) k ->
  file (run_failing (update_script tmp target a kept new) fs k) target = file fs target.
Proof. exact update_atomic. Qed.
Check C12_update_atomic : forall target tmp a kept new k fs, tmp <> target ->
  fails_at (update_script tmp target a kept new) k ->
  file (run_failing (update_script tmp target a kept new) fs k) target = file fs target.
Print Assumptions C12_update_atomic.

(* the repaired append: a failing input leaves the whole file system as it was *)
Theorem C12_append_atomic : forall target new k fs,
  fails_at (append_script target new) k -> run_failing (append_script target new) fs k = fs.
Proof. exact append_atomic. Qed.
Check C12_append_atomic : forall target new k fs,
  fails_at (append_script target new) k -> run_failing (append_script target new) fs k = fs.
Print Assumptions C12_append_atomic.

(* success: a terminated archive with the intended content; the temporary file is gone *)
Theorem C12_success_valid_rewrite : forall target tmp tr a fs, tmp <> target ->
  let fs' := run_ok (rewrite_script tmp target tr a) fs in
  file fs' target = Some (mkF (transformed tr a) true) /\ file fs' tmp = None.
Proof. exact rewrite_success. Qed.
Check C12_success_valid_rewrite : forall target tmp tr a fs, tmp <> target ->
  let fs' := run_ok (rewrite_script tmp target tr a) fs in
  file fs' target = Some (mkF (transformed tr a) true) /\ file fs' tmp = None.
Print Assumptions C12_success_valid_rewrite.

Theorem C12_success_valid_append : forall target a new fs,
  file fs target = Some (mkF a true) ->
  file (run_ok (append_script target new) fs) target = Some (mkF (append a new) true).
Proof. exact append_success. Qed.
Check C12_success_valid_append : forall target a new fs,
  file fs target = Some (mkF a true) ->
  file (run_ok (append_script target new) fs) target = Some (mkF (append a new) true).
Print Assumptions C12_success_valid_append.

Theorem C12_success_valid_update : forall target tmp a kept new fs, tmp <> target ->
  let fs' := run_ok (update_script tmp target a kept new) fs in
  file fs' target = Some (mkF (select a kept ++ new) true) /\ file fs' tmp = None.
Proof. exact update_success. Qed.
Check C12_success_valid_update : forall target tmp a kept new fs, tmp <> target ->
  let fs' := run_ok (update_script tmp target a kept new) fs in
  file fs' target = Some (mkF (select a kept ++ new) true) /\ file fs' tmp = None.
Print Assumptions C12_success_valid_update.

(* the entries the script of update writes as they are = the entries the pass of C11 keeps *)
Theorem C12_update_script_agrees : forall excl cond a targets refreshed,
  select a (pass_flags excl cond a targets refreshed) = fst (fst (update_pass excl cond a targets refreshed)).
Proof. exact select_pass_flags. Qed.
Check C12_update_script_agrees : forall excl cond a targets refreshed,
  select a (pass_flags excl cond a targets refreshed) = fst (fst (update_pass excl cond a targets refreshed)).
Print Assumptions C12_update_script_agrees.

(* D14, on append as it was before the fix: the second input fails, the archive is left without end marker *)
Theorem C12_append_unrepaired_refuted :
  exists a new k, fails_at (append_script_orig (lit "x.pna") new) k /\
    result_file (mkF a true) (run_failing (append_script_orig (lit "x.pna") new) [(lit "x.pna", mkF a true)] k) (lit "x.pna") = Broken.
Proof. exact append_unrepaired_breaks. Qed.
Check C12_append_unrepaired_refuted :
  exists a new k, fails_at (append_script_orig (lit "x.pna") new) k /\
    result_file (mkF a true) (run_failing (append_script_orig (lit "x.pna") new) [(lit "x.pna", mkF a true)] k) (lit "x.pna") = Broken.
Print Assumptions C12_append_unrepaired_refuted.

(* premises are satisfiable, and the verdict the check observes: the same inputs through the repaired scripts *)
Example C12_premises_met :
  fails_at (append_script (lit "x.pna") d14_new) 1
  /\ result_file (mkF d14_a true) (run_failing (append_script (lit "x.pna") d14_new) [(lit "x.pna", mkF d14_a true)] 1) (lit "x.pna") = Same
  /\ lit "tmp" <> lit "x.pna"
  /\ fails_at (rewrite_script (lit "tmp") (lit "x.pna") Some d14_a) 0
  /\ result_file (mkF d14_a true) (run_failing (rewrite_script (lit "tmp") (lit "x.pna") Some d14_a) [(lit "x.pna", mkF d14_a true)] 0) (lit "x.pna") = Same.
Proof.
  repeat split; try (vm_compute; reflexivity); try discriminate; unfold fails_at; cbn; auto.
Qed.
