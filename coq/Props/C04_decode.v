(* Props/C04_decode.v — C04, the "loses nothing" half at the level of DECODED entries: the parts written by the
   split writer (Split.write_split = commons.rs write_split_archive_writer + EntryPart::split), read back by the
   part-chaining reader (stream and slice), give entries that agree with the originals in header, PHSF, extra chunks,
   metadata, xattrs and concatenated data, and decode to the same content for every password and every draining
   read-buffer sequence — whatever the codec, cipher and mode, because decoding depends on the concatenation of the
   data chunks only (Proofs/RecutFacts.v).  Stated for entries the strict recogniser accepts (`writable`); the
   complement is the recorded finding F-C04-foreign-stream (C04_foreign_stream_chunk_recut_refuted). *)
From PNA Require Import Base Crc32 Name Codec Chunk Archive Entry Flatten Cbc Ctr Pipeline Aes Camellia
  BaseFacts ChunkFacts ArchiveFacts EntryFacts FlattenFacts CbcFacts CtrFacts StreamFacts PipelineFacts
  Wf WfFacts WfWriterFacts WfAgreeFacts WfSplitFacts AesFacts CamelliaFacts PipelineRealFacts PipelineRun RecutFacts.
From PNA Require Split SplitFacts.
Open Scope N_scope.
Open Scope N_scope.

Theorem C04_parts_decode_to_the_originals :
  forall (E D : encryption -> bytes -> bytes -> bytes) (decompress : compression -> bytes -> res bytes)
         (verify : bytes -> bytes -> res bytes) max ents parts,
  Forall writable ents ->
  Split.write_split max (map (fun e => map of_c (ser_entry e)) ents) = Ok parts ->
  exists xs' raws,
    read_parts read_chunk_stream (map ser_pfile parts) = Ok (raws, FinOk) /\
    read_parts read_chunk_slice (map ser_pfile parts) = Ok (raws, FinOk) /\
    parse_all raws = (xs', FinOk) /\
    entries_agree E D decompress verify ents xs' .
Proof. exact split_then_decode. Qed.
Check C04_parts_decode_to_the_originals :
  forall (E D : encryption -> bytes -> bytes -> bytes) (decompress : compression -> bytes -> res bytes)
         (verify : bytes -> bytes -> res bytes) max ents parts,
  Forall writable ents ->
  Split.write_split max (map (fun e => map of_c (ser_entry e)) ents) = Ok parts ->
  exists xs' raws,
    read_parts read_chunk_stream (map ser_pfile parts) = Ok (raws, FinOk) /\
    read_parts read_chunk_slice (map ser_pfile parts) = Ok (raws, FinOk) /\
    parse_all raws = (xs', FinOk) /\
    entries_agree E D decompress verify ents xs' .
Print Assumptions C04_parts_decode_to_the_originals.
