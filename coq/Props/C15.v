(* Props/C15.v — C15: every metadata codec is an exact inverse pair over its whole domain.
   Only statements, closed by `exact`, pinned by `Check`, audited by `Print Assumptions`. *)
From PNA Require Import Base Name Codec BaseFacts CodecFacts.
Open Scope N_scope.

Theorem C15_be_inverse : forall w n, n < 256 ^ N.of_nat w -> of_be (be w n) = n.
Proof. exact of_be_be. Qed.
Check C15_be_inverse : forall w n, n < 256 ^ N.of_nat w -> of_be (be w n) = n.
Print Assumptions C15_be_inverse.

Theorem C15_be_stable : forall l, be (length l) (of_be l) = l.
Proof. exact be_of_be. Qed.
Check C15_be_stable : forall l, be (length l) (of_be l) = l.
Print Assumptions C15_be_stable.

Theorem C15_ahed_inverse : forall h, wf_ahed h -> ahed_of_bytes (ahed_to_bytes h) = Ok h.
Proof. exact ahed_inv. Qed.
Check C15_ahed_inverse : forall h, wf_ahed h -> ahed_of_bytes (ahed_to_bytes h) = Ok h.
Print Assumptions C15_ahed_inverse.

Theorem C15_ahed_stable : forall bs h, ahed_of_bytes bs = Ok h -> ahed_of_bytes (ahed_to_bytes h) = Ok h.
Proof. exact ahed_stable. Qed.
Check C15_ahed_stable : forall bs h, ahed_of_bytes bs = Ok h -> ahed_of_bytes (ahed_to_bytes h) = Ok h.
Print Assumptions C15_ahed_stable.

Theorem C15_shed_inverse : forall h, s_major h < 256 -> s_minor h < 256 -> shed_of_bytes (shed_to_bytes h) = Ok h.
Proof. exact shed_inv. Qed.
Check C15_shed_inverse : forall h, s_major h < 256 -> s_minor h < 256 -> shed_of_bytes (shed_to_bytes h) = Ok h.
Print Assumptions C15_shed_inverse.

Theorem C15_time_inverse : forall secs, secs < 2 ^ 64 -> time_of_bytes (time_to_bytes secs) = Ok secs.
Proof. exact time_inv. Qed.
Check C15_time_inverse : forall secs, secs < 2 ^ 64 -> time_of_bytes (time_to_bytes secs) = Ok secs.
Print Assumptions C15_time_inverse.

Theorem C15_time_stable : forall bs secs, time_of_bytes bs = Ok secs -> time_to_bytes secs = bs.
Proof. exact time_stable. Qed.
Check C15_time_stable : forall bs secs, time_of_bytes bs = Ok secs -> time_to_bytes secs = bs.
Print Assumptions C15_time_stable.

Theorem C15_xattr_inverse : forall x, wf_xattr x -> xattr_of_bytes (xattr_to_bytes x) = Ok x.
Proof. exact xattr_inv. Qed.
Check C15_xattr_inverse : forall x, wf_xattr x -> xattr_of_bytes (xattr_to_bytes x) = Ok x.
Print Assumptions C15_xattr_inverse.

Theorem C15_enum_inverse :
  (forall k, kind_of_n (kind_to_n k) = Some k) /\ (forall k, comp_of_n (comp_to_n k) = Some k) /\
  (forall k, enc_of_n (enc_to_n k) = Some k) /\ (forall k, mode_of_n (mode_to_n k) = Some k).
Proof. exact (conj kind_inv (conj comp_inv (conj enc_inv mode_inv))). Qed.
Print Assumptions C15_enum_inverse.

Theorem C15_enum_stable :
  (forall n k, kind_of_n n = Some k -> kind_to_n k = n) /\ (forall n k, comp_of_n n = Some k -> comp_to_n k = n) /\
  (forall n k, enc_of_n n = Some k -> enc_to_n k = n) /\ (forall n k, mode_of_n n = Some k -> mode_to_n k = n).
Proof. exact (conj kind_stable (conj comp_stable (conj enc_stable mode_stable))). Qed.
Print Assumptions C15_enum_stable.
