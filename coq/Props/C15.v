(* Props/C15.v — C15: every metadata codec is an exact inverse pair over its whole domain.
   Only statements, closed by `exact`, pinned by `Check`, audited by `Print Assumptions`. *)
From PNA Require Import Base Name Codec BaseFacts NameFacts CodecFacts.
Open Scope N_scope.

Theorem C15_be_inverse : forall w n, n < 256 ^ N.of_nat w -> of_be (be w n) = n.
Proof. exact of_be_be. Qed.
Check C15_be_inverse : forall w n, n < 256 ^ N.of_nat w -> of_be (be w n) = n.
Print Assumptions C15_be_inverse.

Theorem C15_be_stable : forall l, be (length l) (of_be l) = l.
Proof. exact be_of_be. Qed.
Check C15_be_stable : forall l, be (length l) (of_be l) = l.
Print Assumptions C15_be_stable.

Theorem C15_ahed_inverse : forall h, wf_ahed h -> ahed_of_bytes (ahed_to_bytes h) = Ok h.
Proof. exact ahed_inv. Qed.
Check C15_ahed_inverse : forall h, wf_ahed h -> ahed_of_bytes (ahed_to_bytes h) = Ok h.
Print Assumptions C15_ahed_inverse.

Theorem C15_ahed_stable : forall bs h, ahed_of_bytes bs = Ok h -> ahed_of_bytes (ahed_to_bytes h) = Ok h.
Proof. exact ahed_stable. Qed.
Check C15_ahed_stable : forall bs h, ahed_of_bytes bs = Ok h -> ahed_of_bytes (ahed_to_bytes h) = Ok h.
Print Assumptions C15_ahed_stable.

Theorem C15_shed_inverse : forall h, s_major h < 256 -> s_minor h < 256 -> shed_of_bytes (shed_to_bytes h) = Ok h.
Proof. exact shed_inv. Qed.
Check C15_shed_inverse : forall h, s_major h < 256 -> s_minor h < 256 -> shed_of_bytes (shed_to_bytes h) = Ok h.
Print Assumptions C15_shed_inverse.

Theorem C15_time_inverse : forall secs, secs < 2 ^ 64 -> time_of_bytes (time_to_bytes secs) = Ok secs.
Proof. exact time_inv. Qed.
Check C15_time_inverse : forall secs, secs < 2 ^ 64 -> time_of_bytes (time_to_bytes secs) = Ok secs.
Print Assumptions C15_time_inverse.

Theorem C15_time_stable : forall bs secs, time_of_bytes bs = Ok secs -> time_to_bytes secs = bs.
Proof. exact time_stable. Qed.
Check C15_time_stable : forall bs secs, time_of_bytes bs = Ok secs -> time_to_bytes secs = bs.
Print Assumptions C15_time_stable.

Theorem C15_xattr_inverse : forall x, wf_xattr x -> xattr_of_bytes (xattr_to_bytes x) = Ok x.
Proof. exact xattr_inv. Qed.
Check C15_xattr_inverse : forall x, wf_xattr x -> xattr_of_bytes (xattr_to_bytes x) = Ok x.
Print Assumptions C15_xattr_inverse.

Theorem C15_enum_inverse :
  (forall k, kind_of_n (kind_to_n k) = Some k) /\ (forall k, comp_of_n (comp_to_n k) = Some k) /\
  (forall k, enc_of_n (enc_to_n k) = Some k) /\ (forall k, mode_of_n (mode_to_n k) = Some k).
Proof. exact (conj kind_inv (conj comp_inv (conj enc_inv mode_inv))). Qed.
Print Assumptions C15_enum_inverse.

Theorem C15_enum_stable :
  (forall n k, kind_of_n n = Some k -> kind_to_n k = n) /\ (forall n k, comp_of_n n = Some k -> comp_to_n k = n) /\
  (forall n k, enc_of_n n = Some k -> enc_to_n k = n) /\ (forall n k, mode_of_n n = Some k -> mode_to_n k = n).
Proof. exact (conj kind_stable (conj comp_stable (conj enc_stable mode_stable))). Qed.
Print Assumptions C15_enum_stable.

(* ---- FHED: the encoder writes `minor` twice, so the law holds for headers with major = minor --- *)
Theorem C15_fhed_inverse :
  forall h, f_major h = f_minor h /\ f_minor h < 256 /\ utf8_valid (f_name h) = true /\ sanitize_name (f_name h) = f_name h ->
    fhed_of_bytes (fhed_to_bytes h) = Ok h.
Proof. exact fhed_inv. Qed.
Check C15_fhed_inverse :
  forall h, f_major h = f_minor h /\ f_minor h < 256 /\ utf8_valid (f_name h) = true /\ sanitize_name (f_name h) = f_name h ->
    fhed_of_bytes (fhed_to_bytes h) = Ok h.
Print Assumptions C15_fhed_inverse.

Theorem C15_fhed_stable :
  forall bs h, fhed_of_bytes bs = Ok h -> f_major h = f_minor h -> fhed_of_bytes (fhed_to_bytes h) = Ok h.
Proof. exact fhed_stable. Qed.
Check C15_fhed_stable :
  forall bs h, fhed_of_bytes bs = Ok h -> f_major h = f_minor h -> fhed_of_bytes (fhed_to_bytes h) = Ok h.
Print Assumptions C15_fhed_stable.

Theorem C15_fhed_stable_bytes :
  forall b0 b1 b2 b3 b4 b5 name h,
    fhed_of_bytes (b0 :: b1 :: b2 :: b3 :: b4 :: b5 :: name) = Ok h -> b0 = b1 -> sanitize_name name = name ->
    fhed_to_bytes h = b0 :: b1 :: b2 :: b3 :: b4 :: b5 :: name.
Proof. exact fhed_stable_bytes. Qed.
Check C15_fhed_stable_bytes :
  forall b0 b1 b2 b3 b4 b5 name h,
    fhed_of_bytes (b0 :: b1 :: b2 :: b3 :: b4 :: b5 :: name) = Ok h -> b0 = b1 -> sanitize_name name = name ->
    fhed_to_bytes h = b0 :: b1 :: b2 :: b3 :: b4 :: b5 :: name.
Print Assumptions C15_fhed_stable_bytes.

(* without major = minor the stability law is false in the model of the code as written *)
Theorem C15_fhed_stable_major_refuted :
  exists bs h, fhed_of_bytes bs = Ok h /\ fhed_of_bytes (fhed_to_bytes h) <> Ok h.
Proof. exact fhed_major_refuted. Qed.
Check C15_fhed_stable_major_refuted :
  exists bs h, fhed_of_bytes bs = Ok h /\ fhed_of_bytes (fhed_to_bytes h) <> Ok h.
Print Assumptions C15_fhed_stable_major_refuted.

(* ---- SHED: exact bytes ------------------------------------------------------------------------- *)
Theorem C15_shed_stable :
  forall bs h, shed_of_bytes bs = Ok h -> shed_to_bytes h = bs.
Proof. exact shed_stable. Qed.
Check C15_shed_stable :
  forall bs h, shed_of_bytes bs = Ok h -> shed_to_bytes h = bs.
Print Assumptions C15_shed_stable.

(* ---- fPRM --------------------------------------------------------------------------------------- *)
Theorem C15_perm_inverse :
  forall p, p_uid p < 2 ^ 64 /\ p_gid p < 2 ^ 64 /\ p_mode p < 2 ^ 16 /\
    len (p_uname p) <= 255 /\ len (p_gname p) <= 255 /\
    utf8_valid (p_uname p) = true /\ utf8_valid (p_gname p) = true ->
    perm_of_bytes (perm_to_bytes p) = Ok p.
Proof. exact perm_inv. Qed.
Check C15_perm_inverse :
  forall p, p_uid p < 2 ^ 64 /\ p_gid p < 2 ^ 64 /\ p_mode p < 2 ^ 16 /\
    len (p_uname p) <= 255 /\ len (p_gname p) <= 255 /\
    utf8_valid (p_uname p) = true /\ utf8_valid (p_gname p) = true ->
    perm_of_bytes (perm_to_bytes p) = Ok p.
Print Assumptions C15_perm_inverse.

Theorem C15_perm_stable :
  forall bs p, perm_of_bytes bs = Ok p -> perm_of_bytes (perm_to_bytes p) = Ok p.
Proof. exact perm_stable. Qed.
Check C15_perm_stable :
  forall bs p, perm_of_bytes bs = Ok p -> perm_of_bytes (perm_to_bytes p) = Ok p.
Print Assumptions C15_perm_stable.

(* the decoder ignores trailing bytes: the input starts with the re-encoding *)
Theorem C15_perm_stable_prefix :
  forall bs p, perm_of_bytes bs = Ok p -> exists rest, bs = perm_to_bytes p ++ rest.
Proof. exact perm_stable_prefix. Qed.
Check C15_perm_stable_prefix :
  forall bs p, perm_of_bytes bs = Ok p -> exists rest, bs = perm_to_bytes p ++ rest.
Print Assumptions C15_perm_stable_prefix.

(* D22: outside the domain (a 256-byte user name) the round trip silently returns another value *)
Theorem C15_perm_long_name_refuted :
  len (p_uname long_name_perm) = 256 /\ utf8_valid (p_uname long_name_perm) = true /\
  perm_of_bytes (perm_to_bytes long_name_perm) =
    Ok {| p_uid := 1000; p_uname := []; p_gid := 0x7575757575757575; p_gname := repeat x75 117; p_mode := 0x7575 |} /\
  perm_of_bytes (perm_to_bytes long_name_perm) <> Ok long_name_perm.
Proof. exact perm_refuted_long_name. Qed.
Check C15_perm_long_name_refuted :
  len (p_uname long_name_perm) = 256 /\ utf8_valid (p_uname long_name_perm) = true /\
  perm_of_bytes (perm_to_bytes long_name_perm) =
    Ok {| p_uid := 1000; p_uname := []; p_gid := 0x7575757575757575; p_gname := repeat x75 117; p_mode := 0x7575 |} /\
  perm_of_bytes (perm_to_bytes long_name_perm) <> Ok long_name_perm.
Print Assumptions C15_perm_long_name_refuted.

(* ---- xATR --------------------------------------------------------------------------------------- *)
Theorem C15_xattr_stable :
  forall bs x, xattr_of_bytes bs = Ok x -> xattr_of_bytes (xattr_to_bytes x) = Ok x.
Proof. exact xattr_stable. Qed.
Check C15_xattr_stable :
  forall bs x, xattr_of_bytes bs = Ok x -> xattr_of_bytes (xattr_to_bytes x) = Ok x.
Print Assumptions C15_xattr_stable.

Theorem C15_xattr_stable_prefix :
  forall bs x, xattr_of_bytes bs = Ok x -> exists rest, bs = xattr_to_bytes x ++ rest.
Proof. exact xattr_stable_prefix. Qed.
Check C15_xattr_stable_prefix :
  forall bs x, xattr_of_bytes bs = Ok x -> exists rest, bs = xattr_to_bytes x ++ rest.
Print Assumptions C15_xattr_stable_prefix.

(* ---- fSIZ: the minimal big-endian form of a u128 ------------------------------------------------ *)
Theorem C15_fsiz_inverse :
  forall n, n < 2 ^ 128 -> fsiz_of_bytes (fsiz_to_bytes n) = n.
Proof. exact fsiz_inv. Qed.
Check C15_fsiz_inverse :
  forall n, n < 2 ^ 128 -> fsiz_of_bytes (fsiz_to_bytes n) = n.
Print Assumptions C15_fsiz_inverse.

Theorem C15_fsiz_minimal :
  (forall n, ((length (fsiz_to_bytes n) <= 16)%nat /\ no_leading_zero (fsiz_to_bytes n)) /\
             fsiz_of_bytes (fsiz_to_bytes n) = n mod 2 ^ 128) /\
  (forall bs, (length bs <= 16)%nat /\ no_leading_zero bs -> fsiz_to_bytes (fsiz_of_bytes bs) = bs).
Proof. exact fsiz_minimal. Qed.
Check C15_fsiz_minimal :
  (forall n, ((length (fsiz_to_bytes n) <= 16)%nat /\ no_leading_zero (fsiz_to_bytes n)) /\
             fsiz_of_bytes (fsiz_to_bytes n) = n mod 2 ^ 128) /\
  (forall bs, (length bs <= 16)%nat /\ no_leading_zero bs -> fsiz_to_bytes (fsiz_of_bytes bs) = bs).
Print Assumptions C15_fsiz_minimal.

Theorem C15_fsiz_stable :
  forall bs, fsiz_to_bytes (fsiz_of_bytes (fsiz_to_bytes (fsiz_of_bytes bs))) = fsiz_to_bytes (fsiz_of_bytes bs).
Proof. exact fsiz_stable. Qed.
Check C15_fsiz_stable :
  forall bs, fsiz_to_bytes (fsiz_of_bytes (fsiz_to_bytes (fsiz_of_bytes bs))) = fsiz_to_bytes (fsiz_of_bytes bs).
Print Assumptions C15_fsiz_stable.

(* ---- chunk-type property bits, for all byte values ---------------------------------------------- *)
Theorem C15_chunk_type_bits :
  forall a b c d, let ty := [a; b; c; d] in
    (ty_is_critical ty = negb (bit5 a) /\ ty_is_private ty = bit5 b /\
     ty_is_reserved ty = bit5 c /\ ty_is_safe_to_copy ty = bit5 d) /\
    (forallb is_alpha ty = true ->
     ty_is_critical ty = is_upper a /\ ty_is_private ty = is_lower b /\
     ty_is_reserved ty = is_lower c /\ ty_is_safe_to_copy ty = is_lower d).
Proof. exact chunk_type_bits. Qed.
Check C15_chunk_type_bits :
  forall a b c d, let ty := [a; b; c; d] in
    (ty_is_critical ty = negb (bit5 a) /\ ty_is_private ty = bit5 b /\
     ty_is_reserved ty = bit5 c /\ ty_is_safe_to_copy ty = bit5 d) /\
    (forallb is_alpha ty = true ->
     ty_is_critical ty = is_upper a /\ ty_is_private ty = is_lower b /\
     ty_is_reserved ty = is_lower c /\ ty_is_safe_to_copy ty = is_lower d).
Print Assumptions C15_chunk_type_bits.

Theorem C15_chunk_type_letter_case :
  (forall b, bit5 b = negb (N.eqb (N.land (b2n b) 32) 0)) /\
  (forall b, is_alpha b = true -> bit5 b = is_lower b) /\
  (forall b, is_alpha b = true -> negb (bit5 b) = is_upper b).
Proof. exact (conj bit5_land (conj alpha_bit5_lower alpha_bit5_upper)). Qed.
Check C15_chunk_type_letter_case :
  (forall b, bit5 b = negb (N.eqb (N.land (b2n b) 32) 0)) /\
  (forall b, is_alpha b = true -> bit5 b = is_lower b) /\
  (forall b, is_alpha b = true -> negb (bit5 b) = is_upper b).
Print Assumptions C15_chunk_type_letter_case.

Theorem C15_chunk_type_private :
  forall ty, length ty = 4%nat ->
    (ty_private_check ty = 0 <->
     forallb is_alpha ty = true /\ ty_is_private ty = true /\ ty_is_reserved ty = false).
Proof. exact private_check_codes. Qed.
Check C15_chunk_type_private :
  forall ty, length ty = 4%nat ->
    (ty_private_check ty = 0 <->
     forallb is_alpha ty = true /\ ty_is_private ty = true /\ ty_is_reserved ty = false).
Print Assumptions C15_chunk_type_private.

(* ---- entry names (the FHED name field) ---------------------------------------------------------- *)
Theorem C15_name_idempotent :
  forall s, sanitize_name (sanitize_name s) = sanitize_name s.
Proof. exact sanitize_idem. Qed.
Check C15_name_idempotent :
  forall s, sanitize_name (sanitize_name s) = sanitize_name s.
Print Assumptions C15_name_idempotent.

Theorem C15_name_utf8_preserved :
  forall s, utf8_valid s = true -> utf8_valid (sanitize_name s) = true.
Proof. exact utf8_valid_sanitize. Qed.
Check C15_name_utf8_preserved :
  forall s, utf8_valid s = true -> utf8_valid (sanitize_name s) = true.
Print Assumptions C15_name_utf8_preserved.
