(* Props/C13.v — C13: pass-through is exact and unknown chunks survive every read-modify-write.
   Chunk level (this file, growing): reading a chunk and writing it again is the identity on bytes,
   whatever its type (known or unknown), and reading what was written is the identity on chunks. *)
From PNA Require Import Base Crc32 Codec Chunk Archive Entry BaseFacts ChunkFacts ArchiveFacts EntryFacts.
Open Scope N_scope.

Theorem C13_read_then_write_is_identity :
  forall bs c r, read_chunk_stream bs = Ok (c, r) -> wf_chunk c /\ bs = ser_chunk c ++ r.
Proof. exact read_chunk_ok_inv. Qed.
Print Assumptions C13_read_then_write_is_identity.

Theorem C13_write_then_read_is_identity :
  forall c, wf_chunk c -> forall rest, read_chunk_stream (ser_chunk c ++ rest) = Ok (c, rest).
Proof. exact read_chunk_ser. Qed.
Print Assumptions C13_write_then_read_is_identity.

(* ---- archive level: copying raw entries reproduces the archive byte for byte ----------------- *)
Theorem C13_raw_copy_exact :
  forall num es, num < 2 ^ 32 -> Forall wf_entry es ->
  exists got st, raw_entries read_chunk_stream (write_raw_archive num es) = Ok (got, FinOk, st) /\
                 write_raw_archive num got = write_raw_archive num es.
Proof. exact raw_copy_exact. Qed.
Print Assumptions C13_raw_copy_exact.

(* ---- entry level: for ALL chunk lists a foreign writer may produce (any order, unknown ancillary
   and private types, several data chunks, metadata before or after data, duplicated metadata):
   decode -> encode -> decode gives the same entry up to empty data chunks (normalize), every
   unknown chunk survives in order, and the bytes are stable from the second pass on *)
Theorem C13_parse_ser_meaning :
  forall cs e, parse_entry cs = Ok e ->
  exists e', parse_entry (ser_entry e) = Ok e' /\ e' = normalize_entry e.
Proof. exact parse_ser_entry. Qed.
Print Assumptions C13_parse_ser_meaning.

Theorem C13_ser_stable :
  forall cs e e', parse_entry cs = Ok e -> parse_entry (ser_entry e) = Ok e' -> ser_entry e' = ser_entry e.
Proof. exact ser_stable_entry. Qed.
Print Assumptions C13_ser_stable.

Theorem C13_extras_survive_normal :
  forall cs e e', parse_normal cs = Ok e -> parse_normal (ser_normal e) = Ok e' -> n_extra e' = n_extra e.
Proof. exact extras_survive. Qed.
Print Assumptions C13_extras_survive_normal.

Theorem C13_extras_survive_solid :
  forall cs e e', parse_solid cs = Ok e -> parse_solid (ser_solid e) = Ok e' ->
  so_extra e' = so_extra e /\ so_data e' = so_data e.
Proof. exact extras_survive_solid. Qed.
Print Assumptions C13_extras_survive_solid.

(* attribute replacement (what the CLI transforms use) touches nothing else *)
Theorem C13_with_metadata_frame :
  forall e m,
  m_raw_size (n_meta (with_metadata e m)) = m_raw_size (n_meta e) /\
  m_compressed (n_meta (with_metadata e m)) = m_compressed (n_meta e) /\
  n_data (with_metadata e m) = n_data e /\ n_hdr (with_metadata e m) = n_hdr e /\
  n_extra (with_metadata e m) = n_extra e /\ n_xattrs (with_metadata e m) = n_xattrs e /\
  n_phsf (with_metadata e m) = n_phsf e.
Proof. exact with_metadata_keeps_sizes. Qed.
Print Assumptions C13_with_metadata_frame.
