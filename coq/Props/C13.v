(* Props/C13.v — C13: pass-through is exact and unknown chunks survive every read-modify-write.
   Chunk level (this file, growing): reading a chunk and writing it again is the identity on bytes,
   whatever its type (known or unknown), and reading what was written is the identity on chunks. *)
From PNA Require Import Base Crc32 Chunk BaseFacts ChunkFacts.
Open Scope N_scope.

Theorem C13_read_then_write_is_identity :
  forall bs c r, read_chunk_stream bs = Ok (c, r) -> wf_chunk c /\ bs = ser_chunk c ++ r.
Proof. exact read_chunk_ok_inv. Qed.
Print Assumptions C13_read_then_write_is_identity.

Theorem C13_write_then_read_is_identity :
  forall c, wf_chunk c -> forall rest, read_chunk_stream (ser_chunk c ++ rest) = Ok (c, rest).
Proof. exact read_chunk_ser. Qed.
Print Assumptions C13_write_then_read_is_identity.
