(* Props/C09.v — C09: extraction never creates, modifies or links anything outside the output directory.

   Name half (full strength, every string): every EntryName constructor and the FHED parser go through
   sanitize_name (validated against all of them by the codec harness), whose result has only Normal
   components, no root, and is a fixed point; joined to the output directory it stays lexically inside.

   On-disk half, for the model of the REPAIRED extract_entry (Model/Extract.v, o_guarded = true) on the
   abstract file system of Model/Fs.v (symbolic-link resolution, hard-link aliasing):
     * C09_resolution_literal_(no)follow: resolving a path none of whose proper ancestors is a symbolic link ends
       at that literal path — the reason why the ancestor check of the repaired code is sufficient;
     * C09_extract_confined_partial: for EVERY archive of file and directory entries (any names, any
       metadata, with or without --overwrite / keep options) extracted into an output directory that is
       not reached through a link, holds no symbolic link and shares no inode with the outside, no path
       outside the output directory changes its observation, and the output directory stays a directory;
     * C09_unguarded_escapes_w1 / _w2: the code before the repairs, in the same model, escapes with the two
       recorded witnesses (file created through an extracted link; outside inode linked in), so the model
       of the file system is not vacuous; C09_guarded_refuses: the repaired code refuses both.
   NOT proved (partial): confinement for archives that contain symbolic-link or hard-link entries, and
   for output directories that already contain links.  The argument is the same (the ancestor check
   establishes the premise of C09_resolution_literal_(no)follow), but needs a tree-shape invariant of the name map
   threaded through every call; that part rests on the correspondence runs (crafted archives with every
   link kind, 300 / 8 000 extractions compared with the model's predicted set of changed paths).
   Outside the model: the kernel's actual path resolution, races with a concurrent writer. *)
From PNA Require Import Base Name Fs Extract ExtractRun BaseFacts NameFacts ExtractFacts.
Open Scope N_scope.

Theorem C09_sanitize_safe : forall s,
  let n := sanitize_name s in
  Forall normal_component (components n) /\ has_root n = false /\ sanitize_name n = n.
Proof. exact sanitize_safe. Qed.
Check C09_sanitize_safe : forall s,
  let n := sanitize_name s in
  Forall normal_component (components n) /\ has_root n = false /\ sanitize_name n = n.
Print Assumptions C09_sanitize_safe.

Theorem C09_sanitize_no_dotdot : forall s c, In c (components (sanitize_name s)) ->
  c <> [dot; dot] /\ c <> [dot] /\ c <> [] /\ ~ In slash c.
Proof. exact sanitize_no_dotdot. Qed.
Check C09_sanitize_no_dotdot : forall s c, In c (components (sanitize_name s)) ->
  c <> [dot; dot] /\ c <> [dot] /\ c <> [] /\ ~ In slash c.
Print Assumptions C09_sanitize_no_dotdot.

(* TryFrom<&[u8]> and the FHED parser: UTF-8 check, then the same sanitisation *)
Theorem C09_name_of_bytes_safe : forall s n, name_of_bytes s = Ok n ->
  utf8_valid n = true /\ sanitize_name n = n /\ n = sanitize_name s.
Proof. exact name_of_bytes_ok. Qed.
Check C09_name_of_bytes_safe : forall s n, name_of_bytes s = Ok n ->
  utf8_valid n = true /\ sanitize_name n = n /\ n = sanitize_name s.
Print Assumptions C09_name_of_bytes_safe.

Theorem C09_join_stays_inside : forall out s, lexically_under out (out ++ components (sanitize_name s)).
Proof. exact join_stays_inside. Qed.
Check C09_join_stays_inside : forall out s, lexically_under out (out ++ components (sanitize_name s)).
Print Assumptions C09_join_stays_inside.

(* the destination extract_entry computes is that join *)
Theorem C09_destination_is_join : forall s, name_comps s = components (sanitize_name s).
Proof. exact name_comps_components. Qed.
Print Assumptions C09_destination_is_join.

Theorem C09_resolution_literal_nofollow : forall fuel m comps cur c',
  guard_from m cur comps -> walk fuel m cur comps false = Some c' -> c' = cur ++ comps.
Proof. exact walk_guard_nofollow. Qed.
Check C09_resolution_literal_nofollow : forall fuel m comps cur c',
  guard_from m cur comps -> walk fuel m cur comps false = Some c' -> c' = cur ++ comps.
Print Assumptions C09_resolution_literal_nofollow.

Theorem C09_resolution_literal_follow : forall fuel m comps cur c',
  guard_from m cur comps -> (comps <> [] -> nolink m (cur ++ comps)) ->
  walk fuel m cur comps true = Some c' -> c' = cur ++ comps.
Proof. exact walk_guard_follow. Qed.
Print Assumptions C09_resolution_literal_follow.

Theorem C09_extract_confined_partial : forall out, Forall plain out -> out <> [] ->
  forall o arch f0, o_guarded o = true -> J out f0 -> Forall file_or_dir arch ->
  forall p, mutated f0 (extract_all o out arch f0) p -> under out p.
Proof. exact extract_confined_files_dirs. Qed.
Check C09_extract_confined_partial : forall out, Forall plain out -> out <> [] ->
  forall o arch f0, o_guarded o = true -> J out f0 -> Forall file_or_dir arch ->
  forall p, mutated f0 (extract_all o out arch f0) p -> under out p.
Print Assumptions C09_extract_confined_partial.

Theorem C09_out_dir_survives_partial : forall out, Forall plain out -> out <> [] ->
  forall o arch f0, o_guarded o = true -> J out f0 -> Forall file_or_dir arch ->
  exists md, nget (names (extract_all o out arch f0)) out = Some (DDir md).
Proof. exact extract_keeps_out_dir. Qed.
Print Assumptions C09_out_dir_survives_partial.

Theorem C09_unguarded_escapes_w1 :
  exists p, mutated w_fs0 (extract_all unguarded_opts w_out w1 w_fs0) p /\ ~ under w_out p.
Proof. exact unguarded_escapes_w1. Qed.
Print Assumptions C09_unguarded_escapes_w1.

Theorem C09_unguarded_escapes_w2 :
  exists p q i, under w_out p /\ ~ under w_out q /\
    nget (names (extract_all unguarded_opts w_out w2 w_fs0)) p = Some (DFile i) /\
    nget (names (extract_all unguarded_opts w_out w2 w_fs0)) q = Some (DFile i).
Proof. exact unguarded_escapes_w2. Qed.
Print Assumptions C09_unguarded_escapes_w2.

Theorem C09_guarded_refuses :
  (snd (extract_run guarded_opts w_out w1 w_fs0) = false /\
   observe (extract_all guarded_opts w_out w1 w_fs0) [lit "S"; lit "elsewhere"; lit "x"] = ONone) /\
  (snd (extract_run guarded_opts w_out w2 w_fs0) = false /\
   nget (names (extract_all guarded_opts w_out w2 w_fs0)) [lit "S"; lit "out"; lit "sub"; lit "hl"] = None).
Proof. exact (conj guarded_refuses_w1 guarded_refuses_w2). Qed.
Print Assumptions C09_guarded_refuses.

(* the premises of the confinement theorem are met by a concrete state and archive with hostile names *)
Theorem C09_premises_satisfiable :
  Forall plain w_out /\ w_out <> [] /\ J w_out w_fs0 /\ Forall file_or_dir w_file /\
  snd (extract_run guarded_opts w_out w_file w_fs0) = true /\
  observe (extract_all guarded_opts w_out w_file w_fs0) [lit "S"; lit "out"; lit "d"] = ODir 448.
Proof. exact confinement_premises. Qed.
Print Assumptions C09_premises_satisfiable.
