(* Props/C09.v — C09: extraction never creates, modifies, deletes or links anything outside the output directory.

   Name half (full strength, every string): every EntryName constructor and the FHED parser go through
   sanitize_name (validated against all of them by the codec harness), whose result has only Normal
   components, no root, and is a fixed point; joined to the output directory it stays lexically inside.

   On-disk half (full strength, every archive), for the model of the REPAIRED extract_entry (Model/Extract.v,
   o_guarded = true: fixes 97074278, 259caa04, ebe5bb91, 8d2298f1) on the abstract file system of Model/Fs.v
   (symbolic-link resolution in every component, hard-link aliasing through an inode table):
     * C09_extract_confined: for EVERY archive — file, directory, symbolic-link (any target: absolute, `..`,
       dangling, to directories) and hard-link entries (any stored source), in any order, names arbitrary byte
       strings, with or without --overwrite, with --keep-permission / --keep-timestamp / --keep-xattr — and for
       EVERY initial file system satisfying the four premises below, no path outside the output directory
       changes its observation (node kind, inode, content, mode, mtime, write stamp, xattrs, link target; so:
       nothing is created, changed, re-moded, or removed there).  The output directory may already contain
       symbolic links to anywhere (planted by an earlier entry, an earlier run, or anybody else) and hard
       links among its own files; entries beneath such links are refused, a link at the destination itself is
       replaced, never followed (also not by chmod: W3, nor by the extended attributes, which xattr::set puts on
       the object itself for entries of every kind: C09_xattr_not_through_link).
     * C09_hardlinks_stay_inside: after the extraction no inode has a name inside and a name outside the
       output directory (the W2 escape pulled an outside file IN); C09_hardlink_source_literal: the source the
       repaired code hands to link(2) resolves to its literal path below the output directory.
     * C09_check_sound: what ensure_no_symlink_ancestor establishes — the destination resolves (lstat) to its
       literal path — in every state satisfying the premises, whoever planted the links.
     * C09_extract_keeps_invariant, C09_out_dir_survives: the premises hold again afterwards (so repeated
       extractions are confined, too) and the output directory is still a directory.
     * Premises on the initial state, each one necessary in the model (C09_premises_needed gives, for each, a
       state violating only that one and an archive that escapes), all decidable (C09_invariant_decidable):
         dirchain   the output directory and every directory on the way to it are real directories (it is not
                    reached through a symbolic link — otherwise it IS somewhere else);
         tree_under below the output directory only directories have children (true of every real file system;
                    it is what makes "lstat fails" mean "nothing there" rather than "a link hidden below");
         sep        no file inside the output directory is hard-linked to a file outside it BEFORE the extraction
                    (File::create truncates an existing file in place, --overwrite would write through it);
         fresh      the inode allocator does not hand out a number in use.
     * C09_resolution_literal_(no)follow: the file-system lemma underneath — a path none of whose proper
       ancestors is a symbolic link resolves to itself.
     * C09_unguarded_escapes_w1 / _w2: the code before the repairs, in the same model, escapes with the two
       recorded witnesses, so the model is not vacuous; C09_guarded_refuses: the repaired code refuses both;
       C09_premises_satisfiable: a state with hostile pre-existing links satisfies the premises, a hostile
       archive (absolute and `..` names, a symbolic link with a mode, a link planted for later, a file over a
       dangling link, hard links) is extracted entirely below the output directory, and six archives that try
       to go through planted / pre-existing links or to link an outside file in are refused without a trace.
   Outside the model: the kernel's actual path resolution (validated by the differential runs of props/C09.py
   only), ownership (chown follows the same path as chmod in the code), ACLs, extended attributes of directories
   (set on the directory itself, not observed by the model), races with a concurrent writer
   between the check and the use (the check is not atomic with the call). *)
From PNA Require Import Base Name Fs Extract ExtractRun BaseFacts NameFacts ExtractFacts ConfineFacts.
Open Scope N_scope.

Theorem C09_sanitize_safe : forall s,
  let n := sanitize_name s in
  Forall normal_component (components n) /\ has_root n = false /\ sanitize_name n = n.
Proof. exact sanitize_safe. Qed.
Check C09_sanitize_safe : forall s,
  let n := sanitize_name s in
  Forall normal_component (components n) /\ has_root n = false /\ sanitize_name n = n.
Print Assumptions C09_sanitize_safe.

Theorem C09_sanitize_no_dotdot : forall s c, In c (components (sanitize_name s)) ->
  c <> [dot; dot] /\ c <> [dot] /\ c <> [] /\ ~ In slash c.
Proof. exact sanitize_no_dotdot. Qed.
Check C09_sanitize_no_dotdot : forall s c, In c (components (sanitize_name s)) ->
  c <> [dot; dot] /\ c <> [dot] /\ c <> [] /\ ~ In slash c.
Print Assumptions C09_sanitize_no_dotdot.

(* TryFrom<&[u8]> and the FHED parser: UTF-8 check, then the same sanitisation *)
Theorem C09_name_of_bytes_safe : forall s n, name_of_bytes s = Ok n ->
  utf8_valid n = true /\ sanitize_name n = n /\ n = sanitize_name s.
Proof. exact name_of_bytes_ok. Qed.
Check C09_name_of_bytes_safe : forall s n, name_of_bytes s = Ok n ->
  utf8_valid n = true /\ sanitize_name n = n /\ n = sanitize_name s.
Print Assumptions C09_name_of_bytes_safe.

Theorem C09_join_stays_inside : forall out s, lexically_under out (out ++ components (sanitize_name s)).
Proof. exact join_stays_inside. Qed.
Check C09_join_stays_inside : forall out s, lexically_under out (out ++ components (sanitize_name s)).
Print Assumptions C09_join_stays_inside.

(* the destination extract_entry computes is that join *)
Theorem C09_destination_is_join : forall s, name_comps s = components (sanitize_name s).
Proof. exact name_comps_components. Qed.
Print Assumptions C09_destination_is_join.

Theorem C09_resolution_literal_nofollow : forall fuel m comps cur c',
  guard_from m cur comps -> walk fuel m cur comps false = Some c' -> c' = cur ++ comps.
Proof. exact walk_guard_nofollow. Qed.
Check C09_resolution_literal_nofollow : forall fuel m comps cur c',
  guard_from m cur comps -> walk fuel m cur comps false = Some c' -> c' = cur ++ comps.
Print Assumptions C09_resolution_literal_nofollow.

Theorem C09_resolution_literal_follow : forall fuel m comps cur c',
  guard_from m cur comps -> (comps <> [] -> nolink m (cur ++ comps)) ->
  walk fuel m cur comps true = Some c' -> c' = cur ++ comps.
Proof. exact walk_guard_follow. Qed.
Print Assumptions C09_resolution_literal_follow.

Theorem C09_extract_confined : forall out, Forall plain out -> out <> [] ->
  forall o arch f0, o_guarded o = true ->
  dirchain out (names f0) -> tree_under out (names f0) -> sep out (names f0) -> fresh f0 ->
  forall p, mutated f0 (extract_all o out arch f0) p -> under out p.
Proof. exact extract_confined_explicit. Qed.
Check C09_extract_confined : forall out, Forall plain out -> out <> [] ->
  forall o arch f0, o_guarded o = true ->
  dirchain out (names f0) -> tree_under out (names f0) -> sep out (names f0) -> fresh f0 ->
  forall p, mutated f0 (extract_all o out arch f0) p -> under out p.
Print Assumptions C09_extract_confined.

Theorem C09_hardlinks_stay_inside : forall out, Forall plain out -> out <> [] ->
  forall o arch f0, o_guarded o = true ->
  dirchain out (names f0) -> tree_under out (names f0) -> sep out (names f0) -> fresh f0 ->
  forall p q i, nget (names (extract_all o out arch f0)) p = Some (DFile i) ->
                nget (names (extract_all o out arch f0)) q = Some (DFile i) -> under out p -> under out q.
Proof. exact hardlinks_stay_inside_explicit. Qed.
Check C09_hardlinks_stay_inside : forall out, Forall plain out -> out <> [] ->
  forall o arch f0, o_guarded o = true ->
  dirchain out (names f0) -> tree_under out (names f0) -> sep out (names f0) -> fresh f0 ->
  forall p q i, nget (names (extract_all o out arch f0)) p = Some (DFile i) ->
                nget (names (extract_all o out arch f0)) q = Some (DFile i) -> under out p -> under out q.
Print Assumptions C09_hardlinks_stay_inside.

(* the source of the link(2) call: resolved lexically (resolve_link_source), checked like the destination,
   and still literal after the removals --overwrite performs between the check and the call *)
Theorem C09_hardlink_source_literal : forall out, Forall plain out ->
  forall f comps src s, Inv out f -> Forall plain comps ->
  link_source comps src = Some s -> no_link_anc f out s = true ->
  forall f', keeps f f' -> forall c, resolve f' (out ++ s) false = Some c -> c = out ++ s.
Proof. exact hardlink_source_literal. Qed.
Check C09_hardlink_source_literal : forall out, Forall plain out ->
  forall f comps src s, Inv out f -> Forall plain comps ->
  link_source comps src = Some s -> no_link_anc f out s = true ->
  forall f', keeps f f' -> forall c, resolve f' (out ++ s) false = Some c -> c = out ++ s.
Print Assumptions C09_hardlink_source_literal.

Theorem C09_check_sound : forall out, Forall plain out ->
  forall f comps c, Inv out f -> Forall plain comps -> no_link_anc f out comps = true ->
  resolve f (out ++ comps) false = Some c -> c = out ++ comps.
Proof. exact check_sound. Qed.
Check C09_check_sound : forall out, Forall plain out ->
  forall f comps c, Inv out f -> Forall plain comps -> no_link_anc f out comps = true ->
  resolve f (out ++ comps) false = Some c -> c = out ++ comps.
Print Assumptions C09_check_sound.

Theorem C09_extract_keeps_invariant : forall out, Forall plain out -> out <> [] ->
  forall o arch f0, o_guarded o = true -> Inv out f0 -> Inv out (extract_all o out arch f0).
Proof. exact extract_keeps_inv. Qed.
Check C09_extract_keeps_invariant : forall out, Forall plain out -> out <> [] ->
  forall o arch f0, o_guarded o = true -> Inv out f0 -> Inv out (extract_all o out arch f0).
Print Assumptions C09_extract_keeps_invariant.

Theorem C09_out_dir_survives : forall out, Forall plain out -> out <> [] ->
  forall o arch f0, o_guarded o = true -> Inv out f0 ->
  exists md, nget (names (extract_all o out arch f0)) out = Some (DDir md).
Proof. exact out_dir_survives. Qed.
Check C09_out_dir_survives : forall out, Forall plain out -> out <> [] ->
  forall o arch f0, o_guarded o = true -> Inv out f0 ->
  exists md, nget (names (extract_all o out arch f0)) out = Some (DDir md).
Print Assumptions C09_out_dir_survives.

(* Inv out f is exactly the conjunction of the four premises, and a boolean function decides it *)
Theorem C09_invariant_decidable : forall out f, invb out f = true ->
  (dirchain out (names f) /\ tree_under out (names f) /\ sep out (names f)) /\ fresh f.
Proof. exact invb_sound. Qed.
Check C09_invariant_decidable : forall out f, invb out f = true -> Inv out f.
Print Assumptions C09_invariant_decidable.

(* each premise is needed: a state violating only that one (the other three checked), and an escaping archive *)
Theorem C09_premises_needed :
  ((dirchainb w_out (names fs_shared) && tree_underb w_out (names fs_shared) && freshb fs_shared)%bool = true /\
   escapes over_opts [ mk_xentry (lit "f") 0 (lit "new") None None [] ] fs_shared) /\
  ((dirchainb w_out (names fs_not_tree) && sepb w_out (names fs_not_tree) && freshb fs_not_tree)%bool = true /\
   escapes guarded_opts [ mk_xentry (lit "a/b/x") 0 (lit "pwn") None None [] ] fs_not_tree) /\
  ((dirchainb w_out (names fs_stale_next) && tree_underb w_out (names fs_stale_next) && sepb w_out (names fs_stale_next))%bool = true /\
   escapes guarded_opts [ mk_xentry (lit "new") 0 (lit "pwn") None None [] ] fs_stale_next) /\
  ((tree_underb w_out (names fs_out_is_link) && sepb w_out (names fs_out_is_link) && freshb fs_out_is_link)%bool = true /\
   escapes guarded_opts [ mk_xentry (lit "x") 0 (lit "data") None None [] ] fs_out_is_link).
Proof. exact (conj sep_needed (conj tree_needed (conj fresh_needed dirchain_needed))). Qed.
Print Assumptions C09_premises_needed.

Theorem C09_unguarded_escapes_w1 :
  exists p, mutated w_fs0 (extract_all unguarded_opts w_out w1 w_fs0) p /\ ~ under w_out p.
Proof. exact unguarded_escapes_w1. Qed.
Print Assumptions C09_unguarded_escapes_w1.

Theorem C09_unguarded_escapes_w2 :
  exists p q i, under w_out p /\ ~ under w_out q /\
    nget (names (extract_all unguarded_opts w_out w2 w_fs0)) p = Some (DFile i) /\
    nget (names (extract_all unguarded_opts w_out w2 w_fs0)) q = Some (DFile i).
Proof. exact unguarded_escapes_w2. Qed.
Print Assumptions C09_unguarded_escapes_w2.

Theorem C09_guarded_refuses :
  (snd (extract_run guarded_opts w_out w1 w_fs0) = false /\
   observe (extract_all guarded_opts w_out w1 w_fs0) [lit "S"; lit "elsewhere"; lit "x"] = ONone) /\
  (snd (extract_run guarded_opts w_out w2 w_fs0) = false /\
   nget (names (extract_all guarded_opts w_out w2 w_fs0)) [lit "S"; lit "out"; lit "sub"; lit "hl"] = None).
Proof. exact (conj guarded_refuses_w1 guarded_refuses_w2). Qed.
Print Assumptions C09_guarded_refuses.

(* --keep-xattr on a symbolic-link entry carrying user.* attributes: lsetxattr fails (EPERM) on the link that was
   just made, nothing it points to is touched *)
Theorem C09_xattr_not_through_link :
  snd (extract_run over_opts w_out w_xattr_link w_fs1) = false /\
  observe (extract_all over_opts w_out w_xattr_link w_fs1) [lit "S"; lit "out"; lit "lx"] = OLink (lit "../elsewhere/victim") /\
  observe (extract_all over_opts w_out w_xattr_link w_fs1) [lit "S"; lit "elsewhere"; lit "victim"]
    = observe w_fs1 [lit "S"; lit "elsewhere"; lit "victim"].
Proof. exact xattr_not_through_link. Qed.
Print Assumptions C09_xattr_not_through_link.

(* the premises of the confinement theorems are met by a state whose output directory already holds links to
   the outside, and by hostile archives: one accepted (everything lands below out), six refused without a trace *)
Theorem C09_premises_satisfiable :
  Forall plain w_out /\ w_out <> [] /\ o_guarded over_opts = true /\ Inv w_out w_fs1 /\
  snd (extract_run over_opts w_out w_hostile_ok w_fs1) = true /\
  (exists i n, observe (extract_all over_opts w_out w_hostile_ok w_fs1) [lit "S"; lit "out"; lit "x"] = OFile i n /\
               nget (names (extract_all over_opts w_out w_hostile_ok w_fs1)) [lit "S"; lit "out"; lit "sub"; lit "hl"] = Some (DFile i)) /\
  observe (extract_all over_opts w_out w_hostile_ok w_fs1) [lit "S"; lit "out"; lit "l"] = OLink (lit "../elsewhere/victim") /\
  observe (extract_all over_opts w_out w_hostile_ok w_fs1) [lit "S"; lit "out"; lit "prefl"] = ODir 448 /\
  (exists i n, observe (extract_all over_opts w_out w_hostile_ok w_fs1) [lit "S"; lit "out"; lit "predang"] = OFile i n) /\
  observe (extract_all over_opts w_out w_hostile_ok w_fs1) [lit "S"; lit "elsewhere"; lit "victim"]
    = observe w_fs1 [lit "S"; lit "elsewhere"; lit "victim"] /\
  forallb (fun a => refused over_opts a && refused guarded_opts a)
    [ w_beneath_planted; w_beneath_pre; w_beneath_pre2; w_hl_dotdot; w_hl_abs; w_hl_through ] = true.
Proof. exact confinement_premises_full. Qed.
Print Assumptions C09_premises_satisfiable.
