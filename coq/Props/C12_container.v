(* Props/C12_container.v — C12 ("a command that fails part-way leaves the archive intact") tied to the commands as they
   exist at BYTE level.  Props/C12.v proves atomicity on effect scripts over files with abstract content
   (Model/Update.v part 2); here the files hold bytes and the commands are the byte-level functions of the C11
   container round: append_at (Proofs/AppendContainerFacts.v), delete and the other run_transform_entry commands
   = WfTransformFacts.run_edit, update = UpdateContainerFacts.update_bytes.  Proofs in Proofs/AtomicContainerFacts.v.

   Vocabulary (Proofs/AtomicContainerFacts.v):
     bfs, bfile, bput, bremove       a file system path -> bytes
     beff, bapply, brun              effects: BCreate (File::create), BWrite (write at the end), BPatch (write in place,
                                     ArchiveRun.overwrite: never truncates), BMv (rename)
     rewrite_cmd f partial tmp target fs   cli/src/command/commons.rs run_transform_entry around the byte-level command
                                     f : bytes -> res bytes: create tmp (= TMPDIR/<random>.pna.tmp, before the input
                                     is opened); f (bytes at target) = Ok out: write out to tmp, rename tmp over
                                     target; Err / Panic / no input: the command returns IN FRONT OF the rename, tmp
                                     holds `partial` (what had been written so far: any bytes).  Result: (fs', outcome).
     append_cmd built target fs      append.rs after fix db651618: read_header and seek_to_end (append_pos), then every
                                     new entry is built (`built`: Ok of their chunk lists, or the first error), only
                                     then one in-place write of the entries and the end marker = append_at.
     rewrites c nf                   the run_edit command really rewrites (not chmod/chown/xattr/acl without pattern)
     refines L fs afs p              bfile fs p = Some b, Update.file afs p = Some (mkF a true), L b = Ok a:
                                     Model/Update.v's `mkF a true` read as "accepted bytes that abstract to a"
     tr_delete matched               delete as a transformer of Update.rewrite_script
   What a failing rewriting command leaves behind: the temporary file.  The CLI does not remove it; it is the only
   path that may differ (C12_container_rewrite_fail), props/C12.py observes and reports it.
   Outside: a failure of the rename itself, crashes between two writes of the in-place append (the single BPatch
   stands for add_entry* + finalize, which cannot fail in the model), multipart append (append_parts: the same
   argument per part file, not restated here). *)
From PNA Require Import Base Crc32 Name Codec Chunk Archive Entry Flatten Cbc Ctr Pipeline Aes Camellia
  BaseFacts NameFacts CodecFacts Crc32Facts ChunkFacts ArchiveFacts EntryFacts OffsetFacts PartsFacts
  CbcFacts PipelineFacts AesFacts CamelliaFacts.
From PNA Require Import Fs Extract CreateTransportFacts AppendContainerFacts.
From PNA Require Import Wf WfFacts WfWriterFacts WfAgreeFacts WfRewriteFacts WfPipelineFacts WfTransformFacts RecutFacts
  UpdateContainerFacts DecodeTotalFacts AtomicContainerFacts.
From PNA Require Update UpdateFacts ArchiveRun Transform.
Open Scope N_scope.

(* ---- 1. the two patterns --------------------------------------------------------------------------------------- *)
(* rewrite, FAILURE — whatever f is and for whatever reason it does not return Ok (a solid block that cannot be
   opened, an entry the reader rejects, an input that cannot be built, no archive at the target): the target holds
   the bytes it held, so does every path other than the temporary file, and the temporary file remains *)
Theorem C12_container_rewrite_fail :
  forall (f : bytes -> res bytes) (partial tmp target : bytes) (fs : bfs), tmp <> target ->
  snd (rewrite_cmd f partial tmp target fs) <> Ok tt ->
  bfile (fst (rewrite_cmd f partial tmp target fs)) target = bfile fs target /\
  (forall q, q <> tmp -> bfile (fst (rewrite_cmd f partial tmp target fs)) q = bfile fs q) /\
  bfile (fst (rewrite_cmd f partial tmp target fs)) tmp = Some partial.
Proof. exact rewrite_fail. Qed.
Check C12_container_rewrite_fail :
  forall (f : bytes -> res bytes) (partial tmp target : bytes) (fs : bfs), tmp <> target ->
  snd (rewrite_cmd f partial tmp target fs) <> Ok tt ->
  bfile (fst (rewrite_cmd f partial tmp target fs)) target = bfile fs target /\
  (forall q, q <> tmp -> bfile (fst (rewrite_cmd f partial tmp target fs)) q = bfile fs q) /\
  bfile (fst (rewrite_cmd f partial tmp target fs)) tmp = Some partial.
Print Assumptions C12_container_rewrite_fail.

(* rewrite, SUCCESS: the target holds exactly the output of f, the temporary file is gone, nothing else changed *)
Theorem C12_container_rewrite_ok :
  forall (f : bytes -> res bytes) (partial tmp target : bytes) (fs : bfs) (b out : bytes), tmp <> target ->
  bfile fs target = Some b -> f b = Ok out ->
  snd (rewrite_cmd f partial tmp target fs) = Ok tt /\
  bfile (fst (rewrite_cmd f partial tmp target fs)) target = Some out /\
  bfile (fst (rewrite_cmd f partial tmp target fs)) tmp = None /\
  (forall q, q <> tmp -> q <> target -> bfile (fst (rewrite_cmd f partial tmp target fs)) q = bfile fs q).
Proof. exact rewrite_ok. Qed.
Check C12_container_rewrite_ok :
  forall (f : bytes -> res bytes) (partial tmp target : bytes) (fs : bfs) (b out : bytes), tmp <> target ->
  bfile fs target = Some b -> f b = Ok out ->
  snd (rewrite_cmd f partial tmp target fs) = Ok tt /\
  bfile (fst (rewrite_cmd f partial tmp target fs)) target = Some out /\
  bfile (fst (rewrite_cmd f partial tmp target fs)) tmp = None /\
  (forall q, q <> tmp -> q <> target -> bfile (fst (rewrite_cmd f partial tmp target fs)) q = bfile fs q).
Print Assumptions C12_container_rewrite_ok.

(* append, FAILURE (no archive, unreadable header, no end marker, an input that cannot be built): the WHOLE file
   system is as it was *)
Theorem C12_container_append_fail :
  forall (built : res (list (list chunk))) (target : bytes) (fs : bfs),
  (forall nxt, snd (append_cmd built target fs) <> Ok nxt) -> fst (append_cmd built target fs) = fs.
Proof. exact append_fail. Qed.
Check C12_container_append_fail :
  forall (built : res (list (list chunk))) (target : bytes) (fs : bfs),
  (forall nxt, snd (append_cmd built target fs) <> Ok nxt) -> fst (append_cmd built target fs) = fs.
Print Assumptions C12_container_append_fail.

(* append, SUCCESS: the target holds exactly what append_at (the operation of the C11_container theorems) computes *)
Theorem C12_container_append_ok :
  forall (built : res (list (list chunk))) (target : bytes) (fs : bfs) (nxt : bool),
  snd (append_cmd built target fs) = Ok nxt ->
  exists b news b', bfile fs target = Some b /\ built = Ok news /\ append_at b news = Ok (b', nxt) /\
    bfile (fst (append_cmd built target fs)) target = Some b' /\
    forall q, q <> target -> bfile (fst (append_cmd built target fs)) q = bfile fs q.
Proof. exact append_ok. Qed.
Check C12_container_append_ok :
  forall (built : res (list (list chunk))) (target : bytes) (fs : bfs) (nxt : bool),
  snd (append_cmd built target fs) = Ok nxt ->
  exists b news b', bfile fs target = Some b /\ built = Ok news /\ append_at b news = Ok (b', nxt) /\
    bfile (fst (append_cmd built target fs)) target = Some b' /\
    forall q, q <> target -> bfile (fst (append_cmd built target fs)) q = bfile fs q.
Print Assumptions C12_container_append_ok.

(* ... and it reads back as C11_append_container says: on ANY file whose raw entries read to the end marker with
   no open entry, the append succeeds, the bytes in front of the old end marker are unchanged, and both readers
   deliver the old raw entries followed by the new ones *)
Theorem C12_container_append_reads_back :
  forall (news : list (list chunk)) (target : bytes) (fs : bfs) (b : bytes) (es : list (list chunk)) (s : rstate),
  bfile fs target = Some b -> raw_entries rds b = Ok (es, FinOk, s) -> r_buf s = [] -> Forall wf_entry news ->
  exists b' pos s',
    snd (append_cmd (Ok news) target fs) = Ok (r_next s) /\
    bfile (fst (append_cmd (Ok news) target fs)) target = Some b' /\
    (forall q, q <> target -> bfile (fst (append_cmd (Ok news) target fs)) q = bfile fs q) /\
    firstn pos b' = firstn pos b /\ (pos + 12 <= length b)%nat /\
    raw_entries rds b' = Ok (es ++ news, FinOk, s') /\ raw_entries read_chunk_slice b' = Ok (es ++ news, FinOk, s') /\
    r_buf s' = [] /\ r_next s' = r_next s.
Proof. exact append_ok_reads_back. Qed.
Check C12_container_append_reads_back :
  forall (news : list (list chunk)) (target : bytes) (fs : bfs) (b : bytes) (es : list (list chunk)) (s : rstate),
  bfile fs target = Some b -> raw_entries rds b = Ok (es, FinOk, s) -> r_buf s = [] -> Forall wf_entry news ->
  exists b' pos s',
    snd (append_cmd (Ok news) target fs) = Ok (r_next s) /\
    bfile (fst (append_cmd (Ok news) target fs)) target = Some b' /\
    (forall q, q <> target -> bfile (fst (append_cmd (Ok news) target fs)) q = bfile fs q) /\
    firstn pos b' = firstn pos b /\ (pos + 12 <= length b)%nat /\
    raw_entries rds b' = Ok (es ++ news, FinOk, s') /\ raw_entries read_chunk_slice b' = Ok (es ++ news, FinOk, s') /\
    r_buf s' = [] /\ r_next s' = r_next s.
Print Assumptions C12_container_append_reads_back.

(* ---- 2. solid blocks and the password (fix 66ed01cc, DESIGN 14.9) ---------------------------------------------- *)
(* a rewriting run_edit command (delete, chmod, chown, xattr, acl, strip, migrate; either solid strategy; ANY ciphers,
   decompressor, KDF, password) that returns Ok has, for EVERY solid block of its input, decoded the block's stream
   to a byte string that is a sequence of well-formed chunks (C07_solid_clean_end_certifies_stream) *)
Theorem C12_container_success_certifies_blocks :
  forall (E D : encryption -> bytes -> bytes -> bytes) (decompress : compression -> bytes -> res bytes)
    (verify : bytes -> bytes -> res bytes) (pw : bytes) (srb : solid_entry -> list N)
    (rebuild : solid_entry -> list normal_entry -> solid_entry) (hdr_tok content_tok : normal_entry -> bytes)
    (keep pwb : bool) (c : Transform.cmd) (nf : N) (sl : bytes -> bool) (b b' : bytes) (es : list read_entry),
  rewrites c nf -> read_archive b = Ok es ->
  run_edit hdr_tok content_tok (expand_p E D decompress verify pw srb) rebuild keep pwb c nf sl b = Ok b' ->
  forall s, In (RSolid s) es ->
  exists st cs, decode_stream E D decompress verify (s_comp (so_hdr s)) (s_enc (so_hdr s)) (s_mode (so_hdr s))
                  (so_phsf s) pw (so_data s) (srb s) = Ok st /\ st = ser_chunks cs /\ Forall ChunkFacts.wf_chunk cs.
Proof. exact delete_ok_certifies_blocks. Qed.
Check C12_container_success_certifies_blocks :
  forall (E D : encryption -> bytes -> bytes -> bytes) (decompress : compression -> bytes -> res bytes)
    (verify : bytes -> bytes -> res bytes) (pw : bytes) (srb : solid_entry -> list N)
    (rebuild : solid_entry -> list normal_entry -> solid_entry) (hdr_tok content_tok : normal_entry -> bytes)
    (keep pwb : bool) (c : Transform.cmd) (nf : N) (sl : bytes -> bool) (b b' : bytes) (es : list read_entry),
  rewrites c nf -> read_archive b = Ok es ->
  run_edit hdr_tok content_tok (expand_p E D decompress verify pw srb) rebuild keep pwb c nf sl b = Ok b' ->
  forall s, In (RSolid s) es ->
  exists st cs, decode_stream E D decompress verify (s_comp (so_hdr s)) (s_enc (so_hdr s)) (s_mode (so_hdr s))
                  (so_phsf s) pw (so_data s) (srb s) = Ok st /\ st = ser_chunks cs /\ Forall ChunkFacts.wf_chunk cs.
Print Assumptions C12_container_success_certifies_blocks.

Theorem C12_container_update_success_certifies_blocks :
  forall (E D : encryption -> bytes -> bytes -> bytes) (decompress : compression -> bytes -> res bytes)
    (verify : bytes -> bytes -> res bytes) (pw : bytes) (srb : solid_entry -> list N)
    (rebuild : solid_entry -> list normal_entry -> solid_entry) (keep pwb : bool)
    (excl : list bytes) (cond : N) (targets : list Update.node) (news : list (list chunk)) (b b' : bytes)
    (es : list read_entry),
  read_archive b = Ok es ->
  update_bytes (expand_p E D decompress verify pw srb) rebuild keep pwb excl cond targets news b = Ok b' ->
  forall s, In (RSolid s) es ->
  exists st cs, decode_stream E D decompress verify (s_comp (so_hdr s)) (s_enc (so_hdr s)) (s_mode (so_hdr s))
                  (so_phsf s) pw (so_data s) (srb s) = Ok st /\ st = ser_chunks cs /\ Forall ChunkFacts.wf_chunk cs.
Proof. exact update_ok_certifies_blocks. Qed.
Check C12_container_update_success_certifies_blocks :
  forall (E D : encryption -> bytes -> bytes -> bytes) (decompress : compression -> bytes -> res bytes)
    (verify : bytes -> bytes -> res bytes) (pw : bytes) (srb : solid_entry -> list N)
    (rebuild : solid_entry -> list normal_entry -> solid_entry) (keep pwb : bool)
    (excl : list bytes) (cond : N) (targets : list Update.node) (news : list (list chunk)) (b b' : bytes)
    (es : list read_entry),
  read_archive b = Ok es ->
  update_bytes (expand_p E D decompress verify pw srb) rebuild keep pwb excl cond targets news b = Ok b' ->
  forall s, In (RSolid s) es ->
  exists st cs, decode_stream E D decompress verify (s_comp (so_hdr s)) (s_enc (so_hdr s)) (s_mode (so_hdr s))
                  (so_phsf s) pw (so_data s) (srb s) = Ok st /\ st = ser_chunks cs /\ Forall ChunkFacts.wf_chunk cs.
Print Assumptions C12_container_update_success_certifies_blocks.

(* THE COROLLARY.  The archive at `target` holds a solid block s; a rewriting command is run with password pw (ANY
   password: the right one, a wrong one; for a stored CTR block the cipher reader cannot fail and a wrong key gives
   garbage).  EITHER what pw makes of the block's stream is, byte for byte, a sequence of well-formed chunks with
   matching CRCs (the right password — or garbage that happens to be such a sequence), OR the command fails, the
   archive's bytes are untouched, so is every other path except the temporary file, which remains *)
Theorem C12_container_wrong_password_leaves_file :
  forall (E D : encryption -> bytes -> bytes -> bytes) (decompress : compression -> bytes -> res bytes)
    (verify : bytes -> bytes -> res bytes) (pw : bytes) (srb : solid_entry -> list N)
    (rebuild : solid_entry -> list normal_entry -> solid_entry) (hdr_tok content_tok : normal_entry -> bytes)
    (keep pwb : bool) (c : Transform.cmd) (nf : N) (sl : bytes -> bool) (partial tmp target : bytes) (fs : bfs)
    (b : bytes) (es : list read_entry) (s : solid_entry),
  tmp <> target -> bfile fs target = Some b -> read_archive b = Ok es -> In (RSolid s) es -> rewrites c nf ->
  let r := rewrite_cmd (run_edit hdr_tok content_tok (expand_p E D decompress verify pw srb) rebuild keep pwb c nf sl)
                       partial tmp target fs in
  (exists st cs, decode_stream E D decompress verify (s_comp (so_hdr s)) (s_enc (so_hdr s)) (s_mode (so_hdr s))
                   (so_phsf s) pw (so_data s) (srb s) = Ok st /\ st = ser_chunks cs /\ Forall ChunkFacts.wf_chunk cs) \/
  (snd r <> Ok tt /\ bfile (fst r) target = Some b /\ (forall q, q <> tmp -> bfile (fst r) q = bfile fs q) /\
   bfile (fst r) tmp = Some partial).
Proof. exact wrong_password_leaves_file. Qed.
Check C12_container_wrong_password_leaves_file :
  forall (E D : encryption -> bytes -> bytes -> bytes) (decompress : compression -> bytes -> res bytes)
    (verify : bytes -> bytes -> res bytes) (pw : bytes) (srb : solid_entry -> list N)
    (rebuild : solid_entry -> list normal_entry -> solid_entry) (hdr_tok content_tok : normal_entry -> bytes)
    (keep pwb : bool) (c : Transform.cmd) (nf : N) (sl : bytes -> bool) (partial tmp target : bytes) (fs : bfs)
    (b : bytes) (es : list read_entry) (s : solid_entry),
  tmp <> target -> bfile fs target = Some b -> read_archive b = Ok es -> In (RSolid s) es -> rewrites c nf ->
  let r := rewrite_cmd (run_edit hdr_tok content_tok (expand_p E D decompress verify pw srb) rebuild keep pwb c nf sl)
                       partial tmp target fs in
  (exists st cs, decode_stream E D decompress verify (s_comp (so_hdr s)) (s_enc (so_hdr s)) (s_mode (so_hdr s))
                   (so_phsf s) pw (so_data s) (srb s) = Ok st /\ st = ser_chunks cs /\ Forall ChunkFacts.wf_chunk cs) \/
  (snd r <> Ok tt /\ bfile (fst r) target = Some b /\ (forall q, q <> tmp -> bfile (fst r) q = bfile fs q) /\
   bfile (fst r) tmp = Some partial).
Print Assumptions C12_container_wrong_password_leaves_file.

Theorem C12_container_wrong_password_leaves_file_update :
  forall (E D : encryption -> bytes -> bytes -> bytes) (decompress : compression -> bytes -> res bytes)
    (verify : bytes -> bytes -> res bytes) (pw : bytes) (srb : solid_entry -> list N)
    (rebuild : solid_entry -> list normal_entry -> solid_entry) (keep pwb : bool)
    (excl : list bytes) (cond : N) (targets : list Update.node) (news : list (list chunk))
    (partial tmp target : bytes) (fs : bfs) (b : bytes) (es : list read_entry) (s : solid_entry),
  tmp <> target -> bfile fs target = Some b -> read_archive b = Ok es -> In (RSolid s) es ->
  let r := rewrite_cmd (update_bytes (expand_p E D decompress verify pw srb) rebuild keep pwb excl cond targets news)
                       partial tmp target fs in
  (exists st cs, decode_stream E D decompress verify (s_comp (so_hdr s)) (s_enc (so_hdr s)) (s_mode (so_hdr s))
                   (so_phsf s) pw (so_data s) (srb s) = Ok st /\ st = ser_chunks cs /\ Forall ChunkFacts.wf_chunk cs) \/
  (snd r <> Ok tt /\ bfile (fst r) target = Some b /\ (forall q, q <> tmp -> bfile (fst r) q = bfile fs q) /\
   bfile (fst r) tmp = Some partial).
Proof. exact wrong_password_leaves_file_update. Qed.
Check C12_container_wrong_password_leaves_file_update :
  forall (E D : encryption -> bytes -> bytes -> bytes) (decompress : compression -> bytes -> res bytes)
    (verify : bytes -> bytes -> res bytes) (pw : bytes) (srb : solid_entry -> list N)
    (rebuild : solid_entry -> list normal_entry -> solid_entry) (keep pwb : bool)
    (excl : list bytes) (cond : N) (targets : list Update.node) (news : list (list chunk))
    (partial tmp target : bytes) (fs : bfs) (b : bytes) (es : list read_entry) (s : solid_entry),
  tmp <> target -> bfile fs target = Some b -> read_archive b = Ok es -> In (RSolid s) es ->
  let r := rewrite_cmd (update_bytes (expand_p E D decompress verify pw srb) rebuild keep pwb excl cond targets news)
                       partial tmp target fs in
  (exists st cs, decode_stream E D decompress verify (s_comp (so_hdr s)) (s_enc (so_hdr s)) (s_mode (so_hdr s))
                   (so_phsf s) pw (so_data s) (srb s) = Ok st /\ st = ser_chunks cs /\ Forall ChunkFacts.wf_chunk cs) \/
  (snd r <> Ok tt /\ bfile (fst r) target = Some b /\ (forall q, q <> tmp -> bfile (fst r) q = bfile fs q) /\
   bfile (fst r) tmp = Some partial).
Print Assumptions C12_container_wrong_password_leaves_file_update.

(* ---- 3. the effect scripts of Props/C12.v and the byte level, side by side --------------------------------------- *)
(* a failing run on each level — ANY failure of the byte-level command, ANY failing item of the script: the target
   is related as before (L: any abstraction function) *)
Theorem C12_container_fail_refines_rewrite :
  forall (L : bytes -> res Update.archive) (f : bytes -> res bytes) (partial tmp atmp target : bytes) (fs : bfs)
    (afs : Update.fsys) (tr : Update.entry -> option Update.entry) (a : Update.archive) (k : nat),
  tmp <> target -> atmp <> target -> refines L fs afs target ->
  snd (rewrite_cmd f partial tmp target fs) <> Ok tt ->
  Update.fails_at (Update.rewrite_script atmp target tr a) k ->
  refines L (fst (rewrite_cmd f partial tmp target fs))
            (Update.run_failing (Update.rewrite_script atmp target tr a) afs k) target.
Proof. exact fail_refines_rewrite. Qed.
Check C12_container_fail_refines_rewrite :
  forall (L : bytes -> res Update.archive) (f : bytes -> res bytes) (partial tmp atmp target : bytes) (fs : bfs)
    (afs : Update.fsys) (tr : Update.entry -> option Update.entry) (a : Update.archive) (k : nat),
  tmp <> target -> atmp <> target -> refines L fs afs target ->
  snd (rewrite_cmd f partial tmp target fs) <> Ok tt ->
  Update.fails_at (Update.rewrite_script atmp target tr a) k ->
  refines L (fst (rewrite_cmd f partial tmp target fs))
            (Update.run_failing (Update.rewrite_script atmp target tr a) afs k) target.
Print Assumptions C12_container_fail_refines_rewrite.

Theorem C12_container_fail_refines_update :
  forall (L : bytes -> res Update.archive) (f : bytes -> res bytes) (partial tmp atmp target : bytes) (fs : bfs)
    (afs : Update.fsys) (a : Update.archive) (kept : list bool) (new : list Update.entry) (k : nat),
  tmp <> target -> atmp <> target -> refines L fs afs target ->
  snd (rewrite_cmd f partial tmp target fs) <> Ok tt ->
  Update.fails_at (Update.update_script atmp target a kept new) k ->
  refines L (fst (rewrite_cmd f partial tmp target fs))
            (Update.run_failing (Update.update_script atmp target a kept new) afs k) target.
Proof. exact fail_refines_update. Qed.
Check C12_container_fail_refines_update :
  forall (L : bytes -> res Update.archive) (f : bytes -> res bytes) (partial tmp atmp target : bytes) (fs : bfs)
    (afs : Update.fsys) (a : Update.archive) (kept : list bool) (new : list Update.entry) (k : nat),
  tmp <> target -> atmp <> target -> refines L fs afs target ->
  snd (rewrite_cmd f partial tmp target fs) <> Ok tt ->
  Update.fails_at (Update.update_script atmp target a kept new) k ->
  refines L (fst (rewrite_cmd f partial tmp target fs))
            (Update.run_failing (Update.update_script atmp target a kept new) afs k) target.
Print Assumptions C12_container_fail_refines_update.

Theorem C12_container_fail_refines_append :
  forall (L : bytes -> res Update.archive) (built : res (list (list chunk))) (target : bytes) (fs : bfs)
    (afs : Update.fsys) (new : list Update.entry) (k : nat),
  refines L fs afs target ->
  (forall nxt, snd (append_cmd built target fs) <> Ok nxt) ->
  Update.fails_at (Update.append_script target new) k ->
  fst (append_cmd built target fs) = fs /\ Update.run_failing (Update.append_script target new) afs k = afs /\
  refines L (fst (append_cmd built target fs)) (Update.run_failing (Update.append_script target new) afs k) target.
Proof. exact fail_refines_append. Qed.
Check C12_container_fail_refines_append :
  forall (L : bytes -> res Update.archive) (built : res (list (list chunk))) (target : bytes) (fs : bfs)
    (afs : Update.fsys) (new : list Update.entry) (k : nat),
  refines L fs afs target ->
  (forall nxt, snd (append_cmd built target fs) <> Ok nxt) ->
  Update.fails_at (Update.append_script target new) k ->
  fst (append_cmd built target fs) = fs /\ Update.run_failing (Update.append_script target new) afs k = afs /\
  refines L (fst (append_cmd built target fs)) (Update.run_failing (Update.append_script target new) afs k) target.
Print Assumptions C12_container_fail_refines_append.

(* successful runs end in related states; L = AppendContainerFacts.logical (entries() to the end marker, every entry
   decoded with the password, solid blocks expanded): the premises are those of the C11 container theorems
   (delete_solid_abs, append_container_abs, update_container) *)
Theorem C12_container_delete_ok_refines :
  forall (E D : encryption -> bytes -> bytes -> bytes) (compress : compression -> N -> list bytes -> list bytes)
    (decompress : compression -> bytes -> res bytes) (verify : bytes -> bytes -> res bytes),
  (forall a k c, len16 c -> len16 (D a k c)) -> (forall a k b, len16 b -> D a k (E a k b) = b) ->
  (forall a k b, len16 b -> len16 (E a k b)) ->
  (forall c lvl ws, decompress c (concat (compress c lvl ws)) = Ok (concat ws)) ->
  (forall c lvl (ws ws' : list bytes), concat ws = concat ws' -> concat (compress c lvl ws) = concat (compress c lvl ws')) ->
  forall (lvl : N) (ctx : cctx), strict_ctx ctx -> forall pw : bytes, wf_ctx verify ctx pw ->
  forall (rb : normal_entry -> list N) (srb : solid_entry -> list N) (keep pwb : bool)
    (hdr_tok content_tok : normal_entry -> bytes) (nf : N) (matched : list bytes) (partial tmp atmp target : bytes)
    (fs : bfs) (afs : Update.fsys) (b : bytes) (es : list read_entry) (a : Update.archive),
  tmp <> target -> atmp <> target ->
  bfile fs target = Some b -> Update.file afs target = Some (Update.mkF a true) ->
  logical E D decompress verify pw rb srb b = Ok a ->
  wf_archive b = true -> read_archive b = Ok es -> input_ok E D decompress verify pw rb srb pwb es ->
  (forall b', run_edit hdr_tok content_tok (expand_p E D decompress verify pw srb) (rebuild_pipeline E compress lvl ctx) keep pwb
                Transform.CDelete nf (fun p => Update.mem p matched) b = Ok b' -> out_drains srb b') ->
  let r := rewrite_cmd (run_edit hdr_tok content_tok (expand_p E D decompress verify pw srb) (rebuild_pipeline E compress lvl ctx)
                          keep pwb Transform.CDelete nf (fun p => Update.mem p matched)) partial tmp target fs in
  let afs' := Update.run_ok (Update.rewrite_script atmp target (tr_delete matched) a) afs in
  snd r = Ok tt /\ refines (logical E D decompress verify pw rb srb) (fst r) afs' target /\
  (exists b', bfile (fst r) target = Some b' /\ wf_archive b' = true /\
              logical E D decompress verify pw rb srb b' = Ok (Update.delete matched a)) /\
  bfile (fst r) tmp = None /\ Update.file afs' atmp = None /\
  (forall q, q <> tmp -> q <> target -> bfile (fst r) q = bfile fs q).
Proof. exact delete_ok_refines. Qed.
Check C12_container_delete_ok_refines :
  forall (E D : encryption -> bytes -> bytes -> bytes) (compress : compression -> N -> list bytes -> list bytes)
    (decompress : compression -> bytes -> res bytes) (verify : bytes -> bytes -> res bytes),
  (forall a k c, len16 c -> len16 (D a k c)) -> (forall a k b, len16 b -> D a k (E a k b) = b) ->
  (forall a k b, len16 b -> len16 (E a k b)) ->
  (forall c lvl ws, decompress c (concat (compress c lvl ws)) = Ok (concat ws)) ->
  (forall c lvl (ws ws' : list bytes), concat ws = concat ws' -> concat (compress c lvl ws) = concat (compress c lvl ws')) ->
  forall (lvl : N) (ctx : cctx), strict_ctx ctx -> forall pw : bytes, wf_ctx verify ctx pw ->
  forall (rb : normal_entry -> list N) (srb : solid_entry -> list N) (keep pwb : bool)
    (hdr_tok content_tok : normal_entry -> bytes) (nf : N) (matched : list bytes) (partial tmp atmp target : bytes)
    (fs : bfs) (afs : Update.fsys) (b : bytes) (es : list read_entry) (a : Update.archive),
  tmp <> target -> atmp <> target ->
  bfile fs target = Some b -> Update.file afs target = Some (Update.mkF a true) ->
  logical E D decompress verify pw rb srb b = Ok a ->
  wf_archive b = true -> read_archive b = Ok es -> input_ok E D decompress verify pw rb srb pwb es ->
  (forall b', run_edit hdr_tok content_tok (expand_p E D decompress verify pw srb) (rebuild_pipeline E compress lvl ctx) keep pwb
                Transform.CDelete nf (fun p => Update.mem p matched) b = Ok b' -> out_drains srb b') ->
  let r := rewrite_cmd (run_edit hdr_tok content_tok (expand_p E D decompress verify pw srb) (rebuild_pipeline E compress lvl ctx)
                          keep pwb Transform.CDelete nf (fun p => Update.mem p matched)) partial tmp target fs in
  let afs' := Update.run_ok (Update.rewrite_script atmp target (tr_delete matched) a) afs in
  snd r = Ok tt /\ refines (logical E D decompress verify pw rb srb) (fst r) afs' target /\
  (exists b', bfile (fst r) target = Some b' /\ wf_archive b' = true /\
              logical E D decompress verify pw rb srb b' = Ok (Update.delete matched a)) /\
  bfile (fst r) tmp = None /\ Update.file afs' atmp = None /\
  (forall q, q <> tmp -> q <> target -> bfile (fst r) q = bfile fs q).
Print Assumptions C12_container_delete_ok_refines.

Theorem C12_container_append_ok_refines :
  forall (E D : encryption -> bytes -> bytes -> bytes) (compress : compression -> N -> list bytes -> list bytes)
    (decompress : compression -> bytes -> res bytes) (verify : bytes -> bytes -> res bytes),
  (forall a k c, len16 c -> len16 (D a k c)) -> (forall a k b, len16 b -> D a k (E a k b) = b) ->
  (forall a k b, len16 b -> len16 (E a k b)) ->
  (forall c lvl ws, decompress c (concat (compress c lvl ws)) = Ok (concat ws)) ->
  (forall c lvl (ws ws' : list bytes), concat ws = concat ws' -> concat (compress c lvl ws) = concat (compress c lvl ws')) ->
  forall (pw : bytes) (rb : normal_entry -> list N) (srb : solid_entry -> list N) (target : bytes) (fs : bfs)
    (afs : Update.fsys) (b : bytes) (es : list (list chunk)) (s : rstate) (a : Update.archive) (jobs : list job)
    (new : list xentry),
  bfile fs target = Some b -> Update.file afs target = Some (Update.mkF a true) ->
  logical E D decompress verify pw rb srb b = Ok a ->
  raw_entries rds b = Ok (es, FinOk, s) -> r_buf s = [] ->
  Forall2 carries jobs new -> Forall (wf_job E compress verify pw) jobs -> Forall (fun e => e_kind e <= 3) new ->
  (forall j, In j jobs -> reads_to_end E compress rb j) ->
  let r := append_cmd (Ok (new_raws E compress jobs)) target fs in
  let afs' := Update.run_ok (Update.append_script target (map abs new)) afs in
  snd r = Ok (r_next s) /\ refines (logical E D decompress verify pw rb srb) (fst r) afs' target /\
  (forall q, q <> target -> bfile (fst r) q = bfile fs q).
Proof. exact append_ok_refines. Qed.
Check C12_container_append_ok_refines :
  forall (E D : encryption -> bytes -> bytes -> bytes) (compress : compression -> N -> list bytes -> list bytes)
    (decompress : compression -> bytes -> res bytes) (verify : bytes -> bytes -> res bytes),
  (forall a k c, len16 c -> len16 (D a k c)) -> (forall a k b, len16 b -> D a k (E a k b) = b) ->
  (forall a k b, len16 b -> len16 (E a k b)) ->
  (forall c lvl ws, decompress c (concat (compress c lvl ws)) = Ok (concat ws)) ->
  (forall c lvl (ws ws' : list bytes), concat ws = concat ws' -> concat (compress c lvl ws) = concat (compress c lvl ws')) ->
  forall (pw : bytes) (rb : normal_entry -> list N) (srb : solid_entry -> list N) (target : bytes) (fs : bfs)
    (afs : Update.fsys) (b : bytes) (es : list (list chunk)) (s : rstate) (a : Update.archive) (jobs : list job)
    (new : list xentry),
  bfile fs target = Some b -> Update.file afs target = Some (Update.mkF a true) ->
  logical E D decompress verify pw rb srb b = Ok a ->
  raw_entries rds b = Ok (es, FinOk, s) -> r_buf s = [] ->
  Forall2 carries jobs new -> Forall (wf_job E compress verify pw) jobs -> Forall (fun e => e_kind e <= 3) new ->
  (forall j, In j jobs -> reads_to_end E compress rb j) ->
  let r := append_cmd (Ok (new_raws E compress jobs)) target fs in
  let afs' := Update.run_ok (Update.append_script target (map abs new)) afs in
  snd r = Ok (r_next s) /\ refines (logical E D decompress verify pw rb srb) (fst r) afs' target /\
  (forall q, q <> target -> bfile (fst r) q = bfile fs q).
Print Assumptions C12_container_append_ok_refines.

Theorem C12_container_update_ok_refines :
  forall (E D : encryption -> bytes -> bytes -> bytes) (compress : compression -> N -> list bytes -> list bytes)
    (decompress : compression -> bytes -> res bytes) (verify : bytes -> bytes -> res bytes),
  (forall a k c, len16 c -> len16 (D a k c)) -> (forall a k b, len16 b -> D a k (E a k b) = b) ->
  (forall a k b, len16 b -> len16 (E a k b)) ->
  (forall c lvl ws, decompress c (concat (compress c lvl ws)) = Ok (concat ws)) ->
  (forall c lvl (ws ws' : list bytes), concat ws = concat ws' -> concat (compress c lvl ws) = concat (compress c lvl ws')) ->
  forall (lvl : N) (ctx : cctx), strict_ctx ctx -> forall pw : bytes, wf_ctx verify ctx pw ->
  forall (rb : normal_entry -> list N) (srb : solid_entry -> list N) (keep pwb kd kt : bool) (excl : list bytes) (cond : N)
    (walk : list Update.node) (partial tmp atmp target : bytes) (fs : bfs) (afs : Update.fsys) (b : bytes)
    (es : list read_entry) (a a' : Update.archive) (jobs : list job) (new : list xentry),
  tmp <> target -> atmp <> target ->
  bfile fs target = Some b -> Update.file afs target = Some (Update.mkF a true) ->
  logical E D decompress verify pw rb srb b = Ok a ->
  wf_archive b = true -> read_archive b = Ok es -> input_ok E D decompress verify pw rb srb pwb es ->
  Update.update_cmd kd kt excl cond a walk = Ok a' ->
  let targets := Update.update_targets kd walk in
  let p := Update.update_pass excl cond a targets [] in
  map abs new = map (Update.fresh kt) (snd (fst p) ++ snd p) ->
  Forall2 carries jobs new -> Forall (wf_job E compress verify pw) jobs -> Forall (fun e => e_kind e <= 3) new ->
  (forall j, In j jobs -> reads_to_end E compress rb j) ->
  Forall writable_normal (map (build_job E compress) jobs) ->
  (forall b', update_bytes (expand_p E D decompress verify pw srb) (rebuild_pipeline E compress lvl ctx) keep pwb excl cond targets
                (new_raws E compress jobs) b = Ok b' -> out_drains srb b') ->
  let r := rewrite_cmd (update_bytes (expand_p E D decompress verify pw srb) (rebuild_pipeline E compress lvl ctx) keep pwb excl cond
                          targets (new_raws E compress jobs)) partial tmp target fs in
  let afs' := Update.run_ok (Update.update_script atmp target a (Update.pass_flags excl cond a targets []) (map abs new)) afs in
  snd r = Ok tt /\ refines (logical E D decompress verify pw rb srb) (fst r) afs' target /\
  (exists b', bfile (fst r) target = Some b' /\ wf_archive b' = true /\ logical E D decompress verify pw rb srb b' = Ok a') /\
  bfile (fst r) tmp = None /\ Update.file afs' atmp = None /\
  (forall q, q <> tmp -> q <> target -> bfile (fst r) q = bfile fs q).
Proof. exact update_ok_refines. Qed.
Check C12_container_update_ok_refines :
  forall (E D : encryption -> bytes -> bytes -> bytes) (compress : compression -> N -> list bytes -> list bytes)
    (decompress : compression -> bytes -> res bytes) (verify : bytes -> bytes -> res bytes),
  (forall a k c, len16 c -> len16 (D a k c)) -> (forall a k b, len16 b -> D a k (E a k b) = b) ->
  (forall a k b, len16 b -> len16 (E a k b)) ->
  (forall c lvl ws, decompress c (concat (compress c lvl ws)) = Ok (concat ws)) ->
  (forall c lvl (ws ws' : list bytes), concat ws = concat ws' -> concat (compress c lvl ws) = concat (compress c lvl ws')) ->
  forall (lvl : N) (ctx : cctx), strict_ctx ctx -> forall pw : bytes, wf_ctx verify ctx pw ->
  forall (rb : normal_entry -> list N) (srb : solid_entry -> list N) (keep pwb kd kt : bool) (excl : list bytes) (cond : N)
    (walk : list Update.node) (partial tmp atmp target : bytes) (fs : bfs) (afs : Update.fsys) (b : bytes)
    (es : list read_entry) (a a' : Update.archive) (jobs : list job) (new : list xentry),
  tmp <> target -> atmp <> target ->
  bfile fs target = Some b -> Update.file afs target = Some (Update.mkF a true) ->
  logical E D decompress verify pw rb srb b = Ok a ->
  wf_archive b = true -> read_archive b = Ok es -> input_ok E D decompress verify pw rb srb pwb es ->
  Update.update_cmd kd kt excl cond a walk = Ok a' ->
  let targets := Update.update_targets kd walk in
  let p := Update.update_pass excl cond a targets [] in
  map abs new = map (Update.fresh kt) (snd (fst p) ++ snd p) ->
  Forall2 carries jobs new -> Forall (wf_job E compress verify pw) jobs -> Forall (fun e => e_kind e <= 3) new ->
  (forall j, In j jobs -> reads_to_end E compress rb j) ->
  Forall writable_normal (map (build_job E compress) jobs) ->
  (forall b', update_bytes (expand_p E D decompress verify pw srb) (rebuild_pipeline E compress lvl ctx) keep pwb excl cond targets
                (new_raws E compress jobs) b = Ok b' -> out_drains srb b') ->
  let r := rewrite_cmd (update_bytes (expand_p E D decompress verify pw srb) (rebuild_pipeline E compress lvl ctx) keep pwb excl cond
                          targets (new_raws E compress jobs)) partial tmp target fs in
  let afs' := Update.run_ok (Update.update_script atmp target a (Update.pass_flags excl cond a targets []) (map abs new)) afs in
  snd r = Ok tt /\ refines (logical E D decompress verify pw rb srb) (fst r) afs' target /\
  (exists b', bfile (fst r) target = Some b' /\ wf_archive b' = true /\ logical E D decompress verify pw rb srb b' = Ok a') /\
  bfile (fst r) tmp = None /\ Update.file afs' atmp = None /\
  (forall q, q <> tmp -> q <> target -> bfile (fst r) q = bfile fs q).
Print Assumptions C12_container_update_ok_refines.

(* ---- 4. evaluated in the kernel: AES-256, a stored CTR-encrypted solid block, a key-deriving KDF ------------------- *)
(* `pna experimental delete --keep-solid --password <pw> x.pna d/a.txt` on ax_arch (the block holds d, d/a.txt, d/l;
   the same three follow as normal entries).  Wrong password: Err UnexpectedEof (what the real CLI reports too), the
   file system is the old one plus the temporary file; right password: Ok, d/a.txt gone from block and entries *)
Theorem C12_container_example_runs :
  ax_view ax_fs = Some (Ok [lit "d"; lit "d/a.txt"; lit "d/l"; lit "d"; lit "d/a.txt"; lit "d/l"]) /\
  (snd (ax_run (lit "wrong")) = Err UnexpectedEof /\
   fst (ax_run (lit "wrong")) = (ax_tmp, lit "partial") :: ax_fs /\
   bfile (fst (ax_run (lit "wrong"))) ax_target = Some ax_arch) /\
  (snd (ax_run tx_pw) = Ok tt /\
   map fst (fst (ax_run tx_pw)) = [ax_target; lit "other"] /\
   bfile (fst (ax_run tx_pw)) (lit "other") = Some (lit "data") /\
   ax_view (fst (ax_run tx_pw)) = Some (Ok [lit "d"; lit "d/l"; lit "d"; lit "d/l"])).
Proof. exact ax_delete_runs. Qed.
Check C12_container_example_runs :
  ax_view ax_fs = Some (Ok [lit "d"; lit "d/a.txt"; lit "d/l"; lit "d"; lit "d/a.txt"; lit "d/l"]) /\
  (snd (ax_run (lit "wrong")) = Err UnexpectedEof /\
   fst (ax_run (lit "wrong")) = (ax_tmp, lit "partial") :: ax_fs /\
   bfile (fst (ax_run (lit "wrong"))) ax_target = Some ax_arch) /\
  (snd (ax_run tx_pw) = Ok tt /\
   map fst (fst (ax_run tx_pw)) = [ax_target; lit "other"] /\
   bfile (fst (ax_run tx_pw)) (lit "other") = Some (lit "data") /\
   ax_view (fst (ax_run tx_pw)) = Some (Ok [lit "d"; lit "d/l"; lit "d"; lit "d/l"])).
Print Assumptions C12_container_example_runs.

(* the premises of C12_container_wrong_password_leaves_file hold for that run, the block is stored + AES + CTR, and
   the right password opens it cleanly (the left disjunct) *)
Theorem C12_container_example_premises :
  ax_tmp <> ax_target /\ bfile ax_fs ax_target = Some ax_arch /\
  (exists rest, read_archive ax_arch = Ok (RSolid ax_solid :: rest)) /\ rewrites Transform.CDelete 1 /\
  s_enc (so_hdr ax_solid) = EAes /\ s_mode (so_hdr ax_solid) = MCtr /\ s_comp (so_hdr ax_solid) = CNo /\
  opens_clean real_E_of real_D_of px_decompress ax_verify tx_pw tx_srb ax_solid.
Proof. exact ax_premises. Qed.
Check C12_container_example_premises :
  ax_tmp <> ax_target /\ bfile ax_fs ax_target = Some ax_arch /\
  (exists rest, read_archive ax_arch = Ok (RSolid ax_solid :: rest)) /\ rewrites Transform.CDelete 1 /\
  s_enc (so_hdr ax_solid) = EAes /\ s_mode (so_hdr ax_solid) = MCtr /\ s_comp (so_hdr ax_solid) = CNo /\
  opens_clean real_E_of real_D_of px_decompress ax_verify tx_pw tx_srb ax_solid.
Print Assumptions C12_container_example_premises.
