(* Props/C02.v — C02: `pna create` then `pna extract` reproduces the directory tree.

   Model: Model/Extract.v — create_from_tree (collect_items + create_entry + apply_metadata; the walk
   order is an oracle), extract_run / extract_all (run_extract_archive_reader + extract_entry, the repaired
   code, on the abstract file system of Model/Fs.v), expected (the tree restricted to what the options
   keep: defined from the tree and the options alone, it never runs the extractor).

   Proved, for EVERY tree, walk order, output directory and option vector (Proofs/CreateExtractFacts.v):
     * C02_create_extract: extraction into the empty directory exits 0 and the tree read back below `out`
       equals `expected`: same paths and kinds, file contents exact, link targets exact up to
       EntryReference's normalisation (applied once by create and once by extract; dangling links and links
       to directories are links), file mode / mtime / xattrs exactly when the flag is set on BOTH sides,
       directory entries only with --keep-dir (their mode with --keep-permission on both sides), parents of
       kept items as plain directories otherwise, nothing else below `out`.  `create` never emits hard links.
       Premises, all decidable (tree_okb, parents_firstb, wf_treeb) and each shown needed or discharged:
         o_guarded o        the repaired extractor (C02_create_extract_unguarded_refuted: the code before the
                            C09 repairs chmods THROUGH an extracted link with the link's own stored mode);
         wf_tree, tree_ok   Normal path components; every path once and not empty; only directories have
                            something below them; attributes form a table (names strictly increasing); link
                            targets non-empty UTF-8 (read_to_string);
         walk_order_ok      the order lists exactly the tree's paths; with --keep-dir and without --overwrite
                            nothing precedes a directory above it (C02_parents_first_needed: otherwise the
                            directory entry meets AlreadyExists; on the binary: known finding
                            keepdir-file-before-dir, `create a.pna t/d/f t/d --keep-dir`) — the -r walker
                            yields parents first;
         out                plain components, not the root.
     * C02_transport_lossless / C02_create_archive_extract(_real) / C02_create_solid_archive_extract: the
       container in between (C01, Proofs/CreateTransportFacts.v): for every configuration (codec, level,
       cipher, mode), cipher context per entry (wf_ctx), write slicing and read-buffer policy, reading the
       archive written from the jobs that carry create's entries gives back exactly those entries, hence the
       same tree; with the AES-256 / Camellia-256 models the only premises left are the compressor and KDF
       laws and the format's own ranges (wf_job; C02_create_spec_wf reads the metadata ranges off the tree).
       Fields carried and compared: name, kind, content / target, fPRM mode, mTIM seconds, xattrs.  cTIM, aTIM
       and the owner are carried by the container but not observed by this file-system model (free `aux`).
     * C02_names_survive, C02_create_entries: what reaches the extractor.
   Examples: the premises hold for the tree of the old instance theorem, which is kept.
   NOT proved here: --split (the part chain is C04 / C14 split_read_back; the entry list is the same),
   extraction into a non-empty directory (C20), --overwrite into an older extraction.
   Outside: kernel file system semantics (permission checks while extracting into a read-only directory,
   ownership / chown), the `ignore` walker (its order is an oracle; read back from the archive in the runs),
   xattr support of the file system, directory / symbolic-link timestamps (stored, never restored),
   names that are not UTF-8 (EntryName::from_lossy rewrites them), --keep-acl. *)
From PNA Require Import Base Crc32 Name Codec Chunk Archive Entry Flatten Cbc Ctr Pipeline Aes Camellia
  BaseFacts NameFacts CodecFacts ChunkFacts ArchiveFacts EntryFacts CbcFacts PipelineFacts AesFacts CamelliaFacts.
From PNA Require Import Fs Extract ExtractRun ExtractFacts CreateExtractFacts CreateTransportFacts.
Require Import Permutation.
Open Scope N_scope.

(* ---- the main theorem ---------------------------------------------------------------------------------- *)
Theorem C02_create_extract : forall c o out order t,
  o_guarded o = true -> wf_tree t -> tree_ok t -> walk_order_ok c o t order ->
  Forall ExtractFacts.plain out -> out <> [] ->
  tree_of c o out order (extract_all o out (create_from_tree c order t) (empty_dir out)) = expected c o order t /\
  snd (extract_run o out (create_from_tree c order t) (empty_dir out)) = true.
Proof. exact create_extract. Qed.
Check C02_create_extract : forall c o out order t,
  o_guarded o = true -> wf_tree t -> tree_ok t -> walk_order_ok c o t order ->
  Forall ExtractFacts.plain out -> out <> [] ->
  tree_of c o out order (extract_all o out (create_from_tree c order t) (empty_dir out)) = expected c o order t /\
  snd (extract_run o out (create_from_tree c order t) (empty_dir out)) = true.
Print Assumptions C02_create_extract.

(* the premises, spelled out *)
Theorem C02_premises_unfolded : forall c o t order,
  (tree_ok t <->
     NoDup (map fst t) /\
     (forall p n, In (p, n) t -> p <> [] /\
        match n with
        | TFile _ _ _ xs => Sorted.StronglySorted (fun a b => bytes_ltb (fst a) (fst b) = true) xs
        | TDir _ => True
        | TLink tg => tg <> [] /\ utf8_valid tg = true
        end) /\
     (forall p q n m, In (p, n) t -> In (q, m) t -> (exists b, b <> [] /\ q = p ++ b) -> exists md, n = TDir md)) /\
  (walk_order_ok c o t order <->
     Permutation (map fst t) order /\
     (c_keep_dir c = true -> o_overwrite o = false ->
      forall l1 p l2 q, order = l1 ++ p :: l2 -> In q l1 -> ~ (exists b, b <> [] /\ q = p ++ b))).
Proof. exact premises_unfolded. Qed.
Print Assumptions C02_premises_unfolded.

(* ---- the container in between ----------------------------------------------------------------------------- *)
Theorem C02_transport_lossless :
  forall (E D : encryption -> bytes -> bytes -> bytes) (compress : compression -> N -> list bytes -> list bytes)
         (decompress : compression -> bytes -> res bytes) (verify : bytes -> bytes -> res bytes),
  (forall a k c, len16 c -> len16 (D a k c)) -> (forall a k b, len16 b -> D a k (E a k b) = b) ->
  (forall a k b, len16 b -> len16 (E a k b)) ->
  (forall c lvl ws, decompress c (concat (compress c lvl ws)) = Ok (concat ws)) ->
  (forall c lvl (ws ws' : list bytes), concat ws = concat ws' -> concat (compress c lvl ws) = concat (compress c lvl ws')) ->
  forall pw rb jobs es,
  Forall2 carries jobs es -> Forall (wf_job E compress verify pw) jobs -> Forall (fun e => e_kind e <= 3) es ->
  (forall j, In j jobs -> reads_to_end E compress rb j) ->
  entries_of E D decompress verify pw rb (write_archive (map (build_job E compress) jobs)) = Ok es.
Proof. exact transport_lossless. Qed.
Check C02_transport_lossless :
  forall (E D : encryption -> bytes -> bytes -> bytes) (compress : compression -> N -> list bytes -> list bytes)
         (decompress : compression -> bytes -> res bytes) (verify : bytes -> bytes -> res bytes),
  (forall a k c, len16 c -> len16 (D a k c)) -> (forall a k b, len16 b -> D a k (E a k b) = b) ->
  (forall a k b, len16 b -> len16 (E a k b)) ->
  (forall c lvl ws, decompress c (concat (compress c lvl ws)) = Ok (concat ws)) ->
  (forall c lvl (ws ws' : list bytes), concat ws = concat ws' -> concat (compress c lvl ws) = concat (compress c lvl ws')) ->
  forall pw rb jobs es,
  Forall2 carries jobs es -> Forall (wf_job E compress verify pw) jobs -> Forall (fun e => e_kind e <= 3) es ->
  (forall j, In j jobs -> reads_to_end E compress rb j) ->
  entries_of E D decompress verify pw rb (write_archive (map (build_job E compress) jobs)) = Ok es.
Print Assumptions C02_transport_lossless.

Theorem C02_create_archive_extract :
  forall (E D : encryption -> bytes -> bytes -> bytes) (compress : compression -> N -> list bytes -> list bytes)
         (decompress : compression -> bytes -> res bytes) (verify : bytes -> bytes -> res bytes),
  (forall a k c, len16 c -> len16 (D a k c)) -> (forall a k b, len16 b -> D a k (E a k b) = b) ->
  (forall a k b, len16 b -> len16 (E a k b)) ->
  (forall c lvl ws, decompress c (concat (compress c lvl ws)) = Ok (concat ws)) ->
  (forall c lvl (ws ws' : list bytes), concat ws = concat ws' -> concat (compress c lvl ws) = concat (compress c lvl ws')) ->
  forall c o out order t pw rb jobs,
  o_guarded o = true -> wf_tree t -> tree_ok t -> walk_order_ok c o t order ->
  Forall ExtractFacts.plain out -> out <> [] ->
  Forall2 carries jobs (create_from_tree c order t) -> Forall (wf_job E compress verify pw) jobs ->
  (forall j, In j jobs -> reads_to_end E compress rb j) ->
  exists es, entries_of E D decompress verify pw rb (write_archive (map (build_job E compress) jobs)) = Ok es /\
    es = create_from_tree c order t /\
    tree_of c o out order (extract_all o out es (empty_dir out)) = expected c o order t /\
    snd (extract_run o out es (empty_dir out)) = true.
Proof. exact create_archive_extract. Qed.
Check C02_create_archive_extract :
  forall (E D : encryption -> bytes -> bytes -> bytes) (compress : compression -> N -> list bytes -> list bytes)
         (decompress : compression -> bytes -> res bytes) (verify : bytes -> bytes -> res bytes),
  (forall a k c, len16 c -> len16 (D a k c)) -> (forall a k b, len16 b -> D a k (E a k b) = b) ->
  (forall a k b, len16 b -> len16 (E a k b)) ->
  (forall c lvl ws, decompress c (concat (compress c lvl ws)) = Ok (concat ws)) ->
  (forall c lvl (ws ws' : list bytes), concat ws = concat ws' -> concat (compress c lvl ws) = concat (compress c lvl ws')) ->
  forall c o out order t pw rb jobs,
  o_guarded o = true -> wf_tree t -> tree_ok t -> walk_order_ok c o t order ->
  Forall ExtractFacts.plain out -> out <> [] ->
  Forall2 carries jobs (create_from_tree c order t) -> Forall (wf_job E compress verify pw) jobs ->
  (forall j, In j jobs -> reads_to_end E compress rb j) ->
  exists es, entries_of E D decompress verify pw rb (write_archive (map (build_job E compress) jobs)) = Ok es /\
    es = create_from_tree c order t /\
    tree_of c o out order (extract_all o out es (empty_dir out)) = expected c o order t /\
    snd (extract_run o out es (empty_dir out)) = true.
Print Assumptions C02_create_archive_extract.

(* AES-256 / Camellia-256 as modelled (Model/Aes.v, Model/Camellia.v): the block-cipher laws are theorems *)
Theorem C02_create_archive_extract_real :
  forall (compress : compression -> N -> list bytes -> list bytes)
         (decompress : compression -> bytes -> res bytes) (verify : bytes -> bytes -> res bytes),
  (forall c lvl ws, decompress c (concat (compress c lvl ws)) = Ok (concat ws)) ->
  (forall c lvl (ws ws' : list bytes), concat ws = concat ws' -> concat (compress c lvl ws) = concat (compress c lvl ws')) ->
  forall c o out order t pw rb jobs,
  o_guarded o = true -> wf_tree t -> tree_ok t -> walk_order_ok c o t order ->
  Forall ExtractFacts.plain out -> out <> [] ->
  Forall2 carries jobs (create_from_tree c order t) -> Forall (wf_job real_E_of compress verify pw) jobs ->
  (forall j, In j jobs -> reads_to_end real_E_of compress rb j) ->
  exists es, entries_of real_E_of real_D_of decompress verify pw rb (write_archive (map (build_job real_E_of compress) jobs)) = Ok es /\
    es = create_from_tree c order t /\
    tree_of c o out order (extract_all o out es (empty_dir out)) = expected c o order t /\
    snd (extract_run o out es (empty_dir out)) = true.
Proof. exact create_archive_extract_real. Qed.
Check C02_create_archive_extract_real :
  forall (compress : compression -> N -> list bytes -> list bytes)
         (decompress : compression -> bytes -> res bytes) (verify : bytes -> bytes -> res bytes),
  (forall c lvl ws, decompress c (concat (compress c lvl ws)) = Ok (concat ws)) ->
  (forall c lvl (ws ws' : list bytes), concat ws = concat ws' -> concat (compress c lvl ws) = concat (compress c lvl ws')) ->
  forall c o out order t pw rb jobs,
  o_guarded o = true -> wf_tree t -> tree_ok t -> walk_order_ok c o t order ->
  Forall ExtractFacts.plain out -> out <> [] ->
  Forall2 carries jobs (create_from_tree c order t) -> Forall (wf_job real_E_of compress verify pw) jobs ->
  (forall j, In j jobs -> reads_to_end real_E_of compress rb j) ->
  exists es, entries_of real_E_of real_D_of decompress verify pw rb (write_archive (map (build_job real_E_of compress) jobs)) = Ok es /\
    es = create_from_tree c order t /\
    tree_of c o out order (extract_all o out es (empty_dir out)) = expected c o order t /\
    snd (extract_run o out es (empty_dir out)) = true.
Print Assumptions C02_create_archive_extract_real.

(* --solid: the entries travel inside one solid entry written by SolidArchive::add_entry *)
Theorem C02_create_solid_archive_extract :
  forall (E D : encryption -> bytes -> bytes -> bytes) (compress : compression -> N -> list bytes -> list bytes)
         (decompress : compression -> bytes -> res bytes) (verify : bytes -> bytes -> res bytes),
  (forall a k c, len16 c -> len16 (D a k c)) -> (forall a k b, len16 b -> D a k (E a k b) = b) ->
  (forall a k b, len16 b -> len16 (E a k b)) ->
  (forall c lvl ws, decompress c (concat (compress c lvl ws)) = Ok (concat ws)) ->
  (forall c lvl (ws ws' : list bytes), concat ws = concat ws' -> concat (compress c lvl ws) = concat (compress c lvl ws')) ->
  forall c o out order t pw rb jobs cfg ctx rbufs,
  o_guarded o = true -> wf_tree t -> tree_ok t -> walk_order_ok c o t order ->
  Forall ExtractFacts.plain out -> out <> [] ->
  Forall2 carries jobs (create_from_tree c order t) -> Forall (wf_job E compress verify pw) jobs ->
  (forall j, In j jobs -> reads_to_end E compress rb j) ->
  wf_ctx verify ctx pw -> Forall (fun n => 0 < n) rbufs ->
  covers compress cfg (solid_writes (map (build_job E compress) jobs)) rbufs ->
  exists s ns es, parse_solid (solid_archive_chunks E compress cfg ctx (solid_writes (map (build_job E compress) jobs))) = Ok s /\
    decode_solid E D decompress verify s pw rbufs = Ok (ns, FinOk) /\ read_entries_x E D decompress verify pw rb ns = Ok es /\
    es = create_from_tree c order t /\
    tree_of c o out order (extract_all o out es (empty_dir out)) = expected c o order t /\
    snd (extract_run o out es (empty_dir out)) = true.
Proof. exact create_solid_archive_extract. Qed.
Print Assumptions C02_create_solid_archive_extract.

(* the metadata ranges of the format, read off the tree *)
Theorem C02_create_spec_wf : forall a c p n,
  Forall normal_component p -> forallb utf8_valid p = true -> aux_ok a -> node_fits n ->
  wf_spec (xspec a (entry_of c p n)).
Proof. exact create_spec_wf. Qed.
Check C02_create_spec_wf : forall a c p n,
  Forall normal_component p -> forallb utf8_valid p = true -> aux_ok a -> node_fits n ->
  wf_spec (xspec a (entry_of c p n)).
Print Assumptions C02_create_spec_wf.

(* ---- what reaches the extractor ----------------------------------------------------------------------------- *)
Theorem C02_names_survive : forall p, Forall normal_component p -> name_comps (path_str p) = p.
Proof. exact name_roundtrip. Qed.
Check C02_names_survive : forall p, Forall normal_component p -> name_comps (path_str p) = p.
Print Assumptions C02_names_survive.

Theorem C02_create_entries : forall c t, wf_tree t -> forall order,
  map (fun e => name_comps (e_name e)) (create_from_tree c order t) = filter (kept c t) order.
Proof. exact create_entries. Qed.
Check C02_create_entries : forall c t, wf_tree t -> forall order,
  map (fun e => name_comps (e_name e)) (create_from_tree c order t) = filter (kept c t) order.
Print Assumptions C02_create_entries.

Theorem C02_create_no_hardlinks : forall c t order, Forall (fun e => is_hardlink e = false) (create_from_tree c order t).
Proof. exact create_no_hardlinks. Qed.
Print Assumptions C02_create_no_hardlinks.

(* ---- the premises are satisfiable, and the two that are not about well-formedness are needed ---------------- *)
Example C02_premises_satisfiable : forall c o,
  wf_tree ex_tree /\ tree_ok ex_tree /\ walk_order_ok c o ex_tree ex_order /\ Forall ExtractFacts.plain ex_out /\ ex_out <> [].
Proof. exact create_extract_premises. Qed.
Print Assumptions C02_premises_satisfiable.

(* the old instance theorem: the complete statement evaluated in the kernel on that tree *)
Example C02_round_trip_examples :
  (tree_of all_c all_x ex_out ex_order (extract_all all_x ex_out (create_from_tree all_c ex_order ex_tree) (empty_dir ex_out))
   = expected all_c all_x ex_order ex_tree
   /\ snd (extract_run all_x ex_out (create_from_tree all_c ex_order ex_tree) (empty_dir ex_out)) = true)
  /\
  (tree_of no_c no_x ex_out ex_order (extract_all no_x ex_out (create_from_tree no_c ex_order ex_tree) (empty_dir ex_out))
   = expected no_c no_x ex_order ex_tree
   /\ length (expected no_c no_x ex_order ex_tree) = 7%nat).
Proof. exact (conj create_extract_ex_keep_all create_extract_ex_keep_nothing). Qed.
Print Assumptions C02_round_trip_examples.

Example C02_transport_premises :
  Forall2 carries tx_jobs (create_from_tree tx_c tx_order tx_tree) /\
  Forall (wf_job real_E_of tx_compress tx_verify tx_pw) tx_jobs /\
  (forall j, In j tx_jobs -> reads_to_end real_E_of tx_compress tx_rb j) /\
  (forall c lvl ws, tx_decompress c (concat (tx_compress c lvl ws)) = Ok (concat ws)) /\
  wf_tree tx_tree /\ tree_ok tx_tree /\ (forall o, walk_order_ok tx_c o tx_tree tx_order) /\
  entries_of real_E_of real_D_of tx_decompress tx_verify tx_pw tx_rb
    (write_archive (map (build_job real_E_of tx_compress) tx_jobs)) = Ok (create_from_tree tx_c tx_order tx_tree).
Proof. exact transport_premises. Qed.
Print Assumptions C02_transport_premises.

Theorem C02_create_extract_unguarded_refuted :
  wf_tree t_link_mode /\ tree_ok t_link_mode /\ walk_order_ok c_perm x_perm_unguarded t_link_mode (map fst t_link_mode) /\
  tree_of c_perm x_perm_unguarded ex_out (map fst t_link_mode)
    (extract_all x_perm_unguarded ex_out (create_from_tree c_perm (map fst t_link_mode) t_link_mode) (empty_dir ex_out))
  <> expected c_perm x_perm_unguarded (map fst t_link_mode) t_link_mode /\
  tree_of c_perm x_perm_guarded ex_out (map fst t_link_mode)
    (extract_all x_perm_guarded ex_out (create_from_tree c_perm (map fst t_link_mode) t_link_mode) (empty_dir ex_out))
  = expected c_perm x_perm_guarded (map fst t_link_mode) t_link_mode.
Proof. exact create_extract_unguarded_refuted. Qed.
Print Assumptions C02_create_extract_unguarded_refuted.

Theorem C02_parents_first_needed :
  wf_tree t_dir_late /\ tree_ok t_dir_late /\ Permutation (map fst t_dir_late) (map fst t_dir_late) /\
  snd (extract_run x_perm_guarded ex_out (create_from_tree c_dir (map fst t_dir_late) t_dir_late) (empty_dir ex_out)) = false /\
  snd (extract_run (mk_xopts true true false false true) ex_out (create_from_tree c_dir (map fst t_dir_late) t_dir_late) (empty_dir ex_out)) = true.
Proof. exact parents_first_needed. Qed.
Print Assumptions C02_parents_first_needed.
