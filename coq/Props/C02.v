(* Props/C02.v — C02: `pna create` then `pna extract` reproduces the directory tree.

   Model: Model/Extract.v — create_from_tree (collect_items + create_entry + apply_metadata; the walk
   order is an oracle permutation), extract_all (run_extract_archive_reader + extract_entry on the
   abstract file system of Model/Fs.v), expected (the tree restricted to what the options keep).
   The container is not part of this model: the logical entry list that `create` builds is the list
   `extract` reads.  That is property C01 (and C04 for --split, and the equality of the three write
   paths file / stdio pipe / stdio -f, which all call create_archive_file): it enters here as the
   named section hypothesis `transport_lossless`.

   Proved (partial):
     * C02_names_survive: the name stored for a walked path of Normal components is read back, after
       the reader's sanitisation, as exactly those components;
     * C02_create_entries_partial: for every well-formed tree, every walk order and every option set the
       extractor receives exactly the collected items (everything but directories; directories too with
       --keep-dir), in walk order, under their own paths;
     * C02_round_trip_examples: the complete statement
           tree_of (extract_all o (create_from_tree c order tree) empty_dir) = expected c o order tree
       evaluated in the kernel for a tree with nested and empty directories, an empty file, xattrs and
       symbolic links to a file, a directory and nothing, with all keep options and with none.
   NOT proved: the complete statement for all trees (an induction over the walk order with the file
   system invariants of ExtractFacts plus content tracking); it rests on the correspondence runs
   (60 / 2 000 generated trees x option vectors through the real binary, compared with this model).
   Outside: kernel file system semantics, the `ignore` walker (its order is read back from the archive),
   xattr support of the sandbox file system, directory / symbolic-link timestamps (never restored). *)
From PNA Require Import Base Name Fs Extract ExtractRun BaseFacts NameFacts ExtractFacts.
Open Scope N_scope.

Section C02.
(* C01/C04: what `extract` reads is what `create` wrote *)
Variable transport : list xentry -> list xentry.
Hypothesis transport_lossless : forall es, transport es = es.

Lemma create_entries_transported c t : wf_tree t -> forall order,
  map (fun e => name_comps (e_name e)) (transport (create_from_tree c order t)) = filter (kept c t) order.
Proof. intros WF order. rewrite transport_lossless. apply create_entries. exact WF. Qed.
End C02.
Print Assumptions create_entries_transported.

Theorem C02_names_survive : forall p, Forall normal_component p -> name_comps (path_str p) = p.
Proof. exact name_roundtrip. Qed.
Check C02_names_survive : forall p, Forall normal_component p -> name_comps (path_str p) = p.
Print Assumptions C02_names_survive.

Theorem C02_create_entries_partial :
  forall transport : list xentry -> list xentry, (forall es, transport es = es) ->
  forall c t, wf_tree t -> forall order,
  map (fun e => name_comps (e_name e)) (transport (create_from_tree c order t)) = filter (kept c t) order.
Proof. exact create_entries_transported. Qed.
Check C02_create_entries_partial :
  forall transport : list xentry -> list xentry, (forall es, transport es = es) ->
  forall c t, wf_tree t -> forall order,
  map (fun e => name_comps (e_name e)) (transport (create_from_tree c order t)) = filter (kept c t) order.
Print Assumptions C02_create_entries_partial.

Theorem C02_round_trip_examples :
  (tree_of all_c all_x ex_out ex_order (extract_all all_x ex_out (create_from_tree all_c ex_order ex_tree) (empty_dir ex_out))
   = expected all_c all_x ex_order ex_tree
   /\ snd (extract_run all_x ex_out (create_from_tree all_c ex_order ex_tree) (empty_dir ex_out)) = true)
  /\
  (tree_of no_c no_x ex_out ex_order (extract_all no_x ex_out (create_from_tree no_c ex_order ex_tree) (empty_dir ex_out))
   = expected no_c no_x ex_order ex_tree
   /\ length (expected no_c no_x ex_order ex_tree) = 7%nat).
Proof. exact (conj create_extract_ex_keep_all create_extract_ex_keep_nothing). Qed.
Print Assumptions C02_round_trip_examples.

(* premise of C02_create_entries_partial *)
Theorem C02_premises_satisfiable : wf_tree ex_tree.
Proof. exact wf_ex_tree. Qed.
Print Assumptions C02_premises_satisfiable.
