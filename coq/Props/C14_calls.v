(* Props/C14_calls.v — C14: every ChunkStreamWriter::write call emits well-formed chunks of its type that carry exactly
   the bytes the call counts (Model/Sinks.v chunk_call_bytes; Props/C14_sink.v has the bounds and length fields of
   the sinks as lists of payloads).  This is the statement the stream area's `csw` cases tie to the code call by call
   (props/C14.py, _stream.step_sinks): the returned count and the serialised chunks of every write. *)
From PNA Require Import Base Crc32 Codec Chunk Flatten Cbc Ctr Pipeline Sinks.
From PNA Require Import BaseFacts ChunkFacts PiecesFacts FlattenFacts CbcFacts CtrFacts PipelineFacts CtrSinkFacts.
Open Scope N_scope.

Theorem C14_chunk_call_bytes :
  forall (ty d : bytes), length ty = 4%nat ->
  exists cs : list chunk, chunk_call_bytes ty CMAX d = (len d, ser_chunks cs) /\ cs <> [] /\
    Forall (fun c : chunk => wf_chunk c /\ cty c = ty) cs /\ concat (map cdata cs) = d.
Proof. exact chunk_call_bytes_spec. Qed.
Check C14_chunk_call_bytes :
  forall (ty d : bytes), length ty = 4%nat ->
  exists cs : list chunk, chunk_call_bytes ty CMAX d = (len d, ser_chunks cs) /\ cs <> [] /\
    Forall (fun c : chunk => wf_chunk c /\ cty c = ty) cs /\ concat (map cdata cs) = d.
Print Assumptions C14_chunk_call_bytes.

(* each of those chunks is what the stream reader reads back from the front of what follows *)
Theorem C14_chunk_call_reads_back :
  forall (c : chunk), wf_chunk c -> forall rest : bytes, read_chunk_stream (ser_chunk c ++ rest) = Ok (c, rest).
Proof. exact read_chunk_ser. Qed.
Check C14_chunk_call_reads_back :
  forall (c : chunk), wf_chunk c -> forall rest : bytes, read_chunk_stream (ser_chunk c ++ rest) = Ok (c, rest).
Print Assumptions C14_chunk_call_reads_back.

Theorem C14_chunk_sink_call :
  forall (cmax : N) (d : bytes), 0 < cmax ->
  concat (snd (chunk_sink_call cmax d)) = d /\ len (concat (snd (chunk_sink_call cmax d))) = fst (chunk_sink_call cmax d) /\
  Forall (fun q : bytes => len q <= cmax) (snd (chunk_sink_call cmax d)) /\ snd (chunk_sink_call cmax d) <> [].
Proof. exact chunk_sink_call_carries. Qed.
Check C14_chunk_sink_call :
  forall (cmax : N) (d : bytes), 0 < cmax ->
  concat (snd (chunk_sink_call cmax d)) = d /\ len (concat (snd (chunk_sink_call cmax d))) = fst (chunk_sink_call cmax d) /\
  Forall (fun q : bytes => len q <= cmax) (snd (chunk_sink_call cmax d)) /\ snd (chunk_sink_call cmax d) <> [].
Print Assumptions C14_chunk_sink_call.

