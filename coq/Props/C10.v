(* Props/C10.v — C10: archive-editing commands change exactly what they target and nothing else.
   Only statements, closed by `exact`, pinned by `Check`, audited by `Print Assumptions`.
   `sel` (glob matching on the entry name) and the resolved owner of chown are parameters.
   run_cmd keep pw c nf sel a: the command c with nf patterns on archive a, keep = --keep-solid.
   eff_sel c nf sel: the selection the command works with — the patterns', except that `pna strip ARCHIVE` without
   FILES takes every entry (strip.rs after 4d97c0da: globs.is_empty() || globs.matches_any(name)); migrate takes no
   patterns (selects_all).  touched s c e = selects_all c || s (le_name e).
   C10_idempotent covers chmod, chown, xattr set/remove, strip, delete at full strength;
   C10_idempotent_acl_partial covers acl set / migrate under the premise that the regrouped ACL
   chunks read back as the map that was written (what is missing for full strength: the print/parse
   round trip of ACE texts for every stored chunk, C15; the premise cannot be dropped:
   C10_idempotent_acl_refuted, recorded as a known finding). *)
From PNA Require Import Base Codec Chunk CliCodec Transform BaseFacts CliCodecFacts TransformFacts.
Open Scope N_scope.

Theorem C10_rewrite_is_entrywise : forall keep pw f a a', transform keep pw f a = Ok a' -> map_entries f (entries a) = Ok (entries a').
Proof. exact transform_entries. Qed.
Check C10_rewrite_is_entrywise : forall keep pw f a a', transform keep pw f a = Ok a' -> map_entries f (entries a) = Ok (entries a').
Print Assumptions C10_rewrite_is_entrywise.

(* FRAME, now also for strip with FILES: an entry the command's selection does not take is unchanged *)
Theorem C10_frame : forall sel keep pw c nf a a', run_cmd keep pw c nf sel a = Ok a' -> c <> CDelete ->
  Forall2 (fun e e' => le_name e' = le_name e /\ (touched (eff_sel c nf sel) c e = false -> e' = e)) (entries a) (entries a').
Proof. exact frame_entries. Qed.
Check C10_frame : forall sel keep pw c nf a a', run_cmd keep pw c nf sel a = Ok a' -> c <> CDelete ->
  Forall2 (fun e e' => le_name e' = le_name e /\ (touched (eff_sel c nf sel) c e = false -> e' = e)) (entries a) (entries a').
Print Assumptions C10_frame.

Theorem C10_frame_untouched : forall sel keep pw c nf a a', run_cmd keep pw c nf sel a = Ok a' ->
  filter (fun e => negb (touched (eff_sel c nf sel) c e)) (entries a')
  = filter (fun e => negb (touched (eff_sel c nf sel) c e)) (entries a).
Proof. exact frame_untouched. Qed.
Check C10_frame_untouched : forall sel keep pw c nf a a', run_cmd keep pw c nf sel a = Ok a' ->
  filter (fun e => negb (touched (eff_sel c nf sel) c e)) (entries a')
  = filter (fun e => negb (touched (eff_sel c nf sel) c e)) (entries a).
Print Assumptions C10_frame_untouched.

(* what the selection is: the patterns' for every command but strip; strip: every entry iff no pattern was given *)
Theorem C10_selection : forall c nf sel,
  ((forall o, c <> CStrip o) -> eff_sel c nf sel = sel) /\
  (forall o e, touched (eff_sel (CStrip o) nf sel) (CStrip o) e = (nf =? 0) || sel (le_name e)).
Proof. exact (fun c nf sel => conj (eff_sel_other c nf sel) (fun o e => touched_strip o nf sel e)). Qed.
Check C10_selection : forall c nf sel,
  ((forall o, c <> CStrip o) -> eff_sel c nf sel = sel) /\
  (forall o e, touched (eff_sel (CStrip o) nf sel) (CStrip o) e = (nf =? 0) || sel (le_name e)).
Print Assumptions C10_selection.

(* `pna strip ARCHIVE FILES...`: an entry FILES do not select is unchanged in every attribute, position by position;
   the unselected entries are the same sequence before and after *)
Theorem C10_frame_strip_patterns : forall sel keep pw o nf a a',
  run_cmd keep pw (CStrip o) nf sel a = Ok a' -> nf <> 0 ->
  Forall2 (fun e e' => le_name e' = le_name e /\ (sel (le_name e) = false -> e' = e)) (entries a) (entries a').
Proof. exact frame_strip_patterns. Qed.
Check C10_frame_strip_patterns : forall sel keep pw o nf a a',
  run_cmd keep pw (CStrip o) nf sel a = Ok a' -> nf <> 0 ->
  Forall2 (fun e e' => le_name e' = le_name e /\ (sel (le_name e) = false -> e' = e)) (entries a) (entries a').
Print Assumptions C10_frame_strip_patterns.

Theorem C10_frame_untouched_strip_patterns : forall sel keep pw o nf a a',
  run_cmd keep pw (CStrip o) nf sel a = Ok a' -> nf <> 0 ->
  filter (fun e => negb (sel (le_name e))) (entries a') = filter (fun e => negb (sel (le_name e))) (entries a).
Proof. exact frame_untouched_strip_patterns. Qed.
Check C10_frame_untouched_strip_patterns : forall sel keep pw o nf a a',
  run_cmd keep pw (CStrip o) nf sel a = Ok a' -> nf <> 0 ->
  filter (fun e => negb (sel (le_name e))) (entries a') = filter (fun e => negb (sel (le_name e))) (entries a).
Print Assumptions C10_frame_untouched_strip_patterns.

Theorem C10_effect : forall sel keep pw c nf a a', run_cmd keep pw c nf sel a = Ok a' -> c <> CDelete ->
  (nf = 0 -> forall n, sel n = false) -> Forall2 (step_rel (eff_sel c nf sel) c) (entries a) (entries a').
Proof. exact effect_entries. Qed.
Check C10_effect : forall sel keep pw c nf a a', run_cmd keep pw c nf sel a = Ok a' -> c <> CDelete ->
  (nf = 0 -> forall n, sel n = false) -> Forall2 (step_rel (eff_sel c nf sel) c) (entries a) (entries a').
Print Assumptions C10_effect.

(* strip, effect and frame in one equation: every entry without FILES, exactly the selected ones with FILES *)
Theorem C10_effect_strip_run : forall sel keep pw o nf a a', run_cmd keep pw (CStrip o) nf sel a = Ok a' ->
  Forall2 (fun e e' => e' = if (nf =? 0) || sel (le_name e) then cmd_strip o e else e) (entries a) (entries a').
Proof. exact effect_strip. Qed.
Check C10_effect_strip_run : forall sel keep pw o nf a a', run_cmd keep pw (CStrip o) nf sel a = Ok a' ->
  Forall2 (fun e e' => e' = if (nf =? 0) || sel (le_name e) then cmd_strip o e else e) (entries a) (entries a').
Print Assumptions C10_effect_strip_run.

(* strip as it was before 4d97c0da (run_cmd_orig: FILES accepted and ignored): `pna strip x.pna b` on
   [a; solid [b; c]] strips a and c as well — the frame statement above fails on the old transformer *)
Theorem C10_strip_ignored_patterns_unrepaired_refuted :
  exists a', run_cmd_orig true false (CStrip strip_all) 1 strip_sel ex_archive = Ok a' /\
    ~ Forall2 (fun e e' => le_name e' = le_name e /\ (strip_sel (le_name e) = false -> e' = e)) (entries ex_archive) (entries a').
Proof. exact strip_ignored_patterns_unrepaired. Qed.
Check C10_strip_ignored_patterns_unrepaired_refuted :
  exists a', run_cmd_orig true false (CStrip strip_all) 1 strip_sel ex_archive = Ok a' /\
    ~ Forall2 (fun e e' => le_name e' = le_name e /\ (strip_sel (le_name e) = false -> e' = e)) (entries ex_archive) (entries a').
Print Assumptions C10_strip_ignored_patterns_unrepaired_refuted.

(* the premises of C10_frame_strip_patterns are satisfiable: the repaired command on the same input strips b alone;
   without FILES every entry is stripped, as before *)
Example C10_strip_patterns_example :
  exists a', run_cmd true false (CStrip strip_all) 1 strip_sel ex_archive = Ok a' /\
    entries a' = [ex_entry (lit "a"); cmd_strip strip_all (ex_entry (lit "b")); ex_entry (lit "c")] /\
    cmd_strip strip_all (ex_entry (lit "b")) <> ex_entry (lit "b").
Proof. exact strip_patterns_repaired. Qed.
Example C10_strip_no_patterns_example :
  exists a', run_cmd true false (CStrip strip_all) 0 (fun _ => false) ex_archive = Ok a' /\
    entries a' = map (cmd_strip strip_all) (entries ex_archive).
Proof. exact strip_no_patterns. Qed.

Theorem C10_delete_exact : forall sel keep pw nf a a', run_cmd keep pw CDelete nf sel a = Ok a' ->
  entries a' = filter (fun e => negb (sel (le_name e))) (entries a).
Proof. exact delete_exact. Qed.
Check C10_delete_exact : forall sel keep pw nf a a', run_cmd keep pw CDelete nf sel a = Ok a' ->
  entries a' = filter (fun e => negb (sel (le_name e))) (entries a).
Print Assumptions C10_delete_exact.

Theorem C10_effect_chmod : forall m e, same_but_perm e (cmd_chmod m e) /\
  le_perm (cmd_chmod m e) = option_map (fun p => perm_with_mode p (apply_mode m (p_mode p))) (le_perm e).
Proof. exact chmod_attrs. Qed.
Check C10_effect_chmod : forall m e, same_but_perm e (cmd_chmod m e) /\
  le_perm (cmd_chmod m e) = option_map (fun p => perm_with_mode p (apply_mode m (p_mode p))) (le_perm e).
Print Assumptions C10_effect_chmod.

Theorem C10_effect_chown : forall u g e, same_but_perm e (cmd_chown u g e) /\
  match le_perm e, le_perm (cmd_chown u g e) with
  | Some p, Some p' =>
    p_mode p' = p_mode p /\
    (p_uid p', p_uname p') = match u with Some un => un | None => (p_uid p, p_uname p) end /\
    (p_gid p', p_gname p') = match g with Some gn => gn | None => (p_gid p, p_gname p) end
  | None, None => True
  | _, _ => False
  end.
Proof. exact chown_attrs. Qed.
Check C10_effect_chown : forall u g e, same_but_perm e (cmd_chown u g e) /\
  match le_perm e, le_perm (cmd_chown u g e) with
  | Some p, Some p' =>
    p_mode p' = p_mode p /\
    (p_uid p', p_uname p') = match u with Some un => un | None => (p_uid p, p_uname p) end /\
    (p_gid p', p_gname p') = match g with Some gn => gn | None => (p_gid p, p_gname p) end
  | None, None => True
  | _, _ => False
  end.
Print Assumptions C10_effect_chown.

Theorem C10_effect_xattr_other_attrs : forall s r e, same_but_xattrs e (cmd_xattr s r e) /\ NoDup (xnames (le_xattrs (cmd_xattr s r e))).
Proof. exact xattr_attrs. Qed.
Check C10_effect_xattr_other_attrs : forall s r e, same_but_xattrs e (cmd_xattr s r e) /\ NoDup (xnames (le_xattrs (cmd_xattr s r e))).
Print Assumptions C10_effect_xattr_other_attrs.

Theorem C10_effect_xattr_set : forall n v r e, r <> Some n -> In {| x_name := n; x_value := v |} (le_xattrs (cmd_xattr (Some (n, v)) r e)).
Proof. exact xattr_set_effect. Qed.
Check C10_effect_xattr_set : forall n v r e, r <> Some n -> In {| x_name := n; x_value := v |} (le_xattrs (cmd_xattr (Some (n, v)) r e)).
Print Assumptions C10_effect_xattr_set.

Theorem C10_effect_xattr_remove : forall s k e, ~ In k (xnames (le_xattrs (cmd_xattr s (Some k) e))).
Proof. exact xattr_remove_effect. Qed.
Check C10_effect_xattr_remove : forall s k e, ~ In k (xnames (le_xattrs (cmd_xattr s (Some k) e))).
Print Assumptions C10_effect_xattr_remove.

Theorem C10_frame_xattr_unnamed : forall s r e, filter (unnamed (xattr_named s r)) (le_xattrs (cmd_xattr s r e))
  = filter (unnamed (xattr_named s r)) (im_collect (le_xattrs e)).
Proof. exact xattr_frame. Qed.
Check C10_frame_xattr_unnamed : forall s r e, filter (unnamed (xattr_named s r)) (le_xattrs (cmd_xattr s r e))
  = filter (unnamed (xattr_named s r)) (im_collect (le_xattrs e)).
Print Assumptions C10_frame_xattr_unnamed.

Theorem C10_xattr_indexmap_identity : forall m, NoDup (xnames m) -> im_collect m = m.
Proof. exact im_collect_fix. Qed.
Check C10_xattr_indexmap_identity : forall m, NoDup (xnames m) -> im_collect m = m.
Print Assumptions C10_xattr_indexmap_identity.

Theorem C10_effect_acl_other_attrs : forall md rm e, same_but_extras e (cmd_acl md rm e) /\ non_acl (le_extras (cmd_acl md rm e)) = non_acl (le_extras e).
Proof. exact acl_attrs. Qed.
Check C10_effect_acl_other_attrs : forall md rm e, same_but_extras e (cmd_acl md rm e) /\ non_acl (le_extras (cmd_acl md rm e)) = non_acl (le_extras e).
Print Assumptions C10_effect_acl_other_attrs.

Theorem C10_effect_acl_modify : forall s l, exists a, In a (acl_modify s l) /\ spec_match s a = true /\ a_perm a = a_perm (spec_ace s).
Proof. exact acl_modify_effect. Qed.
Check C10_effect_acl_modify : forall s l, exists a, In a (acl_modify s l) /\ spec_match s a = true /\ a_perm a = a_perm (spec_ace s).
Print Assumptions C10_effect_acl_modify.

Theorem C10_frame_acl_modify : forall s l, filter (fun a => negb (spec_match s a)) (acl_modify s l) = filter (fun a => negb (spec_match s a)) l.
Proof. exact acl_modify_frame. Qed.
Check C10_frame_acl_modify : forall s l, filter (fun a => negb (spec_match s a)) (acl_modify s l) = filter (fun a => negb (spec_match s a)) l.
Print Assumptions C10_frame_acl_modify.

Theorem C10_effect_acl_remove : forall r l a, In a (filter (fun a => negb (spec_match r a)) l) -> spec_match r a = false.
Proof. exact acl_remove_effect. Qed.
Check C10_effect_acl_remove : forall r l a, In a (filter (fun a => negb (spec_match r a)) l) -> spec_match r a = false.
Print Assumptions C10_effect_acl_remove.

Theorem C10_effect_migrate : forall e e', cmd_migrate e = Ok e' -> same_but_extras e e' /\ non_acl (le_extras e') = non_acl (le_extras e).
Proof. exact migrate_attrs. Qed.
Check C10_effect_migrate : forall e e', cmd_migrate e = Ok e' -> same_but_extras e e' /\ non_acl (le_extras e') = non_acl (le_extras e).
Print Assumptions C10_effect_migrate.

Theorem C10_effect_strip : forall o e, le_name (cmd_strip o e) = le_name e /\ le_kind (cmd_strip o e) = le_kind e /\
  le_hdr (cmd_strip o e) = le_hdr e /\ le_content (cmd_strip o e) = le_content e /\
  (le_ctime (cmd_strip o e), le_mtime (cmd_strip o e), le_atime (cmd_strip o e))
    = (if keep_time o then (le_ctime e, le_mtime e, le_atime e) else (None, None, None)) /\
  le_perm (cmd_strip o e) = (if keep_perm o then le_perm e else None) /\
  le_xattrs (cmd_strip o e) = (if keep_xattr o then le_xattrs e else []).
Proof. exact strip_attrs. Qed.
Check C10_effect_strip : forall o e, le_name (cmd_strip o e) = le_name e /\ le_kind (cmd_strip o e) = le_kind e /\
  le_hdr (cmd_strip o e) = le_hdr e /\ le_content (cmd_strip o e) = le_content e /\
  (le_ctime (cmd_strip o e), le_mtime (cmd_strip o e), le_atime (cmd_strip o e))
    = (if keep_time o then (le_ctime e, le_mtime e, le_atime e) else (None, None, None)) /\
  le_perm (cmd_strip o e) = (if keep_perm o then le_perm e else None) /\
  le_xattrs (cmd_strip o e) = (if keep_xattr o then le_xattrs e else []).
Print Assumptions C10_effect_strip.

Theorem C10_strip_keeps_exactly : forall o e, le_extras (cmd_strip o e) = filter (kept_by o) (le_extras e).
Proof. exact strip_keeps_exactly. Qed.
Check C10_strip_keeps_exactly : forall o e, le_extras (cmd_strip o e) = filter (kept_by o) (le_extras e).
Print Assumptions C10_strip_keeps_exactly.

Theorem C10_extras_survive_cli : forall c e e', cmd_entry c e = Ok (Some e') ->
  match c with
  | CChmod _ | CChown _ _ | CXattr _ _ | CDelete => le_extras e' = le_extras e
  | CAcl _ _ | CMigrate => non_acl (le_extras e') = non_acl (le_extras e)
  | CStrip o => le_extras e' = filter (kept_by o) (le_extras e)
  end.
Proof. exact extras_survive_entry. Qed.
Check C10_extras_survive_cli : forall c e e', cmd_entry c e = Ok (Some e') ->
  match c with
  | CChmod _ | CChown _ _ | CXattr _ _ | CDelete => le_extras e' = le_extras e
  | CAcl _ _ | CMigrate => non_acl (le_extras e') = non_acl (le_extras e)
  | CStrip o => le_extras e' = filter (kept_by o) (le_extras e)
  end.
Print Assumptions C10_extras_survive_cli.

Theorem C10_apply_mode_idempotent : forall md x, apply_mode md (apply_mode md x) = apply_mode md x.
Proof. exact mode_apply_idem. Qed.
Check C10_apply_mode_idempotent : forall md x, apply_mode md (apply_mode md x) = apply_mode md x.
Print Assumptions C10_apply_mode_idempotent.

Theorem C10_idempotent : forall sel keep pw c nf a a', acl_free c = true ->
  run_cmd keep pw c nf sel a = Ok a' -> run_cmd keep pw c nf sel a' = Ok a'.
Proof. exact idempotent_acl_free. Qed.
Check C10_idempotent : forall sel keep pw c nf a a', acl_free c = true ->
  run_cmd keep pw c nf sel a = Ok a' -> run_cmd keep pw c nf sel a' = Ok a'.
Print Assumptions C10_idempotent.

Theorem C10_idempotent_acl_partial : forall sel keep pw c nf a a', (forall e, In e (entries a) -> acl_reads_back c e) ->
  run_cmd keep pw c nf sel a = Ok a' -> run_cmd keep pw c nf sel a' = Ok a'.
Proof. exact idempotent_all. Qed.
Check C10_idempotent_acl_partial : forall sel keep pw c nf a a', (forall e, In e (entries a) -> acl_reads_back c e) ->
  run_cmd keep pw c nf sel a = Ok a' -> run_cmd keep pw c nf sel a' = Ok a'.
Print Assumptions C10_idempotent_acl_partial.

Theorem C10_acl_edit_idempotent : forall md rm l, acl_edit md rm (acl_edit md rm l) = acl_edit md rm l.
Proof. exact acl_edit_idem. Qed.
Check C10_acl_edit_idempotent : forall md rm l, acl_edit md rm (acl_edit md rm l) = acl_edit md rm l.
Print Assumptions C10_acl_edit_idempotent.

Theorem C10_idempotent_acl_refuted : exists a a', run_cmd true false wit_cmd 1 (fun _ => true) a = Ok a' /\
               run_cmd true false wit_cmd 1 (fun _ => true) a' <> Ok a'.
Proof. exact idempotent_acl_refuted. Qed.
Check C10_idempotent_acl_refuted : exists a a', run_cmd true false wit_cmd 1 (fun _ => true) a = Ok a' /\
               run_cmd true false wit_cmd 1 (fun _ => true) a' <> Ok a'.
Print Assumptions C10_idempotent_acl_refuted.

Theorem C10_keep_solid_shape : forall pw f a a', transform true pw f a = Ok a' ->
  Forall2 (fun b b' => fst b' = fst b /\ map_entries f (snd b) = Ok (snd b')) (solid_blocks a) (solid_blocks a').
Proof. exact keep_solid_shape. Qed.
Check C10_keep_solid_shape : forall pw f a a', transform true pw f a = Ok a' ->
  Forall2 (fun b b' => fst b' = fst b /\ map_entries f (snd b) = Ok (snd b')) (solid_blocks a) (solid_blocks a').
Print Assumptions C10_keep_solid_shape.

Theorem C10_unsolid_shape : forall pw f a a', transform false pw f a = Ok a' -> solid_blocks a' = [].
Proof. exact unsolid_shape. Qed.
Check C10_unsolid_shape : forall pw f a a', transform false pw f a = Ok a' -> solid_blocks a' = [].
Print Assumptions C10_unsolid_shape.

Theorem C10_example_premises : exists a', run_cmd true false (CChmod (MEqual 2 0)) 1 (fun n => bytes_eqb n (lit "b")) ex_archive = Ok a'
             /\ a' <> ex_archive.
Proof. exact ex_run_ok. Qed.
Check C10_example_premises : exists a', run_cmd true false (CChmod (MEqual 2 0)) 1 (fun n => bytes_eqb n (lit "b")) ex_archive = Ok a'
             /\ a' <> ex_archive.
Print Assumptions C10_example_premises.

Theorem C10_example_reads_back : acl_reads_back CMigrate wit_entry.
Proof. exact ex_reads_back. Qed.
Check C10_example_reads_back : acl_reads_back CMigrate wit_entry.
Print Assumptions C10_example_reads_back.
