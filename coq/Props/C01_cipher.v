(* Props/C01 (cipher part) — the executable AES-256 (Model/Aes.v, FIPS-197) and Camellia-256 (Model/Camellia.v,
   RFC 3713) that the pipeline model is run with against libpna are length-preserving permutations of 16-byte blocks,
   so the block-cipher premises of the pipeline theorems (Props/C01_pipeline.v) are discharged for them; the main
   theorems are restated with these ciphers, leaving the laws of the compressors and of the KDF as the only
   premises.  (That the `aes` / `camellia` crates compute the same functions as these models is established by the
   correspondence runs and by the standard test vectors in Aes.v / Camellia.v, not by proof.)
   Only statements, closed by `exact`, pinned by `Check`, audited by `Print Assumptions`. *)
From PNA Require Import Base Crc32 Name Codec Chunk Archive Entry Flatten Cbc Ctr Pipeline Aes Camellia
  BaseFacts CodecFacts ChunkFacts ArchiveFacts EntryFacts CbcFacts PipelineFacts AesFacts CamelliaFacts PipelineRealFacts.
Open Scope N_scope.

(* the AES-256 model: InvCipher undoes Cipher, for every key and every block (no length premise) *)
Theorem C01_aes_dec_enc :
  forall k b : bytes, aes_dec k (aes_enc k b) = b.
Proof. exact aes_dec_enc. Qed.
Check C01_aes_dec_enc :
  forall k b : bytes, aes_dec k (aes_enc k b) = b.
Print Assumptions C01_aes_dec_enc.

(* ... and both preserve the length *)
Theorem C01_aes_enc_length :
  forall k b : bytes, length (aes_enc k b) = length b.
Proof. exact aes_enc_length. Qed.
Check C01_aes_enc_length :
  forall k b : bytes, length (aes_enc k b) = length b.
Print Assumptions C01_aes_enc_length.

Theorem C01_aes_dec_length :
  forall k c : bytes, length (aes_dec k c) = length c.
Proof. exact aes_dec_length. Qed.
Check C01_aes_dec_length :
  forall k c : bytes, length (aes_dec k c) = length c.
Print Assumptions C01_aes_dec_length.

(* the Camellia-256 model: decryption undoes encryption on 16-byte blocks, for every key *)
Theorem C01_cam_dec_enc :
  forall (key : bytes) (m : list byte), length m = 16%nat -> cam_dec key (cam_enc key m) = m.
Proof. exact cam_dec_enc. Qed.
Check C01_cam_dec_enc :
  forall (key : bytes) (m : list byte), length m = 16%nat -> cam_dec key (cam_enc key m) = m.
Print Assumptions C01_cam_dec_enc.

(* ... and both map 16-byte blocks to 16-byte blocks *)
Theorem C01_cam_enc_length :
  forall (key : bytes) (m : list byte), length m = 16%nat -> length (cam_enc key m) = 16%nat.
Proof. exact cam_enc_length. Qed.
Check C01_cam_enc_length :
  forall (key : bytes) (m : list byte), length m = 16%nat -> length (cam_enc key m) = 16%nat.
Print Assumptions C01_cam_enc_length.

Theorem C01_cam_dec_length :
  forall (key : bytes) (c : list byte), length c = 16%nat -> length (cam_dec key c) = 16%nat.
Proof. exact cam_dec_length. Qed.
Check C01_cam_dec_length :
  forall (key : bytes) (c : list byte), length c = 16%nat -> length (cam_dec key c) = 16%nat.
Print Assumptions C01_cam_dec_length.

(* the three block-cipher premises of the C01 pipeline theorems hold for real_E_of / real_D_of (AES for EAes, Camellia for ECamellia) *)
Theorem C01_real_DE :
  forall (a : encryption) (k b : bytes), len16 b -> real_D_of a k (real_E_of a k b) = b.
Proof. exact real_DE. Qed.
Check C01_real_DE :
  forall (a : encryption) (k b : bytes), len16 b -> real_D_of a k (real_E_of a k b) = b.
Print Assumptions C01_real_DE.

Theorem C01_real_E_len :
  forall (a : encryption) (k b : bytes), len16 b -> len16 (real_E_of a k b).
Proof. exact real_E_len. Qed.
Check C01_real_E_len :
  forall (a : encryption) (k b : bytes), len16 b -> len16 (real_E_of a k b).
Print Assumptions C01_real_E_len.

Theorem C01_real_D_len :
  forall (a : encryption) (k c : bytes), len16 c -> len16 (real_D_of a k c).
Proof. exact real_D_len. Qed.
Check C01_real_D_len :
  forall (a : encryption) (k c : bytes), len16 c -> len16 (real_D_of a k c).
Print Assumptions C01_real_D_len.

(* C01_entry_roundtrip with the cipher premises discharged: what remains are the laws of the compressors and of the KDF *)
Theorem C01_entry_roundtrip_real :
  forall (compress : compression -> N -> list bytes -> list bytes)
    (decompress : compression -> bytes -> res bytes) (verify : bytes -> bytes -> res bytes),
  (forall (c : compression) (lvl : N) (ws : list bytes),
   decompress c (concat (compress c lvl ws)) = Ok (concat ws)) ->
  forall (cfg : config) (ctx : cctx) (pw : bytes) (sp : spec) (wcuts : list bytes) (rbufs : list N),
  wf_ctx verify ctx pw ->
  concat (eff_wcuts (sp_kind sp) wcuts) = sp_content sp ->
  Forall (fun n : N => 0 < n) rbufs ->
  covers compress (eff_cfg cfg (sp_kind sp)) (eff_wcuts (sp_kind sp) wcuts) rbufs ->
  decode_normal real_E_of real_D_of decompress verify (build_normal real_E_of compress cfg ctx sp wcuts) pw
    rbufs = Ok (sp_content sp).
Proof. exact entry_roundtrip_real. Qed.
Check C01_entry_roundtrip_real :
  forall (compress : compression -> N -> list bytes -> list bytes)
    (decompress : compression -> bytes -> res bytes) (verify : bytes -> bytes -> res bytes),
  (forall (c : compression) (lvl : N) (ws : list bytes),
   decompress c (concat (compress c lvl ws)) = Ok (concat ws)) ->
  forall (cfg : config) (ctx : cctx) (pw : bytes) (sp : spec) (wcuts : list bytes) (rbufs : list N),
  wf_ctx verify ctx pw ->
  concat (eff_wcuts (sp_kind sp) wcuts) = sp_content sp ->
  Forall (fun n : N => 0 < n) rbufs ->
  covers compress (eff_cfg cfg (sp_kind sp)) (eff_wcuts (sp_kind sp) wcuts) rbufs ->
  decode_normal real_E_of real_D_of decompress verify (build_normal real_E_of compress cfg ctx sp wcuts) pw
    rbufs = Ok (sp_content sp).
Print Assumptions C01_entry_roundtrip_real.

(* C01_roundtrip with the cipher premises discharged *)
Theorem C01_roundtrip_real :
  forall (compress : compression -> N -> list bytes -> list bytes)
    (decompress : compression -> bytes -> res bytes) (verify : bytes -> bytes -> res bytes),
  (forall (c : compression) (lvl : N) (ws : list bytes),
   decompress c (concat (compress c lvl ws)) = Ok (concat ws)) ->
  (forall (c : compression) (lvl : N) (ws ws' : list bytes),
   concat ws = concat ws' -> concat (compress c lvl ws) = concat (compress c lvl ws')) ->
  forall (pw : bytes) (jobs : list job),
  Forall (wf_job real_E_of compress verify pw) jobs ->
  read_archive (write_archive (map (build_job real_E_of compress) jobs)) =
  Ok (map (fun j : job => RNormal (build_job real_E_of compress j)) jobs) /\
  (forall j : job,
   In j jobs ->
   (forall rbufs : list N,
    Forall (fun n : N => 0 < n) rbufs ->
    covers compress (eff_cfg (j_cfg j) (sp_kind (j_spec j))) (eff_wcuts (sp_kind (j_spec j)) (j_wcuts j)) rbufs ->
    decode_normal real_E_of real_D_of decompress verify (build_job real_E_of compress j) pw rbufs =
    Ok (sp_content (j_spec j))) /\
   f_name (n_hdr (build_job real_E_of compress j)) = sp_name (j_spec j) /\
   f_kind (n_hdr (build_job real_E_of compress j)) = sp_kind (j_spec j) /\
   m_ctime (n_meta (build_job real_E_of compress j)) = sp_ctime (j_spec j) /\
   m_mtime (n_meta (build_job real_E_of compress j)) = sp_mtime (j_spec j) /\
   m_atime (n_meta (build_job real_E_of compress j)) = sp_atime (j_spec j) /\
   m_perm (n_meta (build_job real_E_of compress j)) = sp_perm (j_spec j) /\
   n_xattrs (build_job real_E_of compress j) = sp_xattrs (j_spec j) /\
   n_extra (build_job real_E_of compress j) = sp_extra (j_spec j)).
Proof. exact roundtrip_real. Qed.
Check C01_roundtrip_real :
  forall (compress : compression -> N -> list bytes -> list bytes)
    (decompress : compression -> bytes -> res bytes) (verify : bytes -> bytes -> res bytes),
  (forall (c : compression) (lvl : N) (ws : list bytes),
   decompress c (concat (compress c lvl ws)) = Ok (concat ws)) ->
  (forall (c : compression) (lvl : N) (ws ws' : list bytes),
   concat ws = concat ws' -> concat (compress c lvl ws) = concat (compress c lvl ws')) ->
  forall (pw : bytes) (jobs : list job),
  Forall (wf_job real_E_of compress verify pw) jobs ->
  read_archive (write_archive (map (build_job real_E_of compress) jobs)) =
  Ok (map (fun j : job => RNormal (build_job real_E_of compress j)) jobs) /\
  (forall j : job,
   In j jobs ->
   (forall rbufs : list N,
    Forall (fun n : N => 0 < n) rbufs ->
    covers compress (eff_cfg (j_cfg j) (sp_kind (j_spec j))) (eff_wcuts (sp_kind (j_spec j)) (j_wcuts j)) rbufs ->
    decode_normal real_E_of real_D_of decompress verify (build_job real_E_of compress j) pw rbufs =
    Ok (sp_content (j_spec j))) /\
   f_name (n_hdr (build_job real_E_of compress j)) = sp_name (j_spec j) /\
   f_kind (n_hdr (build_job real_E_of compress j)) = sp_kind (j_spec j) /\
   m_ctime (n_meta (build_job real_E_of compress j)) = sp_ctime (j_spec j) /\
   m_mtime (n_meta (build_job real_E_of compress j)) = sp_mtime (j_spec j) /\
   m_atime (n_meta (build_job real_E_of compress j)) = sp_atime (j_spec j) /\
   m_perm (n_meta (build_job real_E_of compress j)) = sp_perm (j_spec j) /\
   n_xattrs (build_job real_E_of compress j) = sp_xattrs (j_spec j) /\
   n_extra (build_job real_E_of compress j) = sp_extra (j_spec j)).
Print Assumptions C01_roundtrip_real.

(* C01_write_file_roundtrip with the cipher premises discharged *)
Theorem C01_write_file_roundtrip_real :
  forall (compress : compression -> N -> list bytes -> list bytes)
    (decompress : compression -> bytes -> res bytes) (verify : bytes -> bytes -> res bytes),
  (forall (c : compression) (lvl : N) (ws : list bytes),
   decompress c (concat (compress c lvl ws)) = Ok (concat ws)) ->
  forall (cfg : config) (ctx : cctx) (pw : bytes) (sp : spec) (wcuts : list (list byte)),
  wf_spec sp ->
  wf_ctx verify ctx pw ->
  concat wcuts = sp_content sp ->
  exists e : normal_entry,
    parse_normal (stream_file_chunks real_E_of compress cfg ctx sp wcuts) = Ok e /\
    m_raw_size (n_meta e) = None /\
    f_name (n_hdr e) = sp_name sp /\
    f_kind (n_hdr e) = KFile /\
    m_ctime (n_meta e) = sp_ctime sp /\
    m_mtime (n_meta e) = sp_mtime sp /\
    m_atime (n_meta e) = sp_atime sp /\
    m_perm (n_meta e) = sp_perm sp /\
    m_compressed (n_meta e) = fold_left N.add (map len (n_data e)) 0 /\
    (forall rbufs : list N,
     Forall (fun n : N => 0 < n) rbufs ->
     covers compress cfg wcuts rbufs ->
     decode_normal real_E_of real_D_of decompress verify e pw rbufs = Ok (sp_content sp)).
Proof. exact write_file_roundtrip_real. Qed.
Check C01_write_file_roundtrip_real :
  forall (compress : compression -> N -> list bytes -> list bytes)
    (decompress : compression -> bytes -> res bytes) (verify : bytes -> bytes -> res bytes),
  (forall (c : compression) (lvl : N) (ws : list bytes),
   decompress c (concat (compress c lvl ws)) = Ok (concat ws)) ->
  forall (cfg : config) (ctx : cctx) (pw : bytes) (sp : spec) (wcuts : list (list byte)),
  wf_spec sp ->
  wf_ctx verify ctx pw ->
  concat wcuts = sp_content sp ->
  exists e : normal_entry,
    parse_normal (stream_file_chunks real_E_of compress cfg ctx sp wcuts) = Ok e /\
    m_raw_size (n_meta e) = None /\
    f_name (n_hdr e) = sp_name sp /\
    f_kind (n_hdr e) = KFile /\
    m_ctime (n_meta e) = sp_ctime sp /\
    m_mtime (n_meta e) = sp_mtime sp /\
    m_atime (n_meta e) = sp_atime sp /\
    m_perm (n_meta e) = sp_perm sp /\
    m_compressed (n_meta e) = fold_left N.add (map len (n_data e)) 0 /\
    (forall rbufs : list N,
     Forall (fun n : N => 0 < n) rbufs ->
     covers compress cfg wcuts rbufs ->
     decode_normal real_E_of real_D_of decompress verify e pw rbufs = Ok (sp_content sp)).
Print Assumptions C01_write_file_roundtrip_real.

(* C01_solid_builder_roundtrip with the cipher premises discharged *)
Theorem C01_solid_builder_roundtrip_real :
  forall (compress : compression -> N -> list bytes -> list bytes)
    (decompress : compression -> bytes -> res bytes) (verify : bytes -> bytes -> res bytes),
  (forall (c : compression) (lvl : N) (ws : list bytes),
   decompress c (concat (compress c lvl ws)) = Ok (concat ws)) ->
  (forall (c : compression) (lvl : N) (ws ws' : list bytes),
   concat ws = concat ws' -> concat (compress c lvl ws) = concat (compress c lvl ws')) ->
  forall (cfg : config) (ctx : cctx) (pw : bytes) (extra : list chunk) (inner : list normal_entry)
    (rbufs : list N),
  wf_ctx verify ctx pw ->
  Forall wf_normal inner ->
  Forall fits inner ->
  Forall (fun n : N => 0 < n) rbufs ->
  covers compress cfg (solid_writes inner) rbufs ->
  decode_solid real_E_of real_D_of decompress verify
    (build_solid real_E_of compress cfg ctx extra (solid_writes inner)) pw rbufs =
  Ok (map normalize inner, FinOk).
Proof. exact solid_builder_roundtrip_real. Qed.
Check C01_solid_builder_roundtrip_real :
  forall (compress : compression -> N -> list bytes -> list bytes)
    (decompress : compression -> bytes -> res bytes) (verify : bytes -> bytes -> res bytes),
  (forall (c : compression) (lvl : N) (ws : list bytes),
   decompress c (concat (compress c lvl ws)) = Ok (concat ws)) ->
  (forall (c : compression) (lvl : N) (ws ws' : list bytes),
   concat ws = concat ws' -> concat (compress c lvl ws) = concat (compress c lvl ws')) ->
  forall (cfg : config) (ctx : cctx) (pw : bytes) (extra : list chunk) (inner : list normal_entry)
    (rbufs : list N),
  wf_ctx verify ctx pw ->
  Forall wf_normal inner ->
  Forall fits inner ->
  Forall (fun n : N => 0 < n) rbufs ->
  covers compress cfg (solid_writes inner) rbufs ->
  decode_solid real_E_of real_D_of decompress verify
    (build_solid real_E_of compress cfg ctx extra (solid_writes inner)) pw rbufs =
  Ok (map normalize inner, FinOk).
Print Assumptions C01_solid_builder_roundtrip_real.

(* C01_solid_archive_add_entry_roundtrip with the cipher premises discharged *)
Theorem C01_solid_archive_add_entry_roundtrip_real :
  forall (compress : compression -> N -> list bytes -> list bytes)
    (decompress : compression -> bytes -> res bytes) (verify : bytes -> bytes -> res bytes),
  (forall (c : compression) (lvl : N) (ws : list bytes),
   decompress c (concat (compress c lvl ws)) = Ok (concat ws)) ->
  (forall (c : compression) (lvl : N) (ws ws' : list bytes),
   concat ws = concat ws' -> concat (compress c lvl ws) = concat (compress c lvl ws')) ->
  forall (cfg : config) (ctx : cctx) (pw : bytes) (inner : list normal_entry) (rbufs : list N),
  wf_ctx verify ctx pw ->
  Forall wf_normal inner ->
  Forall fits inner ->
  Forall (fun n : N => 0 < n) rbufs ->
  covers compress cfg (solid_writes inner) rbufs ->
  exists s : solid_entry,
    parse_solid (solid_archive_chunks real_E_of compress cfg ctx (solid_writes inner)) = Ok s /\
    decode_solid real_E_of real_D_of decompress verify s pw rbufs = Ok (map normalize inner, FinOk).
Proof. exact solid_archive_add_entry_roundtrip_real. Qed.
Check C01_solid_archive_add_entry_roundtrip_real :
  forall (compress : compression -> N -> list bytes -> list bytes)
    (decompress : compression -> bytes -> res bytes) (verify : bytes -> bytes -> res bytes),
  (forall (c : compression) (lvl : N) (ws : list bytes),
   decompress c (concat (compress c lvl ws)) = Ok (concat ws)) ->
  (forall (c : compression) (lvl : N) (ws ws' : list bytes),
   concat ws = concat ws' -> concat (compress c lvl ws) = concat (compress c lvl ws')) ->
  forall (cfg : config) (ctx : cctx) (pw : bytes) (inner : list normal_entry) (rbufs : list N),
  wf_ctx verify ctx pw ->
  Forall wf_normal inner ->
  Forall fits inner ->
  Forall (fun n : N => 0 < n) rbufs ->
  covers compress cfg (solid_writes inner) rbufs ->
  exists s : solid_entry,
    parse_solid (solid_archive_chunks real_E_of compress cfg ctx (solid_writes inner)) = Ok s /\
    decode_solid real_E_of real_D_of decompress verify s pw rbufs = Ok (map normalize inner, FinOk).
Print Assumptions C01_solid_archive_add_entry_roundtrip_real.
