(* Props/C07.v — C07: no input makes a reader panic or hang.
   In the model every Rust site that can panic is a `Panic` outcome and every loop runs on fuel;
   "no input panics" is `<> Panic` for ALL byte strings, "no input hangs" is fuel adequacy
   (each successful chunk read strictly shortens the input).  Chunk level (this file, growing). *)
From PNA Require Import Base Crc32 Chunk BaseFacts ChunkFacts.
Open Scope N_scope.

Theorem C07_chunk_reader_never_panics : forall bs, read_chunk_stream bs <> Panic.
Proof. exact read_chunk_no_panic. Qed.
Print Assumptions C07_chunk_reader_never_panics.

Theorem C07_slice_chunk_reader_never_panics : forall bs, read_chunk_slice bs <> Panic.
Proof. exact read_chunk_slice_no_panic. Qed.
Print Assumptions C07_slice_chunk_reader_never_panics.

Theorem C07_chunk_reader_outcomes :
  forall bs, (exists c r, read_chunk_stream bs = Ok (c, r)) \/
             read_chunk_stream bs = Err UnexpectedEof \/ read_chunk_stream bs = Err InvalidData.
Proof. exact read_chunk_cases. Qed.
Print Assumptions C07_chunk_reader_outcomes.

(* progress: the termination measure of every reader loop *)
Theorem C07_chunk_reader_consumes :
  forall bs c r, read_chunk_stream bs = Ok (c, r) -> (length r + 12 <= length bs)%nat.
Proof. exact read_chunk_consumes. Qed.
Print Assumptions C07_chunk_reader_consumes.
