(* Props/C07.v — C07: no input makes a reader panic or hang.
   In the model every Rust site that can panic is a `Panic` outcome and every loop runs on fuel;
   "no input panics" is `<> Panic` for ALL byte strings, "no input hangs" is fuel adequacy
   (each successful chunk read strictly shortens the input).  Chunk level (this file, growing). *)
From PNA Require Import Base Crc32 Codec Chunk Archive Entry BaseFacts ChunkFacts ArchiveFacts EntryFacts.
Open Scope N_scope.

Theorem C07_chunk_reader_never_panics : forall bs, read_chunk_stream bs <> Panic.
Proof. exact read_chunk_no_panic. Qed.
Print Assumptions C07_chunk_reader_never_panics.

Theorem C07_slice_chunk_reader_never_panics : forall bs, read_chunk_slice bs <> Panic.
Proof. exact read_chunk_slice_no_panic. Qed.
Print Assumptions C07_slice_chunk_reader_never_panics.

Theorem C07_chunk_reader_outcomes :
  forall bs, (exists c r, read_chunk_stream bs = Ok (c, r)) \/
             read_chunk_stream bs = Err UnexpectedEof \/ read_chunk_stream bs = Err InvalidData.
Proof. exact read_chunk_cases. Qed.
Print Assumptions C07_chunk_reader_outcomes.

(* progress: the termination measure of every reader loop *)
Theorem C07_chunk_reader_consumes :
  forall bs c r, read_chunk_stream bs = Ok (c, r) -> (length r + 12 <= length bs)%nat.
Proof. exact read_chunk_consumes. Qed.
Print Assumptions C07_chunk_reader_consumes.

(* ---- archive and entry level: for ALL byte strings ------------------------------------------
   with the fuel the model gives its loops (S (length input)) no reader returns Panic (= no Rust
   panic site is reachable) nor runs out of fuel (= every loop terminates: FinPanic is also the
   out-of-fuel marker of the iterators) *)
Theorem C07_readers_total_stream :
  (forall bs, read_chunks read_chunk_stream bs <> Panic /\ forall cs f, read_chunks read_chunk_stream bs = Ok (cs, f) -> f <> FinPanic) /\
  (forall bs, raw_entries read_chunk_stream bs <> Panic /\ forall es f st, raw_entries read_chunk_stream bs = Ok (es, f, st) -> f <> FinPanic) /\
  (forall parts, read_parts read_chunk_stream parts <> Panic /\ forall es f, read_parts read_chunk_stream parts = Ok (es, f) -> f <> FinPanic) /\
  (forall s, next_raw_item read_chunk_stream s <> Panic).
Proof. exact read_total_stream. Qed.
Print Assumptions C07_readers_total_stream.

Theorem C07_readers_total_slice :
  (forall bs, read_chunks read_chunk_slice bs <> Panic /\ forall cs f, read_chunks read_chunk_slice bs = Ok (cs, f) -> f <> FinPanic) /\
  (forall bs, raw_entries read_chunk_slice bs <> Panic /\ forall es f st, raw_entries read_chunk_slice bs = Ok (es, f, st) -> f <> FinPanic) /\
  (forall parts, read_parts read_chunk_slice parts <> Panic /\ forall es f, read_parts read_chunk_slice parts = Ok (es, f) -> f <> FinPanic) /\
  (forall s, next_raw_item read_chunk_slice s <> Panic).
Proof. exact read_total_slice. Qed.
Print Assumptions C07_readers_total_slice.

(* structured entries (every field parser: FHED, SHED, PHSF, fSIZ, times, fPRM, xATR) *)
Theorem C07_entries_never_panic :
  forall bs, entries read_chunk_stream bs <> Panic /\
             (forall es f, entries read_chunk_stream bs = Ok (es, f) -> f <> FinPanic).
Proof. exact entries_no_panic. Qed.
Print Assumptions C07_entries_never_panic.

(* streams nested inside (plain) solid entries *)
Theorem C07_solid_expansion_never_panics : forall s, snd (solid_inner_entries s) <> FinPanic.
Proof. exact solid_inner_entries_no_panic. Qed.
Print Assumptions C07_solid_expansion_never_panics.
