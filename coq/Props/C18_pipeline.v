(* Props/C18_pipeline.v — C18: sizes reported by BUILT entries (EntryBuilder / the streaming writers), on the
   pipeline model (Model/Pipeline.v, tied to libpna byte for byte by the `pipeline` correspondence, which also
   compares raw and compressed size of every built entry with the implementation's Metadata).
   raw size     = the number of content bytes handed over, for EVERY partition into write() calls, every
                  compressor and cipher; absent for directories and links;
   compressed   = the sum of the data-chunk payloads (IV included when encrypted).
   The statement is the size part of PipelineFacts.metadata_roundtrip. *)
From PNA Require Import Base Codec Chunk Entry Cbc Pipeline CbcFacts PipelineFacts.
Open Scope N_scope.

Theorem C18_built_sizes :
  forall (E D : encryption -> bytes -> bytes -> bytes) (compress : compression -> N -> list bytes -> list bytes)
    (verify : bytes -> bytes -> res bytes),
  (forall (a : encryption) (k c : bytes), len16 c -> len16 (D a k c)) ->
  (forall (a : encryption) (k b : bytes), len16 b -> D a k (E a k b) = b) ->
  (forall (a : encryption) (k b : bytes), len16 b -> len16 (E a k b)) ->
  forall (cfg : config) (ctx : cctx) (pw : bytes) (sp : spec) (wcuts : list bytes),
  wf_spec sp -> wf_ctx verify ctx pw -> concat (eff_wcuts (sp_kind sp) wcuts) = sp_content sp ->
  let e := build_normal E compress cfg ctx sp wcuts in
  m_raw_size (n_meta e) = (match sp_kind sp with KFile => Some (len (sp_content sp)) | _ => None end) /\
  m_compressed (n_meta e) = fold_left N.add (map len (n_data e)) 0 /\
  parse_normal (ser_normal e) = Ok e.
Proof.
  intros E D compress verify HD HDE HE cfg ctx pw sp wcuts Hs Hc Hw e.
  destruct (metadata_roundtrip E D compress verify HD HDE HE cfg ctx pw sp wcuts Hs Hc Hw)
    as (Hp & Hn & _ & _ & _ & _ & _ & _ & _ & _ & Hr & Hz).
  fold e in Hp, Hn. rewrite Hn in Hp. exact (conj Hr (conj Hz Hp)).
Qed.
Check C18_built_sizes :
  forall (E D : encryption -> bytes -> bytes -> bytes) (compress : compression -> N -> list bytes -> list bytes)
    (verify : bytes -> bytes -> res bytes),
  (forall (a : encryption) (k c : bytes), len16 c -> len16 (D a k c)) ->
  (forall (a : encryption) (k b : bytes), len16 b -> D a k (E a k b) = b) ->
  (forall (a : encryption) (k b : bytes), len16 b -> len16 (E a k b)) ->
  forall (cfg : config) (ctx : cctx) (pw : bytes) (sp : spec) (wcuts : list bytes),
  wf_spec sp -> wf_ctx verify ctx pw -> concat (eff_wcuts (sp_kind sp) wcuts) = sp_content sp ->
  let e := build_normal E compress cfg ctx sp wcuts in
  m_raw_size (n_meta e) = (match sp_kind sp with KFile => Some (len (sp_content sp)) | _ => None end) /\
  m_compressed (n_meta e) = fold_left N.add (map len (n_data e)) 0 /\
  parse_normal (ser_normal e) = Ok e.
Print Assumptions C18_built_sizes.
