(* Props/C19.v — C19: results do not depend on worker-thread count or scheduling.
   Only statements, closed by `exact`, pinned by `Check`, audited by `Print Assumptions`.

   Model/Sched.v: a fork/join language (Spawn i | Scope body), configurations (open scopes with the statements
   left and the tasks in flight, channel contents), `enabled` = every possible next step (the main thread's next
   statement; ANY in-flight task finishing), `exec p tr` = tr is a complete execution of p, `channel tr` = what
   the receiver finds.  `per_item` is the shape the code has (one scope_fifo per item), `single_scope` the
   harmless-looking variant.  `build` is arbitrary: with encryption and timestamps off it is a function of the
   file alone, so equal channel contents give equal archive bytes (writer determinism is C01's subject).

   What stays outside the proof: rayon's scheduler and that scope_fifo joins before returning; the mpsc channel;
   that the Rust loops have the shape `per_item` — the tie is behavioural (props/C19.py observes exactly one
   entry order per command under 1..32 workers with adversarial item timing and CPU contention; the
   single-scope shape would show a second order there).  So: partial by nature, as DESIGN.md §5 C19 says. *)
From PNA Require Import Base Overwrite Sched SchedFacts.
Require Import Coq.Sorting.Permutation.

Theorem C19_per_item_scope_ordered : forall (I E : Type) (build : I -> E) (items : list I) (tr : list event),
  exec build (per_item items) tr -> channel build tr = map build items.
Proof. exact (@per_item_scope_ordered). Qed.
Check C19_per_item_scope_ordered : forall (I E : Type) (build : I -> E) (items : list I) (tr : list event),
  exec build (per_item items) tr -> channel build tr = map build items.
Print Assumptions C19_per_item_scope_ordered.

(* the premise is met: the per-item program has a complete execution *)
Theorem C19_per_item_exec_example : forall (I E : Type) (build : I -> E) (a b : I),
  exec build (per_item [a; b]) [EvOpen; EvSubmit a; EvRun a; EvClose; EvOpen; EvSubmit b; EvRun b; EvClose].
Proof. exact (@per_item_exec_example). Qed.
Print Assumptions C19_per_item_exec_example.

(* non-vacuity: one scope around the loop is a different program with more behaviours *)
Theorem C19_one_scope_unordered : forall (I E : Type) (build : I -> E) (a b : I),
  exists tr, exec build (single_scope [a; b]) tr /\ channel build tr = [build b; build a].
Proof. exact (@one_scope_unordered). Qed.
Check C19_one_scope_unordered : forall (I E : Type) (build : I -> E) (a b : I),
  exists tr, exec build (single_scope [a; b]) tr /\ channel build tr = [build b; build a].
Print Assumptions C19_one_scope_unordered.

Theorem C19_single_scope_ordered_too : forall (I E : Type) (build : I -> E) (a b : I),
  exists tr, exec build (single_scope [a; b]) tr /\ channel build tr = [build a; build b].
Proof. exact (@single_scope_ordered_too). Qed.
Print Assumptions C19_single_scope_ordered_too.

(* the channel of the configuration and the channel of the trace are the same thing *)
Theorem C19_run_chan : forall (I E : Type) (build : I -> E) c tr c',
  run build c tr c' -> chan c' = chan c ++ channel build tr.
Proof. exact (@run_chan). Qed.
Print Assumptions C19_run_chan.

(* the executable exploration of all interleavings (what `orders` cases answer) says the same *)
Theorem C19_all_orders_per_item_4 : all_orders PerItem 4 = [[0; 1; 2; 3]].
Proof. exact all_orders_per_item_4. Qed.
Print Assumptions C19_all_orders_per_item_4.
Theorem C19_all_orders_single_3 : length (all_orders SingleScope 3) = 6%nat.
Proof. exact all_orders_single_3. Qed.
Print Assumptions C19_all_orders_single_3.

(* extraction: creations for distinct paths in any order, hard links afterwards: the same file system *)
Theorem C19_extract_order_indep : forall s cs cs' ls,
  Permutation cs cs' -> NoDup (map fst cs) ->
  forall q, node (extract_fs s cs ls) q = node (extract_fs s cs' ls) q.
Proof. exact extract_order_indep. Qed.
Check C19_extract_order_indep : forall s cs cs' ls,
  Permutation cs cs' -> NoDup (map fst cs) ->
  forall q, node (extract_fs s cs ls) q = node (extract_fs s cs' ls) q.
Print Assumptions C19_extract_order_indep.

(* ... and "hard links last" is needed *)
Theorem C19_hardlink_first_differs :
  let src := ([lit "slow.bin"], File (lit "big")) in
  let l := ([lit "hl"], [lit "slow.bin"]) in
  node (apply_creation (apply_link [] l) src) [lit "hl"] = None /\
  node (extract_fs [] [src] [l]) [lit "hl"] = Some (File (lit "big")).
Proof. exact hardlink_first_differs. Qed.
Print Assumptions C19_hardlink_first_differs.
