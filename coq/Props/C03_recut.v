(* Props/C03_recut.v — C03 at entry and archive level: decoding is independent of data-chunk framing for EVERY
   entry and EVERY archive, not only for what the model writer produced.
   Only statements, closed by `exact`, pinned by `Check`, audited by `Print Assumptions`.

   drains data rbufs  = the read buffer sizes are positive and there are more reads than data bytes (the caller reads
                        until it has seen the end; PipelineRun.reads_for produces such sequences).
   recut t x y        = fuse t x = fuse t y, where fuse merges every maximal run of chunks of type t into one chunk and
                        drops it when it carries no byte: y is x with every maximal run of FDAT (SDAT) chunks replaced by
                        a run with the same concatenated payload — any number of chunks, empty ones included, cut anywhere
                        (C03_recut_run, C03_recut_cut, C03_recut_empty generate it; C03_recut_fuse: canonical form).
   recut_entry x y    = same first chunk (FHED / SHED), the chunks behind it re-cut (SDAT runs of a solid entry, FDAT runs
                        otherwise).
   res_rel R r1 r2    = both Ok with R-related values, or both the same Err, or both Panic.
   E D                = the block function of each cipher, ANY functions: no cipher law, no block-length law is needed
                        (the statements are equations between two decodings of the same bytes).                         *)
From PNA Require Import Base Crc32 Name Codec Chunk Archive Entry Flatten Cbc Ctr Pipeline Aes Camellia
  BaseFacts ChunkFacts ArchiveFacts EntryFacts FlattenFacts CbcFacts CtrFacts StreamFacts PipelineFacts
  Wf WfFacts WfWriterFacts WfAgreeFacts WfSplitFacts AesFacts CamelliaFacts PipelineRealFacts PipelineRun RecutFacts.
From PNA Require Split SplitFacts.
Open Scope N_scope.

(* 1. the reader pipeline (FlattenReader, IV, CBC or CTR reader, decompressor) over ANY data chunks, read with ANY
   draining buffer sequence, is a function (decode_spec) of the concatenated data: the same bytes or the same error *)
Theorem C03_decode_stream_spec :
  forall (E D : encryption -> bytes -> bytes -> bytes) (decompress : compression -> bytes -> res bytes)
         (verify : bytes -> bytes -> res bytes) comp enc mode phsf pw data rbufs,
  drains data rbufs ->
  decode_stream E D decompress verify comp enc mode phsf pw data rbufs =
  decode_spec E D decompress verify comp enc mode phsf pw (concat data).
Proof. exact decode_stream_spec. Qed.
Check C03_decode_stream_spec :
  forall (E D : encryption -> bytes -> bytes -> bytes) (decompress : compression -> bytes -> res bytes)
         (verify : bytes -> bytes -> res bytes) comp enc mode phsf pw data rbufs,
  drains data rbufs ->
  decode_stream E D decompress verify comp enc mode phsf pw data rbufs =
  decode_spec E D decompress verify comp enc mode phsf pw (concat data).
Print Assumptions C03_decode_stream_spec.

(* hence: two cuts of the same data, two buffer sequences: the same decoded bytes, or the same error (missing PHSF,
   short IV, a CBC stream that is not a whole number of blocks, bad padding, wrong key length, decompressor error) *)
Theorem C03_decode_stream_cut_indep :
  forall (E D : encryption -> bytes -> bytes -> bytes) (decompress : compression -> bytes -> res bytes)
         (verify : bytes -> bytes -> res bytes) comp enc mode phsf pw data1 data2 rbufs1 rbufs2,
  concat data1 = concat data2 -> drains data1 rbufs1 -> drains data2 rbufs2 ->
  decode_stream E D decompress verify comp enc mode phsf pw data1 rbufs1 =
  decode_stream E D decompress verify comp enc mode phsf pw data2 rbufs2.
Proof. exact decode_stream_cut_indep. Qed.
Check C03_decode_stream_cut_indep :
  forall (E D : encryption -> bytes -> bytes -> bytes) (decompress : compression -> bytes -> res bytes)
         (verify : bytes -> bytes -> res bytes) comp enc mode phsf pw data1 data2 rbufs1 rbufs2,
  concat data1 = concat data2 -> drains data1 rbufs1 -> drains data2 rbufs2 ->
  decode_stream E D decompress verify comp enc mode phsf pw data1 rbufs1 =
  decode_stream E D decompress verify comp enc mode phsf pw data2 rbufs2.
Print Assumptions C03_decode_stream_cut_indep.

(* the CBC reader over ANY source (any length, any block function): construction and a draining sequence of reads
   deliver cbc_spec of the concatenated source — UnexpectedEof for a missing or partial block, the unpadding error of the
   last block, InvalidData for a wrong key/IV length *)
Theorem C03_cbc_reader_spec :
  forall (D : bytes -> bytes -> bytes) key iv src ns,
  Forall (fun n => 0 < n) ns -> len (concat src) + 16 <= len ns ->
  (do st <- cbcr_new key iv src; do outs <- cbcr_reads D st ns; Ok (concat outs)) = cbc_spec D key iv (concat src).
Proof. exact cbc_reader_spec. Qed.
Check C03_cbc_reader_spec :
  forall (D : bytes -> bytes -> bytes) key iv src ns,
  Forall (fun n => 0 < n) ns -> len (concat src) + 16 <= len ns ->
  (do st <- cbcr_new key iv src; do outs <- cbcr_reads D st ns; Ok (concat outs)) = cbc_spec D key iv (concat src).
Print Assumptions C03_cbc_reader_spec.

(* one CBC read, any buffer size, any state reachable from cbcr_new: what the reader owed = what it returned ++ what it owes
   afterwards (an error owed is the error returned now or owed afterwards), and a read into a non-empty buffer makes progress *)
Theorem C03_cbcr_read_owed :
  forall (D : bytes -> bytes -> bytes) st n, cinv st ->
  owed D st = (do (st', out) <- cbcr_read D st n; do t <- owed D st'; Ok (out ++ t)) /\
  (forall st' out, cbcr_read D st n = Ok (st', out) ->
     cinv st' /\ pot st' <= pot st /\ (0 < n -> 0 < pot st -> pot st' < pot st)).
Proof. exact cbcr_read_owed. Qed.
Check C03_cbcr_read_owed :
  forall (D : bytes -> bytes -> bytes) st n, cinv st ->
  owed D st = (do (st', out) <- cbcr_read D st n; do t <- owed D st'; Ok (out ++ t)) /\
  (forall st' out, cbcr_read D st n = Ok (st', out) ->
     cinv st' /\ pot st' <= pot st /\ (0 < n -> 0 < pot st -> pot st' < pot st)).
Print Assumptions C03_cbcr_read_owed.

(* on whole blocks cbc_spec's decoding is CbcFacts.dec_all, the plaintext the C01 round-trip theorems speak about *)
Theorem C03_owed_blocks_dec_all :
  forall (D : bytes -> bytes -> bytes) k rest prev look, Forall len16 rest ->
  owed_blocks D k prev look rest = dec_all D k prev look rest.
Proof. exact owed_blocks_dec_all. Qed.
Check C03_owed_blocks_dec_all :
  forall (D : bytes -> bytes -> bytes) k rest prev look, Forall len16 rest ->
  owed_blocks D k prev look rest = dec_all D k prev look rest.
Print Assumptions C03_owed_blocks_dec_all.

(* 2. re-cuts: replacing a run of t-chunks by any run with the same concatenated payload *)
Theorem C03_recut_run :
  forall t ds1 ds2 x y, concat ds1 = concat ds2 -> recut t x y ->
  recut t (map (mk t) ds1 ++ x) (map (mk t) ds2 ++ y).
Proof. exact recut_run. Qed.
Check C03_recut_run :
  forall t ds1 ds2 x y, concat ds1 = concat ds2 -> recut t x y ->
  recut t (map (mk t) ds1 ++ x) (map (mk t) ds2 ++ y).
Print Assumptions C03_recut_run.

(* any chunk kept *)
Theorem C03_recut_keep :
  forall t c x y, recut t x y -> recut t (c :: x) (c :: y).
Proof. exact recut_keep. Qed.
Check C03_recut_keep :
  forall t c x y, recut t x y -> recut t (c :: x) (c :: y).
Print Assumptions C03_recut_keep.

(* one chunk cut in two (what the splitter does) *)
Theorem C03_recut_cut :
  forall t a b x y, recut t (mk t b :: x) y -> recut t (mk t (a ++ b) :: x) (mk t a :: y).
Proof. exact recut_cut. Qed.
Check C03_recut_cut :
  forall t a b x y, recut t (mk t b :: x) y -> recut t (mk t (a ++ b) :: x) (mk t a :: y).
Print Assumptions C03_recut_cut.

(* an empty data chunk inserted or dropped *)
Theorem C03_recut_empty :
  forall t x y, recut t x y -> recut t (mk t [] :: x) y.
Proof. exact recut_empty. Qed.
Check C03_recut_empty :
  forall t x y, recut t x y -> recut t (mk t [] :: x) y.
Print Assumptions C03_recut_empty.

(* every chunk list is a re-cut of its fused form *)
Theorem C03_recut_fuse :
  forall t x, recut t x (fuse t x).
Proof. exact recut_fuse. Qed.
Check C03_recut_fuse :
  forall t x, recut t x (fuse t x).
Print Assumptions C03_recut_fuse.

(* an equivalence *)
Theorem C03_recut_equiv :
  forall t, (forall x, recut t x x) /\ (forall x y, recut t x y -> recut t y x) /\
            (forall x y z, recut t x y -> recut t y z -> recut t x z).
Proof. exact (fun t => conj (recut_refl t) (conj (recut_sym t) (recut_trans t))). Qed.
Check C03_recut_equiv :
  forall t, (forall x, recut t x x) /\ (forall x y, recut t x y -> recut t y x) /\
            (forall x y z, recut t x y -> recut t y z -> recut t x z).
Print Assumptions C03_recut_equiv.

(* the refinement relation of the split proofs (WfSplitFacts.crefines) is a re-cut when the only stream-typed chunks are the
   entry's own data chunks *)
Theorem C03_crefines_recut :
  forall x y, crefines x y ->
  forall t, (forall c, In c x -> stream_type (cty c) = true -> cty c = t) -> recut t x y.
Proof. exact crefines_recut. Qed.
Check C03_crefines_recut :
  forall x y, crefines x y ->
  forall t, (forall c, In c x -> stream_type (cty c) = true -> cty c = t) -> recut t x y.
Print Assumptions C03_crefines_recut.

(* the chunk loop of TryFrom<RawEntry> for NormalEntry does not see the cuts: same error, or accumulators that agree *)
Theorem C03_parse_normal_loop_recut :
  forall x y a a', recut FDAT x y -> nrel a a' ->
  res_rel nrel (parse_normal_loop x a) (parse_normal_loop y a').
Proof. exact parse_normal_loop_recut. Qed.
Check C03_parse_normal_loop_recut :
  forall x y a a', recut FDAT x y -> nrel a a' ->
  res_rel nrel (parse_normal_loop x a) (parse_normal_loop y a').
Print Assumptions C03_parse_normal_loop_recut.

(* the entry parser on re-cut chunk lists with the same first chunk: the same error, or entries that agree in everything
   but where the data is cut *)
Theorem C03_parse_normal_recut_head :
  forall h x y, recut FDAT x y -> res_rel normal_same (parse_normal (h :: x)) (parse_normal (h :: y)).
Proof. exact parse_normal_recut_head. Qed.
Check C03_parse_normal_recut_head :
  forall h x y, recut FDAT x y -> res_rel normal_same (parse_normal (h :: x)) (parse_normal (h :: y)).
Print Assumptions C03_parse_normal_recut_head.

(* the same for solid entries *)
Theorem C03_parse_solid_recut_head :
  forall h x y, recut SDAT x y -> res_rel solid_same (parse_solid (h :: x)) (parse_solid (h :: y)).
Proof. exact parse_solid_recut_head. Qed.
Check C03_parse_solid_recut_head :
  forall h x y, recut SDAT x y -> res_rel solid_same (parse_solid (h :: x)) (parse_solid (h :: y)).
Print Assumptions C03_parse_solid_recut_head.

(* 2. NormalEntry parsed from re-cut chunk lists: header, PHSF, extra chunks, metadata (raw and compressed size, times,
   permission), xattrs agree, and the decoded content — or the error — is the same, for every codec x cipher x mode *)
Theorem C03_decode_normal_recut :
  forall (E D : encryption -> bytes -> bytes -> bytes) (decompress : compression -> bytes -> res bytes)
         (verify : bytes -> bytes -> res bytes) cs1 cs2 e1 e2 pw rb1 rb2,
  parse_normal cs1 = Ok e1 -> parse_normal cs2 = Ok e2 -> recut FDAT cs1 cs2 ->
  drains (n_data e1) rb1 -> drains (n_data e2) rb2 ->
  n_hdr e1 = n_hdr e2 /\ n_phsf e1 = n_phsf e2 /\ n_extra e1 = n_extra e2 /\ n_meta e1 = n_meta e2 /\
  n_xattrs e1 = n_xattrs e2 /\ concat (n_data e1) = concat (n_data e2) /\
  decode_normal E D decompress verify e1 pw rb1 = decode_normal E D decompress verify e2 pw rb2.
Proof. exact decode_normal_recut. Qed.
Check C03_decode_normal_recut :
  forall (E D : encryption -> bytes -> bytes -> bytes) (decompress : compression -> bytes -> res bytes)
         (verify : bytes -> bytes -> res bytes) cs1 cs2 e1 e2 pw rb1 rb2,
  parse_normal cs1 = Ok e1 -> parse_normal cs2 = Ok e2 -> recut FDAT cs1 cs2 ->
  drains (n_data e1) rb1 -> drains (n_data e2) rb2 ->
  n_hdr e1 = n_hdr e2 /\ n_phsf e1 = n_phsf e2 /\ n_extra e1 = n_extra e2 /\ n_meta e1 = n_meta e2 /\
  n_xattrs e1 = n_xattrs e2 /\ concat (n_data e1) = concat (n_data e2) /\
  decode_normal E D decompress verify e1 pw rb1 = decode_normal E D decompress verify e2 pw rb2.
Print Assumptions C03_decode_normal_recut.

(* SolidEntry: the same; the decoded value is the list of inner entries and how the iteration ended *)
Theorem C03_decode_solid_recut :
  forall (E D : encryption -> bytes -> bytes -> bytes) (decompress : compression -> bytes -> res bytes)
         (verify : bytes -> bytes -> res bytes) cs1 cs2 s1 s2 pw rb1 rb2,
  parse_solid cs1 = Ok s1 -> parse_solid cs2 = Ok s2 -> recut SDAT cs1 cs2 ->
  drains (so_data s1) rb1 -> drains (so_data s2) rb2 ->
  so_hdr s1 = so_hdr s2 /\ so_phsf s1 = so_phsf s2 /\ so_extra s1 = so_extra s2 /\
  concat (so_data s1) = concat (so_data s2) /\
  decode_solid E D decompress verify s1 pw rb1 = decode_solid E D decompress verify s2 pw rb2.
Proof. exact decode_solid_recut. Qed.
Check C03_decode_solid_recut :
  forall (E D : encryption -> bytes -> bytes -> bytes) (decompress : compression -> bytes -> res bytes)
         (verify : bytes -> bytes -> res bytes) cs1 cs2 s1 s2 pw rb1 rb2,
  parse_solid cs1 = Ok s1 -> parse_solid cs2 = Ok s2 -> recut SDAT cs1 cs2 ->
  drains (so_data s1) rb1 -> drains (so_data s2) rb2 ->
  so_hdr s1 = so_hdr s2 /\ so_phsf s1 = so_phsf s2 /\ so_extra s1 = so_extra s2 /\
  concat (so_data s1) = concat (so_data s2) /\
  decode_solid E D decompress verify s1 pw rb1 = decode_solid E D decompress verify s2 pw rb2.
Print Assumptions C03_decode_solid_recut.

(* TryFrom<RawEntry> for ReadEntry on a re-cut raw entry *)
Theorem C03_parse_entry_recut :
  forall x y, recut_entry x y -> res_rel entry_same (parse_entry x) (parse_entry y).
Proof. exact parse_entry_recut. Qed.
Check C03_parse_entry_recut :
  forall x y, recut_entry x y -> res_rel entry_same (parse_entry x) (parse_entry y).
Print Assumptions C03_parse_entry_recut.

(* entries that agree in everything but the cut of their data decode alike *)
Theorem C03_entry_same_decode :
  forall (E D : encryption -> bytes -> bytes -> bytes) (decompress : compression -> bytes -> res bytes)
         (verify : bytes -> bytes -> res bytes) x y pw rb1 rb2,
  entry_same x y -> drains (entry_data x) rb1 -> drains (entry_data y) rb2 ->
  decode_entry E D decompress verify x pw rb1 = decode_entry E D decompress verify y pw rb2.
Proof. exact entry_same_decode. Qed.
Check C03_entry_same_decode :
  forall (E D : encryption -> bytes -> bytes -> bytes) (decompress : compression -> bytes -> res bytes)
         (verify : bytes -> bytes -> res bytes) x y pw rb1 rb2,
  entry_same x y -> drains (entry_data x) rb1 -> drains (entry_data y) rb2 ->
  decode_entry E D decompress verify x pw rb1 = decode_entry E D decompress verify y pw rb2.
Print Assumptions C03_entry_same_decode.

(* 3. archives: entrywise re-cut chunk lists, written as archives: the stream reader and the slice reader return, for both,
   entry lists of the same length and the same end (ok / the same error), whose entries agree (names, kinds, metadata, extra
   chunks) and decode to the same contents or the same errors *)
Theorem C03_recut_archive_indep :
  forall (E D : encryption -> bytes -> bytes -> bytes) (decompress : compression -> bytes -> res bytes)
         (verify : bytes -> bytes -> res bytes) num xs ys,
  num < 2 ^ 32 -> Forall2 recut_entry xs ys -> Forall wf_entry xs -> Forall wf_entry ys ->
  let a1 := write_raw_archive num xs in let a2 := write_raw_archive num ys in
  exists es1 es2 f,
    entries read_chunk_stream a1 = Ok (es1, f) /\ entries read_chunk_stream a2 = Ok (es2, f) /\
    entries read_chunk_slice a1 = Ok (es1, f) /\ entries read_chunk_slice a2 = Ok (es2, f) /\
    entries_agree E D decompress verify es1 es2 /\
    res_rel (entries_agree E D decompress verify) (read_archive a1) (read_archive a2).
Proof. exact recut_archive_indep. Qed.
Check C03_recut_archive_indep :
  forall (E D : encryption -> bytes -> bytes -> bytes) (decompress : compression -> bytes -> res bytes)
         (verify : bytes -> bytes -> res bytes) num xs ys,
  num < 2 ^ 32 -> Forall2 recut_entry xs ys -> Forall wf_entry xs -> Forall wf_entry ys ->
  let a1 := write_raw_archive num xs in let a2 := write_raw_archive num ys in
  exists es1 es2 f,
    entries read_chunk_stream a1 = Ok (es1, f) /\ entries read_chunk_stream a2 = Ok (es2, f) /\
    entries read_chunk_slice a1 = Ok (es1, f) /\ entries read_chunk_slice a2 = Ok (es2, f) /\
    entries_agree E D decompress verify es1 es2 /\
    res_rel (entries_agree E D decompress verify) (read_archive a1) (read_archive a2).
Print Assumptions C03_recut_archive_indep.

(* the instance with the AES-256 / Camellia-256 models the pipeline area is run with *)
Theorem C03_recut_archive_indep_real :
  forall (decompress : compression -> bytes -> res bytes) (verify : bytes -> bytes -> res bytes) num xs ys,
  num < 2 ^ 32 -> Forall2 recut_entry xs ys -> Forall wf_entry xs -> Forall wf_entry ys ->
  let a1 := write_raw_archive num xs in let a2 := write_raw_archive num ys in
  exists es1 es2 f,
    entries read_chunk_stream a1 = Ok (es1, f) /\ entries read_chunk_stream a2 = Ok (es2, f) /\
    entries read_chunk_slice a1 = Ok (es1, f) /\ entries read_chunk_slice a2 = Ok (es2, f) /\
    entries_agree real_E_of real_D_of decompress verify es1 es2 /\
    res_rel (entries_agree real_E_of real_D_of decompress verify) (read_archive a1) (read_archive a2).
Proof. exact recut_archive_indep_real. Qed.
Check C03_recut_archive_indep_real :
  forall (decompress : compression -> bytes -> res bytes) (verify : bytes -> bytes -> res bytes) num xs ys,
  num < 2 ^ 32 -> Forall2 recut_entry xs ys -> Forall wf_entry xs -> Forall wf_entry ys ->
  let a1 := write_raw_archive num xs in let a2 := write_raw_archive num ys in
  exists es1 es2 f,
    entries read_chunk_stream a1 = Ok (es1, f) /\ entries read_chunk_stream a2 = Ok (es2, f) /\
    entries read_chunk_slice a1 = Ok (es1, f) /\ entries read_chunk_slice a2 = Ok (es2, f) /\
    entries_agree real_E_of real_D_of decompress verify es1 es2 /\
    res_rel (entries_agree real_E_of real_D_of decompress verify) (read_archive a1) (read_archive a2).
Print Assumptions C03_recut_archive_indep_real.

(* with the writer of C01 (here the cipher and compressor laws are premises): an archive of built entries, re-cut in any
   way, reads back (stream and slice reader) as entries that agree with the built ones and decode to what was written *)
Theorem C03_recut_of_written :
  forall (E D : encryption -> bytes -> bytes -> bytes) (compress : compression -> N -> list bytes -> list bytes)
         (decompress : compression -> bytes -> res bytes) (verify : bytes -> bytes -> res bytes),
  (forall a k c, len16 c -> len16 (D a k c)) -> (forall a k b, len16 b -> D a k (E a k b) = b) ->
  (forall a k b, len16 b -> len16 (E a k b)) ->
  (forall c lvl ws, decompress c (concat (compress c lvl ws)) = Ok (concat ws)) ->
  (forall c lvl (ws ws' : list bytes), concat ws = concat ws' -> concat (compress c lvl ws) = concat (compress c lvl ws')) ->
  forall pw jobs ys,
  Forall (wf_job E compress verify pw) jobs ->
  Forall2 recut_entry (map ser_normal (map (build_job E compress) jobs)) ys -> Forall wf_entry ys ->
  exists es,
    read_archive (write_raw_archive 0 ys) = Ok es /\
    entries read_chunk_slice (write_raw_archive 0 ys) = Ok (es, FinOk) /\
    Forall2 (fun j e => exists n, e = RNormal n /\ normal_same (build_job E compress j) n /\
               forall rb, drains (n_data n) rb ->
                 decode_normal E D decompress verify n pw rb = Ok (sp_content (j_spec j))) jobs es.
Proof. exact recut_of_written. Qed.
Check C03_recut_of_written :
  forall (E D : encryption -> bytes -> bytes -> bytes) (compress : compression -> N -> list bytes -> list bytes)
         (decompress : compression -> bytes -> res bytes) (verify : bytes -> bytes -> res bytes),
  (forall a k c, len16 c -> len16 (D a k c)) -> (forall a k b, len16 b -> D a k (E a k b) = b) ->
  (forall a k b, len16 b -> len16 (E a k b)) ->
  (forall c lvl ws, decompress c (concat (compress c lvl ws)) = Ok (concat ws)) ->
  (forall c lvl (ws ws' : list bytes), concat ws = concat ws' -> concat (compress c lvl ws) = concat (compress c lvl ws')) ->
  forall pw jobs ys,
  Forall (wf_job E compress verify pw) jobs ->
  Forall2 recut_entry (map ser_normal (map (build_job E compress) jobs)) ys -> Forall wf_entry ys ->
  exists es,
    read_archive (write_raw_archive 0 ys) = Ok es /\
    entries read_chunk_slice (write_raw_archive 0 ys) = Ok (es, FinOk) /\
    Forall2 (fun j e => exists n, e = RNormal n /\ normal_same (build_job E compress j) n /\
               forall rb, drains (n_data n) rb ->
                 decode_normal E D decompress verify n pw rb = Ok (sp_content (j_spec j))) jobs es.
Print Assumptions C03_recut_of_written.

(* the same with the real ciphers: their laws are discharged by AesFacts / CamelliaFacts *)
Theorem C03_recut_of_written_real :
  forall (compress : compression -> N -> list bytes -> list bytes)
         (decompress : compression -> bytes -> res bytes) (verify : bytes -> bytes -> res bytes),
  (forall c lvl ws, decompress c (concat (compress c lvl ws)) = Ok (concat ws)) ->
  (forall c lvl (ws ws' : list bytes), concat ws = concat ws' -> concat (compress c lvl ws) = concat (compress c lvl ws')) ->
  forall pw jobs ys,
  Forall (wf_job real_E_of compress verify pw) jobs ->
  Forall2 recut_entry (map ser_normal (map (build_job real_E_of compress) jobs)) ys -> Forall wf_entry ys ->
  exists es,
    read_archive (write_raw_archive 0 ys) = Ok es /\
    entries read_chunk_slice (write_raw_archive 0 ys) = Ok (es, FinOk) /\
    Forall2 (fun j e => exists n, e = RNormal n /\ normal_same (build_job real_E_of compress j) n /\
               forall rb, drains (n_data n) rb ->
                 decode_normal real_E_of real_D_of decompress verify n pw rb = Ok (sp_content (j_spec j))) jobs es.
Proof. exact recut_of_written_real. Qed.
Check C03_recut_of_written_real :
  forall (compress : compression -> N -> list bytes -> list bytes)
         (decompress : compression -> bytes -> res bytes) (verify : bytes -> bytes -> res bytes),
  (forall c lvl ws, decompress c (concat (compress c lvl ws)) = Ok (concat ws)) ->
  (forall c lvl (ws ws' : list bytes), concat ws = concat ws' -> concat (compress c lvl ws) = concat (compress c lvl ws')) ->
  forall pw jobs ys,
  Forall (wf_job real_E_of compress verify pw) jobs ->
  Forall2 recut_entry (map ser_normal (map (build_job real_E_of compress) jobs)) ys -> Forall wf_entry ys ->
  exists es,
    read_archive (write_raw_archive 0 ys) = Ok es /\
    entries read_chunk_slice (write_raw_archive 0 ys) = Ok (es, FinOk) /\
    Forall2 (fun j e => exists n, e = RNormal n /\ normal_same (build_job real_E_of compress j) n /\
               forall rb, drains (n_data n) rb ->
                 decode_normal real_E_of real_D_of decompress verify n pw rb = Ok (sp_content (j_spec j))) jobs es.
Print Assumptions C03_recut_of_written_real.

(* 4. pna split: the parts written by write_split, read back by the part-chaining reader (stream or slice), give entries that
   agree with the originals and decode to the same contents *)
Theorem C03_split_then_decode :
  forall (E D : encryption -> bytes -> bytes -> bytes) (decompress : compression -> bytes -> res bytes)
         (verify : bytes -> bytes -> res bytes) max ents parts,
  Forall writable ents ->
  Split.write_split max (map (fun e => map of_c (ser_entry e)) ents) = Ok parts ->
  exists xs' raws,
    read_parts read_chunk_stream (map ser_pfile parts) = Ok (raws, FinOk) /\
    read_parts read_chunk_slice (map ser_pfile parts) = Ok (raws, FinOk) /\
    parse_all raws = (xs', FinOk) /\
    entries_agree E D decompress verify ents xs' .
Proof. exact split_then_decode. Qed.
Check C03_split_then_decode :
  forall (E D : encryption -> bytes -> bytes -> bytes) (decompress : compression -> bytes -> res bytes)
         (verify : bytes -> bytes -> res bytes) max ents parts,
  Forall writable ents ->
  Split.write_split max (map (fun e => map of_c (ser_entry e)) ents) = Ok parts ->
  exists xs' raws,
    read_parts read_chunk_stream (map ser_pfile parts) = Ok (raws, FinOk) /\
    read_parts read_chunk_slice (map ser_pfile parts) = Ok (raws, FinOk) /\
    parse_all raws = (xs', FinOk) /\
    entries_agree E D decompress verify ents xs' .
Print Assumptions C03_split_then_decode.

(* at chunk level, for any chunk sequence whose stream-typed chunks all have one type: the bodies of the parts are a re-cut *)
Theorem C03_write_split_recut :
  forall max es parts t,
  Split.write_split max es = Ok parts ->
  (forall c, In c (map to_c (concat es)) -> stream_type (cty c) = true -> cty c = t) ->
  exists bds lastb, parts = SplitFacts.assemble bds lastb /\
                    recut t (map to_c (concat es)) (map to_c (concat bds ++ lastb)).
Proof. exact write_split_recut. Qed.
Check C03_write_split_recut :
  forall max es parts t,
  Split.write_split max es = Ok parts ->
  (forall c, In c (map to_c (concat es)) -> stream_type (cty c) = true -> cty c = t) ->
  exists bds lastb, parts = SplitFacts.assemble bds lastb /\
                    recut t (map to_c (concat es)) (map to_c (concat bds ++ lastb)).
Print Assumptions C03_write_split_recut.

(* tie to the correspondence run: the read sequence of the pipeline area's case interpreter (the caller's read-until-zero loop
   with cyclic positive buffer sizes) drains, so every decode case is an instance of the theorems above ... *)
Theorem C03_reads_for_drains :
  forall sizes data, sizes <> [] -> Forall (fun n => 0 < n) sizes -> drains data (reads_for sizes data).
Proof. exact reads_for_drains. Qed.
Check C03_reads_for_drains :
  forall sizes data, sizes <> [] -> Forall (fun n => 0 < n) sizes -> drains data (reads_for sizes data).
Print Assumptions C03_reads_for_drains.

(* ... and the content the interpreter prints for an entry (real ciphers, oracle tables for KDF and decompressor) does not depend
   on the framing of its data nor on the case's buffer sizes *)
Theorem C03_content_of_framing_indep :
  forall vt dt s1 s2 e1 e2, normal_same e1 e2 ->
  s1 <> [] -> Forall (fun n => 0 < n) s1 -> s2 <> [] -> Forall (fun n => 0 < n) s2 ->
  content_of vt dt s1 e1 = content_of vt dt s2 e2.
Proof. exact content_of_framing_indep. Qed.
Check C03_content_of_framing_indep :
  forall vt dt s1 s2 e1 e2, normal_same e1 e2 ->
  s1 <> [] -> Forall (fun n => 0 < n) s1 -> s2 <> [] -> Forall (fun n => 0 < n) s2 ->
  content_of vt dt s1 e1 = content_of vt dt s2 e2.
Print Assumptions C03_content_of_framing_indep.

(* premises are satisfiable by non-trivial values: a 33-byte file, AES-256-CBC (the Gallina AES), store; EntryBuilder's chunks
   carry IV + 3 cipher blocks in four 16-byte FDAT chunks; the re-cut has FDAT chunks of 1, 0, 7, 16, 20, 20 bytes (inside the
   IV, empty, inside cipher blocks) *)
Example C03_example_shape :
  map (fun c => length (cdata c)) (filter (fun c => ty_is c FDAT) rx_chunks) = [16; 16; 16; 16]%nat /\
  map (fun c => length (cdata c)) (filter (fun c => ty_is c FDAT) rx_recut) = [1; 0; 7; 16; 20; 20]%nat /\
  length rx_content = 33%nat /\ wf_entryb rx_chunks = true /\ wf_entryb rx_recut = true.
Proof. exact rx_shape. Qed.
Check C03_example_shape :
  map (fun c => length (cdata c)) (filter (fun c => ty_is c FDAT) rx_chunks) = [16; 16; 16; 16]%nat /\
  map (fun c => length (cdata c)) (filter (fun c => ty_is c FDAT) rx_recut) = [1; 0; 7; 16; 20; 20]%nat /\
  length rx_content = 33%nat /\ wf_entryb rx_chunks = true /\ wf_entryb rx_recut = true.
Print Assumptions C03_example_shape.

(* the premises of C03_decode_normal_recut *)
Example C03_example_premises :
  exists e1 e2,
  parse_normal rx_chunks = Ok e1 /\ parse_normal rx_recut = Ok e2 /\ recut FDAT rx_chunks rx_recut /\
  drains (n_data e1) (repeat 7 70) /\ drains (n_data e2) (repeat 16 70) /\ n_data e1 <> n_data e2.
Proof. exact rx_premises. Qed.
Check C03_example_premises :
  exists e1 e2,
  parse_normal rx_chunks = Ok e1 /\ parse_normal rx_recut = Ok e2 /\ recut FDAT rx_chunks rx_recut /\
  drains (n_data e1) (repeat 7 70) /\ drains (n_data e2) (repeat 16 70) /\ n_data e1 <> n_data e2.
Print Assumptions C03_example_premises.

(* both decode (evaluated with the real AES model) to the 33 bytes that were written *)
Example C03_example_decodes :
  rx_decode rx_chunks (repeat 7 70) = Ok rx_content /\ rx_decode rx_recut (repeat 16 70) = Ok rx_content.
Proof. exact rx_decodes. Qed.
Check C03_example_decodes :
  rx_decode rx_chunks (repeat 7 70) = Ok rx_content /\ rx_decode rx_recut (repeat 16 70) = Ok rx_content.
Print Assumptions C03_example_decodes.

(* a data stream cut short (47 instead of 48 cipher bytes): the same error whatever the framing and the buffers *)
Example C03_example_truncated_same_error :
  let data := concat (n_data rx_entry) in
  decode_stream real_E_of real_D_of id_decompress toy_verify CNo EAes MCbc (Some (hex rx_pw)) rx_pw [firstn 63 data] (repeat 4096 70) = Err UnexpectedEof /\
  decode_stream real_E_of real_D_of id_decompress toy_verify CNo EAes MCbc (Some (hex rx_pw)) rx_pw (cut_sizes [1; 0; 7; 16; 20]%nat (firstn 63 data)) (repeat 5 70) = Err UnexpectedEof.
Proof. exact rx_truncated_same_error. Qed.
Check C03_example_truncated_same_error :
  let data := concat (n_data rx_entry) in
  decode_stream real_E_of real_D_of id_decompress toy_verify CNo EAes MCbc (Some (hex rx_pw)) rx_pw [firstn 63 data] (repeat 4096 70) = Err UnexpectedEof /\
  decode_stream real_E_of real_D_of id_decompress toy_verify CNo EAes MCbc (Some (hex rx_pw)) rx_pw (cut_sizes [1; 0; 7; 16; 20]%nat (firstn 63 data)) (repeat 5 70) = Err UnexpectedEof.
Print Assumptions C03_example_truncated_same_error.

(* the premises of C03_recut_archive_indep *)
Example C03_example_archive_premises :
  Forall2 recut_entry [rx_chunks] [rx_recut] /\ Forall wf_entry [rx_chunks] /\ Forall wf_entry [rx_recut] /\
  write_raw_archive 0 [rx_chunks] <> write_raw_archive 0 [rx_recut].
Proof. exact rx_archive_premises. Qed.
Check C03_example_archive_premises :
  Forall2 recut_entry [rx_chunks] [rx_recut] /\ Forall wf_entry [rx_chunks] /\ Forall wf_entry [rx_recut] /\
  write_raw_archive 0 [rx_chunks] <> write_raw_archive 0 [rx_recut].
Print Assumptions C03_example_archive_premises.

(* the premises of C03_split_then_decode *)
Example C03_example_split_premises :
  exists parts,
  Forall writable [RNormal ex_plain; RNormal ex_enc; RSolid ex_solid] /\
  Split.write_split 120 (map (fun e => map of_c (ser_entry e)) [RNormal ex_plain; RNormal ex_enc; RSolid ex_solid]) = Ok parts /\
  length parts = 12%nat.
Proof. exact rx_split_premises. Qed.
Check C03_example_split_premises :
  exists parts,
  Forall writable [RNormal ex_plain; RNormal ex_enc; RSolid ex_solid] /\
  Split.write_split 120 (map (fun e => map of_c (ser_entry e)) [RNormal ex_plain; RNormal ex_enc; RSolid ex_solid]) = Ok parts /\
  length parts = 12%nat.
Print Assumptions C03_example_split_premises.
