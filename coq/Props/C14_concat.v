(* Props/C14_concat.v — C14 for `pna concat` and `pna split` + `pna concat` (Model/Concat.v, tied to the real binary
   by props/_concat.py): concatenating archives the strict recogniser accepts — single files or part chains —
   gives an archive it accepts, whose strictly decoded entries are the concatenation of the inputs'; splitting an
   accepted archive (a single file or, since f4d9f833, a part chain entered at its first part) and concatenating the parts gives accepted parts and an accepted archive with the same entries
   up to where data streams are cut; the file a failed concat leaves behind is rejected. *)
From PNA Require Import Base Crc32 Name Codec Chunk Archive Entry Wf Concat.
From PNA Require Import BaseFacts ChunkFacts ArchiveFacts EntryFacts WfFacts WfWriterFacts WfAgreeFacts WfSplitFacts
  OffsetFacts PartsFacts ConcatFacts.
Open Scope N_scope.

Theorem C14_concat_wf :
  forall (inputs : list (list bytes)) (xss : list (list read_entry)),
  Forall2 (fun i xs => strict_parts i = SOk xs) inputs xss ->
  exists out : bytes, concat_cmd inputs = Ok out /\ strict_parts [out] = SOk (concat xss) /\
                      wf_archive out = true /\ strict_decode out = Ok (concat xss).
Proof. exact concat_wf. Qed.
Check C14_concat_wf :
  forall (inputs : list (list bytes)) (xss : list (list read_entry)),
  Forall2 (fun i xs => strict_parts i = SOk xs) inputs xss ->
  exists out : bytes, concat_cmd inputs = Ok out /\ strict_parts [out] = SOk (concat xss) /\
                      wf_archive out = true /\ strict_decode out = Ok (concat xss).
Print Assumptions C14_concat_wf.

Theorem C14_concat_wf_verdict :
  forall inputs : list (list bytes), Forall (fun i => wf_parts i = true) inputs ->
  exists out : bytes, concat_cmd inputs = Ok out /\ wf_archive out = true.
Proof. exact concat_wf_bool. Qed.
Check C14_concat_wf_verdict :
  forall inputs : list (list bytes), Forall (fun i => wf_parts i = true) inputs ->
  exists out : bytes, concat_cmd inputs = Ok out /\ wf_archive out = true.
Print Assumptions C14_concat_wf_verdict.

Theorem C14_split_then_concat_wf :
  forall (a : bytes) (max : N) (parts : list bytes) (b : bytes),
  wf_archive a = true -> splitcat max [a] = Ok (parts, b) ->
  wf_parts parts = true /\ wf_archive b = true /\
  exists xs xs' : list read_entry, strict_decode a = Ok xs /\ strict_decode b = Ok xs' /\ Forall2 entry_same xs xs'.
Proof. exact splitcat_wf. Qed.
Check C14_split_then_concat_wf :
  forall (a : bytes) (max : N) (parts : list bytes) (b : bytes),
  wf_archive a = true -> splitcat max [a] = Ok (parts, b) ->
  wf_parts parts = true /\ wf_archive b = true /\
  exists xs xs' : list read_entry, strict_decode a = Ok xs /\ strict_decode b = Ok xs' /\ Forall2 entry_same xs xs'.
Print Assumptions C14_split_then_concat_wf.

(* the same for every accepted part chain: `pna split` of a multipart archive writes accepted parts *)
Theorem C14_split_chain_then_concat_wf :
  forall (chain : list bytes) (max : N) (parts : list bytes) (b : bytes),
  wf_parts chain = true -> splitcat max chain = Ok (parts, b) ->
  wf_parts parts = true /\ wf_archive b = true /\
  exists xs xs' : list read_entry, strict_parts chain = SOk xs /\ strict_decode b = Ok xs' /\ Forall2 entry_same xs xs'.
Proof. exact splitcat_wf_chain. Qed.
Check C14_split_chain_then_concat_wf :
  forall (chain : list bytes) (max : N) (parts : list bytes) (b : bytes),
  wf_parts chain = true -> splitcat max chain = Ok (parts, b) ->
  wf_parts parts = true /\ wf_archive b = true /\
  exists xs xs' : list read_entry, strict_parts chain = SOk xs /\ strict_decode b = Ok xs' /\ Forall2 entry_same xs xs'.
Print Assumptions C14_split_chain_then_concat_wf.

Theorem C14_concat_premises_satisfiable :
  strict_parts [ex_a] = SOk (map normalize_entry [RNormal ex_plain; RNormal ex_enc; RSolid ex_solid]).
Proof. exact ex_a_strict. Qed.
Check C14_concat_premises_satisfiable :
  strict_parts [ex_a] = SOk (map normalize_entry [RNormal ex_plain; RNormal ex_enc; RSolid ex_solid]).
Print Assumptions C14_concat_premises_satisfiable.

Theorem C14_unterminated_output_rejected :
  forall es : list (list chunk), Forall wf_entry es ->
  read_parts read_chunk_stream [write_header 0 ++ ArchiveFacts.ser_entries es] = Ok (es, FinErr UnexpectedEof) /\
  wf_archive (write_header 0 ++ ArchiveFacts.ser_entries es) = false.
Proof. exact unterminated_not_an_archive. Qed.
Check C14_unterminated_output_rejected :
  forall es : list (list chunk), Forall wf_entry es ->
  read_parts read_chunk_stream [write_header 0 ++ ArchiveFacts.ser_entries es] = Ok (es, FinErr UnexpectedEof) /\
  wf_archive (write_header 0 ++ ArchiveFacts.ser_entries es) = false.
Print Assumptions C14_unterminated_output_rejected.
