(* Props/C18.v — C18: every reported size and offset is exact.
   Theorem families (all about the executable model of lib/src/chunk*.rs, archive/{read,write}.rs, entry.rs,
   cli/src/command/chunk.rs; proofs in Proofs/{ChunkFacts,EntryFacts,OffsetFacts}.v):
     chunk      size of a serialised chunk = bytes_len; a read consumes exactly that many bytes
     offsets    `pna experimental chunk list`: for ALL byte strings, every printed offset is 8 + the sizes of the
                chunks printed before it, and reading at that offset returns exactly the printed chunk; offsets start
                at 8, increase strictly, end with the (only) AEND, which lies inside the file
     seek       seek_to_end stops at the listed offset of AEND on every listable input; on a written archive that is
                length - 12, and cutting there + new entry + end marker = the archive of the extended entry list
     counts     add_entry / add_entry_part: returned count = bytes appended = 12 per chunk + payloads, for raw chunk
                lists, normal entries, solid entries, read entries, entry parts and the halves of EntryPart::split;
                length of a whole archive = 8 + 20 + counts + 12
     sizes      compressed size = sum of the data payloads; raw size = value of the last fSIZ chunk
   The sizes of a BUILT entry (raw size = content length for every call partition, codec, cipher) are stated in
   Props/C18_pipeline.v (C18_built_sizes, on the pipeline model) and checked on the implementation by the `sizes`
   cases here and by the `pipeline` correspondence. *)
From PNA Require Import Base Crc32 Codec Chunk Archive Entry BaseFacts ChunkFacts ArchiveFacts EntryFacts OffsetFacts.
From PNA Require Split ArchiveRun.
Open Scope N_scope.

(* ---- chunk ----------------------------------------------------------------------------------------------- *)
Theorem C18_chunk_byte_length :
  forall c, wf_chunk c -> len (ser_chunk c) = bytes_len c.
Proof. exact ser_chunk_len. Qed.
Check C18_chunk_byte_length : forall c, wf_chunk c -> len (ser_chunk c) = bytes_len c.
Print Assumptions C18_chunk_byte_length.

Theorem C18_chunk_read_consumes_its_length :
  forall bs c r, read_chunk_stream bs = Ok (c, r) -> wf_chunk c /\ bs = ser_chunk c ++ r.
Proof. exact read_chunk_ok_inv. Qed.
Check C18_chunk_read_consumes_its_length :
  forall bs c r, read_chunk_stream bs = Ok (c, r) -> wf_chunk c /\ bs = ser_chunk c ++ r.
Print Assumptions C18_chunk_read_consumes_its_length.

(* ---- offsets: `pna experimental chunk list` ------------------------------------------------------------------ *)
(* for every input: line k shows offset 8 + (sizes of the chunks of lines 0..k-1); the chunk lies inside the file
   at that offset; the chunk reader positioned there returns exactly that chunk and stops at offset + size *)
Theorem C18_chunk_list_offsets_exact :
  forall bs l, chunk_list bs = Ok l ->
  forall k c off, nth_error l k = Some (c, off) ->
    off = 8 + sumN (map bytes_len (firstn k (map fst l))) /\
    off + bytes_len c <= len bs /\
    read_chunk_stream (skipn (N.to_nat off) bs) = Ok (c, skipn (N.to_nat (off + bytes_len c)) bs).
Proof. exact chunk_list_exact. Qed.
Check C18_chunk_list_offsets_exact :
  forall bs l, chunk_list bs = Ok l ->
  forall k c off, nth_error l k = Some (c, off) ->
    off = 8 + sumN (map bytes_len (firstn k (map fst l))) /\
    off + bytes_len c <= len bs /\
    read_chunk_stream (skipn (N.to_nat off) bs) = Ok (c, skipn (N.to_nat (off + bytes_len c)) bs).
Print Assumptions C18_chunk_list_offsets_exact.

(* first offset 8; chunks do not overlap (offset_i + size_i <= offset_j for i < j); the last line is AEND, it is the
   only AEND, and its 12 bytes lie inside the file *)
Theorem C18_chunk_list_order :
  forall bs l, chunk_list bs = Ok l ->
  (exists c tl, l = (c, 8) :: tl) /\
  (forall i j ci oi cj oj, (i < j)%nat -> nth_error l i = Some (ci, oi) -> nth_error l j = Some (cj, oj) ->
     oi + bytes_len ci <= oj) /\
  (exists init a off, l = init ++ [(a, off)] /\ ty_is a AEND = true /\ off + 12 <= len bs /\
     Forall (fun p => ty_is (fst p) AEND = false) init).
Proof. exact chunk_list_order. Qed.
Check C18_chunk_list_order :
  forall bs l, chunk_list bs = Ok l ->
  (exists c tl, l = (c, 8) :: tl) /\
  (forall i j ci oi cj oj, (i < j)%nat -> nth_error l i = Some (ci, oi) -> nth_error l j = Some (cj, oj) ->
     oi + bytes_len ci <= oj) /\
  (exists init a off, l = init ++ [(a, off)] /\ ty_is a AEND = true /\ off + 12 <= len bs /\
     Forall (fun p => ty_is (fst p) AEND = false) init).
Print Assumptions C18_chunk_list_order.

(* the premise is met by, and the listing is complete for, every archive the writer produces *)
Theorem C18_chunk_list_of_written_archive :
  forall num es, Forall wf_entry es ->
  chunk_list (write_raw_archive num es) = Ok (offsets_from 8 (archive_chunks num es)).
Proof. exact chunk_list_written. Qed.
Check C18_chunk_list_of_written_archive :
  forall num es, Forall wf_entry es ->
  chunk_list (write_raw_archive num es) = Ok (offsets_from 8 (archive_chunks num es)).
Print Assumptions C18_chunk_list_of_written_archive.

(* the two-entry example archive of ArchiveFacts (136 bytes): offsets as listed, AEND at 136 - 12 *)
Example C18_offsets_example :
  exists l, chunk_list ex_arch = Ok l /\ map snd l = [8; 28; 44; 59; 72; 84; 100; 112; 124] /\ len ex_arch = 136 /\
  exists r, read_header read_chunk_stream ex_arch = Ok ({| a_major := 0; a_minor := 0; a_number := 7 |}, r) /\
            seek_loop (S (length r)) r 0 false = Ok (124 - 28, false).
Proof. eexists. split; [vm_compute; reflexivity|]. split; [reflexivity|]. split; [vm_compute; reflexivity|]. eexists. split; vm_compute; reflexivity. Qed.

(* ---- seek_to_end ------------------------------------------------------------------------------------------------ *)
(* seek_loop counts from the end of the 28-byte header; it walks length fields only (no CRC), yet on every input the
   chunk iterator accepts it ends exactly at the listed AEND offset, and reports a successor iff ANXT is listed *)
Theorem C18_seek_stops_at_listed_aend :
  forall bs l h r, chunk_list bs = Ok l -> read_header read_chunk_stream bs = Ok (h, r) ->
  exists init a off, l = init ++ [(a, off)] /\ ty_is a AEND = true /\ 28 <= off /\
    length bs = (28 + length r)%nat /\
    seek_loop (S (length r)) r 0 false = Ok (off - 28, existsb (fun p => ty_is (fst p) ANXT) init).
Proof. exact seek_exact. Qed.
Check C18_seek_stops_at_listed_aend :
  forall bs l h r, chunk_list bs = Ok l -> read_header read_chunk_stream bs = Ok (h, r) ->
  exists init a off, l = init ++ [(a, off)] /\ ty_is a AEND = true /\ 28 <= off /\
    length bs = (28 + length r)%nat /\
    seek_loop (S (length r)) r 0 false = Ok (off - 28, existsb (fun p => ty_is (fst p) ANXT) init).
Print Assumptions C18_seek_stops_at_listed_aend.

Theorem C18_seek_written_archive :
  forall num es, num < 2 ^ 32 -> Forall wf_entry es ->
  let a := write_raw_archive num es in
  exists r, read_header read_chunk_stream a = Ok ({| a_major := 0; a_minor := 0; a_number := num |}, r) /\
            len a = 28 + len r /\
            seek_loop (S (length r)) r 0 false = Ok (len a - 12 - 28, false).
Proof. exact seek_written. Qed.
Check C18_seek_written_archive :
  forall num es, num < 2 ^ 32 -> Forall wf_entry es ->
  let a := write_raw_archive num es in
  exists r, read_header read_chunk_stream a = Ok ({| a_major := 0; a_minor := 0; a_number := num |}, r) /\
            len a = 28 + len r /\
            seek_loop (S (length r)) r 0 false = Ok (len a - 12 - 28, false).
Print Assumptions C18_seek_written_archive.

(* byte-level core of append (C11): position found = length - 12; archive cut there ++ new entry ++ end marker
   = the archive the writer produces for the extended entry list *)
Theorem C18_append_at_seek_position :
  forall num es new, num < 2 ^ 32 -> Forall wf_entry es ->
  let a := write_raw_archive num es in
  exists r off nxt, read_header read_chunk_stream a = Ok ({| a_major := 0; a_minor := 0; a_number := num |}, r) /\
    seek_loop (S (length r)) r 0 false = Ok (off, nxt) /\ nxt = false /\
    28 + off = len a - 12 /\
    firstn (N.to_nat (28 + off)) a ++ fst (add_chunks new) ++ finalize = write_raw_archive num (es ++ [new]).
Proof. exact append_at_seek. Qed.
Check C18_append_at_seek_position :
  forall num es new, num < 2 ^ 32 -> Forall wf_entry es ->
  let a := write_raw_archive num es in
  exists r off nxt, read_header read_chunk_stream a = Ok ({| a_major := 0; a_minor := 0; a_number := num |}, r) /\
    seek_loop (S (length r)) r 0 false = Ok (off, nxt) /\ nxt = false /\
    28 + off = len a - 12 /\
    firstn (N.to_nat (28 + off)) a ++ fst (add_chunks new) ++ finalize = write_raw_archive num (es ++ [new]).
Print Assumptions C18_append_at_seek_position.

(* append exactly as the code does it (ArchiveRun.append_raw = read_header; seek_to_end; add_entry of every raw entry of
   a donor archive; finalize — written IN PLACE into the old file, which is never truncated; this definition is run
   against Archive::seek_to_end / add_entry / finalize on a Cursor by the `append` cases): for written archives the
   result is exactly the archive of the concatenated entry lists — the old end marker is overwritten completely *)
Theorem C18_append_in_place :
  forall num es dn new, num < 2 ^ 32 -> dn < 2 ^ 32 -> Forall wf_entry es -> Forall wf_entry new ->
  ArchiveRun.append_raw (write_raw_archive num es) (write_raw_archive dn new) =
  Ok (write_raw_archive num (es ++ new), false).
Proof. exact append_raw_written. Qed.
Check C18_append_in_place :
  forall num es dn new, num < 2 ^ 32 -> dn < 2 ^ 32 -> Forall wf_entry es -> Forall wf_entry new ->
  ArchiveRun.append_raw (write_raw_archive num es) (write_raw_archive dn new) =
  Ok (write_raw_archive num (es ++ new), false).
Print Assumptions C18_append_in_place.

(* ---- counts returned by add_entry / add_entry_part ----------------------------------------------------------------- *)
(* the byte count returned when adding an entry / entry part equals the bytes written *)
Theorem C18_add_entry_count :
  forall cs, Forall wf_chunk cs -> snd (add_chunks cs) = len (fst (add_chunks cs)).
Proof. exact add_chunks_count. Qed.
Check C18_add_entry_count :
  forall cs, Forall wf_chunk cs -> snd (add_chunks cs) = len (fst (add_chunks cs)).
Print Assumptions C18_add_entry_count.

(* the same needs only 4-byte chunk types (ty4), and the count is 12 per chunk + payloads for every chunk list *)
Theorem C18_add_entry_count_formula :
  forall cs, snd (add_chunks cs) = 12 * len cs + payload_total cs.
Proof. exact add_chunks_count_formula. Qed.
Check C18_add_entry_count_formula :
  forall cs, snd (add_chunks cs) = 12 * len cs + payload_total cs.
Print Assumptions C18_add_entry_count_formula.

Theorem C18_add_entry_count_normal :
  forall e, Forall ty4 (n_extra e) ->
  snd (add_chunks (ser_normal e)) = len (fst (add_chunks (ser_normal e))) /\
  snd (add_chunks (ser_normal e)) = 12 * len (ser_normal e) + payload_total (ser_normal e).
Proof. exact add_entry_count_normal. Qed.
Check C18_add_entry_count_normal :
  forall e, Forall ty4 (n_extra e) ->
  snd (add_chunks (ser_normal e)) = len (fst (add_chunks (ser_normal e))) /\
  snd (add_chunks (ser_normal e)) = 12 * len (ser_normal e) + payload_total (ser_normal e).
Print Assumptions C18_add_entry_count_normal.

Theorem C18_add_entry_count_solid :
  forall s, Forall ty4 (so_extra s) ->
  snd (add_chunks (ser_solid s)) = len (fst (add_chunks (ser_solid s))) /\
  snd (add_chunks (ser_solid s)) = 12 * len (ser_solid s) + payload_total (ser_solid s).
Proof. exact add_entry_count_solid. Qed.
Check C18_add_entry_count_solid :
  forall s, Forall ty4 (so_extra s) ->
  snd (add_chunks (ser_solid s)) = len (fst (add_chunks (ser_solid s))) /\
  snd (add_chunks (ser_solid s)) = 12 * len (ser_solid s) + payload_total (ser_solid s).
Print Assumptions C18_add_entry_count_solid.

Theorem C18_add_entry_count_read_entry :
  forall x, Forall ty4 (extras_of x) ->
  snd (add_chunks (ser_entry x)) = len (fst (add_chunks (ser_entry x))) /\
  snd (add_chunks (ser_entry x)) = 12 * len (ser_entry x) + payload_total (ser_entry x).
Proof. exact add_entry_count_entry. Qed.
Check C18_add_entry_count_read_entry :
  forall x, Forall ty4 (extras_of x) ->
  snd (add_chunks (ser_entry x)) = len (fst (add_chunks (ser_entry x))) /\
  snd (add_chunks (ser_entry x)) = 12 * len (ser_entry x) + payload_total (ser_entry x).
Print Assumptions C18_add_entry_count_read_entry.

(* an entry that came through the reader and the parser: no premise left *)
Theorem C18_add_entry_count_parsed :
  forall cs x, Forall wf_chunk cs -> parse_entry cs = Ok x ->
  snd (add_chunks (ser_entry x)) = len (fst (add_chunks (ser_entry x))).
Proof. exact add_entry_count_parsed. Qed.
Check C18_add_entry_count_parsed :
  forall cs x, Forall wf_chunk cs -> parse_entry cs = Ok x ->
  snd (add_chunks (ser_entry x)) = len (fst (add_chunks (ser_entry x))).
Print Assumptions C18_add_entry_count_parsed.

Theorem C18_archive_length :
  forall num es, Forall (Forall ty4) es ->
  len (write_raw_archive num es) = 8 + 20 + sumN (map (fun e => snd (add_chunks e)) es) + 12.
Proof. exact archive_len_counts. Qed.
Check C18_archive_length :
  forall num es, Forall (Forall ty4) es ->
  len (write_raw_archive num es) = 8 + 20 + sumN (map (fun e => snd (add_chunks e)) es) + 12.
Print Assumptions C18_archive_length.

(* ---- entry parts (Model/Split.v) ------------------------------------------------------------------------------------ *)
Theorem C18_part_bytes_len :
  forall p, Forall (fun c : Split.chunk => length (fst c) = 4%nat) p ->
  Split.bytes_len p = len (ser_chunks (map chunk_of p)) /\
  Split.bytes_len p = snd (add_chunks (map chunk_of p)).
Proof. exact part_bytes_len. Qed.
Check C18_part_bytes_len :
  forall p, Forall (fun c : Split.chunk => length (fst c) = 4%nat) p ->
  Split.bytes_len p = len (ser_chunks (map chunk_of p)) /\
  Split.bytes_len p = snd (add_chunks (map chunk_of p)).
Print Assumptions C18_part_bytes_len.

(* EntryPart::split: the two sizes add up to the original's, + 12 exactly when a stream chunk was cut in two, and
   then the first half has exactly the requested size *)
Theorem C18_split_sizes_exact :
  forall m p w o, Split.split m p = (w, o) ->
  match o with
  | None => w = p /\ Split.bytes_len p <= m
  | Some rest =>
    m < Split.bytes_len p /\
    ((w ++ rest = p /\ Split.bytes_len w + Split.bytes_len rest = Split.bytes_len p /\ Split.bytes_len w <= m) \/
     (exists a t d1 d2 b, p = a ++ (t, d1 ++ d2) :: b /\ w = a ++ [(t, d1)] /\ rest = (t, d2) :: b /\
        Split.is_stream (t, d1 ++ d2) = true /\ d1 <> [] /\ d2 <> [] /\
        Split.bytes_len w = m /\ Split.bytes_len w + Split.bytes_len rest = Split.bytes_len p + 12))
  end.
Proof. exact split_sizes_exact. Qed.
Check C18_split_sizes_exact :
  forall m p w o, Split.split m p = (w, o) ->
  match o with
  | None => w = p /\ Split.bytes_len p <= m
  | Some rest =>
    m < Split.bytes_len p /\
    ((w ++ rest = p /\ Split.bytes_len w + Split.bytes_len rest = Split.bytes_len p /\ Split.bytes_len w <= m) \/
     (exists a t d1 d2 b, p = a ++ (t, d1 ++ d2) :: b /\ w = a ++ [(t, d1)] /\ rest = (t, d2) :: b /\
        Split.is_stream (t, d1 ++ d2) = true /\ d1 <> [] /\ d2 <> [] /\
        Split.bytes_len w = m /\ Split.bytes_len w + Split.bytes_len rest = Split.bytes_len p + 12))
  end.
Print Assumptions C18_split_sizes_exact.

(* ---- sizes of a parsed entry ------------------------------------------------------------------------------------------ *)
(* an entry's compressed size equals the total of its data-chunk payloads *)
Theorem C18_compressed_size :
  forall cs e, parse_normal cs = Ok e ->
  m_compressed (n_meta e) = fold_left N.add (map len (n_data e)) 0.
Proof. exact compressed_size_sum. Qed.
Check C18_compressed_size :
  forall cs e, parse_normal cs = Ok e ->
  m_compressed (n_meta e) = fold_left N.add (map len (n_data e)) 0.
Print Assumptions C18_compressed_size.

(* its raw size is the value of the last fSIZ chunk before FEND (u128 from the last 16 bytes), None without one *)
Theorem C18_raw_size :
  forall cs e, parse_normal cs = Ok e -> m_raw_size (n_meta e) = last_fsiz cs.
Proof. exact raw_size_last_fsiz. Qed.
Check C18_raw_size :
  forall cs e, parse_normal cs = Ok e -> m_raw_size (n_meta e) = last_fsiz cs.
Print Assumptions C18_raw_size.
