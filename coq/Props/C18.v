(* Props/C18.v — C18: every reported size and offset is exact.  Chunk level (this file, growing). *)
From PNA Require Import Base Crc32 Codec Chunk Archive Entry BaseFacts ChunkFacts ArchiveFacts EntryFacts.
Open Scope N_scope.

Theorem C18_chunk_byte_length :
  forall c, wf_chunk c -> len (ser_chunk c) = bytes_len c.
Proof. exact ser_chunk_len. Qed.
Check C18_chunk_byte_length : forall c, wf_chunk c -> len (ser_chunk c) = bytes_len c.
Print Assumptions C18_chunk_byte_length.

Theorem C18_chunk_read_consumes_its_length :
  forall bs c r, read_chunk_stream bs = Ok (c, r) -> wf_chunk c /\ bs = ser_chunk c ++ r.
Proof. exact read_chunk_ok_inv. Qed.
Print Assumptions C18_chunk_read_consumes_its_length.

(* the byte count returned when adding an entry / entry part equals the bytes written *)
Theorem C18_add_entry_count :
  forall cs, Forall wf_chunk cs -> snd (add_chunks cs) = len (fst (add_chunks cs)).
Proof. exact add_chunks_count. Qed.
Print Assumptions C18_add_entry_count.

(* an entry's compressed size equals the total of its data-chunk payloads *)
Theorem C18_compressed_size :
  forall cs e, parse_normal cs = Ok e ->
  m_compressed (n_meta e) = fold_left N.add (map len (n_data e)) 0.
Proof. exact compressed_size_sum. Qed.
Print Assumptions C18_compressed_size.
