(* Props/C18.v — C18: every reported size and offset is exact.  Chunk level (this file, growing). *)
From PNA Require Import Base Crc32 Chunk BaseFacts ChunkFacts.
Open Scope N_scope.

Theorem C18_chunk_byte_length :
  forall c, wf_chunk c -> len (ser_chunk c) = bytes_len c.
Proof. exact ser_chunk_len. Qed.
Check C18_chunk_byte_length : forall c, wf_chunk c -> len (ser_chunk c) = bytes_len c.
Print Assumptions C18_chunk_byte_length.

Theorem C18_chunk_read_consumes_its_length :
  forall bs c r, read_chunk_stream bs = Ok (c, r) -> wf_chunk c /\ bs = ser_chunk c ++ r.
Proof. exact read_chunk_ok_inv. Qed.
Print Assumptions C18_chunk_read_consumes_its_length.
