(* Props/C14_create.v — C14 for what `pna create` writes (Proofs/CreateWfFacts.v): the hypotheses `writable` /
   `writable_spec` / `strict_ctx` of Props/C14.v are derived from the C02 side — the tree, the options,
   the jobs that carry create's entries — so that the archive file of `create`, of `create --solid`, and the part set of
   `create --split max` / `create --solid --split max` are accepted by the strict recogniser for EVERY tree, walk order,
   option vector, codec, cipher, mode, write slicing, and every max for which the split succeeds.

   Premises, from C02_create_archive_extract: wf_tree t, tree_ok t, Forall2 carries jobs (create_from_tree c order t),
   Forall (wf_job pw) jobs; of the primitives only "the block cipher keeps 16-byte blocks".  Not needed: o_guarded,
   walk_order_ok, out, the decryptor, the compressor laws, the KDF.
   Added, each needed:
     Forall phc_job jobs  PHSF of an encrypted entry is PHC-shaped.  C14_create_output_wf_needs_phc: under the C01 laws, if
                          the recogniser accepts the written archive then phc_job holds for every job — without it the
                          archive is rejected (Proofs/PhcFacts.v: the PHC codec only parses PHC-shaped strings).
     phc_ctx cfg ctx      (--solid) the same for the solid entry's own cipher context, with the 32-bit length bound.
                          It is part of writable_solid: C14_solid_output_wf_needs.
   No size premise at all: a write of 2^32 bytes or more that reaches a chunk sink is cut into several chunks
   (FlattenWriter for the builders; ChunkStreamWriter::write since fix 45407aa2 for --solid's streaming writer:
   Props/C14_sink.v).  `small_pieces` (every write that reaches the SDAT sink below 2^32 bytes), a premise of the --solid
   theorems until then, is gone; C14_small_pieces_of_compress_small is kept as a fact about compressors.
   The name premise is DERIVED: C14_create_names_sane (not empty, fixed point of the sanitiser, from wf_tree + tree_ok),
   C14_create_names_valid (valid_name, with UTF-8 components).  The model create_from_tree has no filter of its own for
   empty names; it is tree_ok's `p <> []` that excludes the component-less paths ".", "..", "./" which collect_items
   drops since fix 707e049c: C14_create_empty_name_without_tree_ok is the witness.
   Per part: wf_part i (the part alone is a well-formed part file number i) and len <= max in bytes.
   Examples: premises satisfiable on tx_tree; the recogniser evaluated in the kernel on the four outputs for that tree. *)
From PNA Require Import Base Crc32 Name Codec Chunk Archive Entry Flatten Cbc Ctr Pipeline Aes Camellia Wf
  BaseFacts NameFacts CodecFacts ChunkFacts ArchiveFacts EntryFacts FlattenFacts CbcFacts CtrFacts StreamFacts PipelineFacts
  WfFacts WfWriterFacts WfAgreeFacts WfSplitFacts WfPipelineFacts WfRewriteFacts AesFacts CamelliaFacts PipelineRealFacts PipelineRun RecutFacts.
From PNA Require Split SplitFacts.
From PNA Require Import Fs Extract ExtractFacts CreateExtractFacts CreateTransportFacts CreateSplitFacts CreateWfFacts.
Open Scope N_scope.

(* ---- `pna create` ------------------------------------------------------------------------------------------ *)
Theorem C14_create_output_wf :
  forall (E : encryption -> bytes -> bytes -> bytes) (compress : compression -> N -> list bytes -> list bytes)
         (verify : bytes -> bytes -> res bytes),
  (forall a k b, len16 b -> len16 (E a k b)) ->
  forall c order t pw jobs,
  wf_tree t -> tree_ok t ->
  Forall2 carries jobs (create_from_tree c order t) -> Forall (wf_job E compress verify pw) jobs -> Forall phc_job jobs ->
  let a := write_archive (map (build_job E compress) jobs) in
  let es := map (fun j => RNormal (build_job E compress j)) jobs in
  wf_archive a = true /\ strict_decode a = Ok es /\
  entries read_chunk_stream a = Ok (es, FinOk) /\ entries read_chunk_slice a = Ok (es, FinOk).
Proof. exact create_output_wf. Qed.
Check C14_create_output_wf :
  forall (E : encryption -> bytes -> bytes -> bytes) (compress : compression -> N -> list bytes -> list bytes)
         (verify : bytes -> bytes -> res bytes),
  (forall a k b, len16 b -> len16 (E a k b)) ->
  forall c order t pw jobs,
  wf_tree t -> tree_ok t ->
  Forall2 carries jobs (create_from_tree c order t) -> Forall (wf_job E compress verify pw) jobs -> Forall phc_job jobs ->
  let a := write_archive (map (build_job E compress) jobs) in
  let es := map (fun j => RNormal (build_job E compress j)) jobs in
  wf_archive a = true /\ strict_decode a = Ok es /\
  entries read_chunk_stream a = Ok (es, FinOk) /\ entries read_chunk_slice a = Ok (es, FinOk).
Print Assumptions C14_create_output_wf.

(* ---- `pna create --solid`: the streaming SolidArchive ------------------------------------------------------- *)
Theorem C14_create_solid_output_wf :
  forall (E : encryption -> bytes -> bytes -> bytes) (compress : compression -> N -> list bytes -> list bytes)
         (verify : bytes -> bytes -> res bytes),
  (forall a k b, len16 b -> len16 (E a k b)) ->
  forall c order t pw jobs cfg ctx,
  wf_tree t -> tree_ok t ->
  Forall2 carries jobs (create_from_tree c order t) -> Forall (wf_job E compress verify pw) jobs -> Forall phc_job jobs ->
  key_iv_ok (c_key ctx) (c_iv ctx) = true -> phc_ctx cfg ctx ->
  let a := write_raw_archive 0 [solid_archive_chunks E compress cfg ctx (solid_writes (map (build_job E compress) jobs))] in
  let es := [RSolid (streamed_solid E compress cfg ctx (solid_writes (map (build_job E compress) jobs)))] in
  wf_archive a = true /\ strict_decode a = Ok es /\
  entries read_chunk_stream a = Ok (es, FinOk) /\ entries read_chunk_slice a = Ok (es, FinOk) /\
  inner_entries (solid_plain_stream (map (build_job E compress) jobs)) = SOk (map (fun j => RNormal (build_job E compress j)) jobs).
Proof. exact create_solid_output_wf. Qed.
Check C14_create_solid_output_wf :
  forall (E : encryption -> bytes -> bytes -> bytes) (compress : compression -> N -> list bytes -> list bytes)
         (verify : bytes -> bytes -> res bytes),
  (forall a k b, len16 b -> len16 (E a k b)) ->
  forall c order t pw jobs cfg ctx,
  wf_tree t -> tree_ok t ->
  Forall2 carries jobs (create_from_tree c order t) -> Forall (wf_job E compress verify pw) jobs -> Forall phc_job jobs ->
  key_iv_ok (c_key ctx) (c_iv ctx) = true -> phc_ctx cfg ctx ->
  let a := write_raw_archive 0 [solid_archive_chunks E compress cfg ctx (solid_writes (map (build_job E compress) jobs))] in
  let es := [RSolid (streamed_solid E compress cfg ctx (solid_writes (map (build_job E compress) jobs)))] in
  wf_archive a = true /\ strict_decode a = Ok es /\
  entries read_chunk_stream a = Ok (es, FinOk) /\ entries read_chunk_slice a = Ok (es, FinOk) /\
  inner_entries (solid_plain_stream (map (build_job E compress) jobs)) = SOk (map (fun j => RNormal (build_job E compress j)) jobs).
Print Assumptions C14_create_solid_output_wf.

(* ---- `pna create --split max` ------------------------------------------------------------------------------- *)
Theorem C14_create_split_output_wf :
  forall (E : encryption -> bytes -> bytes -> bytes) (compress : compression -> N -> list bytes -> list bytes)
         (verify : bytes -> bytes -> res bytes),
  (forall a k b, len16 b -> len16 (E a k b)) ->
  forall c order t pw jobs max parts,
  wf_tree t -> tree_ok t ->
  Forall2 carries jobs (create_from_tree c order t) -> Forall (wf_job E compress verify pw) jobs -> Forall phc_job jobs ->
  Split.write_split max (map (fun j => map of_c (ser_normal (build_job E compress j))) jobs) = Ok parts ->
  wf_parts (map ser_pfile parts) = true /\
  (forall i f, nth_error parts i = Some f -> wf_part (N.of_nat i) (ser_pfile f) = true /\ len (ser_pfile f) <= max) /\
  exists xs', strict_parts (map ser_pfile parts) = SOk xs' /\
              Forall2 entry_same (map (fun j => RNormal (build_job E compress j)) jobs) xs'.
Proof. exact create_split_output_wf. Qed.
Check C14_create_split_output_wf :
  forall (E : encryption -> bytes -> bytes -> bytes) (compress : compression -> N -> list bytes -> list bytes)
         (verify : bytes -> bytes -> res bytes),
  (forall a k b, len16 b -> len16 (E a k b)) ->
  forall c order t pw jobs max parts,
  wf_tree t -> tree_ok t ->
  Forall2 carries jobs (create_from_tree c order t) -> Forall (wf_job E compress verify pw) jobs -> Forall phc_job jobs ->
  Split.write_split max (map (fun j => map of_c (ser_normal (build_job E compress j))) jobs) = Ok parts ->
  wf_parts (map ser_pfile parts) = true /\
  (forall i f, nth_error parts i = Some f -> wf_part (N.of_nat i) (ser_pfile f) = true /\ len (ser_pfile f) <= max) /\
  exists xs', strict_parts (map ser_pfile parts) = SOk xs' /\
              Forall2 entry_same (map (fun j => RNormal (build_job E compress j)) jobs) xs'.
Print Assumptions C14_create_split_output_wf.

(* ---- `pna create --solid --split max`: SolidEntryBuilder, then the splitter ---------------------------------- *)
Theorem C14_create_solid_split_output_wf :
  forall (E : encryption -> bytes -> bytes -> bytes) (compress : compression -> N -> list bytes -> list bytes)
         (verify : bytes -> bytes -> res bytes),
  (forall a k b, len16 b -> len16 (E a k b)) ->
  forall c order t pw jobs cfg ctx max parts,
  wf_tree t -> tree_ok t ->
  Forall2 carries jobs (create_from_tree c order t) -> Forall (wf_job E compress verify pw) jobs -> Forall phc_job jobs ->
  key_iv_ok (c_key ctx) (c_iv ctx) = true -> phc_ctx cfg ctx ->
  let s := build_solid E compress cfg ctx [] (solid_writes (map (build_job E compress) jobs)) in
  Split.write_split max [map of_c (ser_solid s)] = Ok parts ->
  wf_parts (map ser_pfile parts) = true /\
  (forall i f, nth_error parts i = Some f -> wf_part (N.of_nat i) (ser_pfile f) = true /\ len (ser_pfile f) <= max) /\
  exists xs', strict_parts (map ser_pfile parts) = SOk xs' /\ Forall2 entry_same [RSolid s] xs'.
Proof. exact create_solid_split_output_wf. Qed.
Check C14_create_solid_split_output_wf :
  forall (E : encryption -> bytes -> bytes -> bytes) (compress : compression -> N -> list bytes -> list bytes)
         (verify : bytes -> bytes -> res bytes),
  (forall a k b, len16 b -> len16 (E a k b)) ->
  forall c order t pw jobs cfg ctx max parts,
  wf_tree t -> tree_ok t ->
  Forall2 carries jobs (create_from_tree c order t) -> Forall (wf_job E compress verify pw) jobs -> Forall phc_job jobs ->
  key_iv_ok (c_key ctx) (c_iv ctx) = true -> phc_ctx cfg ctx ->
  let s := build_solid E compress cfg ctx [] (solid_writes (map (build_job E compress) jobs)) in
  Split.write_split max [map of_c (ser_solid s)] = Ok parts ->
  wf_parts (map ser_pfile parts) = true /\
  (forall i f, nth_error parts i = Some f -> wf_part (N.of_nat i) (ser_pfile f) = true /\ len (ser_pfile f) <= max) /\
  exists xs', strict_parts (map ser_pfile parts) = SOk xs' /\ Forall2 entry_same [RSolid s] xs'.
Print Assumptions C14_create_solid_split_output_wf.

(* the splitter's output for any writable entries: the chain, every part on its own, every part's size in bytes *)
Theorem C14_split_output_wf : forall max ents parts, Forall writable ents ->
  Split.write_split max (map (fun e => map of_c (ser_entry e)) ents) = Ok parts ->
  wf_parts (map ser_pfile parts) = true /\
  (forall i f, nth_error parts i = Some f -> wf_part (N.of_nat i) (ser_pfile f) = true /\ len (ser_pfile f) <= max) /\
  exists xs', strict_parts (map ser_pfile parts) = SOk xs' /\ Forall2 entry_same (map normalize_entry ents) xs'.
Proof. exact split_output_wf. Qed.
Check C14_split_output_wf : forall max ents parts, Forall writable ents ->
  Split.write_split max (map (fun e => map of_c (ser_entry e)) ents) = Ok parts ->
  wf_parts (map ser_pfile parts) = true /\
  (forall i f, nth_error parts i = Some f -> wf_part (N.of_nat i) (ser_pfile f) = true /\ len (ser_pfile f) <= max) /\
  exists xs', strict_parts (map ser_pfile parts) = SOk xs' /\ Forall2 entry_same (map normalize_entry ents) xs'.
Print Assumptions C14_split_output_wf.

Theorem C14_wf_parts_each : forall ps, wf_parts ps = true ->
  forall i p, nth_error ps i = Some p -> wf_part (N.of_nat i) p = true.
Proof. exact wf_parts_each. Qed.
Check C14_wf_parts_each : forall ps, wf_parts ps = true ->
  forall i p, nth_error ps i = Some p -> wf_part (N.of_nat i) p = true.
Print Assumptions C14_wf_parts_each.

(* ---- the name premise is derived ----------------------------------------------------------------------------- *)
Theorem C14_create_names_sane : forall c t, wf_tree t -> tree_ok t -> forall order,
  Forall (fun e => e_name e <> [] /\ sanitize_name (e_name e) = e_name e /\
                   exists p, p <> [] /\ Forall normal_component p /\ e_name e = path_str p)
         (create_from_tree c order t).
Proof. exact create_names_sane. Qed.
Check C14_create_names_sane : forall c t, wf_tree t -> tree_ok t -> forall order,
  Forall (fun e => e_name e <> [] /\ sanitize_name (e_name e) = e_name e /\
                   exists p, p <> [] /\ Forall normal_component p /\ e_name e = path_str p)
         (create_from_tree c order t).
Print Assumptions C14_create_names_sane.

Theorem C14_create_names_valid : forall c t, wf_tree t -> tree_ok t ->
  (forall p n, In (p, n) t -> forallb utf8_valid p = true) -> forall order,
  Forall (fun e => valid_name (e_name e) = true) (create_from_tree c order t).
Proof. exact create_names_valid. Qed.
Check C14_create_names_valid : forall c t, wf_tree t -> tree_ok t ->
  (forall p n, In (p, n) t -> forallb utf8_valid p = true) -> forall order,
  Forall (fun e => valid_name (e_name e) = true) (create_from_tree c order t).
Print Assumptions C14_create_names_valid.

(* the model relies on tree_ok for that: a kept directory with no path component would be stored under the empty name *)
Theorem C14_create_empty_name_without_tree_ok :
  let t := [([], TDir 493)] in let c := mk_copts true false false false in
  wf_tree t /\ ~ tree_ok t /\ map e_name (create_from_tree c [[]] t) = [[]].
Proof. exact create_empty_name_without_tree_ok. Qed.
Check C14_create_empty_name_without_tree_ok :
  let t := [([], TDir 493)] in let c := mk_copts true false false false in
  wf_tree t /\ ~ tree_ok t /\ map e_name (create_from_tree c [[]] t) = [[]].
Print Assumptions C14_create_empty_name_without_tree_ok.

Theorem C14_created_entries_writable :
  forall (E : encryption -> bytes -> bytes -> bytes) (compress : compression -> N -> list bytes -> list bytes)
         (verify : bytes -> bytes -> res bytes),
  (forall a k b, len16 b -> len16 (E a k b)) ->
  forall pw c order t jobs, wf_tree t -> tree_ok t ->
  Forall2 carries jobs (create_from_tree c order t) -> Forall (wf_job E compress verify pw) jobs -> Forall phc_job jobs ->
  Forall writable_normal (map (build_job E compress) jobs).
Proof. exact created_writable. Qed.
Check C14_created_entries_writable :
  forall (E : encryption -> bytes -> bytes -> bytes) (compress : compression -> N -> list bytes -> list bytes)
         (verify : bytes -> bytes -> res bytes),
  (forall a k b, len16 b -> len16 (E a k b)) ->
  forall pw c order t jobs, wf_tree t -> tree_ok t ->
  Forall2 carries jobs (create_from_tree c order t) -> Forall (wf_job E compress verify pw) jobs -> Forall phc_job jobs ->
  Forall writable_normal (map (build_job E compress) jobs).
Print Assumptions C14_created_entries_writable.

(* ---- the added premises are needed ---------------------------------------------------------------------------- *)
Theorem C14_create_output_wf_needs_phc :
  forall (E D : encryption -> bytes -> bytes -> bytes) (compress : compression -> N -> list bytes -> list bytes)
         (decompress : compression -> bytes -> res bytes) (verify : bytes -> bytes -> res bytes),
  (forall a k c, len16 c -> len16 (D a k c)) -> (forall a k b, len16 b -> D a k (E a k b) = b) ->
  (forall a k b, len16 b -> len16 (E a k b)) ->
  (forall c lvl ws, decompress c (concat (compress c lvl ws)) = Ok (concat ws)) ->
  (forall c lvl (ws ws' : list bytes), concat ws = concat ws' -> concat (compress c lvl ws) = concat (compress c lvl ws')) ->
  forall pw jobs, Forall (wf_job E compress verify pw) jobs ->
  wf_archive (write_archive (map (build_job E compress) jobs)) = true -> Forall phc_job jobs.
Proof. exact create_output_wf_needs_phc. Qed.
Check C14_create_output_wf_needs_phc :
  forall (E D : encryption -> bytes -> bytes -> bytes) (compress : compression -> N -> list bytes -> list bytes)
         (decompress : compression -> bytes -> res bytes) (verify : bytes -> bytes -> res bytes),
  (forall a k c, len16 c -> len16 (D a k c)) -> (forall a k b, len16 b -> D a k (E a k b) = b) ->
  (forall a k b, len16 b -> len16 (E a k b)) ->
  (forall c lvl ws, decompress c (concat (compress c lvl ws)) = Ok (concat ws)) ->
  (forall c lvl (ws ws' : list bytes), concat ws = concat ws' -> concat (compress c lvl ws) = concat (compress c lvl ws')) ->
  forall pw jobs, Forall (wf_job E compress verify pw) jobs ->
  wf_archive (write_archive (map (build_job E compress) jobs)) = true -> Forall phc_job jobs.
Print Assumptions C14_create_output_wf_needs_phc.

Theorem C14_solid_output_wf_needs :
  forall (E : encryption -> bytes -> bytes -> bytes) (compress : compression -> N -> list bytes -> list bytes) cfg ctx sw,
  writable_solid (streamed_solid E compress cfg ctx sw) -> phc_ctx cfg ctx.
Proof. exact solid_output_wf_needs. Qed.
Check C14_solid_output_wf_needs :
  forall (E : encryption -> bytes -> bytes -> bytes) (compress : compression -> N -> list bytes -> list bytes) cfg ctx sw,
  writable_solid (streamed_solid E compress cfg ctx sw) -> phc_ctx cfg ctx.
Print Assumptions C14_solid_output_wf_needs.

Theorem C14_small_pieces_of_compress_small :
  forall (E : encryption -> bytes -> bytes -> bytes) (compress : compression -> N -> list bytes -> list bytes),
  (forall a k b, len16 b -> len16 (E a k b)) ->
  forall cfg ctx inner, compress_small compress ->
  key_iv_ok (c_key ctx) (c_iv ctx) = true -> Forall writable_normal inner ->
  small_pieces E compress cfg ctx (solid_writes inner).
Proof. exact small_pieces_of_compress_small. Qed.
Check C14_small_pieces_of_compress_small :
  forall (E : encryption -> bytes -> bytes -> bytes) (compress : compression -> N -> list bytes -> list bytes),
  (forall a k b, len16 b -> len16 (E a k b)) ->
  forall cfg ctx inner, compress_small compress ->
  key_iv_ok (c_key ctx) (c_iv ctx) = true -> Forall writable_normal inner ->
  small_pieces E compress cfg ctx (solid_writes inner).
Print Assumptions C14_small_pieces_of_compress_small.

Theorem C14_phc_ctx_unfolded : forall cfg ctx,
  phc_ctx cfg ctx <-> (Pipeline.encrypted cfg = true -> phsf_shape (c_phsf ctx) = true /\ len (c_phsf ctx) < 2 ^ 32).
Proof. exact phc_ctx_unfolded. Qed.
Print Assumptions C14_phc_ctx_unfolded.

(* ---- the premises are satisfiable; the recogniser evaluated in the kernel ------------------------------------- *)
Example C14_create_wf_premises_satisfiable : exists parts sparts,
  wf_tree tx_tree /\ tree_ok tx_tree /\
  Forall2 carries tx_jobs (create_from_tree tx_c tx_order tx_tree) /\
  Forall (wf_job real_E_of tx_compress tx_verify tx_pw) tx_jobs /\ Forall phc_job tx_jobs /\
  key_iv_ok (c_key tx_ctx) (c_iv tx_ctx) = true /\ phc_ctx tx_cfg tx_ctx /\
  Split.write_split 150 tx_split_input = Ok parts /\ length parts = 7%nat /\
  Split.write_split 300 [map of_c (ser_solid tx_solid)] = Ok sparts /\ length sparts = 5%nat.
Proof. exact create_wf_premises. Qed.
Print Assumptions C14_create_wf_premises_satisfiable.

Example C14_create_wf_evaluated : exists parts sparts,
  Split.write_split 150 tx_split_input = Ok parts /\ Split.write_split 300 [map of_c (ser_solid tx_solid)] = Ok sparts /\
  wf_archive tx_archive = true /\ wf_archive tx_solid_archive = true /\
  wf_parts (map ser_pfile parts) = true /\ wf_parts (map ser_pfile sparts) = true /\
  forallb (fun f => N.leb (len (ser_pfile f)) 150) parts = true /\ forallb (fun f => N.leb (len (ser_pfile f)) 300) sparts = true.
Proof. exact create_wf_evaluated. Qed.
Print Assumptions C14_create_wf_evaluated.
