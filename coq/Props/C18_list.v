(* Props/C18_list.v — C18 for what `pna list` prints: the "Raw Size" and "Compressed Size" columns of a listed row
   are exact.  Composition of C17 (which rows are shown: Model/ListCmd.v) with C18_compressed_size / C18_raw_size
   (Props/C18.v) and C18_built_sizes (Props/C18_pipeline.v).  Proofs in Proofs/ListSizeFacts.v; only statements here.

   Vocabulary (Proofs/ListSizeFacts.v):
     trow                 a ListCmd.row (t_row: name, kind, r_size = the raw-size field, ...) plus t_csize, the
                          compressed-size field, which Model/ListCmd.v's row does not carry
     row_of rd e          TableRow::try_from of list.rs: r_size := metadata.raw_file_size() = m_raw_size,
                          t_csize := metadata.compressed_size() = m_compressed — for an inner entry of a solid block the
                          INNER entry's metadata (the solid header changes only the encryption/compression columns);
                          rd = entry.reader(password) read to the end (link target)
     shown expand solid es   the entries that get a row, in order (run_list_archive): normal entries; with --solid
                          the inner entries of every block in place (expand = solid.entries(password) run to its end, the
                          first error ends the command before anything is printed); without --solid blocks give no row
                          and are not opened
     list_trows           shown, row_of, then the glob filter of print_entries (nf = number of patterns, sel = matcher)
     sizes_exact t e      t_csize t = sumN (map len (n_data e)), r_size (t_row t) = m_raw_size (n_meta e), and for every
                          chunk list cs the entry was parsed from: t_csize t = sumN (map len (fdat_payloads cs))
                          (payloads of the FDAT chunks in front of FEND), r_size (t_row t) = last_fsiz cs (value of the
                          last fSIZ chunk; None without one)
     parsed_item x        a normal entry that came out of parse_normal (everything Archive::entries() delivers)
     expand_p E D decompress verify pw srb   Pipeline.decode_solid run to FinOk
     stored_bytes cfg ctx wcuts   (if encrypted cfg then 16 else 0) + len (concat (data_pieces cfg ctx wcuts)): the
                          16-byte IV of an encrypted entry IS counted in the compressed-size column
     job_sizes_exact t j  r_size = Some (length of the job's content) for a file, None for directory / links;
                          t_csize = stored_bytes (eff_cfg: links and directories are stored unencrypted); name; kind
     aitem, item_entry, item_jobs, wf_item, item_writable   an archive of EntryBuilder entries and SolidEntryBuilder blocks
   Printers (table_size_cells, jsonl_size_fields): table / -l prints r_size in decimal, "-" when fSIZ is absent, and
   t_csize in decimal; JSON lines print raw_size = the number, 0 when absent, and size = t_csize; the plain and the
   tree printer show neither field.
   Not covered by a run against the CLI: Model/ListCmd.v / the C17 correspondence compare the raw-size column only;
   the compressed-size column is tied to the code by the `sizes` / `pipeline` cases of C18 on Metadata::compressed_size
   (the getter the row constructor calls), not on the printed table. *)
From PNA Require Import Base Crc32 Name Codec Chunk Archive Entry Cbc Pipeline ListCmd
  BaseFacts ChunkFacts ArchiveFacts EntryFacts OffsetFacts CbcFacts PipelineFacts ListCmdFacts ListSizeFacts.
Open Scope N_scope.

(* 1. every row of every listing: any entries the reader delivered, any selection, with and without --solid, any
   `expand` whose results are parsed entries.  The k-th row stands for the k-th selected entry of `shown`; its rows
   are the rows of Model/ListCmd.v (C17) *)
Theorem C18_list_sizes_exact :
  forall (rd : normal_entry -> res bytes) (expand : solid_entry -> res (list normal_entry)),
  (forall s ns, expand s = Ok ns -> Forall parsed ns) ->
  forall (solid : bool) (nf : N) (sel : bytes -> bool) (es : list read_entry) (rows : list trow),
  Forall parsed_item es -> list_trows rd expand solid nf sel es = Ok rows ->
  exists ns, shown expand solid es = Ok ns /\
    Forall2 sizes_exact rows (filter (sel_entry nf sel) ns) /\
    map t_row rows = list_rows solid nf sel (map (litem_of rd expand) es).
Proof. exact listed_sizes_exact. Qed.
Check C18_list_sizes_exact :
  forall (rd : normal_entry -> res bytes) (expand : solid_entry -> res (list normal_entry)),
  (forall s ns, expand s = Ok ns -> Forall parsed ns) ->
  forall (solid : bool) (nf : N) (sel : bytes -> bool) (es : list read_entry) (rows : list trow),
  Forall parsed_item es -> list_trows rd expand solid nf sel es = Ok rows ->
  exists ns, shown expand solid es = Ok ns /\
    Forall2 sizes_exact rows (filter (sel_entry nf sel) ns) /\
    map t_row rows = list_rows solid nf sel (map (litem_of rd expand) es).
Print Assumptions C18_list_sizes_exact.

(* the same on the bytes of ANY archive file, with SolidEntry::entries as the expansion: no premise on the file, the
   ciphers, the decompressor, the KDF or the password *)
Theorem C18_list_sizes_of_archive :
  forall (E D : encryption -> bytes -> bytes -> bytes) (decompress : compression -> bytes -> res bytes)
    (verify : bytes -> bytes -> res bytes) (pw : bytes) (srb : solid_entry -> list N)
    (rd : normal_entry -> res bytes) (solid : bool) (nf : N) (sel : bytes -> bool)
    (b : bytes) (es : list read_entry) (rows : list trow),
  read_archive b = Ok es ->
  list_trows rd (expand_p E D decompress verify pw srb) solid nf sel es = Ok rows ->
  exists ns, shown (expand_p E D decompress verify pw srb) solid es = Ok ns /\
    Forall2 sizes_exact rows (filter (sel_entry nf sel) ns) /\
    map t_row rows = list_rows solid nf sel (map (litem_of rd (expand_p E D decompress verify pw srb)) es).
Proof. exact listed_sizes_of_archive. Qed.
Check C18_list_sizes_of_archive :
  forall (E D : encryption -> bytes -> bytes -> bytes) (decompress : compression -> bytes -> res bytes)
    (verify : bytes -> bytes -> res bytes) (pw : bytes) (srb : solid_entry -> list N)
    (rd : normal_entry -> res bytes) (solid : bool) (nf : N) (sel : bytes -> bool)
    (b : bytes) (es : list read_entry) (rows : list trow),
  read_archive b = Ok es ->
  list_trows rd (expand_p E D decompress verify pw srb) solid nf sel es = Ok rows ->
  exists ns, shown (expand_p E D decompress verify pw srb) solid es = Ok ns /\
    Forall2 sizes_exact rows (filter (sel_entry nf sel) ns) /\
    map t_row rows = list_rows solid nf sel (map (litem_of rd (expand_p E D decompress verify pw srb)) es).
Print Assumptions C18_list_sizes_of_archive.

(* without --solid the blocks are not opened: the rows do not depend on the expansion (nor on the password) *)
Theorem C18_list_nosolid_opens_no_block :
  forall (expand : solid_entry -> res (list normal_entry)) (es : list read_entry),
  shown expand false es = Ok (concat (map (fun x => match x with RNormal e => [e] | RSolid _ => [] end) es)).
Proof. exact shown_nosolid. Qed.
Check C18_list_nosolid_opens_no_block :
  forall (expand : solid_entry -> res (list normal_entry)) (es : list read_entry),
  shown expand false es = Ok (concat (map (fun x => match x with RNormal e => [e] | RSolid _ => [] end) es)).
Print Assumptions C18_list_nosolid_opens_no_block.

(* 2. the row of an entry built by EntryBuilder (any codec, cipher, mode, slicing of the writes): raw size = length of
   the content (absent for directories and links), compressed size = the stored bytes INCLUDING the 16-byte IV of
   an encrypted entry = the total of its data chunks *)
Theorem C18_list_built_row_sizes :
  forall (E D : encryption -> bytes -> bytes -> bytes) (compress : compression -> N -> list bytes -> list bytes)
    (verify : bytes -> bytes -> res bytes) (pw : bytes),
  (forall (a : encryption) (k c : bytes), len16 c -> len16 (D a k c)) ->
  (forall (a : encryption) (k b : bytes), len16 b -> D a k (E a k b) = b) ->
  (forall (a : encryption) (k b : bytes), len16 b -> len16 (E a k b)) ->
  forall (rd : normal_entry -> res bytes) (cfg : config) (ctx : cctx) (sp : spec) (wcuts : list bytes),
  wf_spec sp -> wf_ctx verify ctx pw -> concat (eff_wcuts (sp_kind sp) wcuts) = sp_content sp ->
  let t := row_of rd (build_normal E compress cfg ctx sp wcuts) in
  r_size (t_row t) = (match sp_kind sp with KFile => Some (len (sp_content sp)) | _ => None end) /\
  t_csize t = stored_bytes E compress (eff_cfg cfg (sp_kind sp)) ctx (eff_wcuts (sp_kind sp) wcuts) /\
  t_csize t = sumN (map len (n_data (build_normal E compress cfg ctx sp wcuts))) /\
  r_name (t_row t) = sp_name sp /\ r_kind (t_row t) = kind_code (sp_kind sp).
Proof. exact built_row_sizes. Qed.
Check C18_list_built_row_sizes :
  forall (E D : encryption -> bytes -> bytes -> bytes) (compress : compression -> N -> list bytes -> list bytes)
    (verify : bytes -> bytes -> res bytes) (pw : bytes),
  (forall (a : encryption) (k c : bytes), len16 c -> len16 (D a k c)) ->
  (forall (a : encryption) (k b : bytes), len16 b -> D a k (E a k b) = b) ->
  (forall (a : encryption) (k b : bytes), len16 b -> len16 (E a k b)) ->
  forall (rd : normal_entry -> res bytes) (cfg : config) (ctx : cctx) (sp : spec) (wcuts : list bytes),
  wf_spec sp -> wf_ctx verify ctx pw -> concat (eff_wcuts (sp_kind sp) wcuts) = sp_content sp ->
  let t := row_of rd (build_normal E compress cfg ctx sp wcuts) in
  r_size (t_row t) = (match sp_kind sp with KFile => Some (len (sp_content sp)) | _ => None end) /\
  t_csize t = stored_bytes E compress (eff_cfg cfg (sp_kind sp)) ctx (eff_wcuts (sp_kind sp) wcuts) /\
  t_csize t = sumN (map len (n_data (build_normal E compress cfg ctx sp wcuts))) /\
  r_name (t_row t) = sp_name sp /\ r_kind (t_row t) = kind_code (sp_kind sp).
Print Assumptions C18_list_built_row_sizes.

(* create, write, read back, list: one row per selected job, in order, with exact sizes; --solid makes no
   difference (there is no block) *)
Theorem C18_list_built_archive :
  forall (E D : encryption -> bytes -> bytes -> bytes) (compress : compression -> N -> list bytes -> list bytes)
    (decompress : compression -> bytes -> res bytes) (verify : bytes -> bytes -> res bytes) (pw : bytes),
  (forall (a : encryption) (k c : bytes), len16 c -> len16 (D a k c)) ->
  (forall (a : encryption) (k b : bytes), len16 b -> D a k (E a k b) = b) ->
  (forall (a : encryption) (k b : bytes), len16 b -> len16 (E a k b)) ->
  (forall (c : compression) (lvl : N) (ws : list bytes), decompress c (concat (compress c lvl ws)) = Ok (concat ws)) ->
  (forall (c : compression) (lvl : N) (ws ws' : list bytes), concat ws = concat ws' ->
     concat (compress c lvl ws) = concat (compress c lvl ws')) ->
  forall (rd : normal_entry -> res bytes) (expand : solid_entry -> res (list normal_entry))
    (solid : bool) (nf : N) (sel : bytes -> bool) (jobs : list job),
  Forall (wf_job E compress verify pw) jobs ->
  exists es, read_archive (write_archive (map (build_job E compress) jobs)) = Ok es /\
    list_trows rd expand solid nf sel es = Ok (map (job_row E compress rd) (filter (sel_job nf sel) jobs)) /\
    Forall2 (job_sizes_exact E compress) (map (job_row E compress rd) (filter (sel_job nf sel) jobs))
            (filter (sel_job nf sel) jobs).
Proof. exact listed_built_archive. Qed.
Check C18_list_built_archive :
  forall (E D : encryption -> bytes -> bytes -> bytes) (compress : compression -> N -> list bytes -> list bytes)
    (decompress : compression -> bytes -> res bytes) (verify : bytes -> bytes -> res bytes) (pw : bytes),
  (forall (a : encryption) (k c : bytes), len16 c -> len16 (D a k c)) ->
  (forall (a : encryption) (k b : bytes), len16 b -> D a k (E a k b) = b) ->
  (forall (a : encryption) (k b : bytes), len16 b -> len16 (E a k b)) ->
  (forall (c : compression) (lvl : N) (ws : list bytes), decompress c (concat (compress c lvl ws)) = Ok (concat ws)) ->
  (forall (c : compression) (lvl : N) (ws ws' : list bytes), concat ws = concat ws' ->
     concat (compress c lvl ws) = concat (compress c lvl ws')) ->
  forall (rd : normal_entry -> res bytes) (expand : solid_entry -> res (list normal_entry))
    (solid : bool) (nf : N) (sel : bytes -> bool) (jobs : list job),
  Forall (wf_job E compress verify pw) jobs ->
  exists es, read_archive (write_archive (map (build_job E compress) jobs)) = Ok es /\
    list_trows rd expand solid nf sel es = Ok (map (job_row E compress rd) (filter (sel_job nf sel) jobs)) /\
    Forall2 (job_sizes_exact E compress) (map (job_row E compress rd) (filter (sel_job nf sel) jobs))
            (filter (sel_job nf sel) jobs).
Print Assumptions C18_list_built_archive.

(* 3. solid blocks: an archive of built entries and of blocks built by SolidEntryBuilder from built entries (any
   block configuration), written with add_entry, read back, listed.  With --solid every inner entry has its row,
   in place and in order, and the two size fields are exact for the INNER entry (its own content length; its own
   stored bytes, with its own IV when the inner entry itself is encrypted); without --solid (item_jobs false) the
   blocks give no row *)
Theorem C18_list_solid_inner_rows :
  forall (E D : encryption -> bytes -> bytes -> bytes) (compress : compression -> N -> list bytes -> list bytes)
    (decompress : compression -> bytes -> res bytes) (verify : bytes -> bytes -> res bytes) (pw : bytes)
    (srb : solid_entry -> list N),
  (forall (a : encryption) (k c : bytes), len16 c -> len16 (D a k c)) ->
  (forall (a : encryption) (k b : bytes), len16 b -> D a k (E a k b) = b) ->
  (forall (a : encryption) (k b : bytes), len16 b -> len16 (E a k b)) ->
  (forall (c : compression) (lvl : N) (ws : list bytes), decompress c (concat (compress c lvl ws)) = Ok (concat ws)) ->
  (forall (c : compression) (lvl : N) (ws ws' : list bytes), concat ws = concat ws' ->
     concat (compress c lvl ws) = concat (compress c lvl ws')) ->
  forall (rd : normal_entry -> res bytes) (solid : bool) (nf : N) (sel : bytes -> bool) (items : list aitem),
  Forall (wf_item E compress verify pw srb) items -> Forall (item_writable E compress) items ->
  let js := filter (sel_job nf sel) (concat (map (item_jobs solid) items)) in
  exists es, read_archive (write_archive_entries (map (item_entry E compress) items)) = Ok es /\
    list_trows rd (expand_p E D decompress verify pw srb) solid nf sel es = Ok (map (job_row E compress rd) js) /\
    Forall2 (job_sizes_exact E compress) (map (job_row E compress rd) js) js.
Proof. exact listed_items_archive. Qed.
Check C18_list_solid_inner_rows :
  forall (E D : encryption -> bytes -> bytes -> bytes) (compress : compression -> N -> list bytes -> list bytes)
    (decompress : compression -> bytes -> res bytes) (verify : bytes -> bytes -> res bytes) (pw : bytes)
    (srb : solid_entry -> list N),
  (forall (a : encryption) (k c : bytes), len16 c -> len16 (D a k c)) ->
  (forall (a : encryption) (k b : bytes), len16 b -> D a k (E a k b) = b) ->
  (forall (a : encryption) (k b : bytes), len16 b -> len16 (E a k b)) ->
  (forall (c : compression) (lvl : N) (ws : list bytes), decompress c (concat (compress c lvl ws)) = Ok (concat ws)) ->
  (forall (c : compression) (lvl : N) (ws ws' : list bytes), concat ws = concat ws' ->
     concat (compress c lvl ws) = concat (compress c lvl ws')) ->
  forall (rd : normal_entry -> res bytes) (solid : bool) (nf : N) (sel : bytes -> bool) (items : list aitem),
  Forall (wf_item E compress verify pw srb) items -> Forall (item_writable E compress) items ->
  let js := filter (sel_job nf sel) (concat (map (item_jobs solid) items)) in
  exists es, read_archive (write_archive_entries (map (item_entry E compress) items)) = Ok es /\
    list_trows rd (expand_p E D decompress verify pw srb) solid nf sel es = Ok (map (job_row E compress rd) js) /\
    Forall2 (job_sizes_exact E compress) (map (job_row E compress rd) js) js.
Print Assumptions C18_list_solid_inner_rows.

(* evaluated in the kernel (toy block cipher): name, JSON-lines (raw_size, size), table ("Raw Size", "Compressed
   Size").  a.txt: 10 bytes stored; s/in, s/enc: inner entries of a CTR-encrypted block (s/enc itself CTR-encrypted:
   5 bytes, 16 + 5 stored); b.bin: 20 bytes CBC-encrypted, 16 IV + 32 = 48 stored; l: symbolic link, no fSIZ ("-" / 0),
   5 bytes of target; d: directory.  Wrong password: with --solid the command fails, without it nothing changes *)
Theorem C18_list_example :
  ls_list ls_pw true = Ok
    [(lit "a.txt", (Some 10, 10), (lit "10", lit "10")); (lit "s/in", (Some 7, 7), (lit "7", lit "7"));
     (lit "s/enc", (Some 5, 21), (lit "5", lit "21")); (lit "b.bin", (Some 20, 48), (lit "20", lit "48"));
     (lit "l", (None, 5), (lit "-", lit "5")); (lit "d", (None, 0), (lit "-", lit "0"))] /\
  ls_list ls_pw false = Ok
    [(lit "a.txt", (Some 10, 10), (lit "10", lit "10")); (lit "b.bin", (Some 20, 48), (lit "20", lit "48"));
     (lit "l", (None, 5), (lit "-", lit "5")); (lit "d", (None, 0), (lit "-", lit "0"))] /\
  ls_list (lit "no") false = ls_list ls_pw false /\
  ls_list (lit "no") true = Err InvalidData.
Proof. exact ls_listing. Qed.
Check C18_list_example :
  ls_list ls_pw true = Ok
    [(lit "a.txt", (Some 10, 10), (lit "10", lit "10")); (lit "s/in", (Some 7, 7), (lit "7", lit "7"));
     (lit "s/enc", (Some 5, 21), (lit "5", lit "21")); (lit "b.bin", (Some 20, 48), (lit "20", lit "48"));
     (lit "l", (None, 5), (lit "-", lit "5")); (lit "d", (None, 0), (lit "-", lit "0"))] /\
  ls_list ls_pw false = Ok
    [(lit "a.txt", (Some 10, 10), (lit "10", lit "10")); (lit "b.bin", (Some 20, 48), (lit "20", lit "48"));
     (lit "l", (None, 5), (lit "-", lit "5")); (lit "d", (None, 0), (lit "-", lit "0"))] /\
  ls_list (lit "no") false = ls_list ls_pw false /\
  ls_list (lit "no") true = Err InvalidData.
Print Assumptions C18_list_example.

(* the premises of C18_list_solid_inner_rows are satisfiable: they hold for the items of that archive *)
Theorem C18_list_example_premises :
  map (item_entry toy_E_of id_compress) ls_items =
    [RNormal (ls_build ls_j1); RSolid ls_block; RNormal (ls_build ls_j2); RNormal (ls_build ls_j3); RNormal (ls_build ls_j4)] /\
  Forall (wf_item toy_E_of id_compress toy_verify ls_pw (fun _ => repeat 64 1000)) ls_items /\
  Forall (item_writable toy_E_of id_compress) ls_items.
Proof. exact ls_items_wf. Qed.
Check C18_list_example_premises :
  map (item_entry toy_E_of id_compress) ls_items =
    [RNormal (ls_build ls_j1); RSolid ls_block; RNormal (ls_build ls_j2); RNormal (ls_build ls_j3); RNormal (ls_build ls_j4)] /\
  Forall (wf_item toy_E_of id_compress toy_verify ls_pw (fun _ => repeat 64 1000)) ls_items /\
  Forall (item_writable toy_E_of id_compress) ls_items.
Print Assumptions C18_list_example_premises.
