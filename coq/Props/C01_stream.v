(* Props/C01 (stream part) — library round trip: the byte-stream layer (FlattenReader/Writer, CBC, CTR).
   Only statements, closed by `exact`, pinned by `Check`, audited by `Print Assumptions`.
   The block cipher is a pair of functions E D : key -> block -> block; its laws
   (16-byte blocks stay 16 bytes, D k (E k b) = b) are PREMISES of the theorems that need them,
   and are discharged for the toy cipher the model is run with (C0x_toy_* examples).
   To merge: append below the imports of Props/C01.v; needed imports: *)
From PNA Require Import Base Flatten Cbc Ctr BaseFacts FlattenFacts CbcFacts CtrFacts StreamFacts.
Open Scope N_scope.
(* FlattenReader: for every chunk list and positive buffer sizes the reads concatenate to a prefix of
   the concatenated chunks, each read fits its buffer, an empty read means everything was delivered *)
Theorem C01_flatten_read_spec :
  forall chunks ns, Forall (fun n => 0 < n) ns ->
  (exists rest, concat chunks = concat (flat_reads chunks ns) ++ rest) /\
  Forall2 (fun out n => len out <= n) (flat_reads chunks ns) ns /\
  (In [] (flat_reads chunks ns) -> concat (flat_reads chunks ns) = concat chunks).
Proof. exact flatten_read_spec. Qed.
Check C01_flatten_read_spec :
  forall chunks ns, Forall (fun n => 0 < n) ns ->
  (exists rest, concat chunks = concat (flat_reads chunks ns) ++ rest) /\
  Forall2 (fun out n => len out <= n) (flat_reads chunks ns) ns /\
  (In [] (flat_reads chunks ns) -> concat (flat_reads chunks ns) = concat chunks).
Print Assumptions C01_flatten_read_spec.

(* a zero-length read returns nothing and consumes nothing (repaired defect D3) *)
Theorem C01_flatten_zero_read :
  forall s, flat_read s 0 = (s, []).
Proof. exact flat_read_zero. Qed.
Check C01_flatten_zero_read :
  forall s, flat_read s 0 = (s, []).
Print Assumptions C01_flatten_zero_read.

(* FlattenWriter<N>: nothing lost, count = length, non-empty pieces of at most N bytes *)
Theorem C01_flatten_write_spec :
  forall (n : nat) s d s' ps c, (0 < n)%nat -> flatten_write n s d = (s', ps, c) ->
  s' = s ++ ps /\ concat ps = d /\ c = len d /\ Forall (fun p => p <> [] /\ (length p <= n)%nat) ps.
Proof. exact flatten_write_spec. Qed.
Check C01_flatten_write_spec :
  forall (n : nat) s d s' ps c, (0 < n)%nat -> flatten_write n s d = (s', ps, c) ->
  s' = s ++ ps /\ concat ps = d /\ c = len d /\ Forall (fun p => p <> [] /\ (length p <= n)%nat) ps.
Print Assumptions C01_flatten_write_spec.

(* PKCS#7 on one block *)
Theorem C01_pkcs7_unpad_pad :
  forall b, (length b < 16)%nat -> pkcs7_unpad_block (pkcs7_pad_block b) = Ok b.
Proof. exact unpad_pad. Qed.
Check C01_pkcs7_unpad_pad :
  forall b, (length b < 16)%nat -> pkcs7_unpad_block (pkcs7_pad_block b) = Ok b.
Print Assumptions C01_pkcs7_unpad_pad.

(* CBC writer, for EVERY partition of the plaintext into write calls: the inner writes (finish included)
   concatenate to cbc_enc k iv (pkcs7 plaintext); every returned count is the length of the piece written
   (C18 raw_size); every inner write is one 16-byte block *)
Theorem C01_cbcw_spec :
  forall (E : bytes -> bytes -> bytes) key iv ws s0 s' calls,
  cbcw_new key iv = Ok s0 -> cbcw_writes E s0 ws = (s', calls) ->
  concat (concat (map snd calls)) ++ concat (cbcw_finish E s') = cbc_enc E key iv (pkcs7 (concat ws)) /\
  map fst calls = map len ws /\
  ((forall k b, len16 b -> len16 (E k b)) -> Forall len16 (concat (map snd calls) ++ cbcw_finish E s')).
Proof. exact cbcw_spec. Qed.
Check C01_cbcw_spec :
  forall (E : bytes -> bytes -> bytes) key iv ws s0 s' calls,
  cbcw_new key iv = Ok s0 -> cbcw_writes E s0 ws = (s', calls) ->
  concat (concat (map snd calls)) ++ concat (cbcw_finish E s') = cbc_enc E key iv (pkcs7 (concat ws)) /\
  map fst calls = map len ws /\
  ((forall k b, len16 b -> len16 (E k b)) -> Forall len16 (concat (map snd calls) ++ cbcw_finish E s')).
Print Assumptions C01_cbcw_spec.

(* CBC reader (repaired D2, D4): for EVERY requested size the next n bytes of the plaintext are returned
   (fewer only at its end) and the reader then owes exactly the rest: no loss, no early end *)
Theorem C01_cbcr_read_spec :
  forall (D : bytes -> bytes -> bytes), (forall k c, len16 c -> len16 (D k c)) ->
  forall st n pt, wf st -> stream D st = Ok pt ->
  exists st', cbcr_read D st n = Ok (st', ftake n pt) /\ stream D st' = Ok (fdrop n pt) /\ wf st'.
Proof. exact cbcr_read_spec. Qed.
Check C01_cbcr_read_spec :
  forall (D : bytes -> bytes -> bytes), (forall k c, len16 c -> len16 (D k c)) ->
  forall st n pt, wf st -> stream D st = Ok pt ->
  exists st', cbcr_read D st n = Ok (st', ftake n pt) /\ stream D st' = Ok (fdrop n pt) /\ wf st'.
Print Assumptions C01_cbcr_read_spec.

(* CBC read-after-write: ANY write partition, ANY cut of the ciphertext into chunks, ANY buffer sizes:
   the reads are those of an ideal byte-stream reader over the written bytes *)
Theorem C01_cbc_roundtrip :
  forall (E D : bytes -> bytes -> bytes),
  (forall k c, len16 c -> len16 (D k c)) -> (forall k b, len16 b -> D k (E k b) = b) ->
  (forall k b, len16 b -> len16 (E k b)) ->
  forall key iv ws s0 s' calls chunks ns,
  cbcw_new key iv = Ok s0 -> cbcw_writes E s0 ws = (s', calls) ->
  concat chunks = concat (concat (map snd calls)) ++ concat (cbcw_finish E s') ->
  exists st, cbcr_new key iv chunks = Ok st /\ cbcr_read_seq D st ns = Ok (deliver (concat ws) ns).
Proof. exact cbc_roundtrip. Qed.
Check C01_cbc_roundtrip :
  forall (E D : bytes -> bytes -> bytes),
  (forall k c, len16 c -> len16 (D k c)) -> (forall k b, len16 b -> D k (E k b) = b) ->
  (forall k b, len16 b -> len16 (E k b)) ->
  forall key iv ws s0 s' calls chunks ns,
  cbcw_new key iv = Ok s0 -> cbcw_writes E s0 ws = (s', calls) ->
  concat chunks = concat (concat (map snd calls)) ++ concat (cbcw_finish E s') ->
  exists st, cbcr_new key iv chunks = Ok st /\ cbcr_read_seq D st ns = Ok (deliver (concat ws) ns).
Print Assumptions C01_cbc_roundtrip.

(* ... where the ideal reader returns at most the buffer, loses nothing, and (positive buffers) returns
   nothing only at the end *)
Theorem C01_deliver_concat :
  forall ns pt, concat (deliver pt ns) = ftake (fold_right N.add 0 ns) pt.
Proof. exact deliver_concat. Qed.
Check C01_deliver_concat :
  forall ns pt, concat (deliver pt ns) = ftake (fold_right N.add 0 ns) pt.
Print Assumptions C01_deliver_concat.

Theorem C01_deliver_lens :
  forall ns pt, Forall2 (fun out n => len out <= n) (deliver pt ns) ns.
Proof. exact deliver_lens. Qed.
Check C01_deliver_lens :
  forall ns pt, Forall2 (fun out n => len out <= n) (deliver pt ns) ns.
Print Assumptions C01_deliver_lens.

Theorem C01_deliver_complete :
  forall ns pt, Forall (fun n => 0 < n) ns -> In [] (deliver pt ns) -> concat (deliver pt ns) = pt.
Proof. exact deliver_complete. Qed.
Check C01_deliver_complete :
  forall ns pt, Forall (fun n => 0 < n) ns -> In [] (deliver pt ns) -> concat (deliver pt ns) = pt.
Print Assumptions C01_deliver_complete.

(* the same in one statement, in the shape of the property: independent of write slicing and buffer sizes *)
Theorem C01_cbc_roundtrip_until_empty :
  forall (E D : bytes -> bytes -> bytes),
  (forall k c, len16 c -> len16 (D k c)) -> (forall k b, len16 b -> len16 (E k b)) ->
  (forall k b, len16 b -> D k (E k b) = b) ->
  forall key iv ws s0 s' calls chunks ns,
  cbcw_new key iv = Ok s0 -> cbcw_writes E s0 ws = (s', calls) ->
  concat chunks = concat (concat (map snd calls)) ++ concat (cbcw_finish E s') ->
  Forall (fun n => 0 < n) ns ->
  exists st outs, cbcr_new key iv chunks = Ok st /\ cbcr_read_seq D st ns = Ok outs /\
    Forall2 (fun out n => len out <= n) outs ns /\
    (exists rest, concat ws = concat outs ++ rest) /\
    (In [] outs -> concat outs = concat ws).
Proof. exact cbc_roundtrip_until_empty. Qed.
Check C01_cbc_roundtrip_until_empty :
  forall (E D : bytes -> bytes -> bytes),
  (forall k c, len16 c -> len16 (D k c)) -> (forall k b, len16 b -> len16 (E k b)) ->
  (forall k b, len16 b -> D k (E k b) = b) ->
  forall key iv ws s0 s' calls chunks ns,
  cbcw_new key iv = Ok s0 -> cbcw_writes E s0 ws = (s', calls) ->
  concat chunks = concat (concat (map snd calls)) ++ concat (cbcw_finish E s') ->
  Forall (fun n => 0 < n) ns ->
  exists st outs, cbcr_new key iv chunks = Ok st /\ cbcr_read_seq D st ns = Ok outs /\
    Forall2 (fun out n => len out <= n) outs ns /\
    (exists rest, concat ws = concat outs ++ rest) /\
    (In [] outs -> concat outs = concat ws).
Print Assumptions C01_cbc_roundtrip_until_empty.

(* CTR writer: one inner write per call, count = length (C18 raw_size), output = position-wise xor with a
   keystream that does not depend on the partition; counter block = E_k(be128((iv + i) mod 2^128)) *)
Theorem C01_ctrw_spec :
  forall (E : bytes -> bytes -> bytes) ws s s' calls, ctrw_writes E s ws = (s', calls) ->
  concat (concat (map snd calls)) = ctr_xor E (cw_key s) (cw_iv s) (cw_pos s) (concat ws) /\
  map fst calls = map len ws /\
  map (fun c => map len (snd c)) calls = map (fun w => [len w]) ws /\
  cw_key s' = cw_key s /\ cw_iv s' = cw_iv s /\ cw_pos s' = cw_pos s + len (concat ws).
Proof. exact ctrw_writes_spec. Qed.
Check C01_ctrw_spec :
  forall (E : bytes -> bytes -> bytes) ws s s' calls, ctrw_writes E s ws = (s', calls) ->
  concat (concat (map snd calls)) = ctr_xor E (cw_key s) (cw_iv s) (cw_pos s) (concat ws) /\
  map fst calls = map len ws /\
  map (fun c => map len (snd c)) calls = map (fun w => [len w]) ws /\
  cw_key s' = cw_key s /\ cw_iv s' = cw_iv s /\ cw_pos s' = cw_pos s + len (concat ws).
Print Assumptions C01_ctrw_spec.

Theorem C01_ctr_keystream_block :
  forall (E : bytes -> bytes -> bytes) k iv i, ks_block E k iv i = E k (be128 ((iv + i) mod 2 ^ 128)).
Proof. exact ks_block_spec. Qed.
Check C01_ctr_keystream_block :
  forall (E : bytes -> bytes -> bytes) k iv i, ks_block E k iv i = E k (be128 ((iv + i) mod 2 ^ 128)).
Print Assumptions C01_ctr_keystream_block.

(* CTR read-after-write for all write partitions, chunk cuts and buffer sizes (no cipher law needed) *)
Theorem C01_ctr_roundtrip :
  forall (E : bytes -> bytes -> bytes) key iv ws s0 s' calls chunks ns,
  ctrw_new key iv = Ok s0 -> ctrw_writes E s0 ws = (s', calls) ->
  concat chunks = concat (concat (map snd calls)) ->
  exists st, ctrr_new key iv chunks = Ok st /\
    (exists rest, concat ws = concat (ctrr_read_seq E st ns) ++ rest) /\
    Forall2 (fun out n => len out <= n) (ctrr_read_seq E st ns) ns /\
    (Forall (fun n => 0 < n) ns -> In [] (ctrr_read_seq E st ns) -> concat (ctrr_read_seq E st ns) = concat ws).
Proof. exact ctr_roundtrip. Qed.
Check C01_ctr_roundtrip :
  forall (E : bytes -> bytes -> bytes) key iv ws s0 s' calls chunks ns,
  ctrw_new key iv = Ok s0 -> ctrw_writes E s0 ws = (s', calls) ->
  concat chunks = concat (concat (map snd calls)) ->
  exists st, ctrr_new key iv chunks = Ok st /\
    (exists rest, concat ws = concat (ctrr_read_seq E st ns) ++ rest) /\
    Forall2 (fun out n => len out <= n) (ctrr_read_seq E st ns) ns /\
    (Forall (fun n => 0 < n) ns -> In [] (ctrr_read_seq E st ns) -> concat (ctrr_read_seq E st ns) = concat ws).
Print Assumptions C01_ctr_roundtrip.

(* the premises are satisfiable: the toy cipher the model is RUN with satisfies all three laws, and the
   instantiated theorem has no premise left; a concrete run (25 bytes, writes 10+0+15, ciphertext cut
   7/0/20/5, 10-byte reads: the witness of D2 and D4) evaluates to the expected reads *)
Example C01_toy_laws :
  (forall k c, len16 c -> len16 (toy_D k c)) /\ (forall k b, len16 b -> toy_D k (toy_E k b) = b) /\
  (forall k b, len16 b -> len16 (toy_E k b)).
Proof. exact (conj toy_D_len (conj toy_DE toy_E_len)). Qed.
Check C01_toy_laws :
  (forall k c, len16 c -> len16 (toy_D k c)) /\ (forall k b, len16 b -> toy_D k (toy_E k b) = b) /\
  (forall k b, len16 b -> len16 (toy_E k b)).
Print Assumptions C01_toy_laws.

Example C01_toy_cbc_roundtrip :
  forall key iv ws s0 s' calls chunks ns,
  cbcw_new key iv = Ok s0 -> cbcw_writes toy_E s0 ws = (s', calls) ->
  concat chunks = concat (concat (map snd calls)) ++ concat (cbcw_finish toy_E s') ->
  exists st, cbcr_new key iv chunks = Ok st /\ cbcr_read_seq toy_D st ns = Ok (deliver (concat ws) ns).
Proof. exact toy_cbc_roundtrip. Qed.
Check C01_toy_cbc_roundtrip :
  forall key iv ws s0 s' calls chunks ns,
  cbcw_new key iv = Ok s0 -> cbcw_writes toy_E s0 ws = (s', calls) ->
  concat chunks = concat (concat (map snd calls)) ++ concat (cbcw_finish toy_E s') ->
  exists st, cbcr_new key iv chunks = Ok st /\ cbcr_read_seq toy_D st ns = Ok (deliver (concat ws) ns).
Print Assumptions C01_toy_cbc_roundtrip.

Example C01_example_run :
  match cbcr_new ex_key ex_iv ex_chunks with
  | Ok st => cbcr_read_seq toy_D st [10; 10; 10; 10] =
             Ok [firstn 10 ex_pt; firstn 10 (skipn 10 ex_pt); skipn 20 ex_pt; []]
  | _ => False
  end.
Proof. exact ex_reads. Qed.
Check C01_example_run :
  match cbcr_new ex_key ex_iv ex_chunks with
  | Ok st => cbcr_read_seq toy_D st [10; 10; 10; 10] =
             Ok [firstn 10 ex_pt; firstn 10 (skipn 10 ex_pt); skipn 20 ex_pt; []]
  | _ => False
  end.
Print Assumptions C01_example_run.

