(* Props/C10_container.v — C10 ("archive-editing commands change exactly what they target and nothing else") at the
   CONTAINER level: chmod, chown, xattr, acl, strip, migrate (WfTransformFacts.run_edit = run_transform_entry with the
   transformer of Model/Transform.v on the view of each entry; the definition the C10 / C14 checks run against the CLI)
   on the bytes of archive files.  Proofs in Proofs/EditContainerFacts.v; only statements here.  delete: Props/C11_container.v,
   Props/C11_update.v.

   Vocabulary:
     lview, reentry (WfTransformFacts)   the logical view of a file entry (name, kind, two opaque tokens for header options and
                            content, times, permission, xattrs, extra chunks) and NormalEntry::with_metadata / with_xattrs /
                            with_extra_chunks; hdr_tok / content_tok are any tokens the attribute replacements leave alone
     edit_rel c sl m n'     n' (written) has m's (read) n_hdr, n_phsf, n_data, m_raw_size, m_compressed — the stored stream is not
                            touched, nothing is re-compressed or re-encrypted; lview n' is the transformer's answer on lview m
                            (TransformFacts.step_rel: Transform.cmd_entry c when selected — the C10_effect_ theorems apply to it —
                            and lview m otherwise); an entry that is not selected is n' = m
     frame_rel c sl n n'    edit_rel on (normalize n) — the entry as the reader delivers it: empty FDAT payloads are not stored — and
                            n', and ser_normal n' = ser_normal n (the identical chunk list) when n is not selected
     out_ok                 the entries written are writable again (cmd_ok c: chmod / chown / xattr / strip, C14), or a premise
     same_content x x'      e_name, e_kind, e_data equal;  attrs_of n' x': x' = xentry_of_normal (e_data x') n'
     reads_both / reads_any the buffer sizes rb read to its end every entry that carries the same data chunks / data stream
     expand_p, rebuild_pipeline, block_ok, srb_drains, flat   as in Props/C11_update.v (fresh cipher context ctx = random tape)
   Level note of props/C10.py ("entry content is compared in decoded form, not the re-encrypted bytes"): for normal entries the
   bytes are now covered — C10_frame_bytes says the data chunks are the same chunks.  A rebuilt solid block (--keep-solid) is
   re-encoded under a fresh context; there the statement is at the decoded level (C10_edit_solid_logical).
   Not covered: acl set / migrate on archives with solid blocks and wf of their output (cmd_ok excludes them, as in C14). *)
From PNA Require Import Base Crc32 Name Codec Chunk Archive Entry Flatten Cbc Ctr Pipeline Aes Camellia
  BaseFacts ChunkFacts ArchiveFacts EntryFacts OffsetFacts PartsFacts CbcFacts PipelineFacts AesFacts CamelliaFacts.
From PNA Require Import Fs Extract CreateTransportFacts AppendContainerFacts.
From PNA Require Import Wf WfFacts WfWriterFacts WfAgreeFacts WfRewriteFacts WfPipelineFacts WfTransformFacts RecutFacts
  UpdateContainerFacts EditContainerFacts.
From PNA Require Update UpdateFacts ArchiveRun Transform TransformFacts CliCodec.
Open Scope N_scope.

(* one entry through an editing command (any of the six; migrate may fail): the entry written keeps the header, PHSF, DATA CHUNKS and
   recorded sizes of the entry read, and its view is the answer of Model/Transform.v's transformer on the view of the entry read *)
Theorem C10_edit_entry_on_bytes :
  forall hdr_tok content_tok : normal_entry -> bytes,
  (forall (e : normal_entry) (m : metadata) (xs : list xattr) (cs : list chunk),
   hdr_tok (with_extra_chunks (with_xattrs (with_metadata e m) xs) cs) = hdr_tok e) ->
  (forall (e : normal_entry) (m : metadata) (xs : list xattr) (cs : list chunk),
   content_tok (with_extra_chunks (with_xattrs (with_metadata e m) xs) cs) = content_tok e) ->
  forall (c : Transform.cmd) (sl : bytes -> bool) (m : normal_entry) (o : option normal_entry),
  c <> Transform.CDelete ->
  edit_entry hdr_tok content_tok c sl m = Ok o ->
  exists n' : normal_entry, o = Some n' /\ edit_rel hdr_tok content_tok c sl m n'.
Proof. exact edit_entry_rel. Qed.
Check C10_edit_entry_on_bytes :
  forall hdr_tok content_tok : normal_entry -> bytes,
  (forall (e : normal_entry) (m : metadata) (xs : list xattr) (cs : list chunk),
   hdr_tok (with_extra_chunks (with_xattrs (with_metadata e m) xs) cs) = hdr_tok e) ->
  (forall (e : normal_entry) (m : metadata) (xs : list xattr) (cs : list chunk),
   content_tok (with_extra_chunks (with_xattrs (with_metadata e m) xs) cs) = content_tok e) ->
  forall (c : Transform.cmd) (sl : bytes -> bool) (m : normal_entry) (o : option normal_entry),
  c <> Transform.CDelete ->
  edit_entry hdr_tok content_tok c sl m = Ok o ->
  exists n' : normal_entry, o = Some n' /\ edit_rel hdr_tok content_tok c sl m n'.
Print Assumptions C10_edit_entry_on_bytes.

(* frame on bytes, all six editors: from the archive written from writable file entries ns the command writes the writer's archive of as
   many entries; position by position edit_rel holds, and an entry that is not selected is written with the identical chunk list
   (frame_rel: ser_normal n' = ser_normal n); for chmod / chown / xattr / strip (cmd_ok) the output is writable, accepted and reads back.
   The selection is the one the command works with, Transform.eff_sel c nf sl: the patterns' — for strip (4d97c0da) every entry iff
   no FILES were given, so the frame covers `pna strip ARCHIVE FILES...` (C10_frame_bytes_strip_patterns) *)
Theorem C10_frame_bytes :
  forall hdr_tok content_tok : normal_entry -> bytes,
  (forall (e : normal_entry) (m : metadata) (xs : list xattr) (cs : list chunk),
   hdr_tok (with_extra_chunks (with_xattrs (with_metadata e m) xs) cs) = hdr_tok e) ->
  (forall (e : normal_entry) (m : metadata) (xs : list xattr) (cs : list chunk),
   content_tok (with_extra_chunks (with_xattrs (with_metadata e m) xs) cs) = content_tok e) ->
  forall (expand : solid_entry -> res (list normal_entry))
    (rebuild : solid_entry -> list normal_entry -> solid_entry) (keep pw : bool) (c : Transform.cmd) 
    (nf : N) (sl : bytes -> bool) (ns : list normal_entry) (b' : bytes),
  Forall writable_normal ns ->
  c <> Transform.CDelete ->
  (nf = 0 -> forall n : bytes, sl n = false) ->
  run_edit hdr_tok content_tok expand rebuild keep pw c nf sl (write_raw_archive 0 (map ser_normal ns)) =
  Ok b' ->
  exists ns' : list normal_entry,
    b' = write_raw_archive 0 (map ser_normal ns') /\
    length ns' = length ns /\
    Forall2 (edit_rel hdr_tok content_tok c (Transform.eff_sel c nf sl)) (map normalize ns) ns' /\
    Forall2 (frame_rel hdr_tok content_tok c (Transform.eff_sel c nf sl)) ns ns' /\
    (cmd_ok c -> Forall writable_normal ns') /\
    (Forall writable_normal ns' -> wf_archive b' = true /\ read_archive b' = Ok (map RNormal ns')).
Proof. exact frame_bytes. Qed.
Check C10_frame_bytes :
  forall hdr_tok content_tok : normal_entry -> bytes,
  (forall (e : normal_entry) (m : metadata) (xs : list xattr) (cs : list chunk),
   hdr_tok (with_extra_chunks (with_xattrs (with_metadata e m) xs) cs) = hdr_tok e) ->
  (forall (e : normal_entry) (m : metadata) (xs : list xattr) (cs : list chunk),
   content_tok (with_extra_chunks (with_xattrs (with_metadata e m) xs) cs) = content_tok e) ->
  forall (expand : solid_entry -> res (list normal_entry))
    (rebuild : solid_entry -> list normal_entry -> solid_entry) (keep pw : bool) (c : Transform.cmd) 
    (nf : N) (sl : bytes -> bool) (ns : list normal_entry) (b' : bytes),
  Forall writable_normal ns ->
  c <> Transform.CDelete ->
  (nf = 0 -> forall n : bytes, sl n = false) ->
  run_edit hdr_tok content_tok expand rebuild keep pw c nf sl (write_raw_archive 0 (map ser_normal ns)) =
  Ok b' ->
  exists ns' : list normal_entry,
    b' = write_raw_archive 0 (map ser_normal ns') /\
    length ns' = length ns /\
    Forall2 (edit_rel hdr_tok content_tok c (Transform.eff_sel c nf sl)) (map normalize ns) ns' /\
    Forall2 (frame_rel hdr_tok content_tok c (Transform.eff_sel c nf sl)) ns ns' /\
    (cmd_ok c -> Forall writable_normal ns') /\
    (Forall writable_normal ns' -> wf_archive b' = true /\ read_archive b' = Ok (map RNormal ns')).
Print Assumptions C10_frame_bytes.

(* `pna strip ARCHIVE FILES...` on bytes (4d97c0da): an entry whose name FILES do not select is written with the identical chunk list
   (byte-identical); a selected one keeps header, PHSF and data chunks and its view is Transform.cmd_strip of the old view; the output is
   writable, well-formed and reads back.  Before the repair FILES were ignored (C10_strip_ignored_patterns_unrepaired_refuted) *)
Theorem C10_frame_bytes_strip_patterns :
  forall hdr_tok content_tok : normal_entry -> bytes,
  (forall (e : normal_entry) (m : metadata) (xs : list xattr) (cs : list chunk),
   hdr_tok (with_extra_chunks (with_xattrs (with_metadata e m) xs) cs) = hdr_tok e) ->
  (forall (e : normal_entry) (m : metadata) (xs : list xattr) (cs : list chunk),
   content_tok (with_extra_chunks (with_xattrs (with_metadata e m) xs) cs) = content_tok e) ->
  forall (expand : solid_entry -> res (list normal_entry))
    (rebuild : solid_entry -> list normal_entry -> solid_entry) (keep pw : bool) (o : Transform.strip_opts)
    (nf : N) (sl : bytes -> bool) (ns : list normal_entry) (b' : bytes),
  Forall writable_normal ns ->
  nf <> 0 ->
  run_edit hdr_tok content_tok expand rebuild keep pw (Transform.CStrip o) nf sl (write_raw_archive 0 (map ser_normal ns)) =
  Ok b' ->
  exists ns' : list normal_entry,
    b' = write_raw_archive 0 (map ser_normal ns') /\
    length ns' = length ns /\
    Forall2 (fun n n' : normal_entry =>
      n_hdr n' = n_hdr n /\ n_phsf n' = n_phsf n /\ n_data n' = n_data (normalize n) /\
      (sl (f_name (n_hdr n)) = false -> ser_normal n' = ser_normal n) /\
      (sl (f_name (n_hdr n)) = true ->
       lview hdr_tok content_tok n' = Transform.cmd_strip o (lview hdr_tok content_tok (normalize n)))) ns ns' /\
    Forall writable_normal ns' /\ wf_archive b' = true /\ read_archive b' = Ok (map RNormal ns').
Proof. exact frame_bytes_strip_patterns. Qed.
Check C10_frame_bytes_strip_patterns :
  forall hdr_tok content_tok : normal_entry -> bytes,
  (forall (e : normal_entry) (m : metadata) (xs : list xattr) (cs : list chunk),
   hdr_tok (with_extra_chunks (with_xattrs (with_metadata e m) xs) cs) = hdr_tok e) ->
  (forall (e : normal_entry) (m : metadata) (xs : list xattr) (cs : list chunk),
   content_tok (with_extra_chunks (with_xattrs (with_metadata e m) xs) cs) = content_tok e) ->
  forall (expand : solid_entry -> res (list normal_entry))
    (rebuild : solid_entry -> list normal_entry -> solid_entry) (keep pw : bool) (o : Transform.strip_opts)
    (nf : N) (sl : bytes -> bool) (ns : list normal_entry) (b' : bytes),
  Forall writable_normal ns ->
  nf <> 0 ->
  run_edit hdr_tok content_tok expand rebuild keep pw (Transform.CStrip o) nf sl (write_raw_archive 0 (map ser_normal ns)) =
  Ok b' ->
  exists ns' : list normal_entry,
    b' = write_raw_archive 0 (map ser_normal ns') /\
    length ns' = length ns /\
    Forall2 (fun n n' : normal_entry =>
      n_hdr n' = n_hdr n /\ n_phsf n' = n_phsf n /\ n_data n' = n_data (normalize n) /\
      (sl (f_name (n_hdr n)) = false -> ser_normal n' = ser_normal n) /\
      (sl (f_name (n_hdr n)) = true ->
       lview hdr_tok content_tok n' = Transform.cmd_strip o (lview hdr_tok content_tok (normalize n)))) ns ns' /\
    Forall writable_normal ns' /\ wf_archive b' = true /\ read_archive b' = Ok (map RNormal ns').
Print Assumptions C10_frame_bytes_strip_patterns.

(* idempotence on bytes (chmod, chown, xattr set / remove, strip): the same command on its own output writes the same FILE *)
Theorem C10_idempotent_bytes :
  forall hdr_tok content_tok : normal_entry -> bytes,
  (forall (e : normal_entry) (m : metadata) (xs : list xattr) (cs : list chunk),
   hdr_tok (with_extra_chunks (with_xattrs (with_metadata e m) xs) cs) = hdr_tok e) ->
  (forall (e : normal_entry) (m : metadata) (xs : list xattr) (cs : list chunk),
   content_tok (with_extra_chunks (with_xattrs (with_metadata e m) xs) cs) = content_tok e) ->
  forall (expand : solid_entry -> res (list normal_entry))
    (rebuild : solid_entry -> list normal_entry -> solid_entry) (keep pw : bool) (c : Transform.cmd) 
    (nf : N) (sl : bytes -> bool) (ns : list normal_entry) (b' : bytes),
  cmd_ok c ->
  TransformFacts.acl_free c = true ->
  Forall writable_normal ns ->
  c <> Transform.CDelete ->
  (nf = 0 -> forall n : bytes, sl n = false) ->
  run_edit hdr_tok content_tok expand rebuild keep pw c nf sl (write_raw_archive 0 (map ser_normal ns)) =
  Ok b' -> run_edit hdr_tok content_tok expand rebuild keep pw c nf sl b' = Ok b'.
Proof. exact idem_bytes_acl_free. Qed.
Check C10_idempotent_bytes :
  forall hdr_tok content_tok : normal_entry -> bytes,
  (forall (e : normal_entry) (m : metadata) (xs : list xattr) (cs : list chunk),
   hdr_tok (with_extra_chunks (with_xattrs (with_metadata e m) xs) cs) = hdr_tok e) ->
  (forall (e : normal_entry) (m : metadata) (xs : list xattr) (cs : list chunk),
   content_tok (with_extra_chunks (with_xattrs (with_metadata e m) xs) cs) = content_tok e) ->
  forall (expand : solid_entry -> res (list normal_entry))
    (rebuild : solid_entry -> list normal_entry -> solid_entry) (keep pw : bool) (c : Transform.cmd) 
    (nf : N) (sl : bytes -> bool) (ns : list normal_entry) (b' : bytes),
  cmd_ok c ->
  TransformFacts.acl_free c = true ->
  Forall writable_normal ns ->
  c <> Transform.CDelete ->
  (nf = 0 -> forall n : bytes, sl n = false) ->
  run_edit hdr_tok content_tok expand rebuild keep pw c nf sl (write_raw_archive 0 (map ser_normal ns)) =
  Ok b' -> run_edit hdr_tok content_tok expand rebuild keep pw c nf sl b' = Ok b'.
Print Assumptions C10_idempotent_bytes.

(* acl set / migrate: partial as C10_idempotent_acl_partial — under the read-back premise for the ACL chunks (it cannot be dropped:
   C10_idempotent_acl_refuted) and the premise that the output entries are writable (out_ok; C14 does not cover their owner names) *)
Theorem C10_idempotent_bytes_acl_partial :
  forall hdr_tok content_tok : normal_entry -> bytes,
  (forall (e : normal_entry) (m : metadata) (xs : list xattr) (cs : list chunk),
   hdr_tok (with_extra_chunks (with_xattrs (with_metadata e m) xs) cs) = hdr_tok e) ->
  (forall (e : normal_entry) (m : metadata) (xs : list xattr) (cs : list chunk),
   content_tok (with_extra_chunks (with_xattrs (with_metadata e m) xs) cs) = content_tok e) ->
  forall (expand : solid_entry -> res (list normal_entry))
    (rebuild : solid_entry -> list normal_entry -> solid_entry) (keep pw : bool) (c : Transform.cmd) 
    (nf : N) (sl : bytes -> bool) (ns : list normal_entry) (b' : bytes),
  out_ok hdr_tok content_tok c (Transform.eff_sel c nf sl) ns ->
  (forall n' : normal_entry, TransformFacts.acl_reads_back c (lview hdr_tok content_tok n')) ->
  Forall writable_normal ns ->
  c <> Transform.CDelete ->
  (nf = 0 -> forall n : bytes, sl n = false) ->
  run_edit hdr_tok content_tok expand rebuild keep pw c nf sl (write_raw_archive 0 (map ser_normal ns)) =
  Ok b' -> run_edit hdr_tok content_tok expand rebuild keep pw c nf sl b' = Ok b'.
Proof. exact idem_bytes_acl_partial. Qed.
Check C10_idempotent_bytes_acl_partial :
  forall hdr_tok content_tok : normal_entry -> bytes,
  (forall (e : normal_entry) (m : metadata) (xs : list xattr) (cs : list chunk),
   hdr_tok (with_extra_chunks (with_xattrs (with_metadata e m) xs) cs) = hdr_tok e) ->
  (forall (e : normal_entry) (m : metadata) (xs : list xattr) (cs : list chunk),
   content_tok (with_extra_chunks (with_xattrs (with_metadata e m) xs) cs) = content_tok e) ->
  forall (expand : solid_entry -> res (list normal_entry))
    (rebuild : solid_entry -> list normal_entry -> solid_entry) (keep pw : bool) (c : Transform.cmd) 
    (nf : N) (sl : bytes -> bool) (ns : list normal_entry) (b' : bytes),
  out_ok hdr_tok content_tok c (Transform.eff_sel c nf sl) ns ->
  (forall n' : normal_entry, TransformFacts.acl_reads_back c (lview hdr_tok content_tok n')) ->
  Forall writable_normal ns ->
  c <> Transform.CDelete ->
  (nf = 0 -> forall n : bytes, sl n = false) ->
  run_edit hdr_tok content_tok expand rebuild keep pw c nf sl (write_raw_archive 0 (map ser_normal ns)) =
  Ok b' -> run_edit hdr_tok content_tok expand rebuild keep pw c nf sl b' = Ok b'.
Print Assumptions C10_idempotent_bytes_acl_partial.

(* decoded: content, name and kind of EVERY entry are unchanged (same_content), the attributes are those of the entries written (whose views are
   Transform.cmd_entry's answers: edit_rel); only the decoding of the input is used — no cipher or compressor law: the data chunks are the same.
   out_ok: cmd_ok c, or (acl set, migrate) the premise that the output entries are writable *)
Theorem C10_edit_logical :
  forall hdr_tok content_tok : normal_entry -> bytes,
  (forall (e : normal_entry) (m : metadata) (xs : list xattr) (cs : list chunk),
   hdr_tok (with_extra_chunks (with_xattrs (with_metadata e m) xs) cs) = hdr_tok e) ->
  (forall (e : normal_entry) (m : metadata) (xs : list xattr) (cs : list chunk),
   content_tok (with_extra_chunks (with_xattrs (with_metadata e m) xs) cs) = content_tok e) ->
  forall (E D : encryption -> bytes -> bytes -> bytes) (decompress : compression -> bytes -> res bytes)
    (verify : bytes -> bytes -> res bytes) (pw : bytes) (rb : normal_entry -> list N)
    (srb : solid_entry -> list N) (expand : solid_entry -> res (list normal_entry))
    (rebuild : solid_entry -> list normal_entry -> solid_entry) (keep pwb : bool) 
    (c : Transform.cmd) (nf : N) (sl : bytes -> bool) (ns : list normal_entry) (b' : bytes)
    (old : list xentry),
  out_ok hdr_tok content_tok c (Transform.eff_sel c nf sl) ns ->
  Forall writable_normal ns ->
  c <> Transform.CDelete ->
  (nf = 0 -> forall n : bytes, sl n = false) ->
  run_edit hdr_tok content_tok expand rebuild keep pwb c nf sl (write_raw_archive 0 (map ser_normal ns)) =
  Ok b' ->
  xlogical E D decompress verify pw rb srb (write_raw_archive 0 (map ser_normal ns)) = Ok old ->
  Forall (reads_both rb) (map normalize ns) ->
  exists (ns' : list normal_entry) (new : list xentry),
    b' = write_raw_archive 0 (map ser_normal ns') /\
    Forall2 (edit_rel hdr_tok content_tok c (Transform.eff_sel c nf sl)) (map normalize ns) ns' /\
    xlogical E D decompress verify pw rb srb b' = Ok new /\
    Forall2 same_content old new /\
    Forall2 (fun (n' : normal_entry) (x' : xentry) => x' = xentry_of_normal (e_data x') n') ns' new.
Proof. exact edit_logical. Qed.
Check C10_edit_logical :
  forall hdr_tok content_tok : normal_entry -> bytes,
  (forall (e : normal_entry) (m : metadata) (xs : list xattr) (cs : list chunk),
   hdr_tok (with_extra_chunks (with_xattrs (with_metadata e m) xs) cs) = hdr_tok e) ->
  (forall (e : normal_entry) (m : metadata) (xs : list xattr) (cs : list chunk),
   content_tok (with_extra_chunks (with_xattrs (with_metadata e m) xs) cs) = content_tok e) ->
  forall (E D : encryption -> bytes -> bytes -> bytes) (decompress : compression -> bytes -> res bytes)
    (verify : bytes -> bytes -> res bytes) (pw : bytes) (rb : normal_entry -> list N)
    (srb : solid_entry -> list N) (expand : solid_entry -> res (list normal_entry))
    (rebuild : solid_entry -> list normal_entry -> solid_entry) (keep pwb : bool) 
    (c : Transform.cmd) (nf : N) (sl : bytes -> bool) (ns : list normal_entry) (b' : bytes)
    (old : list xentry),
  out_ok hdr_tok content_tok c (Transform.eff_sel c nf sl) ns ->
  Forall writable_normal ns ->
  c <> Transform.CDelete ->
  (nf = 0 -> forall n : bytes, sl n = false) ->
  run_edit hdr_tok content_tok expand rebuild keep pwb c nf sl (write_raw_archive 0 (map ser_normal ns)) =
  Ok b' ->
  xlogical E D decompress verify pw rb srb (write_raw_archive 0 (map ser_normal ns)) = Ok old ->
  Forall (reads_both rb) (map normalize ns) ->
  exists (ns' : list normal_entry) (new : list xentry),
    b' = write_raw_archive 0 (map ser_normal ns') /\
    Forall2 (edit_rel hdr_tok content_tok c (Transform.eff_sel c nf sl)) (map normalize ns) ns' /\
    xlogical E D decompress verify pw rb srb b' = Ok new /\
    Forall2 same_content old new /\
    Forall2 (fun (n' : normal_entry) (x' : xentry) => x' = xentry_of_normal (e_data x') n') ns' new.
Print Assumptions C10_edit_logical.

(* archives WITH solid blocks, --keep-solid (the block is rebuilt under the fresh context ctx) and --unsolid, for chmod / chown / xattr / strip:
   every entry the reader yields (blocks expanded in place) is edited in place, content / name / kind unchanged, the output accepted again.
   Stated for a command that really runs (with no pattern chmod / chown / xattr return at once and the file is untouched) *)
Theorem C10_edit_solid_logical :
  forall hdr_tok content_tok : normal_entry -> bytes,
  (forall (e : normal_entry) (m : metadata) (xs : list xattr) (cs : list chunk),
   hdr_tok (with_extra_chunks (with_xattrs (with_metadata e m) xs) cs) = hdr_tok e) ->
  (forall (e : normal_entry) (m : metadata) (xs : list xattr) (cs : list chunk),
   content_tok (with_extra_chunks (with_xattrs (with_metadata e m) xs) cs) = content_tok e) ->
  forall (E D : encryption -> bytes -> bytes -> bytes)
    (compress : compression -> N -> list bytes -> list bytes) (decompress : compression -> bytes -> res bytes)
    (verify : bytes -> bytes -> res bytes),
  (forall (a : encryption) (k c : bytes), len16 c -> len16 (D a k c)) ->
  (forall (a : encryption) (k b : bytes), len16 b -> D a k (E a k b) = b) ->
  (forall (a : encryption) (k b : bytes), len16 b -> len16 (E a k b)) ->
  (forall (c : compression) (lvl : N) (ws : list bytes),
   decompress c (concat (compress c lvl ws)) = Ok (concat ws)) ->
  (forall (c : compression) (lvl : N) (ws ws' : list bytes),
   concat ws = concat ws' -> concat (compress c lvl ws) = concat (compress c lvl ws')) ->
  forall (lvl : N) (ctx : cctx),
  strict_ctx ctx ->
  forall pw : bytes,
  wf_ctx verify ctx pw ->
  forall (rb : normal_entry -> list N) (srb : solid_entry -> list N) (keep pwb : bool) 
    (c : Transform.cmd) (nf : N) (sl : bytes -> bool) (b : bytes) (es : list read_entry) 
    (old : list xentry) (b' : bytes),
  cmd_ok c ->
  c <> Transform.CDelete ->
  Transform.needs_files c && (nf =? 0) = false ->
  wf_archive b = true ->
  read_archive b = Ok es ->
  Forall (block_ok E D decompress verify pw srb pwb) es ->
  (forall ns : list normal_entry,
   flat (expand_p E D decompress verify pw srb) es = Ok ns -> Forall (reads_any rb) ns) ->
  xlogical E D decompress verify pw rb srb b = Ok old ->
  run_edit hdr_tok content_tok (expand_p E D decompress verify pw srb) (rebuild_pipeline E compress lvl ctx)
    keep pwb c nf sl b = Ok b' ->
  exists (es' : list read_entry) (ns ns' : list normal_entry) (new : list xentry),
    b' = write_raw_archive 0 (map ser_entry es') /\
    Forall writable es' /\
    wf_archive b' = true /\
    flat (expand_p E D decompress verify pw srb) es = Ok ns /\
    Forall2 (edit_rel hdr_tok content_tok c (Transform.eff_sel c nf sl)) ns ns' /\
    Forall2 same_content old new /\
    Forall2 attrs_of ns' new /\
    (Forall (srb_drains srb) es' -> xlogical E D decompress verify pw rb srb b' = Ok new).
Proof. exact edit_solid_logical. Qed.
Check C10_edit_solid_logical :
  forall hdr_tok content_tok : normal_entry -> bytes,
  (forall (e : normal_entry) (m : metadata) (xs : list xattr) (cs : list chunk),
   hdr_tok (with_extra_chunks (with_xattrs (with_metadata e m) xs) cs) = hdr_tok e) ->
  (forall (e : normal_entry) (m : metadata) (xs : list xattr) (cs : list chunk),
   content_tok (with_extra_chunks (with_xattrs (with_metadata e m) xs) cs) = content_tok e) ->
  forall (E D : encryption -> bytes -> bytes -> bytes)
    (compress : compression -> N -> list bytes -> list bytes) (decompress : compression -> bytes -> res bytes)
    (verify : bytes -> bytes -> res bytes),
  (forall (a : encryption) (k c : bytes), len16 c -> len16 (D a k c)) ->
  (forall (a : encryption) (k b : bytes), len16 b -> D a k (E a k b) = b) ->
  (forall (a : encryption) (k b : bytes), len16 b -> len16 (E a k b)) ->
  (forall (c : compression) (lvl : N) (ws : list bytes),
   decompress c (concat (compress c lvl ws)) = Ok (concat ws)) ->
  (forall (c : compression) (lvl : N) (ws ws' : list bytes),
   concat ws = concat ws' -> concat (compress c lvl ws) = concat (compress c lvl ws')) ->
  forall (lvl : N) (ctx : cctx),
  strict_ctx ctx ->
  forall pw : bytes,
  wf_ctx verify ctx pw ->
  forall (rb : normal_entry -> list N) (srb : solid_entry -> list N) (keep pwb : bool) 
    (c : Transform.cmd) (nf : N) (sl : bytes -> bool) (b : bytes) (es : list read_entry) 
    (old : list xentry) (b' : bytes),
  cmd_ok c ->
  c <> Transform.CDelete ->
  Transform.needs_files c && (nf =? 0) = false ->
  wf_archive b = true ->
  read_archive b = Ok es ->
  Forall (block_ok E D decompress verify pw srb pwb) es ->
  (forall ns : list normal_entry,
   flat (expand_p E D decompress verify pw srb) es = Ok ns -> Forall (reads_any rb) ns) ->
  xlogical E D decompress verify pw rb srb b = Ok old ->
  run_edit hdr_tok content_tok (expand_p E D decompress verify pw srb) (rebuild_pipeline E compress lvl ctx)
    keep pwb c nf sl b = Ok b' ->
  exists (es' : list read_entry) (ns ns' : list normal_entry) (new : list xentry),
    b' = write_raw_archive 0 (map ser_entry es') /\
    Forall writable es' /\
    wf_archive b' = true /\
    flat (expand_p E D decompress verify pw srb) es = Ok ns /\
    Forall2 (edit_rel hdr_tok content_tok c (Transform.eff_sel c nf sl)) ns ns' /\
    Forall2 same_content old new /\
    Forall2 attrs_of ns' new /\
    (Forall (srb_drains srb) es' -> xlogical E D decompress verify pw rb srb b' = Ok new).
Print Assumptions C10_edit_solid_logical.

(* the read-buffer premise is met by every constant policy with more reads than the entry has data bytes *)
Theorem C10_const_policy_reads :
  forall (k : N) (z : nat) (m : normal_entry),
  0 < k -> len (concat (n_data m)) < N.of_nat z -> reads_any (fun _ : normal_entry => repeat k z) m.
Proof. exact const_reads_any. Qed.
Check C10_const_policy_reads :
  forall (k : N) (z : nat) (m : normal_entry),
  0 < k -> len (concat (n_data m)) < N.of_nat z -> reads_any (fun _ : normal_entry => repeat k z) m.
Print Assumptions C10_const_policy_reads.

(* ---- examples, evaluated in the kernel ---------------------------------------------------------------------------- *)

(* chmod 644 d/a.txt on the AES-256-CBC archive, evaluated in the kernel: the two other entries are written with their old chunk lists, the target keeps
   FHED, PHSF, its 4 FDAT chunks (IV and ciphertext) and its xATR chunk, its fPRM chunk changes 600 -> 644; decoded contents unchanged; idempotent on bytes *)
Example C10_chmod_bytes_example :
  ux_arch = write_raw_archive 0 (map ser_normal [cx_j 0; cx_j 1; cx_j 2]) /\
  Forall writable_normal [cx_j 0; cx_j 1; cx_j 2] /\
  (let n1' := cx_n1' in
   exists b' : bytes,
     run_edit ex_hdr_tok ex_content_tok (fun _ : solid_entry => Ok [])
       (fun (s : solid_entry) (_ : list normal_entry) => s) true true (Transform.CChmod (CliCodec.MNum 420)) 1
       cx_sel ux_arch = Ok b' /\
     b' = write_raw_archive 0 (map ser_normal [cx_j 0; n1'; cx_j 2]) /\
     n_hdr n1' = n_hdr (cx_j 1) /\
     n_phsf n1' = n_phsf (cx_j 1) /\
     n_data n1' = n_data (cx_j 1) /\
     chunks_of FDAT n1' = chunks_of FDAT (cx_j 1) /\
     length (chunks_of FDAT n1') = 4%nat /\
     chunks_of FHED n1' = chunks_of FHED (cx_j 1) /\
     chunks_of PHSF n1' = chunks_of PHSF (cx_j 1) /\
     chunks_of xATR n1' = chunks_of xATR (cx_j 1) /\
     chunks_of fPRM n1' <> chunks_of fPRM (cx_j 1) /\
     option_map p_mode (m_perm (n_meta (cx_j 1))) = Some 384 /\
     option_map p_mode (m_perm (n_meta n1')) = Some 420 /\
     (exists new : list xentry,
        ux_xlogical b' = Ok new /\
        map e_data new = map e_data ux_tree /\
        map e_name new = map e_name ux_tree /\ map e_perm new = [Some 448; Some 420; Some 511]) /\
     run_edit ex_hdr_tok ex_content_tok (fun _ : solid_entry => Ok [])
       (fun (s : solid_entry) (_ : list normal_entry) => s) true true (Transform.CChmod (CliCodec.MNum 420)) 1
       cx_sel b' = Ok b').
Proof. exact chmod_ex. Qed.
Print Assumptions C10_chmod_bytes_example.

(* the same command on the archive with a stored solid block, both strategies, evaluated in the kernel *)
Example C10_chmod_solid_example :
  (forall n : normal_entry, In n (map ux_build tx_jobs) -> reads_any tx_rb2 n) /\
  (exists (b' : bytes) (s : solid_entry) (n1 n2 n3 : normal_entry) (new : list xentry),
     run_edit ex_hdr_tok ex_content_tok ux_expand ux_rebuild true true (Transform.CChmod (CliCodec.MNum 420))
       1 cx_sel ux_solid_arch = Ok b' /\
     read_archive b' = Ok [RSolid s; RNormal n1; RNormal n2; RNormal n3] /\
     wf_archive b' = true /\
     ux_xlogical b' = Ok new /\
     map e_data new = map e_data (ux_tree ++ ux_tree) /\
     map e_name new = map e_name (ux_tree ++ ux_tree) /\
     map e_perm new = [Some 448; Some 420; Some 511; Some 448; Some 420; Some 511]) /\
  (exists (b' : bytes) (n1 n2 n3 n4 n5 n6 : normal_entry) (new : list xentry),
     run_edit ex_hdr_tok ex_content_tok ux_expand ux_rebuild false true (Transform.CChmod (CliCodec.MNum 420))
       1 cx_sel ux_solid_arch = Ok b' /\
     read_archive b' = Ok [RNormal n1; RNormal n2; RNormal n3; RNormal n4; RNormal n5; RNormal n6] /\
     wf_archive b' = true /\
     ux_xlogical b' = Ok new /\
     map e_data new = map e_data (ux_tree ++ ux_tree) /\
     map e_name new = map e_name (ux_tree ++ ux_tree) /\
     map e_perm new = [Some 448; Some 420; Some 511; Some 448; Some 420; Some 511]).
Proof. exact chmod_solid_ex. Qed.
Print Assumptions C10_chmod_solid_example.
