(* Props/C11_container.v — C11 refined from the logical level (Props/C11.v, an archive = list of entries) down to
   the CONTAINER: `pna append` on the bytes of archive files, as cli/src/command/append.rs does it — open the
   archive, for a multipart archive walk seek_to_end / read_next_archive to the last part, seek to its end
   marker, write the new entries over the old end marker, write a new end marker; the file is written in
   place and never truncated.  Proofs in Proofs/AppendContainerFacts.v; only statements here.

   Vocabulary (definitions in Proofs/AppendContainerFacts.v unless noted):
     append_at b news        read_header; seek_loop (= seek_to_end, Model/Archive.v); ArchiveRun.overwrite b pos
                             (bytes of the new entries ++ finalize).  It is ArchiveRun.append_raw — the definition
                             the `append` correspondence cases run against Archive::seek_to_end / add_entry /
                             finalize — with the entries given directly (C11_append_at_is_append_raw).
     new_bytes news          notation: concat (map (fun e => fst (add_chunks e)) news) ++ finalize
     file_of hc cs a tail    sig ++ ser_chunk hc ++ ser_chunks cs ++ ser_chunk a ++ tail
     hdr_ok hc h, run_ok cs a   hc a well-formed AHED chunk that decodes to h; cs well-formed chunks none of which
                             is AEND, a a well-formed AEND chunk
     strip, scan (PartsFacts)   drop the ANXT chunks; cut a chunk sequence behind every FEND / SEND
     glue buf news, left_open   the reader's view when the old file ended INSIDE an entry (chunks `buf` without a
                             closing FEND / SEND in front of AEND): the first new entry is read glued behind them.
                             The `_raw` theorems state this exactly; the others take `r_buf s = []`, which every
                             written archive meets (and which the append preserves, so appends can be iterated).
     xlogical / logical      the decoded view of a file: entries() to the end marker, a normal entry decoded with
                             the password and the read-buffer sizes `rb` chooses, a solid entry expanded with
                             decode_solid (buffer sizes `srb`) and its inner entries decoded; xlogical gives
                             CreateTransportFacts.xentry (name, kind, data, mode, mtime, xattrs), `logical` forgets
                             to Update.entry (path, kind, content, mtime) by `abs`: the abstraction function from
                             archive FILES to Model/Update.v's archives.
     append_parts, read_parts_b, one_part_rewritten   the walk over part files, read_parts that also reports the
                             reader's final buffer, "out is parts with exactly one file overwritten from the start
                             of its AEND chunk on".
   Primitives (block ciphers, compressor, KDF) are universally quantified with the laws the C01 theorems need.
   delete is bridged for archives without solid blocks (theorems C11_delete_container_entries / _logical / _abs).  Not covered here: update at byte
   level (it rewrites the archive through run_transform_entry and create_entry: C10 / C14 / C01 areas), delete with
   solid blocks (expand / rebuild are parameters of run_edit).  wf_archive of an appended file (a premise of the delete
   theorems) is shown for written archives (C11_append_written_stays_wf), not for every accepted file. *)
From PNA Require Import Base Crc32 Name Codec Chunk Archive Entry Flatten Cbc Ctr Pipeline Aes Camellia
  BaseFacts ChunkFacts ArchiveFacts EntryFacts OffsetFacts PartsFacts CbcFacts PipelineFacts AesFacts CamelliaFacts.
From PNA Require Import Fs Extract CreateTransportFacts AppendContainerFacts.
From PNA Require Update UpdateFacts ArchiveRun Wf WfWriterFacts RecutFacts WfTransformFacts Transform.
Open Scope N_scope.

(* the operation of these theorems is the append the `append` cases run against the library *)
Theorem C11_append_at_is_append_raw :
  forall (base donor : bytes) (news : list (list chunk)) (st : rstate),
  raw_entries rds donor = Ok (news, FinOk, st) -> ArchiveRun.append_raw base donor = append_at base news.
Proof. exact append_raw_is_append_at. Qed.
Check C11_append_at_is_append_raw :
  forall (base donor : bytes) (news : list (list chunk)) (st : rstate),
  raw_entries rds donor = Ok (news, FinOk, st) -> ArchiveRun.append_raw base donor = append_at base news.
Print Assumptions C11_append_at_is_append_raw.

(* for ALL byte strings: what a raw-entry iteration that ends Ok has read *)
Theorem C11_read_ok_shape :
  forall (b : bytes) (es : list (list chunk)) (s : rstate),
  raw_entries rds b = Ok (es, FinOk, s) ->
  exists (hc : chunk) (cs : list chunk) (a : chunk),
    b = file_of hc cs a (r_rest s) /\ hdr_ok hc (r_hdr s) /\ run_ok cs a /\
    es = fst (scan [] (strip cs)) /\ r_buf s = snd (scan [] (strip cs)) /\ r_next s = has_anxt cs.
Proof. exact raw_entries_ok_shape. Qed.
Check C11_read_ok_shape :
  forall (b : bytes) (es : list (list chunk)) (s : rstate),
  raw_entries rds b = Ok (es, FinOk, s) ->
  exists (hc : chunk) (cs : list chunk) (a : chunk),
    b = file_of hc cs a (r_rest s) /\ hdr_ok hc (r_hdr s) /\ run_ok cs a /\
    es = fst (scan [] (strip cs)) /\ r_buf s = snd (scan [] (strip cs)) /\ r_next s = has_anxt cs.
Print Assumptions C11_read_ok_shape.

(* append_container, full strength: b is ANY file whose raw entries read to the end marker (normal, solid, foreign
   chunks, ANXT anywhere, bytes behind AEND, an open entry in front of it), news any entries as add_entry writes them.
   seek_to_end stops at the start of the first AEND chunk (pos), which lies inside the file; the append succeeds;
   every byte in front of pos is unchanged; the file reads back as the old raw entries followed by the new ones *)
Theorem C11_append_container_raw :
  forall (b : bytes) (es : list (list chunk)) (s : rstate) (news : list (list chunk)),
  raw_entries rds b = Ok (es, FinOk, s) -> Forall wf_entry news ->
  exists (r : bytes) (off : N) (a : chunk) (tail : list byte),
    read_header rds b = Ok (r_hdr s, r) /\
    seek_loop (S (length r)) r 0 false = Ok (off, r_next s) /\
    (let pos := (28 + N.to_nat off)%nat in
     let b' := ArchiveRun.overwrite b pos (new_bytes news) in
     skipn pos b = ser_chunk a ++ tail /\ wf_chunk a /\ ty_is a AEND = true /\ (pos + 12 <= length b)%nat /\
     append_at b news = Ok (b', r_next s) /\
     firstn pos b' = firstn pos b /\
     (exists s' : rstate,
        raw_entries rds b' = Ok (es ++ glue (r_buf s) news, FinOk, s') /\
        r_buf s' = left_open (r_buf s) news /\ r_next s' = r_next s /\ r_hdr s' = r_hdr s)).
Proof. exact append_container_raw. Qed.
Check C11_append_container_raw :
  forall (b : bytes) (es : list (list chunk)) (s : rstate) (news : list (list chunk)),
  raw_entries rds b = Ok (es, FinOk, s) -> Forall wf_entry news ->
  exists (r : bytes) (off : N) (a : chunk) (tail : list byte),
    read_header rds b = Ok (r_hdr s, r) /\
    seek_loop (S (length r)) r 0 false = Ok (off, r_next s) /\
    (let pos := (28 + N.to_nat off)%nat in
     let b' := ArchiveRun.overwrite b pos (new_bytes news) in
     skipn pos b = ser_chunk a ++ tail /\ wf_chunk a /\ ty_is a AEND = true /\ (pos + 12 <= length b)%nat /\
     append_at b news = Ok (b', r_next s) /\
     firstn pos b' = firstn pos b /\
     (exists s' : rstate,
        raw_entries rds b' = Ok (es ++ glue (r_buf s) news, FinOk, s') /\
        r_buf s' = left_open (r_buf s) news /\ r_next s' = r_next s /\ r_hdr s' = r_hdr s)).
Print Assumptions C11_append_container_raw.

(* no open entry in front of the end marker: old ++ new for both readers; the premises hold again for b' *)
Theorem C11_append_container :
  forall (b : bytes) (es : list (list chunk)) (s : rstate) (news : list (list chunk)),
  raw_entries rds b = Ok (es, FinOk, s) -> r_buf s = [] -> Forall wf_entry news ->
  exists (b' : bytes) (pos : nat) (a : chunk) (tail : list byte) (s' : rstate),
    append_at b news = Ok (b', r_next s) /\
    skipn pos b = ser_chunk a ++ tail /\ ty_is a AEND = true /\ (pos + 12 <= length b)%nat /\
    firstn pos b' = firstn pos b /\
    raw_entries rds b' = Ok (es ++ news, FinOk, s') /\
    raw_entries read_chunk_slice b' = Ok (es ++ news, FinOk, s') /\
    r_buf s' = [] /\ r_next s' = r_next s /\ r_hdr s' = r_hdr s.
Proof. exact append_container. Qed.
Check C11_append_container :
  forall (b : bytes) (es : list (list chunk)) (s : rstate) (news : list (list chunk)),
  raw_entries rds b = Ok (es, FinOk, s) -> r_buf s = [] -> Forall wf_entry news ->
  exists (b' : bytes) (pos : nat) (a : chunk) (tail : list byte) (s' : rstate),
    append_at b news = Ok (b', r_next s) /\
    skipn pos b = ser_chunk a ++ tail /\ ty_is a AEND = true /\ (pos + 12 <= length b)%nat /\
    firstn pos b' = firstn pos b /\
    raw_entries rds b' = Ok (es ++ news, FinOk, s') /\
    raw_entries read_chunk_slice b' = Ok (es ++ news, FinOk, s') /\
    r_buf s' = [] /\ r_next s' = r_next s /\ r_hdr s' = r_hdr s.
Print Assumptions C11_append_container.

(* entry level: Archive::entries() of the file after the append = the old entries followed by the new ones *)
Theorem C11_append_container_entries :
  forall (b : bytes) (es : list (list chunk)) (s : rstate) (xs : list read_entry) (news : list (list chunk))
         (ys : list read_entry),
  raw_entries rds b = Ok (es, FinOk, s) -> r_buf s = [] -> entries rds b = Ok (xs, FinOk) ->
  Forall wf_entry news -> parse_all news = (ys, FinOk) ->
  exists (b' : bytes) (s' : rstate),
    append_at b news = Ok (b', r_next s) /\
    entries rds b' = Ok (xs ++ ys, FinOk) /\ entries read_chunk_slice b' = Ok (xs ++ ys, FinOk) /\
    raw_entries rds b' = Ok (es ++ news, FinOk, s') /\ r_buf s' = [] /\ r_next s' = r_next s.
Proof. exact append_container_entries. Qed.
Check C11_append_container_entries :
  forall (b : bytes) (es : list (list chunk)) (s : rstate) (xs : list read_entry) (news : list (list chunk))
         (ys : list read_entry),
  raw_entries rds b = Ok (es, FinOk, s) -> r_buf s = [] -> entries rds b = Ok (xs, FinOk) ->
  Forall wf_entry news -> parse_all news = (ys, FinOk) ->
  exists (b' : bytes) (s' : rstate),
    append_at b news = Ok (b', r_next s) /\
    entries rds b' = Ok (xs ++ ys, FinOk) /\ entries read_chunk_slice b' = Ok (xs ++ ys, FinOk) /\
    raw_entries rds b' = Ok (es ++ news, FinOk, s') /\ r_buf s' = [] /\ r_next s' = r_next s.
Print Assumptions C11_append_container_entries.

(* logical level, old AND new half decoded: the new entries are built by the C01 pipeline (every codec / cipher /
   mode, every slicing of the writes), written with add_entry; logical (b') = logical (b) ++ what the jobs carry,
   for the password and every draining read-buffer policy; solid blocks of the old file expanded in place *)
Theorem C11_append_container_logical :
  forall (E D : encryption -> bytes -> bytes -> bytes) (compress : compression -> N -> list bytes -> list bytes)
         (decompress : compression -> bytes -> res bytes) (verify : bytes -> bytes -> res bytes),
  (forall a k c, len16 c -> len16 (D a k c)) ->
  (forall a k b, len16 b -> D a k (E a k b) = b) ->
  (forall a k b, len16 b -> len16 (E a k b)) ->
  (forall c lvl ws, decompress c (concat (compress c lvl ws)) = Ok (concat ws)) ->
  (forall c lvl (ws ws' : list bytes), concat ws = concat ws' -> concat (compress c lvl ws) = concat (compress c lvl ws')) ->
  forall (pw : bytes) (rb : normal_entry -> list N) (srb : solid_entry -> list N) (b : bytes)
         (es : list (list chunk)) (s : rstate) (old : list xentry) (jobs : list job) (new : list xentry),
  raw_entries rds b = Ok (es, FinOk, s) -> r_buf s = [] ->
  xlogical E D decompress verify pw rb srb b = Ok old ->
  Forall2 carries jobs new -> Forall (wf_job E compress verify pw) jobs ->
  Forall (fun e : xentry => e_kind e <= 3) new ->
  (forall j : job, In j jobs -> reads_to_end E compress rb j) ->
  exists (b' : bytes) (s' : rstate) (xs : list read_entry),
    append_at b (new_raws E compress jobs) = Ok (b', r_next s) /\
    xlogical E D decompress verify pw rb srb b' = Ok (old ++ new) /\
    entries rds b = Ok (xs, FinOk) /\
    entries rds b' = Ok (xs ++ map RNormal (map (build_job E compress) jobs), FinOk) /\
    raw_entries rds b' = Ok (es ++ new_raws E compress jobs, FinOk, s') /\ r_buf s' = [] /\ r_next s' = r_next s.
Proof. exact append_container_logical. Qed.
Check C11_append_container_logical :
  forall (E D : encryption -> bytes -> bytes -> bytes) (compress : compression -> N -> list bytes -> list bytes)
         (decompress : compression -> bytes -> res bytes) (verify : bytes -> bytes -> res bytes),
  (forall a k c, len16 c -> len16 (D a k c)) ->
  (forall a k b, len16 b -> D a k (E a k b) = b) ->
  (forall a k b, len16 b -> len16 (E a k b)) ->
  (forall c lvl ws, decompress c (concat (compress c lvl ws)) = Ok (concat ws)) ->
  (forall c lvl (ws ws' : list bytes), concat ws = concat ws' -> concat (compress c lvl ws) = concat (compress c lvl ws')) ->
  forall (pw : bytes) (rb : normal_entry -> list N) (srb : solid_entry -> list N) (b : bytes)
         (es : list (list chunk)) (s : rstate) (old : list xentry) (jobs : list job) (new : list xentry),
  raw_entries rds b = Ok (es, FinOk, s) -> r_buf s = [] ->
  xlogical E D decompress verify pw rb srb b = Ok old ->
  Forall2 carries jobs new -> Forall (wf_job E compress verify pw) jobs ->
  Forall (fun e : xentry => e_kind e <= 3) new ->
  (forall j : job, In j jobs -> reads_to_end E compress rb j) ->
  exists (b' : bytes) (s' : rstate) (xs : list read_entry),
    append_at b (new_raws E compress jobs) = Ok (b', r_next s) /\
    xlogical E D decompress verify pw rb srb b' = Ok (old ++ new) /\
    entries rds b = Ok (xs, FinOk) /\
    entries rds b' = Ok (xs ++ map RNormal (map (build_job E compress) jobs), FinOk) /\
    raw_entries rds b' = Ok (es ++ new_raws E compress jobs, FinOk, s') /\ r_buf s' = [] /\ r_next s' = r_next s.
Print Assumptions C11_append_container_logical.

(* the bridge: abs (file after the append) = Update.append (abs file) (abs new) — C11_append_spec on real files *)
Theorem C11_append_container_abs :
  forall (E D : encryption -> bytes -> bytes -> bytes) (compress : compression -> N -> list bytes -> list bytes)
         (decompress : compression -> bytes -> res bytes) (verify : bytes -> bytes -> res bytes),
  (forall a k c, len16 c -> len16 (D a k c)) ->
  (forall a k b, len16 b -> D a k (E a k b) = b) ->
  (forall a k b, len16 b -> len16 (E a k b)) ->
  (forall c lvl ws, decompress c (concat (compress c lvl ws)) = Ok (concat ws)) ->
  (forall c lvl (ws ws' : list bytes), concat ws = concat ws' -> concat (compress c lvl ws) = concat (compress c lvl ws')) ->
  forall (pw : bytes) (rb : normal_entry -> list N) (srb : solid_entry -> list N) (b : bytes)
         (es : list (list chunk)) (s : rstate) (a : Update.archive) (jobs : list job) (new : list xentry),
  raw_entries rds b = Ok (es, FinOk, s) -> r_buf s = [] ->
  logical E D decompress verify pw rb srb b = Ok a ->
  Forall2 carries jobs new -> Forall (wf_job E compress verify pw) jobs ->
  Forall (fun e : xentry => e_kind e <= 3) new ->
  (forall j : job, In j jobs -> reads_to_end E compress rb j) ->
  exists (b' : bytes) (s' : rstate),
    append_at b (new_raws E compress jobs) = Ok (b', r_next s) /\
    logical E D decompress verify pw rb srb b' = Ok (Update.append a (map abs new)) /\
    raw_entries rds b' = Ok (es ++ new_raws E compress jobs, FinOk, s') /\ r_buf s' = [] /\ r_next s' = r_next s.
Proof. exact append_container_abs. Qed.
Check C11_append_container_abs :
  forall (E D : encryption -> bytes -> bytes -> bytes) (compress : compression -> N -> list bytes -> list bytes)
         (decompress : compression -> bytes -> res bytes) (verify : bytes -> bytes -> res bytes),
  (forall a k c, len16 c -> len16 (D a k c)) ->
  (forall a k b, len16 b -> D a k (E a k b) = b) ->
  (forall a k b, len16 b -> len16 (E a k b)) ->
  (forall c lvl ws, decompress c (concat (compress c lvl ws)) = Ok (concat ws)) ->
  (forall c lvl (ws ws' : list bytes), concat ws = concat ws' -> concat (compress c lvl ws) = concat (compress c lvl ws')) ->
  forall (pw : bytes) (rb : normal_entry -> list N) (srb : solid_entry -> list N) (b : bytes)
         (es : list (list chunk)) (s : rstate) (a : Update.archive) (jobs : list job) (new : list xentry),
  raw_entries rds b = Ok (es, FinOk, s) -> r_buf s = [] ->
  logical E D decompress verify pw rb srb b = Ok a ->
  Forall2 carries jobs new -> Forall (wf_job E compress verify pw) jobs ->
  Forall (fun e : xentry => e_kind e <= 3) new ->
  (forall j : job, In j jobs -> reads_to_end E compress rb j) ->
  exists (b' : bytes) (s' : rstate),
    append_at b (new_raws E compress jobs) = Ok (b', r_next s) /\
    logical E D decompress verify pw rb srb b' = Ok (Update.append a (map abs new)) /\
    raw_entries rds b' = Ok (es ++ new_raws E compress jobs, FinOk, s') /\ r_buf s' = [] /\ r_next s' = r_next s.
Print Assumptions C11_append_container_abs.

(* one OAppend step of a history of Model/Update.v (C11_append_cmd_spec, C11_history_invariant) carried out on the
   file: carries_nodes = the jobs are what create_entry builds for the nodes collect_items keeps — since 4cfc8ff5 one
   per entry name, the first walked path of that name (Update.update_targets, C11_items_spec) *)
Theorem C11_append_container_step :
  forall (E D : encryption -> bytes -> bytes -> bytes) (compress : compression -> N -> list bytes -> list bytes)
         (decompress : compression -> bytes -> res bytes) (verify : bytes -> bytes -> res bytes),
  (forall a k c, len16 c -> len16 (D a k c)) ->
  (forall a k b, len16 b -> D a k (E a k b) = b) ->
  (forall a k b, len16 b -> len16 (E a k b)) ->
  (forall c lvl ws, decompress c (concat (compress c lvl ws)) = Ok (concat ws)) ->
  (forall c lvl (ws ws' : list bytes), concat ws = concat ws' -> concat (compress c lvl ws) = concat (compress c lvl ws')) ->
  forall (pw : bytes) (rb : normal_entry -> list N) (srb : solid_entry -> list N) (b : bytes)
         (es : list (list chunk)) (s : rstate) (a : Update.archive) (kd kt : bool) (walk : list Update.node)
         (a' : Update.archive) (jobs : list job) (new : list xentry),
  raw_entries rds b = Ok (es, FinOk, s) -> r_buf s = [] ->
  logical E D decompress verify pw rb srb b = Ok a ->
  Update.step a (Update.OAppend kd kt walk) = Ok a' -> carries_nodes kd kt walk new ->
  Forall2 carries jobs new -> Forall (wf_job E compress verify pw) jobs ->
  Forall (fun e : xentry => e_kind e <= 3) new ->
  (forall j : job, In j jobs -> reads_to_end E compress rb j) ->
  exists (b' : bytes) (s' : rstate),
    append_at b (new_raws E compress jobs) = Ok (b', r_next s) /\
    logical E D decompress verify pw rb srb b' = Ok a' /\
    a' = Update.after a (Update.OAppend kd kt walk) /\ a' = a ++ map abs new /\
    raw_entries rds b' = Ok (es ++ new_raws E compress jobs, FinOk, s') /\ r_buf s' = [] /\ r_next s' = r_next s.
Proof. exact append_container_step. Qed.
Check C11_append_container_step :
  forall (E D : encryption -> bytes -> bytes -> bytes) (compress : compression -> N -> list bytes -> list bytes)
         (decompress : compression -> bytes -> res bytes) (verify : bytes -> bytes -> res bytes),
  (forall a k c, len16 c -> len16 (D a k c)) ->
  (forall a k b, len16 b -> D a k (E a k b) = b) ->
  (forall a k b, len16 b -> len16 (E a k b)) ->
  (forall c lvl ws, decompress c (concat (compress c lvl ws)) = Ok (concat ws)) ->
  (forall c lvl (ws ws' : list bytes), concat ws = concat ws' -> concat (compress c lvl ws) = concat (compress c lvl ws')) ->
  forall (pw : bytes) (rb : normal_entry -> list N) (srb : solid_entry -> list N) (b : bytes)
         (es : list (list chunk)) (s : rstate) (a : Update.archive) (kd kt : bool) (walk : list Update.node)
         (a' : Update.archive) (jobs : list job) (new : list xentry),
  raw_entries rds b = Ok (es, FinOk, s) -> r_buf s = [] ->
  logical E D decompress verify pw rb srb b = Ok a ->
  Update.step a (Update.OAppend kd kt walk) = Ok a' -> carries_nodes kd kt walk new ->
  Forall2 carries jobs new -> Forall (wf_job E compress verify pw) jobs ->
  Forall (fun e : xentry => e_kind e <= 3) new ->
  (forall j : job, In j jobs -> reads_to_end E compress rb j) ->
  exists (b' : bytes) (s' : rstate),
    append_at b (new_raws E compress jobs) = Ok (b', r_next s) /\
    logical E D decompress verify pw rb srb b' = Ok a' /\
    a' = Update.after a (Update.OAppend kd kt walk) /\ a' = a ++ map abs new /\
    raw_entries rds b' = Ok (es ++ new_raws E compress jobs, FinOk, s') /\ r_buf s' = [] /\ r_next s' = r_next s.
Print Assumptions C11_append_container_step.

(* multipart: on one file the walk is append_at *)
Theorem C11_append_parts_single :
  forall (b : bytes) (news : list (list chunk)),
  append_parts [b] news = (do (b', nxt) <- append_at b news; if nxt then Err NotFound else Ok [b']).
Proof. exact append_parts_single. Qed.
Check C11_append_parts_single :
  forall (b : bytes) (news : list (list chunk)),
  append_parts [b] news = (do (b', nxt) <- append_at b news; if nxt then Err NotFound else Ok [b']).
Print Assumptions C11_append_parts_single.

(* read_parts_b is read_parts (Model/Archive.v) plus the reader's final buffer *)
Theorem C11_read_parts_b_is_read_parts :
  forall (parts : list bytes) (x : list (list chunk) * fin * list chunk),
  read_parts_b parts = Ok x -> read_parts rds parts = Ok (fst x).
Proof. exact read_parts_b_fst. Qed.
Check C11_read_parts_b_is_read_parts :
  forall (parts : list bytes) (x : list (list chunk) * fin * list chunk),
  read_parts_b parts = Ok x -> read_parts rds parts = Ok (fst x).
Print Assumptions C11_read_parts_b_is_read_parts.

(* append_multipart, full strength: ANY list of files that the part-chaining reader reads to an end marker; the walk
   succeeds, ends at the part at which the reader ends, exactly that file is overwritten from its AEND chunk on
   (every other file and every byte in front of that AEND is untouched), the chain reads old ++ new *)
Theorem C11_append_multipart_raw :
  forall (parts : list bytes) (es : list (list chunk)) (buf : list chunk) (news : list (list chunk)),
  read_parts_b parts = Ok (es, FinOk, buf) -> Forall wf_entry news ->
  exists out : list bytes,
    append_parts parts news = Ok out /\ one_part_rewritten news parts out /\
    read_parts_b out = Ok (es ++ glue buf news, FinOk, left_open buf news).
Proof. exact append_multipart_raw. Qed.
Check C11_append_multipart_raw :
  forall (parts : list bytes) (es : list (list chunk)) (buf : list chunk) (news : list (list chunk)),
  read_parts_b parts = Ok (es, FinOk, buf) -> Forall wf_entry news ->
  exists out : list bytes,
    append_parts parts news = Ok out /\ one_part_rewritten news parts out /\
    read_parts_b out = Ok (es ++ glue buf news, FinOk, left_open buf news).
Print Assumptions C11_append_multipart_raw.

(* no open entry at the end of the chain: old ++ new for both readers *)
Theorem C11_append_multipart :
  forall (parts : list bytes) (es news : list (list chunk)),
  read_parts_b parts = Ok (es, FinOk, []) -> Forall wf_entry news ->
  exists out : list bytes,
    append_parts parts news = Ok out /\ one_part_rewritten news parts out /\
    read_parts rds parts = Ok (es, FinOk) /\
    read_parts rds out = Ok (es ++ news, FinOk) /\ read_parts read_chunk_slice out = Ok (es ++ news, FinOk) /\
    read_parts_b out = Ok (es ++ news, FinOk, []).
Proof. exact append_multipart. Qed.
Check C11_append_multipart :
  forall (parts : list bytes) (es news : list (list chunk)),
  read_parts_b parts = Ok (es, FinOk, []) -> Forall wf_entry news ->
  exists out : list bytes,
    append_parts parts news = Ok out /\ one_part_rewritten news parts out /\
    read_parts rds parts = Ok (es, FinOk) /\
    read_parts rds out = Ok (es ++ news, FinOk) /\ read_parts read_chunk_slice out = Ok (es ++ news, FinOk) /\
    read_parts_b out = Ok (es ++ news, FinOk, []).
Print Assumptions C11_append_multipart.

(* the invariant of C11_history_invariant on files: appending names not yet archived (hist_ok) to a file whose decoded
   entries have distinct names gives a file whose decoded entries have distinct names.  Since 4cfc8ff5 hist_ok asks
   nothing about the walked paths among themselves (C11_hist_ok_append): overlapping file arguments are covered *)
Theorem C11_append_container_history :
  forall (E D : encryption -> bytes -> bytes -> bytes) (compress : compression -> N -> list bytes -> list bytes)
         (decompress : compression -> bytes -> res bytes) (verify : bytes -> bytes -> res bytes),
  (forall a k c, len16 c -> len16 (D a k c)) ->
  (forall a k b, len16 b -> D a k (E a k b) = b) ->
  (forall a k b, len16 b -> len16 (E a k b)) ->
  (forall c lvl ws, decompress c (concat (compress c lvl ws)) = Ok (concat ws)) ->
  (forall c lvl (ws ws' : list bytes), concat ws = concat ws' -> concat (compress c lvl ws) = concat (compress c lvl ws')) ->
  forall (pw : bytes) (rb : normal_entry -> list N) (srb : solid_entry -> list N) (b : bytes)
         (es : list (list chunk)) (s : rstate) (a : Update.archive) (kd kt : bool) (walk : list Update.node)
         (a' : Update.archive) (jobs : list job) (new : list xentry),
  raw_entries rds b = Ok (es, FinOk, s) -> r_buf s = [] ->
  logical E D decompress verify pw rb srb b = Ok a ->
  Update.step a (Update.OAppend kd kt walk) = Ok a' -> carries_nodes kd kt walk new ->
  Forall2 carries jobs new -> Forall (wf_job E compress verify pw) jobs ->
  Forall (fun e : xentry => e_kind e <= 3) new ->
  (forall j : job, In j jobs -> reads_to_end E compress rb j) ->
  NoDup (Update.names a) -> UpdateFacts.hist_ok a [Update.OAppend kd kt walk] ->
  exists (b' : bytes) (s' : rstate),
    append_at b (new_raws E compress jobs) = Ok (b', r_next s) /\
    logical E D decompress verify pw rb srb b' = Ok (Update.final a [Update.OAppend kd kt walk]) /\
    NoDup (Update.names (Update.final a [Update.OAppend kd kt walk])) /\
    raw_entries rds b' = Ok (es ++ new_raws E compress jobs, FinOk, s') /\ r_buf s' = [] /\ r_next s' = r_next s.
Proof. exact append_container_history. Qed.
Check C11_append_container_history :
  forall (E D : encryption -> bytes -> bytes -> bytes) (compress : compression -> N -> list bytes -> list bytes)
         (decompress : compression -> bytes -> res bytes) (verify : bytes -> bytes -> res bytes),
  (forall a k c, len16 c -> len16 (D a k c)) ->
  (forall a k b, len16 b -> D a k (E a k b) = b) ->
  (forall a k b, len16 b -> len16 (E a k b)) ->
  (forall c lvl ws, decompress c (concat (compress c lvl ws)) = Ok (concat ws)) ->
  (forall c lvl (ws ws' : list bytes), concat ws = concat ws' -> concat (compress c lvl ws) = concat (compress c lvl ws')) ->
  forall (pw : bytes) (rb : normal_entry -> list N) (srb : solid_entry -> list N) (b : bytes)
         (es : list (list chunk)) (s : rstate) (a : Update.archive) (kd kt : bool) (walk : list Update.node)
         (a' : Update.archive) (jobs : list job) (new : list xentry),
  raw_entries rds b = Ok (es, FinOk, s) -> r_buf s = [] ->
  logical E D decompress verify pw rb srb b = Ok a ->
  Update.step a (Update.OAppend kd kt walk) = Ok a' -> carries_nodes kd kt walk new ->
  Forall2 carries jobs new -> Forall (wf_job E compress verify pw) jobs ->
  Forall (fun e : xentry => e_kind e <= 3) new ->
  (forall j : job, In j jobs -> reads_to_end E compress rb j) ->
  NoDup (Update.names a) -> UpdateFacts.hist_ok a [Update.OAppend kd kt walk] ->
  exists (b' : bytes) (s' : rstate),
    append_at b (new_raws E compress jobs) = Ok (b', r_next s) /\
    logical E D decompress verify pw rb srb b' = Ok (Update.final a [Update.OAppend kd kt walk]) /\
    NoDup (Update.names (Update.final a [Update.OAppend kd kt walk])) /\
    raw_entries rds b' = Ok (es ++ new_raws E compress jobs, FinOk, s') /\ r_buf s' = [] /\ r_next s' = r_next s.
Print Assumptions C11_append_container_history.

(* every chain the split writer lays out (PartsFacts.chain: any distribution of the chunk stream of well-formed entries
   over numbered parts, entries may straddle parts): the walk ends in the last part, the result is byte for byte the
   chain of the same bodies with the new entries' chunks behind the last one, and it reads back as old ++ new *)
Theorem C11_append_written_chain :
  forall (es pre : list (list chunk)) (b : list chunk) (n0 : N) (news : list (list chunk)),
  Forall wf_entry es -> concat (pre ++ [b]) = concat es -> n0 + len pre < 2 ^ 32 -> Forall wf_entry news ->
  read_parts rds (chain n0 (pre ++ [b])) = Ok (es, FinOk) /\
  append_parts (chain n0 (pre ++ [b])) news = Ok (chain n0 (pre ++ [b ++ concat news])) /\
  read_parts rds (chain n0 (pre ++ [b ++ concat news])) = Ok (es ++ news, FinOk) /\
  read_parts read_chunk_slice (chain n0 (pre ++ [b ++ concat news])) = Ok (es ++ news, FinOk).
Proof. exact append_written_chain. Qed.
Check C11_append_written_chain :
  forall (es pre : list (list chunk)) (b : list chunk) (n0 : N) (news : list (list chunk)),
  Forall wf_entry es -> concat (pre ++ [b]) = concat es -> n0 + len pre < 2 ^ 32 -> Forall wf_entry news ->
  read_parts rds (chain n0 (pre ++ [b])) = Ok (es, FinOk) /\
  append_parts (chain n0 (pre ++ [b])) news = Ok (chain n0 (pre ++ [b ++ concat news])) /\
  read_parts rds (chain n0 (pre ++ [b ++ concat news])) = Ok (es ++ news, FinOk) /\
  read_parts read_chunk_slice (chain n0 (pre ++ [b ++ concat news])) = Ok (es ++ news, FinOk).
Print Assumptions C11_append_written_chain.

(* multipart, decoded: the logical view of the chain after the append = the old one ++ what the jobs carry; bridge to Update.append *)
Theorem C11_append_multipart_logical :
  forall (E D : encryption -> bytes -> bytes -> bytes) (compress : compression -> N -> list bytes -> list bytes)
         (decompress : compression -> bytes -> res bytes) (verify : bytes -> bytes -> res bytes),
  (forall a k c, len16 c -> len16 (D a k c)) ->
  (forall a k b, len16 b -> D a k (E a k b) = b) ->
  (forall a k b, len16 b -> len16 (E a k b)) ->
  (forall c lvl ws, decompress c (concat (compress c lvl ws)) = Ok (concat ws)) ->
  (forall c lvl (ws ws' : list bytes), concat ws = concat ws' -> concat (compress c lvl ws) = concat (compress c lvl ws')) ->
  forall (pw : bytes) (rb : normal_entry -> list N) (srb : solid_entry -> list N) (parts : list bytes)
         (es : list (list chunk)) (old : list xentry) (jobs : list job) (new : list xentry),
  read_parts_b parts = Ok (es, FinOk, []) ->
  xlogical_parts E D decompress verify pw rb srb parts = Ok old ->
  Forall2 carries jobs new -> Forall (wf_job E compress verify pw) jobs ->
  Forall (fun e : xentry => e_kind e <= 3) new ->
  (forall j : job, In j jobs -> reads_to_end E compress rb j) ->
  exists out : list bytes,
    append_parts parts (new_raws E compress jobs) = Ok out /\
    one_part_rewritten (new_raws E compress jobs) parts out /\
    xlogical_parts E D decompress verify pw rb srb out = Ok (old ++ new) /\
    logical_parts E D decompress verify pw rb srb out = Ok (Update.append (map abs old) (map abs new)) /\
    read_parts_b out = Ok (es ++ new_raws E compress jobs, FinOk, []).
Proof. exact append_multipart_logical. Qed.
Check C11_append_multipart_logical :
  forall (E D : encryption -> bytes -> bytes -> bytes) (compress : compression -> N -> list bytes -> list bytes)
         (decompress : compression -> bytes -> res bytes) (verify : bytes -> bytes -> res bytes),
  (forall a k c, len16 c -> len16 (D a k c)) ->
  (forall a k b, len16 b -> D a k (E a k b) = b) ->
  (forall a k b, len16 b -> len16 (E a k b)) ->
  (forall c lvl ws, decompress c (concat (compress c lvl ws)) = Ok (concat ws)) ->
  (forall c lvl (ws ws' : list bytes), concat ws = concat ws' -> concat (compress c lvl ws) = concat (compress c lvl ws')) ->
  forall (pw : bytes) (rb : normal_entry -> list N) (srb : solid_entry -> list N) (parts : list bytes)
         (es : list (list chunk)) (old : list xentry) (jobs : list job) (new : list xentry),
  read_parts_b parts = Ok (es, FinOk, []) ->
  xlogical_parts E D decompress verify pw rb srb parts = Ok old ->
  Forall2 carries jobs new -> Forall (wf_job E compress verify pw) jobs ->
  Forall (fun e : xentry => e_kind e <= 3) new ->
  (forall j : job, In j jobs -> reads_to_end E compress rb j) ->
  exists out : list bytes,
    append_parts parts (new_raws E compress jobs) = Ok out /\
    one_part_rewritten (new_raws E compress jobs) parts out /\
    xlogical_parts E D decompress verify pw rb srb out = Ok (old ++ new) /\
    logical_parts E D decompress verify pw rb srb out = Ok (Update.append (map abs old) (map abs new)) /\
    read_parts_b out = Ok (es ++ new_raws E compress jobs, FinOk, []).
Print Assumptions C11_append_multipart_logical.

(* archives written from writable entries (WfWriterFacts.writable = exactly what the strict recogniser of C14 accepts;
   WfPipelineFacts.build_normal_writable: every entry the pipeline builds): the append gives byte for byte the archive
   the writer produces for the extended entry list, and it is accepted again.  The form `write_raw_archive 0 (map
   ser_entry xs)` is also the form of what delete writes, so the premises of the delete theorems below hold along a
   history of appends and deletes *)
Theorem C11_append_written_stays_wf :
  forall es new : list read_entry,
  Forall WfWriterFacts.writable es -> Forall WfWriterFacts.writable new ->
  append_at (write_raw_archive 0 (map ser_entry es)) (map ser_entry new)
    = Ok (write_raw_archive 0 (map ser_entry (es ++ new)), false) /\
  Wf.wf_archive (write_raw_archive 0 (map ser_entry (es ++ new))) = true /\
  read_archive (write_raw_archive 0 (map ser_entry (es ++ new))) = Ok (map normalize_entry (es ++ new)).
Proof. exact append_written_wf. Qed.
Check C11_append_written_stays_wf :
  forall es new : list read_entry,
  Forall WfWriterFacts.writable es -> Forall WfWriterFacts.writable new ->
  append_at (write_raw_archive 0 (map ser_entry es)) (map ser_entry new)
    = Ok (write_raw_archive 0 (map ser_entry (es ++ new)), false) /\
  Wf.wf_archive (write_raw_archive 0 (map ser_entry (es ++ new))) = true /\
  read_archive (write_raw_archive 0 (map ser_entry (es ++ new))) = Ok (map normalize_entry (es ++ new)).
Print Assumptions C11_append_written_stays_wf.

(* delete (WfTransformFacts.run_edit ... CDelete = run_transform_entry with the delete transformer, C10 / C14) on the
   bytes of an archive the strict recogniser accepts and that holds no solid block: the archive written holds exactly
   the entries whose name is not selected, in order (normalize: empty data chunks are not re-written), is accepted
   again, and leaves no entry open (so an append can follow) *)
Theorem C11_delete_container_entries :
  forall (hdr_tok content_tok : normal_entry -> bytes) (expand : solid_entry -> res (list normal_entry))
         (rebuild : solid_entry -> list normal_entry -> solid_entry) (keep pw : bool) (nf : N)
         (sel : bytes -> bool) (b : bytes) (ns : list normal_entry),
  Wf.wf_archive b = true -> read_archive b = Ok (map RNormal ns) ->
  let b' := write_raw_archive 0 (map ser_normal (filter (kept sel) ns)) in
  WfTransformFacts.run_edit hdr_tok content_tok expand rebuild keep pw Transform.CDelete nf sel b = Ok b' /\
  Wf.wf_archive b' = true /\ read_archive b' = Ok (map RNormal (map normalize (filter (kept sel) ns))) /\
  (exists (es' : list (list chunk)) (s' : rstate),
     raw_entries rds b' = Ok (es', FinOk, s') /\ r_buf s' = [] /\ r_next s' = false).
Proof. exact delete_container_entries. Qed.
Check C11_delete_container_entries :
  forall (hdr_tok content_tok : normal_entry -> bytes) (expand : solid_entry -> res (list normal_entry))
         (rebuild : solid_entry -> list normal_entry -> solid_entry) (keep pw : bool) (nf : N)
         (sel : bytes -> bool) (b : bytes) (ns : list normal_entry),
  Wf.wf_archive b = true -> read_archive b = Ok (map RNormal ns) ->
  let b' := write_raw_archive 0 (map ser_normal (filter (kept sel) ns)) in
  WfTransformFacts.run_edit hdr_tok content_tok expand rebuild keep pw Transform.CDelete nf sel b = Ok b' /\
  Wf.wf_archive b' = true /\ read_archive b' = Ok (map RNormal (map normalize (filter (kept sel) ns))) /\
  (exists (es' : list (list chunk)) (s' : rstate),
     raw_entries rds b' = Ok (es', FinOk, s') /\ r_buf s' = [] /\ r_next s' = false).
Print Assumptions C11_delete_container_entries.

(* decoded (any block cipher / decompressor / KDF — no law needed: nothing is re-encoded): the logical entries of the
   archive delete writes are those of the old one whose name is not selected, unchanged and in order.
   drained rb n: the buffer sizes chosen for n (and for n without its empty data chunks) read its data to the end *)
Theorem C11_delete_container_logical :
  forall (E D : encryption -> bytes -> bytes -> bytes) (decompress : compression -> bytes -> res bytes)
         (verify : bytes -> bytes -> res bytes) (hdr_tok content_tok : normal_entry -> bytes)
         (expand : solid_entry -> res (list normal_entry))
         (rebuild : solid_entry -> list normal_entry -> solid_entry) (keep pw' : bool) (nf : N)
         (sel : bytes -> bool) (pw : bytes) (rb : normal_entry -> list N) (srb : solid_entry -> list N)
         (b : bytes) (ns : list normal_entry) (old : list xentry),
  Wf.wf_archive b = true -> read_archive b = Ok (map RNormal ns) -> Forall (drained rb) ns ->
  xlogical E D decompress verify pw rb srb b = Ok old ->
  exists b' : bytes,
    WfTransformFacts.run_edit hdr_tok content_tok expand rebuild keep pw' Transform.CDelete nf sel b = Ok b' /\
    Wf.wf_archive b' = true /\
    xlogical E D decompress verify pw rb srb b' = Ok (filter (fun x : xentry => negb (sel (e_name x))) old) /\
    (exists (es' : list (list chunk)) (s' : rstate),
       raw_entries rds b' = Ok (es', FinOk, s') /\ r_buf s' = [] /\ r_next s' = false).
Proof. exact delete_container_logical. Qed.
Check C11_delete_container_logical :
  forall (E D : encryption -> bytes -> bytes -> bytes) (decompress : compression -> bytes -> res bytes)
         (verify : bytes -> bytes -> res bytes) (hdr_tok content_tok : normal_entry -> bytes)
         (expand : solid_entry -> res (list normal_entry))
         (rebuild : solid_entry -> list normal_entry -> solid_entry) (keep pw' : bool) (nf : N)
         (sel : bytes -> bool) (pw : bytes) (rb : normal_entry -> list N) (srb : solid_entry -> list N)
         (b : bytes) (ns : list normal_entry) (old : list xentry),
  Wf.wf_archive b = true -> read_archive b = Ok (map RNormal ns) -> Forall (drained rb) ns ->
  xlogical E D decompress verify pw rb srb b = Ok old ->
  exists b' : bytes,
    WfTransformFacts.run_edit hdr_tok content_tok expand rebuild keep pw' Transform.CDelete nf sel b = Ok b' /\
    Wf.wf_archive b' = true /\
    xlogical E D decompress verify pw rb srb b' = Ok (filter (fun x : xentry => negb (sel (e_name x))) old) /\
    (exists (es' : list (list chunk)) (s' : rstate),
       raw_entries rds b' = Ok (es', FinOk, s') /\ r_buf s' = [] /\ r_next s' = false).
Print Assumptions C11_delete_container_logical.

(* the bridge for delete: abs (file after delete) = Update.delete matched (abs file) — C11_delete_spec on real files *)
Theorem C11_delete_container_abs :
  forall (E D : encryption -> bytes -> bytes -> bytes) (decompress : compression -> bytes -> res bytes)
         (verify : bytes -> bytes -> res bytes) (hdr_tok content_tok : normal_entry -> bytes)
         (expand : solid_entry -> res (list normal_entry))
         (rebuild : solid_entry -> list normal_entry -> solid_entry) (keep pw' : bool) (nf : N)
         (matched : list bytes) (pw : bytes) (rb : normal_entry -> list N) (srb : solid_entry -> list N)
         (b : bytes) (ns : list normal_entry) (a : Update.archive),
  Wf.wf_archive b = true -> read_archive b = Ok (map RNormal ns) -> Forall (drained rb) ns ->
  logical E D decompress verify pw rb srb b = Ok a ->
  exists b' : bytes,
    WfTransformFacts.run_edit hdr_tok content_tok expand rebuild keep pw' Transform.CDelete nf
      (fun p : bytes => Update.mem p matched) b = Ok b' /\
    Wf.wf_archive b' = true /\
    logical E D decompress verify pw rb srb b' = Ok (Update.delete matched a) /\
    Update.step a (Update.ODelete matched) = Ok (Update.delete matched a) /\
    (exists (es' : list (list chunk)) (s' : rstate),
       raw_entries rds b' = Ok (es', FinOk, s') /\ r_buf s' = [] /\ r_next s' = false).
Proof. exact delete_container_abs. Qed.
Check C11_delete_container_abs :
  forall (E D : encryption -> bytes -> bytes -> bytes) (decompress : compression -> bytes -> res bytes)
         (verify : bytes -> bytes -> res bytes) (hdr_tok content_tok : normal_entry -> bytes)
         (expand : solid_entry -> res (list normal_entry))
         (rebuild : solid_entry -> list normal_entry -> solid_entry) (keep pw' : bool) (nf : N)
         (matched : list bytes) (pw : bytes) (rb : normal_entry -> list N) (srb : solid_entry -> list N)
         (b : bytes) (ns : list normal_entry) (a : Update.archive),
  Wf.wf_archive b = true -> read_archive b = Ok (map RNormal ns) -> Forall (drained rb) ns ->
  logical E D decompress verify pw rb srb b = Ok a ->
  exists b' : bytes,
    WfTransformFacts.run_edit hdr_tok content_tok expand rebuild keep pw' Transform.CDelete nf
      (fun p : bytes => Update.mem p matched) b = Ok b' /\
    Wf.wf_archive b' = true /\
    logical E D decompress verify pw rb srb b' = Ok (Update.delete matched a) /\
    Update.step a (Update.ODelete matched) = Ok (Update.delete matched a) /\
    (exists (es' : list (list chunk)) (s' : rstate),
       raw_entries rds b' = Ok (es', FinOk, s') /\ r_buf s' = [] /\ r_next s' = false).
Print Assumptions C11_delete_container_abs.

(* ---- the premises are satisfiable ---------------------------------------------------------------------------------- *)
(* a written archive (file entry with a private chunk + solid entry); a foreign layout (ANXT in front, 40 bytes of
   another file behind AEND: the tail of it survives behind the new end marker and is not read); a file that ends
   inside an entry (the glue case); a three-part chain with an entry straddling both boundaries *)
Example C11_container_premises_met :
  (exists s, raw_entries rds ex_arch = Ok ([ex_e1; ex_e2], FinOk, s) /\ r_buf s = [] /\ Forall wf_entry [ex_e2; ex_e1] /\
     append_at ex_arch [ex_e2; ex_e1] = Ok (write_raw_archive 7 [ex_e1; ex_e2; ex_e2; ex_e1], false)) /\
  (exists s, raw_entries rds ex_foreign = Ok ([ex_e1], FinOk, s) /\ r_buf s = [] /\ r_next s = true /\
     append_at ex_foreign [ex_e2] =
       Ok (write_header 3 ++ ser_chunks (mk ANXT [] :: ex_e1) ++ ser_chunks ex_e2 ++ finalize ++ skipn 40 (ser_chunks ex_e1), true) /\
     exists s', raw_entries rds (write_header 3 ++ ser_chunks (mk ANXT [] :: ex_e1) ++ ser_chunks ex_e2 ++ finalize ++ skipn 40 (ser_chunks ex_e1))
                = Ok ([ex_e1; ex_e2], FinOk, s')) /\
  (exists s, raw_entries rds ex_open = Ok ([ex_e2], FinOk, s) /\ r_buf s = [mk FHED (lit "hdr3"); mk FDAT [x01]] /\
     exists b' s', append_at ex_open [ex_e1; ex_e2] = Ok (b', false) /\
       raw_entries rds b' = Ok ([ex_e2; [mk FHED (lit "hdr3"); mk FDAT [x01]] ++ ex_e1; ex_e2], FinOk, s') /\ r_buf s' = []) /\
  (read_parts_b exp_chain = Ok ([exp_e1; exp_e2; exp_e3], FinOk, []) /\ Forall wf_entry [exp_e1] /\
   exists out, append_parts exp_chain [exp_e1] = Ok out /\ firstn 2 out = firstn 2 exp_chain /\ length out = 3%nat /\
     read_parts rds out = Ok ([exp_e1; exp_e2; exp_e3; exp_e1], FinOk)).
Proof. exact (conj append_container_ex (conj append_foreign_ex (conj append_open_entry_ex append_multipart_ex))). Qed.
Print Assumptions C11_container_premises_met.

(* the logical theorems: the tree of CreateTransportFacts (directory, file with an xattr, symbolic link) through
   AES-256-CBC (the AES model of Model/Aes.v), contents written in two calls, read with buffers of 7, 16, 1 bytes *)
Example C11_container_logical_premises_met :
  exists es s, raw_entries rds tx_arch = Ok (es, FinOk, s) /\ r_buf s = [] /\
    xlogical real_E_of real_D_of tx_decompress tx_verify tx_pw tx_rb (fun _ => []) tx_arch = Ok (create_from_tree tx_c tx_order tx_tree) /\
    Forall2 carries tx_jobs (create_from_tree tx_c tx_order tx_tree) /\
    Forall (wf_job real_E_of tx_compress tx_verify tx_pw) tx_jobs /\
    Forall (fun e => e_kind e <= 3) (create_from_tree tx_c tx_order tx_tree) /\
    (forall j, In j tx_jobs -> reads_to_end real_E_of tx_compress tx_rb j) /\
    (forall c lvl ws, tx_decompress c (concat (tx_compress c lvl ws)) = Ok (concat ws)) /\
    (forall c lvl (ws ws' : list bytes), concat ws = concat ws' -> concat (tx_compress c lvl ws) = concat (tx_compress c lvl ws')).
Proof. exact append_logical_premises. Qed.
Print Assumptions C11_container_logical_premises_met.

(* the old file holds a solid block (three AES-encrypted entries inside a stored solid entry) followed by the same
   three entries as normal entries: the logical view expands the block in place *)
Example C11_container_solid_premises_met :
  exists es s, raw_entries rds tx_solid_arch = Ok (es, FinOk, s) /\ r_buf s = [] /\ length es = 4%nat /\
    xlogical real_E_of real_D_of tx_decompress tx_verify tx_pw tx_rb tx_srb tx_solid_arch
      = Ok (create_from_tree tx_c tx_order tx_tree ++ create_from_tree tx_c tx_order tx_tree).
Proof. exact append_logical_solid_premises. Qed.
Print Assumptions C11_container_solid_premises_met.

(* delete: the AES archive is accepted by the strict recogniser, holds normal entries only, buffers of 16 bytes drain
   every entry; deleting d/a.txt leaves the directory and the link *)
Example C11_container_delete_premises_met :
  Wf.wf_archive tx_arch = true /\ read_archive tx_arch = Ok (map RNormal (map (build_job real_E_of tx_compress) tx_jobs)) /\
  Forall (drained tx_rb2) (map (build_job real_E_of tx_compress) tx_jobs) /\
  xlogical real_E_of real_D_of tx_decompress tx_verify tx_pw tx_rb2 tx_srb tx_arch = Ok (create_from_tree tx_c tx_order tx_tree) /\
  exists b', WfTransformFacts.run_edit (fun _ => []) (fun _ => []) (fun _ => Ok []) (fun s _ => s) false false Transform.CDelete 1
               (fun p => Update.mem p [lit "d/a.txt"]) tx_arch = Ok b' /\
    xlogical real_E_of real_D_of tx_decompress tx_verify tx_pw tx_rb2 tx_srb b'
      = Ok (filter (fun x => negb (Update.mem (e_name x) [lit "d/a.txt"])) (create_from_tree tx_c tx_order tx_tree)) /\
    length (filter (fun x => negb (Update.mem (e_name x) [lit "d/a.txt"])) (create_from_tree tx_c tx_order tx_tree)) = 2%nat.
Proof. exact delete_premises. Qed.
Print Assumptions C11_container_delete_premises_met.
