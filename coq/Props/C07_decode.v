(* Props/C07_decode.v — C07 for the decode pipeline (decrypt_reader + decompress_reader over the FlattenReader,
   the CBC and CTR readers, NormalEntry::reader, SolidEntry::entries): for ALL data chunks (hostile, re-cut, cut
   short), every PHSF, password, block-cipher function and sequence of read-buffer sizes (zero-length reads
   included) the reader pipeline of Model/Pipeline.v does not reach a Rust panic site, and the iterator over a
   decoded solid stream terminates (its fuel, S (length stream), is never exhausted).  The key derivation and
   the decompressors are third-party code outside the model; the theorems assume of them only that they
   return (a value or an error) — the hostile key-derivation parameters that made them panic / abort are the
   repaired defects 1232b70b and the recorded finding F-C07-kdf-cost.  No cipher law is assumed: D and E are
   arbitrary, which covers decryption of hostile bytes under any key.
   Only statements, closed by `exact`, pinned by `Check`, audited by `Print Assumptions`. *)
From PNA Require Import Base Crc32 Name Codec Chunk Archive Entry Flatten Cbc Ctr Pipeline Aes Camellia ChunkFacts EntryFacts DecodeTotalFacts.
Open Scope N_scope.

Theorem C07_cbc_reader_never_panics :
  forall (D : bytes -> bytes -> bytes),
  (forall key iv src, cbcr_new key iv src <> Panic) /\
  (forall st n, cbcr_read D st n <> Panic) /\
  (forall ns st, cbcr_reads D st ns <> Panic).
Proof. exact (fun D => conj cbcr_new_np (conj (cbcr_read_np D) (cbcr_reads_np D))). Qed.
Check C07_cbc_reader_never_panics :
  forall (D : bytes -> bytes -> bytes),
  (forall key iv src, cbcr_new key iv src <> Panic) /\
  (forall st n, cbcr_read D st n <> Panic) /\
  (forall ns st, cbcr_reads D st ns <> Panic).
Print Assumptions C07_cbc_reader_never_panics.

Theorem C07_decode_stream_never_panics :
  forall (E D : encryption -> bytes -> bytes -> bytes) (decompress : compression -> bytes -> res bytes)
         (verify : bytes -> bytes -> res bytes),
  (forall s pw, verify s pw <> Panic) -> (forall c bs, decompress c bs <> Panic) ->
  forall comp enc mode phsf pw data rbufs,
  decode_stream E D decompress verify comp enc mode phsf pw data rbufs <> Panic.
Proof. exact decode_stream_no_panic. Qed.
Check C07_decode_stream_never_panics :
  forall (E D : encryption -> bytes -> bytes -> bytes) (decompress : compression -> bytes -> res bytes)
         (verify : bytes -> bytes -> res bytes),
  (forall s pw, verify s pw <> Panic) -> (forall c bs, decompress c bs <> Panic) ->
  forall comp enc mode phsf pw data rbufs,
  decode_stream E D decompress verify comp enc mode phsf pw data rbufs <> Panic.
Print Assumptions C07_decode_stream_never_panics.

Theorem C07_entry_reader_never_panics :
  forall (E D : encryption -> bytes -> bytes -> bytes) (decompress : compression -> bytes -> res bytes)
         (verify : bytes -> bytes -> res bytes),
  (forall s pw, verify s pw <> Panic) -> (forall c bs, decompress c bs <> Panic) ->
  forall e pw rbufs, decode_normal E D decompress verify e pw rbufs <> Panic.
Proof. exact decode_normal_no_panic. Qed.
Check C07_entry_reader_never_panics :
  forall (E D : encryption -> bytes -> bytes -> bytes) (decompress : compression -> bytes -> res bytes)
         (verify : bytes -> bytes -> res bytes),
  (forall s pw, verify s pw <> Panic) -> (forall c bs, decompress c bs <> Panic) ->
  forall e pw rbufs, decode_normal E D decompress verify e pw rbufs <> Panic.
Print Assumptions C07_entry_reader_never_panics.

(* compressed / encrypted solid entries: decode, then the entry iterator; neither panics, the iterator terminates *)
Theorem C07_solid_entries_never_panic_or_hang :
  forall (E D : encryption -> bytes -> bytes -> bytes) (decompress : compression -> bytes -> res bytes)
         (verify : bytes -> bytes -> res bytes),
  (forall s pw, verify s pw <> Panic) -> (forall c bs, decompress c bs <> Panic) ->
  forall e pw rbufs,
  decode_solid E D decompress verify e pw rbufs <> Panic /\
  forall es f, decode_solid E D decompress verify e pw rbufs = Ok (es, f) -> f <> FinPanic.
Proof. exact decode_solid_no_panic. Qed.
Check C07_solid_entries_never_panic_or_hang :
  forall (E D : encryption -> bytes -> bytes -> bytes) (decompress : compression -> bytes -> res bytes)
         (verify : bytes -> bytes -> res bytes),
  (forall s pw, verify s pw <> Panic) -> (forall c bs, decompress c bs <> Panic) ->
  forall e pw rbufs,
  decode_solid E D decompress verify e pw rbufs <> Panic /\
  forall es f, decode_solid E D decompress verify e pw rbufs = Ok (es, f) -> f <> FinPanic.
Print Assumptions C07_solid_entries_never_panic_or_hang.

(* instance with the Gallina AES-256 / Camellia-256 the pipeline correspondence runs with *)
Theorem C07_solid_entries_never_panic_or_hang_real :
  forall (decompress : compression -> bytes -> res bytes) (verify : bytes -> bytes -> res bytes),
  (forall s pw, verify s pw <> Panic) -> (forall c bs, decompress c bs <> Panic) ->
  forall e pw rbufs,
  decode_solid real_E_of real_D_of decompress verify e pw rbufs <> Panic /\
  forall es f, decode_solid real_E_of real_D_of decompress verify e pw rbufs = Ok (es, f) -> f <> FinPanic.
Proof. exact (decode_solid_no_panic real_E_of real_D_of). Qed.
Check C07_solid_entries_never_panic_or_hang_real :
  forall (decompress : compression -> bytes -> res bytes) (verify : bytes -> bytes -> res bytes),
  (forall s pw, verify s pw <> Panic) -> (forall c bs, decompress c bs <> Panic) ->
  forall e pw rbufs,
  decode_solid real_E_of real_D_of decompress verify e pw rbufs <> Panic /\
  forall es f, decode_solid real_E_of real_D_of decompress verify e pw rbufs = Ok (es, f) -> f <> FinPanic.
Print Assumptions C07_solid_entries_never_panic_or_hang_real.

(* the premises are met by the stand-ins the model is run with *)
Theorem C07_decode_premises_satisfiable :
  (forall s pw, toy_verify s pw <> Panic) /\ (forall c bs, id_decompress c bs <> Panic).
Proof. exact (conj toy_verify_np id_decompress_np). Qed.
Check C07_decode_premises_satisfiable :
  (forall s pw, toy_verify s pw <> Panic) /\ (forall c bs, id_decompress c bs <> Panic).
Print Assumptions C07_decode_premises_satisfiable.

(* C12 / C16: SolidEntry::entries ends WITHOUT error only if the decoded stream is a sequence of well-formed chunks
   with matching CRCs — a wrong key on a stored CTR stream is reported unless its garbage is such a sequence *)
Theorem C07_solid_clean_end_certifies_stream :
  forall (E D : encryption -> bytes -> bytes -> bytes) (decompress : compression -> bytes -> res bytes)
         (verify : bytes -> bytes -> res bytes) e pw rbufs es,
  decode_solid E D decompress verify e pw rbufs = Ok (es, FinOk) ->
  exists st cs, decode_stream E D decompress verify (s_comp (so_hdr e)) (s_enc (so_hdr e)) (s_mode (so_hdr e)) (so_phsf e) pw (so_data e) rbufs = Ok st
                /\ st = ser_chunks cs /\ Forall ChunkFacts.wf_chunk cs.
Proof. exact decode_solid_ok_shape. Qed.
Check C07_solid_clean_end_certifies_stream :
  forall (E D : encryption -> bytes -> bytes -> bytes) (decompress : compression -> bytes -> res bytes)
         (verify : bytes -> bytes -> res bytes) e pw rbufs es,
  decode_solid E D decompress verify e pw rbufs = Ok (es, FinOk) ->
  exists st cs, decode_stream E D decompress verify (s_comp (so_hdr e)) (s_enc (so_hdr e)) (s_mode (so_hdr e)) (so_phsf e) pw (so_data e) rbufs = Ok st
                /\ st = ser_chunks cs /\ Forall ChunkFacts.wf_chunk cs.
Print Assumptions C07_solid_clean_end_certifies_stream.
