(* Props/C01_sinks.v — C01 / C16: the CTR writer is only a faithful transport over a writer that takes whole writes,
   and the writers below it in this crate do.

   lib/src/cipher/stream/write.rs StreamCipherWriter::write encrypts the WHOLE buffer (the keystream position
   advances by buf.len()) and returns the count of the writer below it.  If that writer took only part of the buffer,
   write_all above the cipher would re-submit the tail and the tail would be encrypted a second time, at a later
   keystream position: the right password would no longer read the data (seeded/C16-7 does exactly this by making
   ChunkStreamWriter::write a legal short write).  Ctr.ctrw_write returned `len d` with a comment ("for the sinks of
   this crate [the count] is the whole length").  Model/Sinks.v makes the sink's answer a parameter
   (take : N -> N, the sink accepts min (take n) n bytes of an n-byte buffer) and states what the crate's own
   writers answer; Proofs/CtrSinkFacts.v proves:
     (a) C01_ctr_write_sink_whole, C01_ctr_write_all_whole, C01_ctr_write_alls_is_ctrw_writes, C01_ctr_write_alls_filter,
         C01_ctr_write_alls_transport, C01_cwrite_ctr_is_write_alls: over a sink with take n = n the writer is
         Ctr.ctrw_write, write_all is one inner write, and Pipeline.cwrite in CTR mode (the object of the C01 / C16
         pipeline theorems) is this writer driven with write_all;
     (b) C01_chunk_sink_call, C01_flat_sink_call, C01_chunk_sink_at_calls, C01_flat_sink_at_calls,
         C01_chunk_call_bytes: ChunkStreamWriter::write and FlattenWriter::write return len d for EVERY d and every
         positive bound and hand on exactly those bytes (the former as well-formed chunks of its type); tied to the
         code call by call: stream area, op `csw` (count and emitted bytes of every write through a cfg(pna_verif) hook)
         and op `flat_write`;
     (c) C01_ctr_over_chunk_sink: the composition transports ctr_xor k iv pos (concat ws), which the same key undoes;
     (d) C01_ctr_short_sink_refuted (toy cipher, one byte per call, three bytes: other bytes are delivered and the
         right key misreads them), C01_ctr_short_then_whole_misplaces, C01_ctr_cap_sink_misplaces (EVERY write of
         c+1..2c bytes into a sink capped at c: the tail is keyed at pos + len d instead of pos + c, the writer ends
         len d - c positions too far), C01_ctr_short_sink_reads_back_iff;
     (e) the CBC writer (lib/src/cipher/block/write.rs) hands every block on with write_all, so it copes with ANY sink
         that makes progress: C01_write_all_progress, C01_cbc_write_short_sink_copes, C01_cbc_short_sink_transport
         (same bytes, same counts, same state as over a whole-taking sink); a sink that takes nothing is a reported
         error: C01_cbc_zero_sink_reported. *)
From PNA Require Import Base Crc32 Codec Chunk Flatten Cbc Ctr Pipeline Sinks.
From PNA Require Import BaseFacts ChunkFacts PiecesFacts FlattenFacts CbcFacts CtrFacts PipelineFacts CtrSinkFacts.
Open Scope N_scope.

(* ---- (a) over a sink that takes whole writes ------------------------------------------------------------ *)
(* one write call, every d (the empty one too): the writer of Sinks.v is Ctr.ctrw_write *)
Theorem C01_ctr_write_sink_whole :
  forall (E : bytes -> bytes -> bytes) (take : N -> N) (s : ctrw) (d : bytes), (forall n : N, take n = n) ->
  ctrw_write_sink E take s d = ({| cw_key := cw_key s; cw_iv := cw_iv s; cw_pos := cw_pos s + len d |}, ctr_xor E (cw_key s) (cw_iv s) (cw_pos s) d, len d) /\
  ctrw_write E s d = (fst (fst (ctrw_write_sink E take s d)), [snd (fst (ctrw_write_sink E take s d))], snd (ctrw_write_sink E take s d)).
Proof. exact ctrw_write_sink_whole. Qed.
Check C01_ctr_write_sink_whole :
  forall (E : bytes -> bytes -> bytes) (take : N -> N) (s : ctrw) (d : bytes), (forall n : N, take n = n) ->
  ctrw_write_sink E take s d = ({| cw_key := cw_key s; cw_iv := cw_iv s; cw_pos := cw_pos s + len d |}, ctr_xor E (cw_key s) (cw_iv s) (cw_pos s) d, len d) /\
  ctrw_write E s d = (fst (fst (ctrw_write_sink E take s d)), [snd (fst (ctrw_write_sink E take s d))], snd (ctrw_write_sink E take s d)).
Print Assumptions C01_ctr_write_sink_whole.

(* write_all of a non-empty buffer: exactly one inner write, the whole of ctr_xor k iv pos d *)
Theorem C01_ctr_write_all_whole :
  forall (E : bytes -> bytes -> bytes) (take : N -> N) (s : ctrw) (d : bytes) (fuel : nat), (forall n : N, take n = n) -> d <> [] ->
  ctrw_write_all E take (S fuel) s d = Ok ({| cw_key := cw_key s; cw_iv := cw_iv s; cw_pos := cw_pos s + len d |}, [ctr_xor E (cw_key s) (cw_iv s) (cw_pos s) d]) /\
  ctrw_write_all E take (S fuel) s d = Ok (fst (fst (ctrw_write E s d)), snd (fst (ctrw_write E s d))).
Proof. exact ctrw_write_all_whole. Qed.
Check C01_ctr_write_all_whole :
  forall (E : bytes -> bytes -> bytes) (take : N -> N) (s : ctrw) (d : bytes) (fuel : nat), (forall n : N, take n = n) -> d <> [] ->
  ctrw_write_all E take (S fuel) s d = Ok ({| cw_key := cw_key s; cw_iv := cw_iv s; cw_pos := cw_pos s + len d |}, [ctr_xor E (cw_key s) (cw_iv s) (cw_pos s) d]) /\
  ctrw_write_all E take (S fuel) s d = Ok (fst (fst (ctrw_write E s d)), snd (fst (ctrw_write E s d))).
Print Assumptions C01_ctr_write_all_whole.

(* a caller that write_all's non-empty buffers: Ctr.ctrw_writes, inner write by inner write *)
Theorem C01_ctr_write_alls_is_ctrw_writes :
  forall (E : bytes -> bytes -> bytes) (take : N -> N) (ws : list bytes) (s : ctrw), (forall n : N, take n = n) -> Forall (fun d : bytes => d <> []) ws ->
  exists s' calls, ctrw_writes E s ws = (s', calls) /\
    ctrw_write_alls E take s ws = Ok (s', concat (map snd calls)) /\ map fst calls = map len ws.
Proof. exact ctrw_write_alls_is_ctrw_writes. Qed.
Check C01_ctr_write_alls_is_ctrw_writes :
  forall (E : bytes -> bytes -> bytes) (take : N -> N) (ws : list bytes) (s : ctrw), (forall n : N, take n = n) -> Forall (fun d : bytes => d <> []) ws ->
  exists s' calls, ctrw_writes E s ws = (s', calls) /\
    ctrw_write_alls E take s ws = Ok (s', concat (map snd calls)) /\ map fst calls = map len ws.
Print Assumptions C01_ctr_write_alls_is_ctrw_writes.

(* any ws: write_all makes no call for an empty buffer, a `write` of one hands an empty buffer on; otherwise the same *)
Theorem C01_ctr_write_alls_filter :
  forall (E : bytes -> bytes -> bytes) (take : N -> N) (ws : list bytes) (s : ctrw), (forall n : N, take n = n) ->
  ctrw_write_alls E take s ws = Ok (fst (ctrw_writes E s ws), filter ne (concat (map snd (snd (ctrw_writes E s ws))))).
Proof. exact ctrw_write_alls_filter. Qed.
Check C01_ctr_write_alls_filter :
  forall (E : bytes -> bytes -> bytes) (take : N -> N) (ws : list bytes) (s : ctrw), (forall n : N, take n = n) ->
  ctrw_write_alls E take s ws = Ok (fst (ctrw_writes E s ws), filter ne (concat (map snd (snd (ctrw_writes E s ws))))).
Print Assumptions C01_ctr_write_alls_filter.

Theorem C01_ctr_write_alls_transport :
  forall (E : bytes -> bytes -> bytes) (take : N -> N) (ws : list bytes) (s : ctrw), (forall n : N, take n = n) ->
  exists s' outs, ctrw_write_alls E take s ws = Ok (s', outs) /\
    concat outs = ctr_xor E (cw_key s) (cw_iv s) (cw_pos s) (concat ws) /\
    cw_key s' = cw_key s /\ cw_iv s' = cw_iv s /\ cw_pos s' = cw_pos s + len (concat ws).
Proof. exact ctrw_write_alls_transport. Qed.
Check C01_ctr_write_alls_transport :
  forall (E : bytes -> bytes -> bytes) (take : N -> N) (ws : list bytes) (s : ctrw), (forall n : N, take n = n) ->
  exists s' outs, ctrw_write_alls E take s ws = Ok (s', outs) /\
    concat outs = ctr_xor E (cw_key s) (cw_iv s) (cw_pos s) (concat ws) /\
    cw_key s' = cw_key s /\ cw_iv s' = cw_iv s /\ cw_pos s' = cw_pos s + len (concat ws).
Print Assumptions C01_ctr_write_alls_transport.

(* Pipeline.cwrite in CTR mode — what build_normal, stream_file_chunks, build_solid and solid_archive_chunks encrypt with — is the instance *)
Theorem C01_cwrite_ctr_is_write_alls :
  forall (E : encryption -> bytes -> bytes -> bytes) (take : N -> N) (cfg : config) (ctx : cctx) (ws : list bytes),
  (forall n : N, take n = n) -> g_enc cfg <> ENo -> g_mode cfg = MCtr ->
  exists s', ctrw_write_alls (E (g_enc cfg)) take {| cw_key := c_key ctx; cw_iv := of_be (c_iv ctx); cw_pos := 0 |} ws
             = Ok (s', filter ne (cwrite E cfg ctx ws)).
Proof. exact cwrite_ctr_is_write_alls. Qed.
Check C01_cwrite_ctr_is_write_alls :
  forall (E : encryption -> bytes -> bytes -> bytes) (take : N -> N) (cfg : config) (ctx : cctx) (ws : list bytes),
  (forall n : N, take n = n) -> g_enc cfg <> ENo -> g_mode cfg = MCtr ->
  exists s', ctrw_write_alls (E (g_enc cfg)) take {| cw_key := c_key ctx; cw_iv := of_be (c_iv ctx); cw_pos := 0 |} ws
             = Ok (s', filter ne (cwrite E cfg ctx ws)).
Print Assumptions C01_cwrite_ctr_is_write_alls.

Theorem C01_flat_sink_drops_empty_writes :
  forall (cmax : N) (ps : list bytes), flat_sink_at cmax (filter ne ps) = flat_sink_at cmax ps.
Proof. exact flat_sink_at_filter_ne. Qed.
Check C01_flat_sink_drops_empty_writes :
  forall (cmax : N) (ps : list bytes), flat_sink_at cmax (filter ne ps) = flat_sink_at cmax ps.
Print Assumptions C01_flat_sink_drops_empty_writes.

(* ---- (b) the writers below the cipher take whole writes ---------------------------------------------------- *)
(* ChunkStreamWriter::write: the count is the number of bytes the emitted chunks carry, and they are d *)
Theorem C01_chunk_sink_call :
  forall (cmax : N) (d : bytes), 0 < cmax ->
  concat (snd (chunk_sink_call cmax d)) = d /\ len (concat (snd (chunk_sink_call cmax d))) = fst (chunk_sink_call cmax d) /\
  Forall (fun q : bytes => len q <= cmax) (snd (chunk_sink_call cmax d)) /\ snd (chunk_sink_call cmax d) <> [].
Proof. exact chunk_sink_call_carries. Qed.
Check C01_chunk_sink_call :
  forall (cmax : N) (d : bytes), 0 < cmax ->
  concat (snd (chunk_sink_call cmax d)) = d /\ len (concat (snd (chunk_sink_call cmax d))) = fst (chunk_sink_call cmax d) /\
  Forall (fun q : bytes => len q <= cmax) (snd (chunk_sink_call cmax d)) /\ snd (chunk_sink_call cmax d) <> [].
Print Assumptions C01_chunk_sink_call.

Theorem C01_chunk_sink_call_count :
  forall (cmax : N) (d : bytes), fst (chunk_sink_call cmax d) = len d /\ fst (chunk_sink_call cmax d) = accept take_whole (len d).
Proof. exact chunk_sink_call_count. Qed.
Check C01_chunk_sink_call_count :
  forall (cmax : N) (d : bytes), fst (chunk_sink_call cmax d) = len d /\ fst (chunk_sink_call cmax d) = accept take_whole (len d).
Print Assumptions C01_chunk_sink_call_count.

(* FlattenWriter::write *)
Theorem C01_flat_sink_call :
  forall (cmax : N) (d : bytes), 0 < cmax ->
  concat (snd (flat_sink_call cmax d)) = d /\ len (concat (snd (flat_sink_call cmax d))) = fst (flat_sink_call cmax d) /\
  Forall (fun q : bytes => q <> [] /\ len q <= cmax) (snd (flat_sink_call cmax d)).
Proof. exact flat_sink_call_carries. Qed.
Check C01_flat_sink_call :
  forall (cmax : N) (d : bytes), 0 < cmax ->
  concat (snd (flat_sink_call cmax d)) = d /\ len (concat (snd (flat_sink_call cmax d))) = fst (flat_sink_call cmax d) /\
  Forall (fun q : bytes => q <> [] /\ len q <= cmax) (snd (flat_sink_call cmax d)).
Print Assumptions C01_flat_sink_call.

Theorem C01_flat_sink_call_count :
  forall (cmax : N) (d : bytes), fst (flat_sink_call cmax d) = len d /\ fst (flat_sink_call cmax d) = accept take_whole (len d).
Proof. exact flat_sink_call_count. Qed.
Check C01_flat_sink_call_count :
  forall (cmax : N) (d : bytes), fst (flat_sink_call cmax d) = len d /\ fst (flat_sink_call cmax d) = accept take_whole (len d).
Print Assumptions C01_flat_sink_call_count.

(* the sink models of Pipeline.v are these calls, one after the other *)
Theorem C01_chunk_sink_at_calls :
  forall (cmax : N) (ps : list bytes), chunk_sink_at cmax ps = concat (map (fun d => snd (chunk_sink_call cmax d)) ps).
Proof. exact chunk_sink_at_calls. Qed.
Check C01_chunk_sink_at_calls :
  forall (cmax : N) (ps : list bytes), chunk_sink_at cmax ps = concat (map (fun d => snd (chunk_sink_call cmax d)) ps).
Print Assumptions C01_chunk_sink_at_calls.

Theorem C01_flat_sink_at_calls :
  forall (cmax : N) (ps : list bytes), flat_sink_at cmax ps = concat (map (fun d => snd (flat_sink_call cmax d)) ps).
Proof. exact flat_sink_at_calls. Qed.
Check C01_flat_sink_at_calls :
  forall (cmax : N) (ps : list bytes), flat_sink_at cmax ps = concat (map (fun d => snd (flat_sink_call cmax d)) ps).
Print Assumptions C01_flat_sink_at_calls.

(* what the `csw` cases compare with the code: count len d, the bytes are well-formed chunks of the type carrying d *)
Theorem C01_chunk_call_bytes :
  forall (ty d : bytes), length ty = 4%nat ->
  exists cs : list chunk, chunk_call_bytes ty CMAX d = (len d, ser_chunks cs) /\ cs <> [] /\
    Forall (fun c : chunk => wf_chunk c /\ cty c = ty) cs /\ concat (map cdata cs) = d.
Proof. exact chunk_call_bytes_spec. Qed.
Check C01_chunk_call_bytes :
  forall (ty d : bytes), length ty = 4%nat ->
  exists cs : list chunk, chunk_call_bytes ty CMAX d = (len d, ser_chunks cs) /\ cs <> [] /\
    Forall (fun c : chunk => wf_chunk c /\ cty c = ty) cs /\ concat (map cdata cs) = d.
Print Assumptions C01_chunk_call_bytes.

(* ---- (c) StreamCipherWriter over ChunkStreamWriter ---------------------------------------------------------- *)
Theorem C01_ctr_over_chunk_sink :
  forall (E : bytes -> bytes -> bytes) (cmax : N) (ws : list bytes) (s : ctrw), 0 < cmax ->
  exists s' cs, ctr_over_chunk_sink E cmax s ws = Ok (s', cs) /\
    concat cs = ctr_xor E (cw_key s) (cw_iv s) (cw_pos s) (concat ws) /\
    ctr_xor E (cw_key s) (cw_iv s) (cw_pos s) (concat cs) = concat ws /\
    Forall (fun q : bytes => len q <= cmax) cs /\ cw_pos s' = cw_pos s + len (concat ws).
Proof. exact ctr_over_chunk_sink_spec. Qed.
Check C01_ctr_over_chunk_sink :
  forall (E : bytes -> bytes -> bytes) (cmax : N) (ws : list bytes) (s : ctrw), 0 < cmax ->
  exists s' cs, ctr_over_chunk_sink E cmax s ws = Ok (s', cs) /\
    concat cs = ctr_xor E (cw_key s) (cw_iv s) (cw_pos s) (concat ws) /\
    ctr_xor E (cw_key s) (cw_iv s) (cw_pos s) (concat cs) = concat ws /\
    Forall (fun q : bytes => len q <= cmax) cs /\ cw_pos s' = cw_pos s + len (concat ws).
Print Assumptions C01_ctr_over_chunk_sink.

(* ---- (d) over a sink that takes part of a write: refuted ----------------------------------------------------- *)
(* toy cipher, key 1..32, IV 0, the sink takes one byte per call, write_all of "abc" *)
Theorem C01_ctr_short_sink_refuted :
  ctrw_new wit_key (repeat x00 16) = Ok wit_s /\
  exists s' outs, ctrw_write_all toy_E (take_cap 1) (length wit_d) wit_s wit_d = Ok (s', outs) /\
    map len outs = [1; 1; 1] /\ cw_pos s' = 6 /\
    concat outs <> ctr_xor toy_E wit_key 0 0 wit_d /\
    ctr_xor toy_E wit_key 0 0 (concat outs) <> wit_d /\
    ctrw_write_all toy_E take_whole (length wit_d) wit_s wit_d = Ok ({| cw_key := wit_key; cw_iv := 0; cw_pos := 3 |}, [ctr_xor toy_E wit_key 0 0 wit_d]).
Proof. exact ctr_short_sink_refuted. Qed.
Check C01_ctr_short_sink_refuted :
  ctrw_new wit_key (repeat x00 16) = Ok wit_s /\
  exists s' outs, ctrw_write_all toy_E (take_cap 1) (length wit_d) wit_s wit_d = Ok (s', outs) /\
    map len outs = [1; 1; 1] /\ cw_pos s' = 6 /\
    concat outs <> ctr_xor toy_E wit_key 0 0 wit_d /\
    ctr_xor toy_E wit_key 0 0 (concat outs) <> wit_d /\
    ctrw_write_all toy_E take_whole (length wit_d) wit_s wit_d = Ok ({| cw_key := wit_key; cw_iv := 0; cw_pos := 3 |}, [ctr_xor toy_E wit_key 0 0 wit_d]).
Print Assumptions C01_ctr_short_sink_refuted.

(* the sink takes t of the first call and the whole re-submitted tail: the tail is keyed at pos + len d, ctr_xor keys it at pos + t *)
Theorem C01_ctr_short_then_whole_misplaces :
  forall (E : bytes -> bytes -> bytes) (take : N -> N) (s : ctrw) (d : bytes) (t : N), 0 < t < len d ->
  take (len d) = t -> take (len d - t) = len d - t ->
  ctrw_write_all E take (length d) s d =
    Ok ({| cw_key := cw_key s; cw_iv := cw_iv s; cw_pos := cw_pos s + (len d + (len d - t)) |},
        [firstn (N.to_nat t) (ctr_xor E (cw_key s) (cw_iv s) (cw_pos s) d); ctr_xor E (cw_key s) (cw_iv s) (cw_pos s + len d) (skipn (N.to_nat t) d)]) /\
  ctr_xor E (cw_key s) (cw_iv s) (cw_pos s) d = firstn (N.to_nat t) (ctr_xor E (cw_key s) (cw_iv s) (cw_pos s) d) ++ ctr_xor E (cw_key s) (cw_iv s) (cw_pos s + t) (skipn (N.to_nat t) d).
Proof. exact ctrw_write_all_short_then_whole. Qed.
Check C01_ctr_short_then_whole_misplaces :
  forall (E : bytes -> bytes -> bytes) (take : N -> N) (s : ctrw) (d : bytes) (t : N), 0 < t < len d ->
  take (len d) = t -> take (len d - t) = len d - t ->
  ctrw_write_all E take (length d) s d =
    Ok ({| cw_key := cw_key s; cw_iv := cw_iv s; cw_pos := cw_pos s + (len d + (len d - t)) |},
        [firstn (N.to_nat t) (ctr_xor E (cw_key s) (cw_iv s) (cw_pos s) d); ctr_xor E (cw_key s) (cw_iv s) (cw_pos s + len d) (skipn (N.to_nat t) d)]) /\
  ctr_xor E (cw_key s) (cw_iv s) (cw_pos s) d = firstn (N.to_nat t) (ctr_xor E (cw_key s) (cw_iv s) (cw_pos s) d) ++ ctr_xor E (cw_key s) (cw_iv s) (cw_pos s + t) (skipn (N.to_nat t) d).
Print Assumptions C01_ctr_short_then_whole_misplaces.

(* seeded/C16-7 is c = 65536 *)
Theorem C01_ctr_cap_sink_misplaces :
  forall (E : bytes -> bytes -> bytes) (c : N) (s : ctrw) (d : bytes), 0 < c < len d -> len d <= 2 * c ->
  ctrw_write_all E (take_cap c) (length d) s d =
    Ok ({| cw_key := cw_key s; cw_iv := cw_iv s; cw_pos := cw_pos s + (len d + (len d - c)) |},
        [firstn (N.to_nat c) (ctr_xor E (cw_key s) (cw_iv s) (cw_pos s) d); ctr_xor E (cw_key s) (cw_iv s) (cw_pos s + len d) (skipn (N.to_nat c) d)]) /\
  ctr_xor E (cw_key s) (cw_iv s) (cw_pos s) d = firstn (N.to_nat c) (ctr_xor E (cw_key s) (cw_iv s) (cw_pos s) d) ++ ctr_xor E (cw_key s) (cw_iv s) (cw_pos s + c) (skipn (N.to_nat c) d).
Proof. exact ctrw_cap_sink_misplaces. Qed.
Check C01_ctr_cap_sink_misplaces :
  forall (E : bytes -> bytes -> bytes) (c : N) (s : ctrw) (d : bytes), 0 < c < len d -> len d <= 2 * c ->
  ctrw_write_all E (take_cap c) (length d) s d =
    Ok ({| cw_key := cw_key s; cw_iv := cw_iv s; cw_pos := cw_pos s + (len d + (len d - c)) |},
        [firstn (N.to_nat c) (ctr_xor E (cw_key s) (cw_iv s) (cw_pos s) d); ctr_xor E (cw_key s) (cw_iv s) (cw_pos s + len d) (skipn (N.to_nat c) d)]) /\
  ctr_xor E (cw_key s) (cw_iv s) (cw_pos s) d = firstn (N.to_nat c) (ctr_xor E (cw_key s) (cw_iv s) (cw_pos s) d) ++ ctr_xor E (cw_key s) (cw_iv s) (cw_pos s + c) (skipn (N.to_nat c) d).
Print Assumptions C01_ctr_cap_sink_misplaces.

(* the right key reads the data back iff the keystream repeats itself len d - t positions later on the whole tail *)
Theorem C01_ctr_short_sink_reads_back_iff :
  forall (E : bytes -> bytes -> bytes) (s : ctrw) (d : bytes) (t : N), 0 < t < len d ->
  let delivered := firstn (N.to_nat t) (ctr_xor E (cw_key s) (cw_iv s) (cw_pos s) d) ++ ctr_xor E (cw_key s) (cw_iv s) (cw_pos s + len d) (skipn (N.to_nat t) d) in
  ctr_xor E (cw_key s) (cw_iv s) (cw_pos s) delivered = d <->
  ctr_xor E (cw_key s) (cw_iv s) (cw_pos s + len d) (skipn (N.to_nat t) d) = ctr_xor E (cw_key s) (cw_iv s) (cw_pos s + t) (skipn (N.to_nat t) d).
Proof. exact ctr_short_sink_reads_back_iff. Qed.
Check C01_ctr_short_sink_reads_back_iff :
  forall (E : bytes -> bytes -> bytes) (s : ctrw) (d : bytes) (t : N), 0 < t < len d ->
  let delivered := firstn (N.to_nat t) (ctr_xor E (cw_key s) (cw_iv s) (cw_pos s) d) ++ ctr_xor E (cw_key s) (cw_iv s) (cw_pos s + len d) (skipn (N.to_nat t) d) in
  ctr_xor E (cw_key s) (cw_iv s) (cw_pos s) delivered = d <->
  ctr_xor E (cw_key s) (cw_iv s) (cw_pos s + len d) (skipn (N.to_nat t) d) = ctr_xor E (cw_key s) (cw_iv s) (cw_pos s + t) (skipn (N.to_nat t) d).
Print Assumptions C01_ctr_short_sink_reads_back_iff.

(* ---- (e) the CBC writer copes ---------------------------------------------------------------------------------- *)
(* std write_all over a sink that takes at least one byte of every non-empty buffer delivers the buffer *)
Theorem C01_write_all_progress :
  forall (take : N -> N), (forall n : N, 0 < n -> 0 < take n) -> forall (fuel : nat) (b : bytes), (length b <= fuel)%nat ->
  exists ps, sink_write_all take fuel b = Ok ps /\ concat ps = b /\ Forall (fun p : bytes => p <> []) ps.
Proof. exact sink_write_all_spec. Qed.
Check C01_write_all_progress :
  forall (take : N -> N), (forall n : N, 0 < n -> 0 < take n) -> forall (fuel : nat) (b : bytes), (length b <= fuel)%nat ->
  exists ps, sink_write_all take fuel b = Ok ps /\ concat ps = b /\ Forall (fun p : bytes => p <> []) ps.
Print Assumptions C01_write_all_progress.

Theorem C01_cbc_write_short_sink_copes :
  forall (E : bytes -> bytes -> bytes) (take : N -> N) (s : cbcw) (d : bytes) (s1 : cbcw) (outs : list bytes) (c : N),
  (forall n : N, 0 < n -> 0 < take n) -> cbcw_write E s d = (s1, outs, c) ->
  exists p, cbcw_write_sink E take s d = Ok (s1, p, c) /\ concat p = concat outs.
Proof. exact cbcw_write_sink_copes. Qed.
Check C01_cbc_write_short_sink_copes :
  forall (E : bytes -> bytes -> bytes) (take : N -> N) (s : cbcw) (d : bytes) (s1 : cbcw) (outs : list bytes) (c : N),
  (forall n : N, 0 < n -> 0 < take n) -> cbcw_write E s d = (s1, outs, c) ->
  exists p, cbcw_write_sink E take s d = Ok (s1, p, c) /\ concat p = concat outs.
Print Assumptions C01_cbc_write_short_sink_copes.

(* writes then finish: the byte stream of CbcFacts.cbc_roundtrip, whatever the sink takes per call *)
Theorem C01_cbc_short_sink_transport :
  forall (E : bytes -> bytes -> bytes) (take : N -> N), (forall n : N, 0 < n -> 0 < take n) ->
  forall (ws : list bytes) (s s' : cbcw) (calls : list (N * list bytes)), cbcw_writes E s ws = (s', calls) ->
  exists p q, cbcw_writes_sink E take s ws = Ok (s', p) /\ cbcw_finish_sink E take s' = Ok q /\
    concat (p ++ q) = concat (concat (map snd calls)) ++ concat (cbcw_finish E s').
Proof. exact cbc_short_sink_transport. Qed.
Check C01_cbc_short_sink_transport :
  forall (E : bytes -> bytes -> bytes) (take : N -> N), (forall n : N, 0 < n -> 0 < take n) ->
  forall (ws : list bytes) (s s' : cbcw) (calls : list (N * list bytes)), cbcw_writes E s ws = (s', calls) ->
  exists p q, cbcw_writes_sink E take s ws = Ok (s', p) /\ cbcw_finish_sink E take s' = Ok q /\
    concat (p ++ q) = concat (concat (map snd calls)) ++ concat (cbcw_finish E s').
Print Assumptions C01_cbc_short_sink_transport.

Theorem C01_cbc_whole_sink_same_calls :
  forall (take : N -> N), (forall n : N, take n = n) -> forall outs : list bytes, deliver_all take outs = Ok (filter ne outs).
Proof. exact deliver_all_whole. Qed.
Check C01_cbc_whole_sink_same_calls :
  forall (take : N -> N), (forall n : N, take n = n) -> forall outs : list bytes, deliver_all take outs = Ok (filter ne outs).
Print Assumptions C01_cbc_whole_sink_same_calls.

(* a sink that takes nothing of a block: WriteZero (printed "Other"), not a silent loss *)
Theorem C01_cbc_zero_sink_reported :
  forall (take : N -> N) (b : bytes) (r : list bytes), b <> [] -> accept take (len b) = 0 -> deliver_all take (b :: r) = Err OtherErr.
Proof. exact deliver_all_zero. Qed.
Check C01_cbc_zero_sink_reported :
  forall (take : N -> N) (b : bytes) (r : list bytes), b <> [] -> accept take (len b) = 0 -> deliver_all take (b :: r) = Err OtherErr.
Print Assumptions C01_cbc_zero_sink_reported.

(* ---- the premises are satisfiable; instances ------------------------------------------------------------------- *)
Example C01_premise_takes_whole : forall n : N, take_whole n = n.
Proof. exact take_whole_whole. Qed.
Example C01_premise_progress_cap1 : forall n : N, 0 < n -> 0 < take_cap 1 n.
Proof. exact (take_cap_progress 1 N.lt_0_1). Qed.
Example C01_premise_short_then_whole : 0 < 1 < len wit_d /\ take_cap 2 (len wit_d) = 2 /\ take_cap 2 (len wit_d - 2) = len wit_d - 2 /\ len wit_d <= 2 * 2.
Proof. vm_compute. repeat split; discriminate. Qed.
(* the CBC writer over the one-byte sink: 20 bytes and finish arrive as 32 one-byte writes, the same ciphertext *)
Example C01_instance_cbc_cap1 :
  let s0 := {| w_key := wit_key; w_prev := repeat x00 16; w_buf := [] |} in
  let d := map (fun i => n2b (N.of_nat i)) (seq 65 20) in
  exists s1 p q c, cbcw_write_sink toy_E (take_cap 1) s0 d = Ok (s1, p, c) /\ cbcw_finish_sink toy_E (take_cap 1) s1 = Ok q /\
    c = 20 /\ map len (p ++ q) = repeat 1 32 /\
    concat (p ++ q) = concat (snd (fst (cbcw_write toy_E s0 d))) ++ concat (cbcw_finish toy_E (fst (fst (cbcw_write toy_E s0 d)))).
Proof. exact cbc_cap1_instance. Qed.
(* the chunk sink call by call with the code's bound: what op `csw` prints for the writes "", "abc" *)
Example C01_instance_csw :
  chunk_stream_calls FDAT CMAX [[]; [x61; x62; x63]] =
  [(0, [x00;x00;x00;x00; x46;x44;x41;x54; x6d;xcc;x16;x48]);
   (3, [x00;x00;x00;x03; x46;x44;x41;x54; x61;x62;x63; xc5;xe7;xa6;x9b])].
Proof. vm_compute. reflexivity. Qed.
