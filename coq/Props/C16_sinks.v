(* Props/C16_sinks.v — C16: "the right password always reads an encrypted entry" in CTR mode rests on the writers below
   the cipher taking whole writes (Props/C01_sinks.v has the writer-side theorems and the context).
     C16_ctr_chunk_sink_right_key_reads     StreamCipherWriter over ChunkStreamWriter (any positive bound), any writes:
                                            the CTR reader with the same key and IV over the emitted payloads returns
                                            the written bytes, for every sequence of read-buffer sizes
     C16_ctr_short_sink_right_key_misreads  the same writer over a sink that takes one byte per call: the reader with the
                                            right key returns three bytes that are not the data (toy cipher witness)
     C16_ctr_cap_sink_misplaces, C16_ctr_short_sink_reads_back_iff   every write of c+1..2c bytes into a sink capped at c
                                            (seeded/C16-7: c = 65536) is delivered with its tail keyed at the wrong
                                            position; the right key reads it only if the keystream repeats itself there
   The premise is tied to the code in props/C16.py by the stream area's `csw` / `ctrw` / `ctr_rt` cases (the count and
   the chunks of every ChunkStreamWriter::write call), and at library level by kdf.rs `pair <writer>+big`. *)
From PNA Require Import Base Crc32 Codec Chunk Flatten Cbc Ctr Pipeline Sinks.
From PNA Require Import BaseFacts ChunkFacts PiecesFacts FlattenFacts CbcFacts CtrFacts PipelineFacts CtrSinkFacts.
Open Scope N_scope.

Theorem C16_ctr_chunk_sink_right_key_reads :
  forall (E : bytes -> bytes -> bytes) (key iv : bytes) (ws : list bytes) (cmax : N) (s0 : ctrw) (ns : list N),
  0 < cmax -> ctrw_new key iv = Ok s0 ->
  exists s' cs st, ctr_over_chunk_sink E cmax s0 ws = Ok (s', cs) /\ ctrr_new key iv cs = Ok st /\
    (exists rest, concat ws = concat (ctrr_read_seq E st ns) ++ rest) /\
    (Forall (fun n : N => 0 < n) ns -> In [] (ctrr_read_seq E st ns) -> concat (ctrr_read_seq E st ns) = concat ws).
Proof. exact ctr_chunk_sink_roundtrip. Qed.
Check C16_ctr_chunk_sink_right_key_reads :
  forall (E : bytes -> bytes -> bytes) (key iv : bytes) (ws : list bytes) (cmax : N) (s0 : ctrw) (ns : list N),
  0 < cmax -> ctrw_new key iv = Ok s0 ->
  exists s' cs st, ctr_over_chunk_sink E cmax s0 ws = Ok (s', cs) /\ ctrr_new key iv cs = Ok st /\
    (exists rest, concat ws = concat (ctrr_read_seq E st ns) ++ rest) /\
    (Forall (fun n : N => 0 < n) ns -> In [] (ctrr_read_seq E st ns) -> concat (ctrr_read_seq E st ns) = concat ws).
Print Assumptions C16_ctr_chunk_sink_right_key_reads.

Theorem C16_ctr_short_sink_right_key_misreads :
  exists s' outs st, ctrw_write_all toy_E (take_cap 1) (length wit_d) wit_s wit_d = Ok (s', outs) /\
    ctrr_new wit_key (repeat x00 16) outs = Ok st /\
    In [] (ctrr_read_seq toy_E st [16; 16; 16; 16]) /\
    len (concat (ctrr_read_seq toy_E st [16; 16; 16; 16])) = len wit_d /\
    concat (ctrr_read_seq toy_E st [16; 16; 16; 16]) <> wit_d.
Proof. exact ctr_short_sink_right_key_misreads. Qed.
Check C16_ctr_short_sink_right_key_misreads :
  exists s' outs st, ctrw_write_all toy_E (take_cap 1) (length wit_d) wit_s wit_d = Ok (s', outs) /\
    ctrr_new wit_key (repeat x00 16) outs = Ok st /\
    In [] (ctrr_read_seq toy_E st [16; 16; 16; 16]) /\
    len (concat (ctrr_read_seq toy_E st [16; 16; 16; 16])) = len wit_d /\
    concat (ctrr_read_seq toy_E st [16; 16; 16; 16]) <> wit_d.
Print Assumptions C16_ctr_short_sink_right_key_misreads.

Theorem C16_ctr_cap_sink_misplaces :
  forall (E : bytes -> bytes -> bytes) (c : N) (s : ctrw) (d : bytes), 0 < c < len d -> len d <= 2 * c ->
  ctrw_write_all E (take_cap c) (length d) s d =
    Ok ({| cw_key := cw_key s; cw_iv := cw_iv s; cw_pos := cw_pos s + (len d + (len d - c)) |},
        [firstn (N.to_nat c) (ctr_xor E (cw_key s) (cw_iv s) (cw_pos s) d); ctr_xor E (cw_key s) (cw_iv s) (cw_pos s + len d) (skipn (N.to_nat c) d)]) /\
  ctr_xor E (cw_key s) (cw_iv s) (cw_pos s) d = firstn (N.to_nat c) (ctr_xor E (cw_key s) (cw_iv s) (cw_pos s) d) ++ ctr_xor E (cw_key s) (cw_iv s) (cw_pos s + c) (skipn (N.to_nat c) d).
Proof. exact ctrw_cap_sink_misplaces. Qed.
Check C16_ctr_cap_sink_misplaces :
  forall (E : bytes -> bytes -> bytes) (c : N) (s : ctrw) (d : bytes), 0 < c < len d -> len d <= 2 * c ->
  ctrw_write_all E (take_cap c) (length d) s d =
    Ok ({| cw_key := cw_key s; cw_iv := cw_iv s; cw_pos := cw_pos s + (len d + (len d - c)) |},
        [firstn (N.to_nat c) (ctr_xor E (cw_key s) (cw_iv s) (cw_pos s) d); ctr_xor E (cw_key s) (cw_iv s) (cw_pos s + len d) (skipn (N.to_nat c) d)]) /\
  ctr_xor E (cw_key s) (cw_iv s) (cw_pos s) d = firstn (N.to_nat c) (ctr_xor E (cw_key s) (cw_iv s) (cw_pos s) d) ++ ctr_xor E (cw_key s) (cw_iv s) (cw_pos s + c) (skipn (N.to_nat c) d).
Print Assumptions C16_ctr_cap_sink_misplaces.

Theorem C16_ctr_short_sink_reads_back_iff :
  forall (E : bytes -> bytes -> bytes) (s : ctrw) (d : bytes) (t : N), 0 < t < len d ->
  let delivered := firstn (N.to_nat t) (ctr_xor E (cw_key s) (cw_iv s) (cw_pos s) d) ++ ctr_xor E (cw_key s) (cw_iv s) (cw_pos s + len d) (skipn (N.to_nat t) d) in
  ctr_xor E (cw_key s) (cw_iv s) (cw_pos s) delivered = d <->
  ctr_xor E (cw_key s) (cw_iv s) (cw_pos s + len d) (skipn (N.to_nat t) d) = ctr_xor E (cw_key s) (cw_iv s) (cw_pos s + t) (skipn (N.to_nat t) d).
Proof. exact ctr_short_sink_reads_back_iff. Qed.
Check C16_ctr_short_sink_reads_back_iff :
  forall (E : bytes -> bytes -> bytes) (s : ctrw) (d : bytes) (t : N), 0 < t < len d ->
  let delivered := firstn (N.to_nat t) (ctr_xor E (cw_key s) (cw_iv s) (cw_pos s) d) ++ ctr_xor E (cw_key s) (cw_iv s) (cw_pos s + len d) (skipn (N.to_nat t) d) in
  ctr_xor E (cw_key s) (cw_iv s) (cw_pos s) delivered = d <->
  ctr_xor E (cw_key s) (cw_iv s) (cw_pos s + len d) (skipn (N.to_nat t) d) = ctr_xor E (cw_key s) (cw_iv s) (cw_pos s + t) (skipn (N.to_nat t) d).
Print Assumptions C16_ctr_short_sink_reads_back_iff.

Example C16_premise_new : ctrw_new wit_key (repeat x00 16) = Ok wit_s.
Proof. vm_compute. reflexivity. Qed.
