(* C08 — encrypted archives leak no plaintext, password or key; salts and IVs are fresh.
   What a model of this code can carry is structural: the PHSF is the PHC string with the hash
   (= the key) taken out; every entry / solid stream consumes its own disjoint piece of the
   random tape (salt and IV); the archive bytes depend on key and plaintext only through the
   ciphertext.  Outside any model of this code, and not claimed: that AES/Camellia output
   reveals nothing about plaintext or key, that ChaCha20 seeded from OS entropy does not
   repeat (the tape has no repeated piece), KDF collision resistance. *)
From PNA Require Import Base Codec Chunk Archive Entry Kdf KdfFacts.

Theorem C08_phsf_has_no_hash :
  forall (key : Type) (kdf : bytes -> option N -> list (bytes * bytes) -> bytes -> bytes -> key)
    (kdf_valid : bytes -> option N -> list (bytes * bytes) -> bytes -> option bytes -> bool)
    (phc_print : phc -> bytes) (phc_parse : bytes -> option phc)
    (m : cipher_mode) (h : hash_alg) (pw tape : bytes) (c : ctx key) (t' : bytes),
  (forall (h : hash_alg) (salt : bytes),
   length salt = SALT_LEN -> kdf_valid (alg_name h) (alg_version h) (alg_params h) salt None = true ->
   phc_parse (phc_print (writer_record h salt None)) = Some (writer_record h salt None)) ->
  writer_context key kdf kdf_valid phc_print m h pw tape = Ok (c, t') ->
  exists p : phc, phc_parse (ctx_phsf c) = Some p /\ ph_hash p = None.
Proof. exact phsf_has_no_hash. Qed.
Check C08_phsf_has_no_hash :
  forall (key : Type) (kdf : bytes -> option N -> list (bytes * bytes) -> bytes -> bytes -> key)
    (kdf_valid : bytes -> option N -> list (bytes * bytes) -> bytes -> option bytes -> bool)
    (phc_print : phc -> bytes) (phc_parse : bytes -> option phc)
    (m : cipher_mode) (h : hash_alg) (pw tape : bytes) (c : ctx key) (t' : bytes),
  (forall (h : hash_alg) (salt : bytes),
   length salt = SALT_LEN -> kdf_valid (alg_name h) (alg_version h) (alg_params h) salt None = true ->
   phc_parse (phc_print (writer_record h salt None)) = Some (writer_record h salt None)) ->
  writer_context key kdf kdf_valid phc_print m h pw tape = Ok (c, t') ->
  exists p : phc, phc_parse (ctx_phsf c) = Some p /\ ph_hash p = None.
Print Assumptions C08_phsf_has_no_hash.

Theorem C08_fresh_draws :
  forall (key : Type) (kdf : bytes -> option N -> list (bytes * bytes) -> bytes -> bytes -> key)
    (kdf_valid : bytes -> option N -> list (bytes * bytes) -> bytes -> option bytes -> bool) (phc_print : phc -> bytes)
    (k : writer_kind) (enc : encryption) (m : cipher_mode) (h : hash_alg) (pw : bytes)
    (n : nat) (tape : bytes) (cs : list (ctx key)) (t' : bytes),
  write_all key kdf kdf_valid phc_print k enc m h pw n tape = Ok (cs, t') ->
  pairwise_disjoint (spans key cs 0) /\
  tape = concat (map ctx_segment cs) ++ t' /\
  Forall (fun c : ctx key => exists salt : list byte,
            ctx_segment c = salt ++ ctx_iv c /\ length salt = SALT_LEN /\
            ctx_phsf c = phc_print (writer_record h salt None)) cs.
Proof. exact fresh_draws. Qed.
Check C08_fresh_draws :
  forall (key : Type) (kdf : bytes -> option N -> list (bytes * bytes) -> bytes -> bytes -> key)
    (kdf_valid : bytes -> option N -> list (bytes * bytes) -> bytes -> option bytes -> bool) (phc_print : phc -> bytes)
    (k : writer_kind) (enc : encryption) (m : cipher_mode) (h : hash_alg) (pw : bytes)
    (n : nat) (tape : bytes) (cs : list (ctx key)) (t' : bytes),
  write_all key kdf kdf_valid phc_print k enc m h pw n tape = Ok (cs, t') ->
  pairwise_disjoint (spans key cs 0) /\
  tape = concat (map ctx_segment cs) ++ t' /\
  Forall (fun c : ctx key => exists salt : list byte,
            ctx_segment c = salt ++ ctx_iv c /\ length salt = SALT_LEN /\
            ctx_phsf c = phc_print (writer_record h salt None)) cs.
Print Assumptions C08_fresh_draws.

Theorem C08_output_factors_through_ciphertext :
  forall (key : Type) (cipher : key -> bytes -> bytes -> list bytes)
    (hdr : fhed) (meta : Entry.metadata) (xs : list xattr) (c1 c2 : ctx key) (pt1 pt2 : bytes),
  ctx_phsf c1 = ctx_phsf c2 -> ctx_iv c1 = ctx_iv c2 ->
  cipher (ctx_key c1) (ctx_iv c1) pt1 = cipher (ctx_key c2) (ctx_iv c2) pt2 ->
  encrypted_archive key cipher hdr meta xs c1 pt1 = encrypted_archive key cipher hdr meta xs c2 pt2.
Proof. exact output_factors_through_ciphertext. Qed.
Check C08_output_factors_through_ciphertext :
  forall (key : Type) (cipher : key -> bytes -> bytes -> list bytes)
    (hdr : fhed) (meta : Entry.metadata) (xs : list xattr) (c1 c2 : ctx key) (pt1 pt2 : bytes),
  ctx_phsf c1 = ctx_phsf c2 -> ctx_iv c1 = ctx_iv c2 ->
  cipher (ctx_key c1) (ctx_iv c1) pt1 = cipher (ctx_key c2) (ctx_iv c2) pt2 ->
  encrypted_archive key cipher hdr meta xs c1 pt1 = encrypted_archive key cipher hdr meta xs c2 pt2.
Print Assumptions C08_output_factors_through_ciphertext.

(* the premises are met: two contexts from one tape, distinct IVs and PHSFs, no hash field *)
Theorem C08_example_fresh :
  match write_all_x PerEntry EAes MCbc (Pbkdf2Sha256 (Some 1)) (lit "pw") 2 (ex_tape ++ ex_tape) with
  | Ok ([c1; c2], t) => negb (bytes_eqb (ctx_iv c1) (ctx_iv c2)) && negb (bytes_eqb (ctx_phsf c1) (ctx_phsf c2))
                        && Nat.eqb (length t) 16
  | _ => false
  end = true.
Proof. exact ex_fresh. Qed.
Check C08_example_fresh :
  match write_all_x PerEntry EAes MCbc (Pbkdf2Sha256 (Some 1)) (lit "pw") 2 (ex_tape ++ ex_tape) with
  | Ok ([c1; c2], t) => negb (bytes_eqb (ctx_iv c1) (ctx_iv c2)) && negb (bytes_eqb (ctx_phsf c1) (ctx_phsf c2))
                        && Nat.eqb (length t) 16
  | _ => false
  end = true.
Print Assumptions C08_example_fresh.
