(* Props/C03_lazy.v — C03 for SolidEntry::entries read LAZILY (Model/Pipeline.v decode_solid_lazy): the iterator pulls
   its chunks from decrypt(FlattenReader) as it goes, so a stored CBC stream whose end is damaged yields the inner
   entries in front of the damage and then the error.  This file: the lazy reader agrees with the eager one wherever
   the eager one succeeds (every C01/C03 theorem about successful decodes transfers), it is independent of the framing
   of the SDAT chunks, and what it yields before an error is a prefix of what the undamaged stream yields.
   Only statements, closed by `exact`, pinned by `Check`, audited by `Print Assumptions`.

   decode_stream_partial enc mode phsf pw data rbufs = Ok (got, f): the bytes the caller of the decrypting reader has
                        received with the buffer sizes rbufs, and how its reads ended (FinErr e: the next read fails
                        with e; the bytes a failing read had already decrypted are lost, as in the code); Err = the
                        reader cannot be constructed.
   inner_entries_lazy sf fuel bs = EntryIterator::next (after fix 66ed01cc: one-byte probe, every error yielded) over a
                        reader that delivers bs and then ends with sf.
   areader / aread / areads = an abstract byte-stream reader (bytes it still has, how it ends), one read, reads.
   partial_spec ...     = the abstract reader the decrypting pipeline IS: for CBC the plaintext of the blocks in
                        front of the first one that cannot be delivered (avail_blocks), then UnexpectedEof (a
                        partial block follows) or InvalidData (the last block does not unpad).
   drains data rbufs    = positive buffer sizes, more reads than data bytes.
   E D                  = the block functions: ANY functions where no hypothesis is stated; D_len = the block
                        function keeps the block length (AES-256 / Camellia-256 of the model: real_D_len).        *)
From PNA Require Import Base Crc32 Name Codec Chunk Archive Entry Flatten Cbc Ctr Pipeline Aes Camellia
  BaseFacts ChunkFacts ArchiveFacts EntryFacts FlattenFacts CbcFacts CtrFacts StreamFacts PipelineFacts DecodeTotalFacts
  AesFacts CamelliaFacts PipelineRun RecutFacts LazySolidFacts.
Open Scope N_scope.

(* 1. agreement on success: whenever the eager reader answers with entries, the lazy one gives the same entries and
   the same ending — for every buffer sequence, every cipher function, every compression *)
Theorem C03_lazy_agrees_on_success :
  forall (E D : encryption -> bytes -> bytes -> bytes) (decompress : compression -> bytes -> res bytes)
         (verify : bytes -> bytes -> res bytes) e pw rbufs r,
  decode_solid E D decompress verify e pw rbufs = Ok r -> decode_solid_lazy E D decompress verify e pw rbufs = Ok r.
Proof. exact lazy_agrees_on_success. Qed.
Check C03_lazy_agrees_on_success :
  forall (E D : encryption -> bytes -> bytes -> bytes) (decompress : compression -> bytes -> res bytes)
         (verify : bytes -> bytes -> res bytes) e pw rbufs r,
  decode_solid E D decompress verify e pw rbufs = Ok r -> decode_solid_lazy E D decompress verify e pw rbufs = Ok r.
Print Assumptions C03_lazy_agrees_on_success.

(* over a reader that ends cleanly the lazy iterator IS the iterator of Entry.v *)
Theorem C03_lazy_iterator_clean_end :
  forall fuel bs, inner_entries_lazy FinOk fuel bs = inner_entries_loop fuel bs.
Proof. exact inner_entries_lazy_ok. Qed.
Check C03_lazy_iterator_clean_end :
  forall fuel bs, inner_entries_lazy FinOk fuel bs = inner_entries_loop fuel bs.
Print Assumptions C03_lazy_iterator_clean_end.

(* 2. framing independence (any block function): the partial view of the decrypting reader, and the lazy expansion of
   a solid entry, are functions of the CONCATENATION of the data chunks — for equal draining buffer sizes *)
Theorem C03_lazy_partial_cut_indep :
  forall (E D : encryption -> bytes -> bytes -> bytes) (verify : bytes -> bytes -> res bytes)
         enc mode phsf pw data1 data2 rbufs,
  concat data1 = concat data2 -> drains data1 rbufs -> drains data2 rbufs ->
  decode_stream_partial E D verify enc mode phsf pw data1 rbufs = decode_stream_partial E D verify enc mode phsf pw data2 rbufs.
Proof. exact decode_stream_partial_cut_indep. Qed.
Check C03_lazy_partial_cut_indep :
  forall (E D : encryption -> bytes -> bytes -> bytes) (verify : bytes -> bytes -> res bytes)
         enc mode phsf pw data1 data2 rbufs,
  concat data1 = concat data2 -> drains data1 rbufs -> drains data2 rbufs ->
  decode_stream_partial E D verify enc mode phsf pw data1 rbufs = decode_stream_partial E D verify enc mode phsf pw data2 rbufs.
Print Assumptions C03_lazy_partial_cut_indep.

Theorem C03_lazy_solid_cut_indep :
  forall (E D : encryption -> bytes -> bytes -> bytes) (decompress : compression -> bytes -> res bytes)
         (verify : bytes -> bytes -> res bytes) s1 s2 pw rbufs,
  so_hdr s1 = so_hdr s2 -> so_phsf s1 = so_phsf s2 -> concat (so_data s1) = concat (so_data s2) ->
  drains (so_data s1) rbufs -> drains (so_data s2) rbufs ->
  decode_solid_lazy E D decompress verify s1 pw rbufs = decode_solid_lazy E D decompress verify s2 pw rbufs.
Proof. exact decode_solid_lazy_cut_indep. Qed.
Check C03_lazy_solid_cut_indep :
  forall (E D : encryption -> bytes -> bytes -> bytes) (decompress : compression -> bytes -> res bytes)
         (verify : bytes -> bytes -> res bytes) s1 s2 pw rbufs,
  so_hdr s1 = so_hdr s2 -> so_phsf s1 = so_phsf s2 -> concat (so_data s1) = concat (so_data s2) ->
  drains (so_data s1) rbufs -> drains (so_data s2) rbufs ->
  decode_solid_lazy E D decompress verify s1 pw rbufs = decode_solid_lazy E D decompress verify s2 pw rbufs.
Print Assumptions C03_lazy_solid_cut_indep.

(* ... but NOT of the buffer sizes (the eager view is: C03_decode_stream_cut_indep): a read that meets the error
   returns no count, what it had decrypted is lost.  Witness: a two-entry CBC solid stream cut inside the second
   entry, read with 4096-byte and with 16-byte buffers *)
Theorem C03_lazy_buffer_independence_refuted :
  exists e rb1 rb2, drains (so_data e) rb1 /\ drains (so_data e) rb2 /\
    decode_solid_lazy toy_E_of toy_D_of id_decompress toy_verify e rx_pw rb1 <>
    decode_solid_lazy toy_E_of toy_D_of id_decompress toy_verify e rx_pw rb2.
Proof. exact lazy_buffer_independence_refuted. Qed.
Check C03_lazy_buffer_independence_refuted :
  exists e rb1 rb2, drains (so_data e) rb1 /\ drains (so_data e) rb2 /\
    decode_solid_lazy toy_E_of toy_D_of id_decompress toy_verify e rx_pw rb1 <>
    decode_solid_lazy toy_E_of toy_D_of id_decompress toy_verify e rx_pw rb2.
Print Assumptions C03_lazy_buffer_independence_refuted.

(* 3. what the partial view is (block function that keeps the block length): the abstract reader partial_spec of the
   concatenated data, read with the caller's buffers; every buffer sequence gets a prefix of what that reader has;
   16-byte buffers (PipelineRun.solid_reads) get all of it, and its ending *)
Theorem C03_lazy_partial_spec :
  forall (E D : encryption -> bytes -> bytes -> bytes) (verify : bytes -> bytes -> res bytes),
  (forall a k c, len16 c -> len16 (D a k c)) ->
  forall enc mode phsf pw data rbufs, drains data rbufs ->
  decode_stream_partial E D verify enc mode phsf pw data rbufs =
  (do ar <- partial_spec E D verify enc mode phsf pw (concat data); Ok (concat (fst (areads ar rbufs)), snd (areads ar rbufs))).
Proof. exact decode_stream_partial_spec. Qed.
Check C03_lazy_partial_spec :
  forall (E D : encryption -> bytes -> bytes -> bytes) (verify : bytes -> bytes -> res bytes),
  (forall a k c, len16 c -> len16 (D a k c)) ->
  forall enc mode phsf pw data rbufs, drains data rbufs ->
  decode_stream_partial E D verify enc mode phsf pw data rbufs =
  (do ar <- partial_spec E D verify enc mode phsf pw (concat data); Ok (concat (fst (areads ar rbufs)), snd (areads ar rbufs))).
Print Assumptions C03_lazy_partial_spec.

Theorem C03_lazy_delivered_is_prefix :
  forall (E D : encryption -> bytes -> bytes -> bytes) (verify : bytes -> bytes -> res bytes),
  (forall a k c, len16 c -> len16 (D a k c)) ->
  forall enc mode phsf pw data rbufs got f, drains data rbufs ->
  decode_stream_partial E D verify enc mode phsf pw data rbufs = Ok (got, f) ->
  exists P f' rest, partial_spec E D verify enc mode phsf pw (concat data) = Ok (P, f') /\ P = got ++ rest.
Proof. exact decode_stream_partial_prefix. Qed.
Check C03_lazy_delivered_is_prefix :
  forall (E D : encryption -> bytes -> bytes -> bytes) (verify : bytes -> bytes -> res bytes),
  (forall a k c, len16 c -> len16 (D a k c)) ->
  forall enc mode phsf pw data rbufs got f, drains data rbufs ->
  decode_stream_partial E D verify enc mode phsf pw data rbufs = Ok (got, f) ->
  exists P f' rest, partial_spec E D verify enc mode phsf pw (concat data) = Ok (P, f') /\ P = got ++ rest.
Print Assumptions C03_lazy_delivered_is_prefix.

Theorem C03_lazy_reads16_deliver_all :
  forall (E D : encryption -> bytes -> bytes -> bytes) (verify : bytes -> bytes -> res bytes),
  (forall a k c, len16 c -> len16 (D a k c)) ->
  forall enc mode phsf pw data k, len (concat data) < N.of_nat k ->
  decode_stream_partial E D verify enc mode phsf pw data (repeat 16 k) = partial_spec E D verify enc mode phsf pw (concat data).
Proof. exact reads16_deliver_all. Qed.
Check C03_lazy_reads16_deliver_all :
  forall (E D : encryption -> bytes -> bytes -> bytes) (verify : bytes -> bytes -> res bytes),
  (forall a k c, len16 c -> len16 (D a k c)) ->
  forall enc mode phsf pw data k, len (concat data) < N.of_nat k ->
  decode_stream_partial E D verify enc mode phsf pw data (repeat 16 k) = partial_spec E D verify enc mode phsf pw (concat data).
Print Assumptions C03_lazy_reads16_deliver_all.

(* the instance the correspondence runs with: the reads PipelineRun makes on a stored solid stream *)
Theorem C03_lazy_solid_reads_deliver_all_real :
  forall (verify : bytes -> bytes -> res bytes) e pw, s_comp (so_hdr e) = CNo ->
  decode_stream_partial real_E_of real_D_of verify (s_enc (so_hdr e)) (s_mode (so_hdr e)) (so_phsf e) pw (so_data e) (solid_reads e) =
  partial_spec real_E_of real_D_of verify (s_enc (so_hdr e)) (s_mode (so_hdr e)) (so_phsf e) pw (concat (so_data e)).
Proof. exact solid_reads_deliver_all. Qed.
Check C03_lazy_solid_reads_deliver_all_real :
  forall (verify : bytes -> bytes -> res bytes) e pw, s_comp (so_hdr e) = CNo ->
  decode_stream_partial real_E_of real_D_of verify (s_enc (so_hdr e)) (s_mode (so_hdr e)) (so_phsf e) pw (so_data e) (solid_reads e) =
  partial_spec real_E_of real_D_of verify (s_enc (so_hdr e)) (s_mode (so_hdr e)) (so_phsf e) pw (concat (so_data e)).
Print Assumptions C03_lazy_solid_reads_deliver_all_real.

(* 4. the entries of a prefix are a prefix of the entries: what the lazy iterator yields from the delivered bytes bs
   (whatever ends them) are the FIRST entries the iterator yields from any stream that begins with bs — in particular
   from the undamaged stream.  Entries are never invented, altered or reordered by a damaged end. *)
Theorem C03_lazy_entries_prefix :
  forall sf more f1 bs f2, (length (bs ++ more) < f2)%nat ->
  exists tail, fst (inner_entries_loop f2 (bs ++ more)) = fst (inner_entries_lazy sf f1 bs) ++ tail.
Proof. exact lazy_entries_prefix. Qed.
Check C03_lazy_entries_prefix :
  forall sf more f1 bs f2, (length (bs ++ more) < f2)%nat ->
  exists tail, fst (inner_entries_loop f2 (bs ++ more)) = fst (inner_entries_lazy sf f1 bs) ++ tail.
Print Assumptions C03_lazy_entries_prefix.

(* 5. cutting a stored solid entry that decodes (every cipher and mode; e' = e with its data cut after m bytes, framed
   in any way): what the lazy reader — with the code's reads, i.e. 16-byte buffers in the model — yields from e' is a
   PREFIX of the entries of e.  (Block function that keeps the block length; instance: AES-256 / Camellia-256.) *)
Theorem C03_lazy_cut_yields_prefix :
  forall (E D : encryption -> bytes -> bytes -> bytes) (decompress : compression -> bytes -> res bytes)
         (verify : bytes -> bytes -> res bytes),
  (forall a k c, len16 c -> len16 (D a k c)) ->
  forall e e' pw rb m k ents fin es f,
  s_comp (so_hdr e) = CNo -> so_hdr e' = so_hdr e -> so_phsf e' = so_phsf e ->
  concat (so_data e') = firstn m (concat (so_data e)) ->
  drains (so_data e) rb -> len (concat (so_data e')) < N.of_nat k ->
  decode_solid E D decompress verify e pw rb = Ok (ents, fin) ->
  decode_solid_lazy E D decompress verify e' pw (repeat 16 k) = Ok (es, f) ->
  exists tail, ents = es ++ tail.
Proof. exact lazy_cut_yields_prefix. Qed.
Check C03_lazy_cut_yields_prefix :
  forall (E D : encryption -> bytes -> bytes -> bytes) (decompress : compression -> bytes -> res bytes)
         (verify : bytes -> bytes -> res bytes),
  (forall a k c, len16 c -> len16 (D a k c)) ->
  forall e e' pw rb m k ents fin es f,
  s_comp (so_hdr e) = CNo -> so_hdr e' = so_hdr e -> so_phsf e' = so_phsf e ->
  concat (so_data e') = firstn m (concat (so_data e)) ->
  drains (so_data e) rb -> len (concat (so_data e')) < N.of_nat k ->
  decode_solid E D decompress verify e pw rb = Ok (ents, fin) ->
  decode_solid_lazy E D decompress verify e' pw (repeat 16 k) = Ok (es, f) ->
  exists tail, ents = es ++ tail.
Print Assumptions C03_lazy_cut_yields_prefix.

Theorem C03_lazy_cut_yields_prefix_real :
  forall (decompress : compression -> bytes -> res bytes) (verify : bytes -> bytes -> res bytes)
         e e' pw rb m k ents fin es f,
  s_comp (so_hdr e) = CNo -> so_hdr e' = so_hdr e -> so_phsf e' = so_phsf e ->
  concat (so_data e') = firstn m (concat (so_data e)) ->
  drains (so_data e) rb -> len (concat (so_data e')) < N.of_nat k ->
  decode_solid real_E_of real_D_of decompress verify e pw rb = Ok (ents, fin) ->
  decode_solid_lazy real_E_of real_D_of decompress verify e' pw (repeat 16 k) = Ok (es, f) ->
  exists tail, ents = es ++ tail.
Proof. exact lazy_cut_yields_prefix_real. Qed.
Check C03_lazy_cut_yields_prefix_real :
  forall (decompress : compression -> bytes -> res bytes) (verify : bytes -> bytes -> res bytes)
         e e' pw rb m k ents fin es f,
  s_comp (so_hdr e) = CNo -> so_hdr e' = so_hdr e -> so_phsf e' = so_phsf e ->
  concat (so_data e') = firstn m (concat (so_data e)) ->
  drains (so_data e) rb -> len (concat (so_data e')) < N.of_nat k ->
  decode_solid real_E_of real_D_of decompress verify e pw rb = Ok (ents, fin) ->
  decode_solid_lazy real_E_of real_D_of decompress verify e' pw (repeat 16 k) = Ok (es, f) ->
  exists tail, ents = es ++ tail.
Print Assumptions C03_lazy_cut_yields_prefix_real.

Theorem C03_lazy_cut_prefix_premises_satisfiable :
  s_comp (so_hdr lx_solid) = CNo /\ so_hdr (lx_cut 128) = so_hdr lx_solid /\ so_phsf (lx_cut 128) = so_phsf lx_solid /\
  concat (so_data (lx_cut 128)) = firstn 128 (concat (so_data lx_solid)) /\
  drains (so_data lx_solid) (repeat 16 200) /\ len (concat (so_data (lx_cut 128))) < N.of_nat 200 /\
  lx_eager lx_solid (repeat 16 200) = Ok ([lit "a"; lit "b"], FinOk) /\
  lx_lazy (lx_cut 128) (repeat 16 200) = Ok ([lit "a"], FinErr InvalidData).
Proof. exact lx_cut_prefix_premises. Qed.
Check C03_lazy_cut_prefix_premises_satisfiable :
  s_comp (so_hdr lx_solid) = CNo /\ so_hdr (lx_cut 128) = so_hdr lx_solid /\ so_phsf (lx_cut 128) = so_phsf lx_solid /\
  concat (so_data (lx_cut 128)) = firstn 128 (concat (so_data lx_solid)) /\
  drains (so_data lx_solid) (repeat 16 200) /\ len (concat (so_data (lx_cut 128))) < N.of_nat 200 /\
  lx_eager lx_solid (repeat 16 200) = Ok ([lit "a"; lit "b"], FinOk) /\
  lx_lazy (lx_cut 128) (repeat 16 200) = Ok ([lit "a"], FinErr InvalidData).
Print Assumptions C03_lazy_cut_prefix_premises_satisfiable.

(* the premises are satisfiable, and the theorems bite: a two-entry stored CBC solid entry (toy block cipher), whole,
   cut between its entries, cut inside the second one, and re-cut into other SDAT chunks *)
Theorem C03_lazy_examples :
  lx_lazy lx_solid (repeat 16 200) = Ok ([lit "a"; lit "b"], FinOk) /\
  lx_lazy (lx_cut 96) (repeat 16 200) = Ok ([lit "a"], FinErr InvalidData) /\
  lx_lazy (lx_cut 135) (repeat 16 200) = Ok ([lit "a"], FinErr UnexpectedEof) /\
  concat (so_data (lx_recut [1; 7; 16; 0; 30; 200]%nat (lx_cut 128))) = concat (so_data (lx_cut 128)) /\
  lx_lazy (lx_recut [1; 7; 16; 0; 30; 200]%nat (lx_cut 128)) (repeat 16 200) = lx_lazy (lx_cut 128) (repeat 16 200).
Proof.
  exact (conj (proj1 (proj2 (proj2 (proj2 lx_shape)))) (conj (proj1 lx_cut_between)
        (conj (proj1 (proj2 (proj2 lx_cut_inside))) lx_recut_same))).
Qed.
Check C03_lazy_examples :
  lx_lazy lx_solid (repeat 16 200) = Ok ([lit "a"; lit "b"], FinOk) /\
  lx_lazy (lx_cut 96) (repeat 16 200) = Ok ([lit "a"], FinErr InvalidData) /\
  lx_lazy (lx_cut 135) (repeat 16 200) = Ok ([lit "a"], FinErr UnexpectedEof) /\
  concat (so_data (lx_recut [1; 7; 16; 0; 30; 200]%nat (lx_cut 128))) = concat (so_data (lx_cut 128)) /\
  lx_lazy (lx_recut [1; 7; 16; 0; 30; 200]%nat (lx_cut 128)) (repeat 16 200) = lx_lazy (lx_cut 128) (repeat 16 200).
Print Assumptions C03_lazy_examples.
