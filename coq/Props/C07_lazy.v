(* Props/C07_lazy.v — C07 for SolidEntry::entries read LAZILY on hostile data (Model/Pipeline.v decode_solid_lazy,
   EntryIterator after the fixes a1692e54 and 66ed01cc): for ALL data chunks, every PHSF, password, block function and
   sequence of read-buffer sizes the lazy reader does not reach a Rust panic site and the iterator terminates; a
   damaged stream is never cut off silently (a clean lazy end is a clean eager end); and the model's reader is the
   code's reader: the CBC decrypting reader is a byte-stream reader over the plaintext in front of the first bad
   block, and the EntryIterator with the read calls the code makes (one-byte probe, read_exact of 4, 4, length, 4
   bytes through the Chain of the probe byte and the reader) over it is the lazy model.
   Only statements, closed by `exact`, pinned by `Check`, audited by `Print Assumptions`.

   avail D st           = what the CBC reader in state st can still deliver (bytes, ending): `remaining`, then the
                          plaintext of the blocks up to the first that is followed by a partial block
                          (UnexpectedEof) or that is the last one and does not unpad (InvalidData).
   winv st              = before the last block has been seen, IV register and look-ahead block are 16 bytes
                          (true of every state the reader reaches from cbcr_new: cbcr_new_avail, cbcr_read_avail).
   aread a n            = Read::read with an n-byte buffer on the abstract reader a = (bytes, ending).
   solid_entries_code   = decrypt_reader (PHSF, key derivation, IV, first block) and then the EntryIterator making its
                          own reads on the CBC reader; fuel = bound on read calls per read_exact (2 suffice), cf = bound
                          on chunks per entry, ef = bound on entries: the theorem holds for every sufficient bound.   *)
From PNA Require Import Base Crc32 Name Codec Chunk Archive Entry Flatten Cbc Ctr Pipeline Aes Camellia
  BaseFacts ChunkFacts ArchiveFacts EntryFacts FlattenFacts CbcFacts CtrFacts StreamFacts PipelineFacts DecodeTotalFacts
  AesFacts CamelliaFacts PipelineRun RecutFacts LazySolidFacts.
Open Scope N_scope.

(* 1. never Panic, and the iterator terminates (its fuel, S (length delivered), is never exhausted): ANY block function *)
Theorem C07_lazy_solid_entries_never_panic_or_hang :
  forall (E D : encryption -> bytes -> bytes -> bytes) (decompress : compression -> bytes -> res bytes)
         (verify : bytes -> bytes -> res bytes),
  (forall s pw, verify s pw <> Panic) -> (forall c bs, decompress c bs <> Panic) ->
  forall e pw rbufs,
  decode_solid_lazy E D decompress verify e pw rbufs <> Panic /\
  forall es f, decode_solid_lazy E D decompress verify e pw rbufs = Ok (es, f) -> f <> FinPanic.
Proof. exact decode_solid_lazy_no_panic. Qed.
Check C07_lazy_solid_entries_never_panic_or_hang :
  forall (E D : encryption -> bytes -> bytes -> bytes) (decompress : compression -> bytes -> res bytes)
         (verify : bytes -> bytes -> res bytes),
  (forall s pw, verify s pw <> Panic) -> (forall c bs, decompress c bs <> Panic) ->
  forall e pw rbufs,
  decode_solid_lazy E D decompress verify e pw rbufs <> Panic /\
  forall es f, decode_solid_lazy E D decompress verify e pw rbufs = Ok (es, f) -> f <> FinPanic.
Print Assumptions C07_lazy_solid_entries_never_panic_or_hang.

Theorem C07_lazy_solid_entries_never_panic_or_hang_real :
  forall (decompress : compression -> bytes -> res bytes) (verify : bytes -> bytes -> res bytes),
  (forall s pw, verify s pw <> Panic) -> (forall c bs, decompress c bs <> Panic) ->
  forall e pw rbufs,
  decode_solid_lazy real_E_of real_D_of decompress verify e pw rbufs <> Panic /\
  forall es f, decode_solid_lazy real_E_of real_D_of decompress verify e pw rbufs = Ok (es, f) -> f <> FinPanic.
Proof. exact (decode_solid_lazy_no_panic real_E_of real_D_of). Qed.
Check C07_lazy_solid_entries_never_panic_or_hang_real :
  forall (decompress : compression -> bytes -> res bytes) (verify : bytes -> bytes -> res bytes),
  (forall s pw, verify s pw <> Panic) -> (forall c bs, decompress c bs <> Panic) ->
  forall e pw rbufs,
  decode_solid_lazy real_E_of real_D_of decompress verify e pw rbufs <> Panic /\
  forall es f, decode_solid_lazy real_E_of real_D_of decompress verify e pw rbufs = Ok (es, f) -> f <> FinPanic.
Print Assumptions C07_lazy_solid_entries_never_panic_or_hang_real.

(* the partial view of the decrypting reader never ends in Panic either *)
Theorem C07_lazy_partial_view_never_panics :
  forall (E D : encryption -> bytes -> bytes -> bytes) (verify : bytes -> bytes -> res bytes)
         enc mode phsf pw data rbufs got sf,
  decode_stream_partial E D verify enc mode phsf pw data rbufs = Ok (got, sf) -> sf <> FinPanic.
Proof. exact partial_np. Qed.
Check C07_lazy_partial_view_never_panics :
  forall (E D : encryption -> bytes -> bytes -> bytes) (verify : bytes -> bytes -> res bytes)
         enc mode phsf pw data rbufs got sf,
  decode_stream_partial E D verify enc mode phsf pw data rbufs = Ok (got, sf) -> sf <> FinPanic.
Print Assumptions C07_lazy_partial_view_never_panics.

(* 2. lazy against eager on ANY data (any block function, any buffers): a lazy construction error is the eager error;
   a CLEAN lazy end is a clean eager end with the same entries (nothing is cut off silently); a lazy error after es
   means the eager reader gives the same or fails as a whole; an eager failure is never a clean lazy end *)
Theorem C07_lazy_tells_eager :
  forall (E D : encryption -> bytes -> bytes -> bytes) (decompress : compression -> bytes -> res bytes)
         (verify : bytes -> bytes -> res bytes) e pw rbufs,
  (forall k, decode_solid_lazy E D decompress verify e pw rbufs = Err k -> decode_solid E D decompress verify e pw rbufs = Err k) /\
  (forall es, decode_solid_lazy E D decompress verify e pw rbufs = Ok (es, FinOk) ->
     decode_solid E D decompress verify e pw rbufs = Ok (es, FinOk)) /\
  (forall es k, decode_solid_lazy E D decompress verify e pw rbufs = Ok (es, FinErr k) ->
     decode_solid E D decompress verify e pw rbufs = Ok (es, FinErr k) \/
     exists k', decode_solid E D decompress verify e pw rbufs = Err k') /\
  (forall k, decode_solid E D decompress verify e pw rbufs = Err k ->
     decode_solid_lazy E D decompress verify e pw rbufs = Err k \/
     exists es k', decode_solid_lazy E D decompress verify e pw rbufs = Ok (es, FinErr k')).
Proof. exact lazy_tells_eager. Qed.
Check C07_lazy_tells_eager :
  forall (E D : encryption -> bytes -> bytes -> bytes) (decompress : compression -> bytes -> res bytes)
         (verify : bytes -> bytes -> res bytes) e pw rbufs,
  (forall k, decode_solid_lazy E D decompress verify e pw rbufs = Err k -> decode_solid E D decompress verify e pw rbufs = Err k) /\
  (forall es, decode_solid_lazy E D decompress verify e pw rbufs = Ok (es, FinOk) ->
     decode_solid E D decompress verify e pw rbufs = Ok (es, FinOk)) /\
  (forall es k, decode_solid_lazy E D decompress verify e pw rbufs = Ok (es, FinErr k) ->
     decode_solid E D decompress verify e pw rbufs = Ok (es, FinErr k) \/
     exists k', decode_solid E D decompress verify e pw rbufs = Err k') /\
  (forall k, decode_solid E D decompress verify e pw rbufs = Err k ->
     decode_solid_lazy E D decompress verify e pw rbufs = Err k \/
     exists es k', decode_solid_lazy E D decompress verify e pw rbufs = Ok (es, FinErr k')).
Print Assumptions C07_lazy_tells_eager.

(* in front of a pending stream error the iteration always ends with an error *)
Theorem C07_lazy_pending_error_is_reported :
  forall e fuel bs, snd (inner_entries_lazy (FinErr e) fuel bs) <> FinOk.
Proof. exact inner_entries_lazy_err_not_ok. Qed.
Check C07_lazy_pending_error_is_reported :
  forall e fuel bs, snd (inner_entries_lazy (FinErr e) fuel bs) <> FinOk.
Print Assumptions C07_lazy_pending_error_is_reported.

(* 3. the CBC decrypting reader is a byte-stream reader over `avail` (block function that keeps the block length):
   one Read::read on hostile ciphertext, whatever the buffer size and the state, is one read of the abstract reader —
   n bytes while there are n, the rest at a clean end, the error as soon as a byte behind the last good block is needed *)
Theorem C07_lazy_cbc_reader_is_byte_stream :
  forall (D : bytes -> bytes -> bytes), (forall k c, len16 c -> len16 (D k c)) ->
  forall st n, winv st ->
  match aread (avail D st) n with
  | Ok (a', out) => exists st', cbcr_read D st n = Ok (st', out) /\ avail D st' = a' /\ winv st'
  | Err e => cbcr_read D st n = Err e
  | Panic => False
  end.
Proof. exact cbcr_read_avail. Qed.
Check C07_lazy_cbc_reader_is_byte_stream :
  forall (D : bytes -> bytes -> bytes), (forall k c, len16 c -> len16 (D k c)) ->
  forall st n, winv st ->
  match aread (avail D st) n with
  | Ok (a', out) => exists st', cbcr_read D st n = Ok (st', out) /\ avail D st' = a' /\ winv st'
  | Err e => cbcr_read D st n = Err e
  | Panic => False
  end.
Print Assumptions C07_lazy_cbc_reader_is_byte_stream.

Theorem C07_lazy_cbc_reader_fresh :
  forall (D : bytes -> bytes -> bytes) key iv src st, cbcr_new key iv src = Ok st ->
  winv st /\ r_rem st = [] /\ r_eof st = false /\
  avail D st = avail_blocks D key iv (firstn 16 (concat src)) (chunks 16 (skipn 16 (concat src))).
Proof. exact cbcr_new_avail. Qed.
Check C07_lazy_cbc_reader_fresh :
  forall (D : bytes -> bytes -> bytes) key iv src st, cbcr_new key iv src = Ok st ->
  winv st /\ r_rem st = [] /\ r_eof st = false /\
  avail D st = avail_blocks D key iv (firstn 16 (concat src)) (chunks 16 (skipn 16 (concat src))).
Print Assumptions C07_lazy_cbc_reader_fresh.

(* 4. the error precedence, proved: the EntryIterator making the code's own read calls on the CBC reader yields what
   the lazy iterator yields over `avail` — a broken chunk or an unparsable entry inside the delivered bytes first;
   where the bytes run out, the reader's error (also at an entry boundary: the probe meets it), UnexpectedEof inside
   an entry at a clean end, the clean end only between two entries *)
Theorem C07_lazy_iterator_over_cbc_reader :
  forall (D : encryption -> bytes -> bytes -> bytes), (forall a k c, len16 c -> len16 (D a k c)) ->
  forall a fuel cf ef st P f, (2 <= fuel)%nat -> winv st -> avail (D a) st = (P, f) -> (length P < cf)%nat ->
  it_all cbcr (cbcr_read (D a)) fuel cf ef st = inner_entries_lazy f ef P.
Proof. exact cbc_iterator_spec. Qed.
Check C07_lazy_iterator_over_cbc_reader :
  forall (D : encryption -> bytes -> bytes -> bytes), (forall a k c, len16 c -> len16 (D a k c)) ->
  forall a fuel cf ef st P f, (2 <= fuel)%nat -> winv st -> avail (D a) st = (P, f) -> (length P < cf)%nat ->
  it_all cbcr (cbcr_read (D a)) fuel cf ef st = inner_entries_lazy f ef P.
Print Assumptions C07_lazy_iterator_over_cbc_reader.

(* ... hence SolidEntry::entries on a stored CBC solid entry, as the code runs it, is the lazy model read with
   16-byte buffers; instance: what PipelineRun prints for such an entry (real AES-256 / Camellia-256) *)
Theorem C07_lazy_chunk_reader_refines :
  forall (E D : encryption -> bytes -> bytes -> bytes) (decompress : compression -> bytes -> res bytes)
         (verify : bytes -> bytes -> res bytes),
  (forall a k c, len16 c -> len16 (D a k c)) ->
  forall e pw k fuel cf,
  s_comp (so_hdr e) = CNo -> s_enc (so_hdr e) <> ENo -> s_mode (so_hdr e) = MCbc ->
  len (concat (so_data e)) < N.of_nat k -> (2 <= fuel)%nat -> (length (concat (so_data e)) < cf)%nat ->
  solid_entries_code D verify fuel cf (S (length (concat (so_data e)))) e pw =
  decode_solid_lazy E D decompress verify e pw (repeat 16 k).
Proof. exact chunk_reader_refines. Qed.
Check C07_lazy_chunk_reader_refines :
  forall (E D : encryption -> bytes -> bytes -> bytes) (decompress : compression -> bytes -> res bytes)
         (verify : bytes -> bytes -> res bytes),
  (forall a k c, len16 c -> len16 (D a k c)) ->
  forall e pw k fuel cf,
  s_comp (so_hdr e) = CNo -> s_enc (so_hdr e) <> ENo -> s_mode (so_hdr e) = MCbc ->
  len (concat (so_data e)) < N.of_nat k -> (2 <= fuel)%nat -> (length (concat (so_data e)) < cf)%nat ->
  solid_entries_code D verify fuel cf (S (length (concat (so_data e)))) e pw =
  decode_solid_lazy E D decompress verify e pw (repeat 16 k).
Print Assumptions C07_lazy_chunk_reader_refines.

Theorem C07_lazy_show_solid_is_the_iterator_real :
  forall (decompress : compression -> bytes -> res bytes) (verify : bytes -> bytes -> res bytes) e pw fuel cf,
  s_comp (so_hdr e) = CNo -> s_enc (so_hdr e) <> ENo -> s_mode (so_hdr e) = MCbc ->
  (2 <= fuel)%nat -> (length (concat (so_data e)) < cf)%nat ->
  decode_solid_lazy real_E_of real_D_of decompress verify e pw (solid_reads e) =
  solid_entries_code real_D_of verify fuel cf (S (length (concat (so_data e)))) e pw.
Proof. exact show_solid_is_the_iterator. Qed.
Check C07_lazy_show_solid_is_the_iterator_real :
  forall (decompress : compression -> bytes -> res bytes) (verify : bytes -> bytes -> res bytes) e pw fuel cf,
  s_comp (so_hdr e) = CNo -> s_enc (so_hdr e) <> ENo -> s_mode (so_hdr e) = MCbc ->
  (2 <= fuel)%nat -> (length (concat (so_data e)) < cf)%nat ->
  decode_solid_lazy real_E_of real_D_of decompress verify e pw (solid_reads e) =
  solid_entries_code real_D_of verify fuel cf (S (length (concat (so_data e)))) e pw.
Print Assumptions C07_lazy_show_solid_is_the_iterator_real.

(* the premises are met: the model's AES-256 / Camellia-256 keep the block length, the stand-ins do not panic; and
   the damaged-end cases exist (toy block cipher): cut between two inner entries, inside one, with a partial block *)
Theorem C07_lazy_premises_satisfiable :
  (forall (a : encryption) (k c : bytes), len16 c -> len16 (real_D_of a k c)) /\
  (forall s pw, toy_verify s pw <> Panic) /\ (forall c bs, id_decompress c bs <> Panic) /\
  lx_lazy (lx_cut 96) (repeat 16 200) = Ok ([lit "a"], FinErr InvalidData) /\ lx_eager (lx_cut 96) (repeat 16 200) = Err InvalidData /\
  lx_lazy (lx_cut 128) (repeat 16 200) = Ok ([lit "a"], FinErr InvalidData) /\
  lx_lazy (lx_cut 135) (repeat 16 200) = Ok ([lit "a"], FinErr UnexpectedEof).
Proof.
  exact (conj real_D_len (conj toy_verify_np (conj id_decompress_np (conj (proj1 lx_cut_between) (conj (proj2 lx_cut_between)
        (conj (proj1 lx_cut_inside) (proj1 (proj2 (proj2 lx_cut_inside))))))))).
Qed.
Check C07_lazy_premises_satisfiable :
  (forall (a : encryption) (k c : bytes), len16 c -> len16 (real_D_of a k c)) /\
  (forall s pw, toy_verify s pw <> Panic) /\ (forall c bs, id_decompress c bs <> Panic) /\
  lx_lazy (lx_cut 96) (repeat 16 200) = Ok ([lit "a"], FinErr InvalidData) /\ lx_eager (lx_cut 96) (repeat 16 200) = Err InvalidData /\
  lx_lazy (lx_cut 128) (repeat 16 200) = Ok ([lit "a"], FinErr InvalidData) /\
  lx_lazy (lx_cut 135) (repeat 16 200) = Ok ([lit "a"], FinErr UnexpectedEof).
Print Assumptions C07_lazy_premises_satisfiable.
