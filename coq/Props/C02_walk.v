(* Props/C02_walk.v — C02 for walks that reach a path more than once (overlapping file arguments of create:
   `pna create a.pna -r t t/a`, `t/a t/a`, `./t/a t/a`).

   Since fix 4cfc8ff5 collect_items keeps the first walked path of every entry name; Model/Extract.v
   create_from_walk is that rule (`seen` set of names over the walked paths that pass the filter), and
   create_from_tree c order t of Props/C02.v is the special case of a walk that reaches every path once.
   The premise of C02_create_extract "the order lists every path of the tree ONCE" (Permutation (map fst t) order,
   hence NoDup order) is gone: walk_ok asks that the walker reaches exactly the paths of the tree, any of them
   perhaps several times, and — only with --keep-dir without --overwrite — that no path is FIRST reached before a
   directory above it.  Distinctness of the archived names is derived (C02_create_walk_names_nodup: no premise at
   all).  C02_walk_order_of_walk carries every theorem stated for create_from_tree c order t (Props/C02.v,
   C02_split.v, C02_overlay.v, C14_create.v) to create_from_walk c walk t with order := uniq_paths walk.
   What stays: wf_tree / tree_ok (the TREE is a map: one node per path; Normal components — this is also what makes
   the entry name determine the path), o_guarded, parents-first with --keep-dir, out.
   The code before the repair: C02_create_overlap_unrepaired_refuted. *)
From PNA Require Import Base Name Fs Extract BaseFacts NameFacts ExtractFacts CreateExtractFacts CreateWalkFacts.
Require Import Permutation.
Open Scope N_scope.

Theorem C02_create_extract_walk : forall c o out walk t,
  o_guarded o = true -> wf_tree t -> tree_ok t -> walk_ok c o t walk ->
  Forall ExtractFacts.plain out -> out <> [] ->
  tree_of c o out (uniq_paths walk) (extract_all o out (create_from_walk c walk t) (empty_dir out))
    = expected c o (uniq_paths walk) t /\
  snd (extract_run o out (create_from_walk c walk t) (empty_dir out)) = true.
Proof. exact create_extract_walk. Qed.
Check C02_create_extract_walk : forall c o out walk t,
  o_guarded o = true -> wf_tree t -> tree_ok t -> walk_ok c o t walk ->
  Forall ExtractFacts.plain out -> out <> [] ->
  tree_of c o out (uniq_paths walk) (extract_all o out (create_from_walk c walk t) (empty_dir out))
    = expected c o (uniq_paths walk) t /\
  snd (extract_run o out (create_from_walk c walk t) (empty_dir out)) = true.
Print Assumptions C02_create_extract_walk.

(* the premise, spelled out *)
Theorem C02_walk_ok_unfolded : forall c o t walk,
  walk_ok c o t walk <->
    (forall p, In p walk <-> In p (map fst t)) /\
    (c_keep_dir c = true -> o_overwrite o = false ->
     forall l1 p l2 q, uniq_paths walk = l1 ++ p :: l2 -> In q l1 -> ~ strictly_below p q).
Proof. exact walk_ok_unfolded. Qed.
Print Assumptions C02_walk_ok_unfolded.

(* what create archives for a walk is what it archives for the distinct walked paths in walk order, and these are an
   order in the sense of Props/C02.v: every theorem there applies *)
Theorem C02_walk_order_of_walk : forall c o t walk, wf_tree t -> tree_ok t -> walk_ok c o t walk ->
  walk_order_ok c o t (uniq_paths walk) /\ create_from_walk c walk t = create_from_tree c (uniq_paths walk) t.
Proof. exact walk_order_of_walk. Qed.
Check C02_walk_order_of_walk : forall c o t walk, wf_tree t -> tree_ok t -> walk_ok c o t walk ->
  walk_order_ok c o t (uniq_paths walk) /\ create_from_walk c walk t = create_from_tree c (uniq_paths walk) t.
Print Assumptions C02_walk_order_of_walk.

(* conversely an order of Props/C02.v is a walk, its own list of distinct paths: nothing changed for it *)
Theorem C02_walk_ok_of_order : forall c o t order, wf_tree t -> walk_order_ok c o t order -> tree_ok t ->
  walk_ok c o t order /\ uniq_paths order = order.
Proof. exact walk_ok_of_order. Qed.
Check C02_walk_ok_of_order : forall c o t order, wf_tree t -> walk_order_ok c o t order -> tree_ok t ->
  walk_ok c o t order /\ uniq_paths order = order.
Print Assumptions C02_walk_ok_of_order.

Theorem C02_create_from_walk_nodup : forall c t walk, wf_walk walk -> NoDup walk ->
  create_from_walk c walk t = create_from_tree c walk t.
Proof. exact create_from_walk_nodup. Qed.
Check C02_create_from_walk_nodup : forall c t walk, wf_walk walk -> NoDup walk ->
  create_from_walk c walk t = create_from_tree c walk t.
Print Assumptions C02_create_from_walk_nodup.

(* the distinct walked paths: each once, exactly the walked ones *)
Theorem C02_uniq_paths : forall walk, NoDup (uniq_paths walk) /\ (wf_walk walk -> forall p, In p (uniq_paths walk) <-> In p walk).
Proof. exact uniq_paths_spec. Qed.
Check C02_uniq_paths : forall walk, NoDup (uniq_paths walk) /\ (wf_walk walk -> forall p, In p (uniq_paths walk) <-> In p walk).
Print Assumptions C02_uniq_paths.

(* no entry name twice in what create archives: for EVERY walk and EVERY tree, no premise *)
Theorem C02_create_walk_names_nodup : forall c t walk, NoDup (map e_name (create_from_walk c walk t)).
Proof. exact create_from_walk_names_nodup. Qed.
Check C02_create_walk_names_nodup : forall c t walk, NoDup (map e_name (create_from_walk c walk t)).
Print Assumptions C02_create_walk_names_nodup.

(* create as it was before 4cfc8ff5 on the walk of `pna create a.pna -r t t/a` (t, t/a, t/a): every premise of
   C02_create_extract_walk holds, t/a is archived twice, and the extraction of that archive fails (the second copy
   meets AlreadyExists) *)
Theorem C02_create_overlap_unrepaired_refuted :
  wf_tree ov_tree /\ tree_ok ov_tree /\ walk_ok ov_c ov_o ov_tree ov_walk /\
  map e_name (create_from_walk_orig ov_c ov_walk ov_tree) = [lit "t/a"; lit "t/a"] /\
  ~ NoDup (map e_name (create_from_walk_orig ov_c ov_walk ov_tree)) /\
  snd (extract_run ov_o ex_out (create_from_walk_orig ov_c ov_walk ov_tree) (empty_dir ex_out)) = false.
Proof. exact create_overlap_unrepaired. Qed.
Check C02_create_overlap_unrepaired_refuted :
  wf_tree ov_tree /\ tree_ok ov_tree /\ walk_ok ov_c ov_o ov_tree ov_walk /\
  map e_name (create_from_walk_orig ov_c ov_walk ov_tree) = [lit "t/a"; lit "t/a"] /\
  ~ NoDup (map e_name (create_from_walk_orig ov_c ov_walk ov_tree)) /\
  snd (extract_run ov_o ex_out (create_from_walk_orig ov_c ov_walk ov_tree) (empty_dir ex_out)) = false.
Print Assumptions C02_create_overlap_unrepaired_refuted.

(* the repaired create on the same walk: t/a once, extraction succeeds; the premises are satisfiable *)
Example C02_create_overlap_repaired :
  map e_name (create_from_walk ov_c ov_walk ov_tree) = [lit "t/a"] /\
  snd (extract_run ov_o ex_out (create_from_walk ov_c ov_walk ov_tree) (empty_dir ex_out)) = true.
Proof. exact create_overlap_repaired. Qed.
Example C02_walk_premises_met : wf_tree ov_tree /\ tree_ok ov_tree /\ walk_ok ov_c ov_o ov_tree ov_walk.
Proof. exact ov_premises. Qed.
