(* C15, CLI half — to be merged into Props/C15.v.
   Needs, in the import line of Props/C15.v:   CliCodec CliCodecFacts   (Model and Proofs).
   Only statements, closed by `exact`, pinned by `Check`, audited by `Print Assumptions`. *)
From PNA Require Import Base CliCodec BaseFacts CliCodecFacts.
Open Scope N_scope.

(* ---- access-control entries in their textual form ---------------------------------------- *)
(* the name-set codec, for ANY table of pairwise distinct, non-empty, comma- and colon-free names *)
Theorem C15_ace_nameset_any_table : forall tbl v, wf_table_b tbl = true -> restrict tbl v = v ->
  set_of_string tbl (set_to_string tbl v) = v /\ ~ In colon (set_to_string tbl v).
Proof. exact set_inv_table. Qed.
Check C15_ace_nameset_any_table : forall tbl v, wf_table_b tbl = true -> restrict tbl v = v ->
  set_of_string tbl (set_to_string tbl v) = v /\ ~ In colon (set_to_string tbl v).
Print Assumptions C15_ace_nameset_any_table.

Theorem C15_ace_tables_cover :
  (wf_table_b flag_table = true /\ forall v, v < 64 -> restrict flag_table v = v) /\
  (wf_table_b perm_table = true /\ forall v, v < 65536 -> restrict perm_table v = v).
Proof. exact (conj (conj flag_table_wf flag_table_covers) (conj perm_table_wf perm_table_covers)). Qed.
Print Assumptions C15_ace_tables_cover.

Theorem C15_ace_inverse : forall a, wf_ace a -> ace_of_string (ace_to_string a) = Ok a.
Proof. exact ace_inv. Qed.
Check C15_ace_inverse : forall a,
  (a_flags a < 64 /\ a_perm a < 65536 /\ wf_ident (a_owner a)) -> ace_of_string (ace_to_string a) = Ok a.
Print Assumptions C15_ace_inverse.
Example C15_ace_inverse_premise :
  wf_ace {| a_flags := 63; a_owner := User (lit "alice"); a_allow := false; a_perm := 65535 |}.
Proof. repeat split; cbn; try lia; try discriminate; intuition discriminate. Qed.

Theorem C15_ace_stable : forall s a, ace_of_string s = Ok a -> ace_of_string (ace_to_string a) = Ok a.
Proof. exact ace_stable. Qed.
Check C15_ace_stable : forall s a, ace_of_string s = Ok a -> ace_of_string (ace_to_string a) = Ok a.
Print Assumptions C15_ace_stable.
Example C15_ace_stable_premise : exists a, ace_of_string (lit "inherited,d:user:bob:deny:x,read,chown") = Ok a.
Proof. eexists. vm_compute. reflexivity. Qed.

Theorem C15_ace_platform_inverse : forall p a, wf_opt_platform p -> wf_ace a ->
  awp_of_string (awp_to_string (p, a)) = Ok (p, a).
Proof. exact ace_platform_inv. Qed.
Check C15_ace_platform_inverse : forall p a, wf_opt_platform p -> wf_ace a ->
  awp_of_string (awp_to_string (p, a)) = Ok (p, a).
Print Assumptions C15_ace_platform_inverse.
Example C15_ace_platform_inverse_premise :
  wf_opt_platform None /\ wf_opt_platform (Some General) /\ wf_opt_platform (Some (Unknown (lit "solaris"))).
Proof. repeat split; cbn; try discriminate; intuition discriminate. Qed.

Theorem C15_ace_platform_stable : forall s pa, awp_of_string s = Ok pa -> awp_of_string (awp_to_string pa) = Ok pa.
Proof. exact ace_platform_stable. Qed.
Check C15_ace_platform_stable : forall s pa, awp_of_string s = Ok pa -> awp_of_string (awp_to_string pa) = Ok pa.
Print Assumptions C15_ace_platform_stable.

Theorem C15_platform_inverse : forall p, wf_platform p -> platform_of_string (platform_to_string p) = p.
Proof. exact platform_inv. Qed.
Print Assumptions C15_platform_inverse.

(* ---- extended-attribute values as printed and parsed by the CLI --------------------------- *)
Theorem C15_xattr_hex_inverse : forall v, value_of_string (display_hex v) = Ok v.
Proof. exact xattr_hex_inv. Qed.
Check C15_xattr_hex_inverse : forall v, value_of_string (display_hex v) = Ok v.
Print Assumptions C15_xattr_hex_inverse.

Theorem C15_xattr_b64_inverse : forall v, value_of_string (display_base64 v) = Ok v.
Proof. exact xattr_b64_inv. Qed.
Check C15_xattr_b64_inverse : forall v, value_of_string (display_base64 v) = Ok v.
Print Assumptions C15_xattr_b64_inverse.

Theorem C15_xattr_value_stable : forall s v, value_of_string s = Ok v ->
  value_of_string (display_hex v) = Ok v /\ value_of_string (display_base64 v) = Ok v.
Proof. exact xattr_stable. Qed.
Print Assumptions C15_xattr_value_stable.

(* ---- multipart file names -------------------------------------------------------------------- *)
(* file-name level: every non-empty file name *)
Theorem C15_part_name_inverse : forall f n m, f <> [] ->
  remove_part_name (with_part_name f n) = remove_part_name f /\
  with_part_name (with_part_name f n) m = with_part_name f m.
Proof. exact part_name_inv. Qed.
Check C15_part_name_inverse : forall f n m, f <> [] ->
  remove_part_name (with_part_name f n) = remove_part_name f /\
  with_part_name (with_part_name f n) m = with_part_name f m.
Print Assumptions C15_part_name_inverse.

(* path level: whenever with_part answers at all *)
Theorem C15_part_inverse : forall p n q, with_part p n = Some q ->
  remove_part q = remove_part p /\ (forall m, with_part q m = with_part p m).
Proof. exact part_inv. Qed.
Check C15_part_inverse : forall p n q, with_part p n = Some q ->
  remove_part q = remove_part p /\ (forall m, with_part q m = with_part p m).
Print Assumptions C15_part_inverse.

(* a path that is not itself a part name (remove_part p = p) comes back exactly *)
Theorem C15_part_inverse_base : forall p n q, remove_part p = Some p -> with_part p n = Some q ->
  remove_part q = Some p /\ (forall m, with_part q m = with_part p m).
Proof. exact part_inv_base. Qed.
Check C15_part_inverse_base : forall p n q, remove_part p = Some p -> with_part p n = Some q ->
  remove_part q = Some p /\ (forall m, with_part q m = with_part p m).
Print Assumptions C15_part_inverse_base.
Example C15_part_inverse_base_premise :
  remove_part (lit "dir.d/my.file.pna") = Some (lit "dir.d/my.file.pna") /\
  with_part (lit "dir.d/my.file.pna") 1 = Some (lit "dir.d/my.file.part1.pna") /\
  with_part (lit "my.other.pna") 1 = Some (lit "my.other.part1.pna").
Proof. vm_compute. repeat split. Qed.

Theorem C15_part_no_collision : forall p p' n n' q, remove_part p = Some p -> remove_part p' = Some p' ->
  with_part p n = Some q -> with_part p' n' = Some q -> p = p'.
Proof. exact part_no_collision. Qed.
Print Assumptions C15_part_no_collision.

(* ---- chmod modes ----------------------------------------------------------------------------- *)
Theorem C15_mode_inverse : forall md, wf_mode md -> mode_of_string (mode_to_string md) = Ok md.
Proof. exact mode_inv. Qed.
Check C15_mode_inverse : forall md,
  match md with MNum n => n < 512 | MEqual t m | MPlus t m | MMinus t m => 1 <= t /\ t < 8 /\ m < 8 end ->
  mode_of_string (mode_to_string md) = Ok md.
Print Assumptions C15_mode_inverse.

Theorem C15_mode_stable : forall s md, mode_of_string s = Ok md -> mode_of_string (mode_to_string md) = Ok md.
Proof. exact mode_stable. Qed.
Print Assumptions C15_mode_stable.
Example C15_mode_stable_premise : mode_of_string (lit "ug+rx") = Ok (MPlus 3 5) /\ mode_of_string (lit "750") = Ok (MNum 488).
Proof. vm_compute. split; reflexivity. Qed.

(* also used by C10: applying a mode is idempotent, for every mode value and permission word *)
Theorem C15_mode_apply_idempotent : forall md x, mode_apply md (mode_apply md x) = mode_apply md x.
Proof. exact mode_apply_idem. Qed.
Check C15_mode_apply_idempotent : forall md x, mode_apply md (mode_apply md x) = mode_apply md x.
Print Assumptions C15_mode_apply_idempotent.
