(* Props/C14 (PHC part) — the shape test of the strict recogniser on PHSF chunks (Wf.phsf_shape) against the crate-faithful
   PHC codec of Model/Kdf.v (Proofs/PhcShapeFacts.v, Proofs/PhcCreateFacts.v).
   Writer side: every string the writer prints passes the test and is shorter than 2^32 bytes, so the premises phc_job /
   phc_ctx of Props/C14_create.v and Props/C02_split.v are discharged for the cipher contexts the writer makes; the create
   theorems are restated with `the PHSF comes from a writer context` (writer_phsf) instead.
   Reader side: a string the reader derives a key from passes the test provided it holds no hash; with a hash it does not
   (`_refuted`, witness accepted by the library).  The two models of "what a PHSF chunk may hold" otherwise differ only in
   that the shape test is lexical and laxer (examples).
   Only statements, closed by `exact`, pinned by `Check`, audited by `Print Assumptions`. *)
From PNA Require Import Base Crc32 Name Codec Chunk Archive Entry Flatten Cbc Ctr Pipeline Aes Camellia Wf Kdf
  BaseFacts NameFacts CodecFacts ChunkFacts ArchiveFacts EntryFacts FlattenFacts CbcFacts CtrFacts StreamFacts PipelineFacts
  WfFacts WfWriterFacts WfAgreeFacts WfSplitFacts WfPipelineFacts WfRewriteFacts AesFacts CamelliaFacts PipelineRealFacts PipelineRun RecutFacts.
From PNA Require Split SplitFacts.
From PNA Require Import Fs Extract ExtractFacts CreateExtractFacts CreateTransportFacts CreateSplitFacts CreateWfFacts.
From PNA Require Import KdfFacts PhcFacts PhcShapeFacts PhcCreateFacts.
Open Scope N_scope.

(* what the writer prints passes the recogniser's shape test: every algorithm choice, every parameter value, every
   non-empty salt *)
Theorem C14_writer_record_shape :
  forall (h : hash_alg) (salt : bytes), salt <> [] -> phsf_shape (phc_print_x (writer_record h salt None)) = true.
Proof. exact writer_record_shape. Qed.
Check C14_writer_record_shape :
  forall (h : hash_alg) (salt : bytes), salt <> [] -> phsf_shape (phc_print_x (writer_record h salt None)) = true.
Print Assumptions C14_writer_record_shape.

(* a PHSF as a writer context holds it (u32 parameters, a salt of SALT_LEN bytes): PHC shape and the 32-bit length
   bound, i.e. what phc_job / phc_ctx ask *)
Theorem C14_writer_phsf_shape :
  forall p : bytes,
  (exists (h : hash_alg) (salt : bytes), fits_u32 h = true /\ length salt = SALT_LEN /\ p = phc_print_x (writer_record h salt None)) ->
  phsf_shape p = true /\ len p < 2 ^ 32.
Proof. exact writer_phsf_shape. Qed.
Check C14_writer_phsf_shape :
  forall p : bytes,
  (exists (h : hash_alg) (salt : bytes), fits_u32 h = true /\ length salt = SALT_LEN /\ p = phc_print_x (writer_record h salt None)) ->
  phsf_shape p = true /\ len p < 2 ^ 32.
Print Assumptions C14_writer_phsf_shape.

(* every context the writer makes (the executable plumbing; no premise) *)
Theorem C14_writer_context_phsf_shape :
  forall (m : cipher_mode) (h : hash_alg) (pw tape : bytes) (c : ctx bytes) (t' : bytes),
  writer_context_x m h pw tape = Ok (c, t') -> phsf_shape (ctx_phsf c) = true /\ len (ctx_phsf c) < 2 ^ 32.
Proof. exact writer_context_x_shape. Qed.
Check C14_writer_context_phsf_shape :
  forall (m : cipher_mode) (h : hash_alg) (pw tape : bytes) (c : ctx bytes) (t' : bytes),
  writer_context_x m h pw tape = Ok (c, t') -> phsf_shape (ctx_phsf c) = true /\ len (ctx_phsf c) < 2 ^ 32.
Print Assumptions C14_writer_context_phsf_shape.

(* ... every context of a whole write: one per entry, or one per solid stream *)
Theorem C14_write_all_phsf_shape :
  forall (k : writer_kind) (enc : encryption) (m : cipher_mode) (h : hash_alg) (pw : bytes) (n : nat) (tape : bytes)
    (cs : list (ctx bytes)) (t' : bytes),
  write_all_x k enc m h pw n tape = Ok (cs, t') ->
  Forall (fun c : ctx bytes => phsf_shape (ctx_phsf c) = true /\ len (ctx_phsf c) < 2 ^ 32) cs.
Proof. exact write_all_x_shape. Qed.
Check C14_write_all_phsf_shape :
  forall (k : writer_kind) (enc : encryption) (m : cipher_mode) (h : hash_alg) (pw : bytes) (n : nat) (tape : bytes)
    (cs : list (ctx bytes)) (t' : bytes),
  write_all_x k enc m h pw n tape = Ok (cs, t') ->
  Forall (fun c : ctx bytes => phsf_shape (ctx_phsf c) = true /\ len (ctx_phsf c) < 2 ^ 32) cs.
Print Assumptions C14_write_all_phsf_shape.

(* ... for any KDF whose parameter rules refuse non-u32 values: the context handed to the entry builders (cctx_of) holds a
   writer-made PHSF and a 16-byte IV *)
Theorem C14_cctx_of_writer :
  forall (kdf : bytes -> option N -> list (bytes * bytes) -> bytes -> bytes -> bytes)
    (kdf_valid : bytes -> option N -> list (bytes * bytes) -> bytes -> option bytes -> bool),
  (forall (h : hash_alg) (salt : bytes), kdf_valid (alg_name h) (alg_version h) (alg_params h) salt None = true -> fits_u32 h = true) ->
  forall (m : cipher_mode) (h : hash_alg) (pw tape : bytes) (c : ctx bytes) (t' : bytes),
  writer_context bytes kdf kdf_valid phc_print_x m h pw tape = Ok (c, t') ->
  writer_phsf (c_phsf (cctx_of c)) /\ len (c_iv (cctx_of c)) = 16.
Proof. exact cctx_of_writer. Qed.
Check C14_cctx_of_writer :
  forall (kdf : bytes -> option N -> list (bytes * bytes) -> bytes -> bytes -> bytes)
    (kdf_valid : bytes -> option N -> list (bytes * bytes) -> bytes -> option bytes -> bool),
  (forall (h : hash_alg) (salt : bytes), kdf_valid (alg_name h) (alg_version h) (alg_params h) salt None = true -> fits_u32 h = true) ->
  forall (m : cipher_mode) (h : hash_alg) (pw tape : bytes) (c : ctx bytes) (t' : bytes),
  writer_context bytes kdf kdf_valid phc_print_x m h pw tape = Ok (c, t') ->
  writer_phsf (c_phsf (cctx_of c)) /\ len (c_iv (cctx_of c)) = 16.
Print Assumptions C14_cctx_of_writer.

(* the reader side: a string the reader derives a key from has the shape, PROVIDED it holds no hash *)
Theorem C14_reader_key_implies_shape_partial :
  forall (phsf pw k : bytes) (p : phc),
  reader_key_x phsf pw = Ok k -> phc_parse_x phsf = Some p -> ph_hash p = None -> phsf_shape phsf = true.
Proof. exact reader_key_x_shape. Qed.
Check C14_reader_key_implies_shape_partial :
  forall (phsf pw k : bytes) (p : phc),
  reader_key_x phsf pw = Ok k -> phc_parse_x phsf = Some p -> ph_hash p = None -> phsf_shape phsf = true.
Print Assumptions C14_reader_key_implies_shape_partial.

(* ... with a hash it has not: the crates read `$..$salt$hash` and derive a key when the hash has 32 bytes (the library
   does: kdf read cases), the recogniser wants a PHSF without hash.  So `forall p w k, verify p w = Ok k -> phsf_shape p = true`
   (the law C02_create_split_extract_kdf assumes) is false for verify_password; phc_job is the right premise *)
Theorem C14_reader_key_implies_shape_refuted :
  (exists k : bytes,
     reader_key_x (lit "$argon2id$v=19$m=8,t=1,p=1$MDEyMzQ1Njc4OWFiY2RlZg$AAECAwQFBgcICQoLDA0ODxAREhMUFRYXGBkaGxwdHh8") (lit "pw") = Ok k) /\
  phsf_shape (lit "$argon2id$v=19$m=8,t=1,p=1$MDEyMzQ1Njc4OWFiY2RlZg$AAECAwQFBgcICQoLDA0ODxAREhMUFRYXGBkaGxwdHh8") = false.
Proof. exact reader_key_implies_shape_refuted. Qed.
Check C14_reader_key_implies_shape_refuted :
  (exists k : bytes,
     reader_key_x (lit "$argon2id$v=19$m=8,t=1,p=1$MDEyMzQ1Njc4OWFiY2RlZg$AAECAwQFBgcICQoLDA0ODxAREhMUFRYXGBkaGxwdHh8") (lit "pw") = Ok k) /\
  phsf_shape (lit "$argon2id$v=19$m=8,t=1,p=1$MDEyMzQ1Njc4OWFiY2RlZg$AAECAwQFBgcICQoLDA0ODxAREhMUFRYXGBkaGxwdHh8") = false.
Print Assumptions C14_reader_key_implies_shape_refuted.

(* the other direction: the shape test is lexical and laxer than the crates' parser (each of these is InvalidData for the
   reader): leading zero / beyond u32 in the version, upper-case name, empty parameter, two `=`, 3-character salt,
   33-character identifier *)
Theorem C14_shape_laxer_examples :
  shape_not_parsed "$argon2id$v=019$m=8,t=1,p=1$MDEyMzQ1Njc4OWFiY2RlZg" = true /\
  shape_not_parsed "$argon2id$v=4294967296$m=8,t=1,p=1$MDEyMzQ1Njc4OWFiY2RlZg" = true /\
  shape_not_parsed "$argon2id$v=19$M=8,t=1,p=1$MDEyMzQ1Njc4OWFiY2RlZg" = true /\
  shape_not_parsed "$argon2id$v=19$m=8,,t=1,p=1$MDEyMzQ1Njc4OWFiY2RlZg" = true /\
  shape_not_parsed "$argon2id$v=19$m=8=8,t=1,p=1$MDEyMzQ1Njc4OWFiY2RlZg" = true /\
  shape_not_parsed "$argon2id$v=19$m=8,t=1,p=1$MDE" = true /\
  shape_not_parsed "$0123456789012345678901234567890ab$ln=1$MDEyMzQ1Njc4OWFiY2RlZg" = true.
Proof. exact ex_shape_laxer. Qed.
Check C14_shape_laxer_examples :
  shape_not_parsed "$argon2id$v=019$m=8,t=1,p=1$MDEyMzQ1Njc4OWFiY2RlZg" = true /\
  shape_not_parsed "$argon2id$v=4294967296$m=8,t=1,p=1$MDEyMzQ1Njc4OWFiY2RlZg" = true /\
  shape_not_parsed "$argon2id$v=19$M=8,t=1,p=1$MDEyMzQ1Njc4OWFiY2RlZg" = true /\
  shape_not_parsed "$argon2id$v=19$m=8,,t=1,p=1$MDEyMzQ1Njc4OWFiY2RlZg" = true /\
  shape_not_parsed "$argon2id$v=19$m=8=8,t=1,p=1$MDEyMzQ1Njc4OWFiY2RlZg" = true /\
  shape_not_parsed "$argon2id$v=19$m=8,t=1,p=1$MDE" = true /\
  shape_not_parsed "$0123456789012345678901234567890ab$ln=1$MDEyMzQ1Njc4OWFiY2RlZg" = true.
Print Assumptions C14_shape_laxer_examples.

(* C14_create_output_wf with `the PHSF of an encrypted entry comes from a writer context` in place of phc_job *)
Theorem C14_create_output_wf_writer :
  forall (E : encryption -> bytes -> bytes -> bytes) (compress : compression -> N -> list bytes -> list bytes)
         (verify : bytes -> bytes -> res bytes),
  (forall a k b, len16 b -> len16 (E a k b)) ->
  forall c order t pw jobs,
  wf_tree t -> tree_ok t ->
  Forall2 carries jobs (create_from_tree c order t) -> Forall (wf_job E compress verify pw) jobs ->
  Forall (fun j : job => Pipeline.encrypted (eff_cfg (j_cfg j) (sp_kind (j_spec j))) = true -> writer_phsf (c_phsf (j_ctx j))) jobs ->
  let a := write_archive (map (build_job E compress) jobs) in
  let es := map (fun j => RNormal (build_job E compress j)) jobs in
  wf_archive a = true /\ strict_decode a = Ok es /\
  entries read_chunk_stream a = Ok (es, FinOk) /\ entries read_chunk_slice a = Ok (es, FinOk).
Proof. exact create_output_wf_writer. Qed.
Check C14_create_output_wf_writer :
  forall (E : encryption -> bytes -> bytes -> bytes) (compress : compression -> N -> list bytes -> list bytes)
         (verify : bytes -> bytes -> res bytes),
  (forall a k b, len16 b -> len16 (E a k b)) ->
  forall c order t pw jobs,
  wf_tree t -> tree_ok t ->
  Forall2 carries jobs (create_from_tree c order t) -> Forall (wf_job E compress verify pw) jobs ->
  Forall (fun j : job => Pipeline.encrypted (eff_cfg (j_cfg j) (sp_kind (j_spec j))) = true -> writer_phsf (c_phsf (j_ctx j))) jobs ->
  let a := write_archive (map (build_job E compress) jobs) in
  let es := map (fun j => RNormal (build_job E compress j)) jobs in
  wf_archive a = true /\ strict_decode a = Ok es /\
  entries read_chunk_stream a = Ok (es, FinOk) /\ entries read_chunk_slice a = Ok (es, FinOk).
Print Assumptions C14_create_output_wf_writer.

(* C14_create_solid_output_wf likewise: phc_job and phc_ctx replaced *)
Theorem C14_create_solid_output_wf_writer :
  forall (E : encryption -> bytes -> bytes -> bytes) (compress : compression -> N -> list bytes -> list bytes)
         (verify : bytes -> bytes -> res bytes),
  (forall a k b, len16 b -> len16 (E a k b)) ->
  forall c order t pw jobs cfg ctx,
  wf_tree t -> tree_ok t ->
  Forall2 carries jobs (create_from_tree c order t) -> Forall (wf_job E compress verify pw) jobs ->
  Forall (fun j : job => Pipeline.encrypted (eff_cfg (j_cfg j) (sp_kind (j_spec j))) = true -> writer_phsf (c_phsf (j_ctx j))) jobs ->
  key_iv_ok (c_key ctx) (c_iv ctx) = true ->
  (Pipeline.encrypted cfg = true -> writer_phsf (c_phsf ctx)) ->
  let a := write_raw_archive 0 [solid_archive_chunks E compress cfg ctx (solid_writes (map (build_job E compress) jobs))] in
  let es := [RSolid (streamed_solid E compress cfg ctx (solid_writes (map (build_job E compress) jobs)))] in
  wf_archive a = true /\ strict_decode a = Ok es /\
  entries read_chunk_stream a = Ok (es, FinOk) /\ entries read_chunk_slice a = Ok (es, FinOk) /\
  inner_entries (solid_plain_stream (map (build_job E compress) jobs)) = SOk (map (fun j => RNormal (build_job E compress j)) jobs).
Proof. exact create_solid_output_wf_writer. Qed.
Check C14_create_solid_output_wf_writer :
  forall (E : encryption -> bytes -> bytes -> bytes) (compress : compression -> N -> list bytes -> list bytes)
         (verify : bytes -> bytes -> res bytes),
  (forall a k b, len16 b -> len16 (E a k b)) ->
  forall c order t pw jobs cfg ctx,
  wf_tree t -> tree_ok t ->
  Forall2 carries jobs (create_from_tree c order t) -> Forall (wf_job E compress verify pw) jobs ->
  Forall (fun j : job => Pipeline.encrypted (eff_cfg (j_cfg j) (sp_kind (j_spec j))) = true -> writer_phsf (c_phsf (j_ctx j))) jobs ->
  key_iv_ok (c_key ctx) (c_iv ctx) = true ->
  (Pipeline.encrypted cfg = true -> writer_phsf (c_phsf ctx)) ->
  let a := write_raw_archive 0 [solid_archive_chunks E compress cfg ctx (solid_writes (map (build_job E compress) jobs))] in
  let es := [RSolid (streamed_solid E compress cfg ctx (solid_writes (map (build_job E compress) jobs)))] in
  wf_archive a = true /\ strict_decode a = Ok es /\
  entries read_chunk_stream a = Ok (es, FinOk) /\ entries read_chunk_slice a = Ok (es, FinOk) /\
  inner_entries (solid_plain_stream (map (build_job E compress) jobs)) = SOk (map (fun j => RNormal (build_job E compress j)) jobs).
Print Assumptions C14_create_solid_output_wf_writer.

(* C02_create_split_extract_partial likewise (create --split, transport, extract): the KDF law of
   C02_create_split_extract_kdf is not available (refuted above); the premise about the strings written is *)
Theorem C14_create_split_extract_writer :
  forall (E D : encryption -> bytes -> bytes -> bytes) (compress : compression -> N -> list bytes -> list bytes)
         (decompress : compression -> bytes -> res bytes) (verify : bytes -> bytes -> res bytes),
  (forall a k c, len16 c -> len16 (D a k c)) -> (forall a k b, len16 b -> D a k (E a k b) = b) ->
  (forall a k b, len16 b -> len16 (E a k b)) ->
  (forall c lvl ws, decompress c (concat (compress c lvl ws)) = Ok (concat ws)) ->
  forall c o out order t pw jobs max parts,
  o_guarded o = true -> wf_tree t -> tree_ok t -> walk_order_ok c o t order ->
  Forall ExtractFacts.plain out -> out <> [] ->
  Forall2 carries jobs (create_from_tree c order t) -> Forall (wf_job E compress verify pw) jobs ->
  Forall (fun j : job => Pipeline.encrypted (eff_cfg (j_cfg j) (sp_kind (j_spec j))) = true -> writer_phsf (c_phsf (j_ctx j))) jobs ->
  Split.write_split max (map (fun j => map of_c (ser_normal (build_job E compress j))) jobs) = Ok parts ->
  Forall (fun f => Split.file_size f <= max /\ len (ser_pfile f) = Split.file_size f) parts /\
  exists raws ns es,
    read_parts read_chunk_stream (map ser_pfile parts) = Ok (raws, FinOk) /\
    read_parts read_chunk_slice (map ser_pfile parts) = Ok (raws, FinOk) /\
    parse_all raws = (map RNormal ns, FinOk) /\
    (forall rb, (forall n, In n ns -> drains (n_data n) (rb n)) ->
       read_entries_x E D decompress verify pw rb ns = Ok es) /\
    es = create_from_tree c order t /\
    tree_of c o out order (extract_all o out es (empty_dir out)) = expected c o order t /\
    snd (extract_run o out es (empty_dir out)) = true.
Proof. exact create_split_extract_writer. Qed.
Check C14_create_split_extract_writer :
  forall (E D : encryption -> bytes -> bytes -> bytes) (compress : compression -> N -> list bytes -> list bytes)
         (decompress : compression -> bytes -> res bytes) (verify : bytes -> bytes -> res bytes),
  (forall a k c, len16 c -> len16 (D a k c)) -> (forall a k b, len16 b -> D a k (E a k b) = b) ->
  (forall a k b, len16 b -> len16 (E a k b)) ->
  (forall c lvl ws, decompress c (concat (compress c lvl ws)) = Ok (concat ws)) ->
  forall c o out order t pw jobs max parts,
  o_guarded o = true -> wf_tree t -> tree_ok t -> walk_order_ok c o t order ->
  Forall ExtractFacts.plain out -> out <> [] ->
  Forall2 carries jobs (create_from_tree c order t) -> Forall (wf_job E compress verify pw) jobs ->
  Forall (fun j : job => Pipeline.encrypted (eff_cfg (j_cfg j) (sp_kind (j_spec j))) = true -> writer_phsf (c_phsf (j_ctx j))) jobs ->
  Split.write_split max (map (fun j => map of_c (ser_normal (build_job E compress j))) jobs) = Ok parts ->
  Forall (fun f => Split.file_size f <= max /\ len (ser_pfile f) = Split.file_size f) parts /\
  exists raws ns es,
    read_parts read_chunk_stream (map ser_pfile parts) = Ok (raws, FinOk) /\
    read_parts read_chunk_slice (map ser_pfile parts) = Ok (raws, FinOk) /\
    parse_all raws = (map RNormal ns, FinOk) /\
    (forall rb, (forall n, In n ns -> drains (n_data n) (rb n)) ->
       read_entries_x E D decompress verify pw rb ns = Ok es) /\
    es = create_from_tree c order t /\
    tree_of c o out order (extract_all o out es (empty_dir out)) = expected c o order t /\
    snd (extract_run o out es (empty_dir out)) = true.
Print Assumptions C14_create_split_extract_writer.
