(* Props/C02_overlay.v — C02 continued: `pna extract --overwrite` into an output directory that already holds an
   OLDER EXTRACTION (of the same tree, or of another one), and the same second extraction without --overwrite.
   Proofs: Proofs/OverlayExtractFacts.v (stdlib only).  Model: Extract.extract_entry / extract_run on Model/Fs.v — the
   repaired cli/src/command/extract.rs (97074278, 259caa04, ebe5bb91, 8d2298f1, bb20a31e) and utils::fs::remove.

   What extract_entry does at an occupied destination with --overwrite (C02_overlay_entry for the performed cells,
   C02_file_over_dir_refused / C02_dir_over_file_refused / C02_below_link_refused in general, every cell evaluated in
   C02_replacement_table):

                        destination:  vacant    regular file            directory                 symbolic link
     file entry                       created   truncated IN PLACE      REFUSED (File::create)    link removed, new file
     directory entry                  created   REFUSED (mkdir)         kept (chmod if asked)     link removed, new directory
     symbolic-link entry              created   file removed, link      directory removed WITH    link replaced
                                                                        ALL IT HOLDS, link made
     an ancestor of the destination is a regular file: refused (create_dir_all); is a link: refused (ensure_no_symlink_ancestor)
     without --overwrite: every occupied destination is refused (AlreadyExists), the other entries are still written
     (run_extract_archive_reader attempts every entry and reports the failure at the end: NOT "stops at the first").

   "In place" (File::create = O_TRUNC on the existing inode; C02_file_over_file_in_place): the old inode stays, hence
   its mode unless --keep-permission restores one, and — the one deviation from "what extraction into the empty
   directory gives" — every extended attribute of the old file that the new entry does not name survives
   `--overwrite --keep-xattr` (xattr::set adds or replaces, nothing removes): C02_stale_xattr_witness.  The theorems
   therefore carry the premise xfit / xattrs_fit (the old file's attribute names are among the new entry's).

   Theorems (for EVERY tree, walk order, option vector on both sides, output directory):
     C02_overlay_same_tree   re-extraction of the same tree with --overwrite (any options o0 before, o now, any two
                             walk orders): exit 0, the tree read back is `expected c o order t`, i.e. exactly what
                             C02_create_extract gives for the empty directory; no new names.  With o0 = o:
                             extract (extract s) = extract s on C02's observations.
     C02_overlay_trees       the older extraction was of ANOTHER tree t0 (other contents, modes, times, attributes, other
                             paths, other kinds): under `compat` (not file-over-directory, not directory-over-file at a
                             common path; nothing of t below a non-directory of t0; nothing of t0 below a FILE of t)
                             and xfit: exit 0; at every path extraction materialises, exactly `expected`; every name of
                             the older extraction that is not a destination and not inside a directory a link entry
                             replaced is untouched (same kind, inode, content, metadata); nothing new but destinations
                             and their ancestors.
     C02_overlay_onto        the same for ANY start state `Base` accepts (C02_overlay_premises_unfolded spells it out).
     C02_no_overwrite_*      without --overwrite: exit 1 as soon as one destination is occupied, and NOTHING that existed
                             is changed (kind, inode, content, mode, times, attributes) — C20's statement on this model.
   Examples: premises decidable (compatb, xfitb, tree_okb, wf_treeb) and met by ex_tree / ov_tree; both runs evaluated.
   Not covered: hard-link entries (create never emits them), a start state that is not a tree (an occupied name whose
   parent is vacant: B_tree), an ancestor that is a regular file in general (evaluated in the table only). *)
From PNA Require Import Base Name Fs Extract BaseFacts NameFacts ExtractFacts ConfineFacts CreateExtractFacts
  OverlayExtractFacts.
Require Import Permutation.
Open Scope N_scope.

(* ---- 1. re-extraction of the same tree ------------------------------------------------------------------------ *)
Theorem C02_overlay_same_tree : forall c o0 order0 o order t out,
  o_guarded o0 = true -> o_guarded o = true -> o_overwrite o = true -> wf_tree t -> tree_ok t ->
  walk_order_ok c o0 t order0 -> Permutation (map fst t) order -> Forall ExtractFacts.plain out -> out <> [] ->
  let s := extract_all o0 out (create_from_tree c order0 t) (empty_dir out) in
  let s' := extract_all o out (create_from_tree c order t) s in
  snd (extract_run o out (create_from_tree c order t) s) = true /\
  tree_of c o out order s' = expected c o order t /\
  tree_of c o out order s' = tree_of c o out order (extract_all o out (create_from_tree c order t) (empty_dir out)) /\
  (forall q, nget (names s') q <> None -> nget (names s) q <> None).
Proof. exact overlay_same_tree. Qed.
Check C02_overlay_same_tree : forall c o0 order0 o order t out,
  o_guarded o0 = true -> o_guarded o = true -> o_overwrite o = true -> wf_tree t -> tree_ok t ->
  walk_order_ok c o0 t order0 -> Permutation (map fst t) order -> Forall ExtractFacts.plain out -> out <> [] ->
  let s := extract_all o0 out (create_from_tree c order0 t) (empty_dir out) in
  let s' := extract_all o out (create_from_tree c order t) s in
  snd (extract_run o out (create_from_tree c order t) s) = true /\
  tree_of c o out order s' = expected c o order t /\
  tree_of c o out order s' = tree_of c o out order (extract_all o out (create_from_tree c order t) (empty_dir out)) /\
  (forall q, nget (names s') q <> None -> nget (names s) q <> None).
Print Assumptions C02_overlay_same_tree.

(* ---- 2. the older extraction was of another tree --------------------------------------------------------------- *)
Theorem C02_overlay_trees : forall c0 o0 order0 t0 c o order t out,
  o_guarded o0 = true -> wf_tree t0 -> tree_ok t0 -> walk_order_ok c0 o0 t0 order0 ->
  o_guarded o = true -> o_overwrite o = true -> wf_tree t -> tree_ok t -> Permutation (map fst t) order ->
  Forall ExtractFacts.plain out -> out <> [] -> compat c0 t0 c t -> xfit c0 o0 t0 c o t ->
  let s := extract_all o0 out (create_from_tree c0 order0 t0) (empty_dir out) in
  let s' := extract_all o out (create_from_tree c order t) s in
  snd (extract_run o out (create_from_tree c order t) s) = true /\
  tree_of c o out (map fst (expected c o order t)) s' = expected c o order t /\
  (forall q, nget (names s) q <> None -> (forall p, kept c t p = true -> q <> out ++ p) ->
     (forall p tg, tget t p = Some (TLink tg) -> is_prefix (out ++ p) q = false) -> observe s' q = observe s q) /\
  (forall q, nget (names s') q <> None ->
     nget (names s) q <> None \/ exists p, kept c t p = true /\ is_prefix q (out ++ p) = true).
Proof. exact overlay_trees. Qed.
Check C02_overlay_trees : forall c0 o0 order0 t0 c o order t out,
  o_guarded o0 = true -> wf_tree t0 -> tree_ok t0 -> walk_order_ok c0 o0 t0 order0 ->
  o_guarded o = true -> o_overwrite o = true -> wf_tree t -> tree_ok t -> Permutation (map fst t) order ->
  Forall ExtractFacts.plain out -> out <> [] -> compat c0 t0 c t -> xfit c0 o0 t0 c o t ->
  let s := extract_all o0 out (create_from_tree c0 order0 t0) (empty_dir out) in
  let s' := extract_all o out (create_from_tree c order t) s in
  snd (extract_run o out (create_from_tree c order t) s) = true /\
  tree_of c o out (map fst (expected c o order t)) s' = expected c o order t /\
  (forall q, nget (names s) q <> None -> (forall p, kept c t p = true -> q <> out ++ p) ->
     (forall p tg, tget t p = Some (TLink tg) -> is_prefix (out ++ p) q = false) -> observe s' q = observe s q) /\
  (forall q, nget (names s') q <> None ->
     nget (names s) q <> None \/ exists p, kept c t p = true /\ is_prefix q (out ++ p) = true).
Print Assumptions C02_overlay_trees.

(* ---- 3. any start state ------------------------------------------------------------------------------------------ *)
Theorem C02_overlay_onto : forall c o out order t f0,
  o_guarded o = true -> o_overwrite o = true -> wf_tree t -> tree_ok t -> Permutation (map fst t) order ->
  Forall ExtractFacts.plain out -> out <> [] -> OverlayExtractFacts.Base out c t f0 -> xattrs_fit out c o t f0 ->
  let f' := extract_all o out (create_from_tree c order t) f0 in
  snd (extract_run o out (create_from_tree c order t) f0) = true /\
  tree_of c o out (map fst (expected c o order t)) f' = expected c o order t /\
  (forall q, nget (names f0) q <> None -> (forall p, kept c t p = true -> q <> out ++ p) ->
     (forall p tg md, tget t p = Some (TLink tg) -> nget (names f0) (out ++ p) = Some (DDir md) -> is_prefix (out ++ p) q = false) ->
     observe f' q = observe f0 q) /\
  (forall q, nget (names f') q <> None ->
     nget (names f0) q <> None \/ exists p, kept c t p = true /\ is_prefix q (out ++ p) = true).
Proof. exact overlay_onto. Qed.
Check C02_overlay_onto : forall c o out order t f0,
  o_guarded o = true -> o_overwrite o = true -> wf_tree t -> tree_ok t -> Permutation (map fst t) order ->
  Forall ExtractFacts.plain out -> out <> [] -> OverlayExtractFacts.Base out c t f0 -> xattrs_fit out c o t f0 ->
  let f' := extract_all o out (create_from_tree c order t) f0 in
  snd (extract_run o out (create_from_tree c order t) f0) = true /\
  tree_of c o out (map fst (expected c o order t)) f' = expected c o order t /\
  (forall q, nget (names f0) q <> None -> (forall p, kept c t p = true -> q <> out ++ p) ->
     (forall p tg md, tget t p = Some (TLink tg) -> nget (names f0) (out ++ p) = Some (DDir md) -> is_prefix (out ++ p) q = false) ->
     observe f' q = observe f0 q) /\
  (forall q, nget (names f') q <> None ->
     nget (names f0) q <> None \/ exists p, kept c t p = true /\ is_prefix q (out ++ p) = true).
Print Assumptions C02_overlay_onto.
Theorem C02_overlay_premises_unfolded : forall out c0 o0 t0 c o t f0,
  (OverlayExtractFacts.Base out c t f0 <->
     (forall a b, out = a ++ b -> exists md, nget (names f0) a = Some (DDir md)) /\
     (forall p, kept c t p = true -> forall a b, out ++ p = a ++ b -> a <> [] -> b <> [] ->
        nget (names f0) a = None \/ exists md, nget (names f0) a = Some (DDir md)) /\
     (forall p a b, kept c t p = true -> nget (names f0) (out ++ p) <> None -> p = a ++ b -> b <> [] ->
        nget (names f0) (out ++ a) <> None) /\
     (forall p n, tget t p = Some n -> collected c n = true ->
        match n with
        | TFile _ _ _ _ => forall md, nget (names f0) (out ++ p) <> Some (DDir md)
        | TDir _ => forall i, nget (names f0) (out ++ p) <> Some (DFile i)
        | TLink _ => True
        end) /\
     ((forall q i, nget (names f0) q = Some (DFile i) -> i < next f0) /\
      (forall q q' i, nget (names f0) q = Some (DFile i) -> nget (names f0) q' = Some (DFile i) -> q = q') /\
      (forall q i, nget (names f0) q = Some (DFile i) -> exists n, iget (inodes f0) i = Some n))) /\
  (xattrs_fit out c o t f0 <->
     (kept_xattr c o = true -> forall p d m mt xs, tget t p = Some (TFile d m mt xs) ->
      xattr_merge (match nget (names f0) (out ++ p) with
                   | Some (DFile i) => match iget (inodes f0) i with Some n => i_xattrs n | None => [] end
                   | _ => [] end) xs = xs)) /\
  (compat c0 t0 c t <->
     forall p0 n0 p n, tget t0 p0 = Some n0 -> collected c0 n0 = true -> tget t p = Some n -> collected c n = true ->
       ((exists b, b <> [] /\ p = p0 ++ b) -> is_tdir n0 = true) /\
       ((exists b, b <> [] /\ p0 = p ++ b) -> is_tfile n = false) /\
       (p = p0 -> (is_tfile n = true -> is_tdir n0 = false) /\ (is_tdir n = true -> is_tfile n0 = false))) /\
  (xfit c0 o0 t0 c o t <->
     (kept_xattr c0 o0 = true -> kept_xattr c o = true ->
      forall p d0 m0 mt0 xs0 d m mt xs, tget t0 p = Some (TFile d0 m0 mt0 xs0) -> tget t p = Some (TFile d m mt xs) ->
      xattr_merge xs0 xs = xs)).
Proof. exact overlay_premises_unfolded. Qed.
Print Assumptions C02_overlay_premises_unfolded.

(* ---- 4. one entry over each kind of occupant ------------------------------------------------------------------------ *)
Theorem C02_overlay_entry : forall out, Forall ExtractFacts.plain out -> out <> [] -> forall c o, o_guarded o = true ->
  forall f p n,
  Forall normal_component p -> p <> [] -> node_wf n ->
  clear_way (names f) (out ++ p) ->
  (nget (names f) (out ++ p) <> None -> dirs_above (names f) (out ++ p)) ->
  (nget (names f) (out ++ p) = None \/ o_overwrite o = true) ->
  dest_ok (names f) (out ++ p) n -> st_full f -> fresh f ->
  exists f', extract_entry o out (entry_of c p n) f = (f', true) /\ opost out f f' p /\ node_res out c o f f' p n.
Proof. exact ov_entry. Qed.
Check C02_overlay_entry : forall out, Forall ExtractFacts.plain out -> out <> [] -> forall c o, o_guarded o = true ->
  forall f p n,
  Forall normal_component p -> p <> [] -> node_wf n ->
  clear_way (names f) (out ++ p) ->
  (nget (names f) (out ++ p) <> None -> dirs_above (names f) (out ++ p)) ->
  (nget (names f) (out ++ p) = None \/ o_overwrite o = true) ->
  dest_ok (names f) (out ++ p) n -> st_full f -> fresh f ->
  exists f', extract_entry o out (entry_of c p n) f = (f', true) /\ opost out f f' p /\ node_res out c o f f' p n.
Print Assumptions C02_overlay_entry.
Theorem C02_file_over_dir_refused : forall out, Forall ExtractFacts.plain out -> forall c o, o_guarded o = true ->
  forall f p d m mt xs md,
  Forall normal_component p -> p <> [] -> dirs_above (names f) (out ++ p) ->
  nget (names f) (out ++ p) = Some (DDir md) -> o_overwrite o = true ->
  exists f', extract_entry o out (entry_of c p (TFile d m mt xs)) f = (f', false) /\ inodes f' = inodes f /\
             forall q, nget (names f) q <> None -> nget (names f') q = nget (names f) q.
Proof. exact file_over_dir_refused. Qed.
Check C02_file_over_dir_refused : forall out, Forall ExtractFacts.plain out -> forall c o, o_guarded o = true ->
  forall f p d m mt xs md,
  Forall normal_component p -> p <> [] -> dirs_above (names f) (out ++ p) ->
  nget (names f) (out ++ p) = Some (DDir md) -> o_overwrite o = true ->
  exists f', extract_entry o out (entry_of c p (TFile d m mt xs)) f = (f', false) /\ inodes f' = inodes f /\
             forall q, nget (names f) q <> None -> nget (names f') q = nget (names f) q.
Print Assumptions C02_file_over_dir_refused.
Theorem C02_dir_over_file_refused : forall out, Forall ExtractFacts.plain out -> forall c o, o_guarded o = true ->
  forall f p m i,
  Forall normal_component p -> p <> [] -> dirs_above (names f) (out ++ p) ->
  nget (names f) (out ++ p) = Some (DFile i) -> o_overwrite o = true ->
  exists f', extract_entry o out (entry_of c p (TDir m)) f = (f', false) /\ inodes f' = inodes f /\
             forall q, nget (names f) q <> None -> nget (names f') q = nget (names f) q.
Proof. exact dir_over_file_refused. Qed.
Check C02_dir_over_file_refused : forall out, Forall ExtractFacts.plain out -> forall c o, o_guarded o = true ->
  forall f p m i,
  Forall normal_component p -> p <> [] -> dirs_above (names f) (out ++ p) ->
  nget (names f) (out ++ p) = Some (DFile i) -> o_overwrite o = true ->
  exists f', extract_entry o out (entry_of c p (TDir m)) f = (f', false) /\ inodes f' = inodes f /\
             forall q, nget (names f) q <> None -> nget (names f') q = nget (names f) q.
Print Assumptions C02_dir_over_file_refused.
Theorem C02_below_link_refused : forall out o, o_guarded o = true -> forall f r b e,
  Forall normal_component (r ++ b) -> r <> [] -> b <> [] -> e_name e = path_str (r ++ b) ->
  is_link f (out ++ r) = true -> extract_entry o out e f = (f, false).
Proof. exact below_link_refused. Qed.
Check C02_below_link_refused : forall out o, o_guarded o = true -> forall f r b e,
  Forall normal_component (r ++ b) -> r <> [] -> b <> [] -> e_name e = path_str (r ++ b) ->
  is_link f (out ++ r) = true -> extract_entry o out e f = (f, false).
Print Assumptions C02_below_link_refused.
Theorem C02_occupied_refused_without_overwrite : forall out, Forall ExtractFacts.plain out -> forall o, o_guarded o = true -> forall f p e,
  Forall normal_component p -> p <> [] -> e_name e = path_str p -> o_overwrite o = false ->
  clear_way (names f) (out ++ p) -> dirs_above (names f) (out ++ p) -> nget (names f) (out ++ p) <> None ->
  extract_entry o out e f = (f, false).
Proof. exact ov_refused. Qed.
Check C02_occupied_refused_without_overwrite : forall out, Forall ExtractFacts.plain out -> forall o, o_guarded o = true -> forall f p e,
  Forall normal_component p -> p <> [] -> e_name e = path_str p -> o_overwrite o = false ->
  clear_way (names f) (out ++ p) -> dirs_above (names f) (out ++ p) -> nget (names f) (out ++ p) <> None ->
  extract_entry o out e f = (f, false).
Print Assumptions C02_occupied_refused_without_overwrite.

(* ---- 5. without --overwrite ---------------------------------------------------------------------------------------- *)
Theorem C02_no_overwrite_same_tree : forall c o0 order0 o order t out,
  o_guarded o0 = true -> o_guarded o = true -> o_overwrite o = false -> wf_tree t -> tree_ok t ->
  walk_order_ok c o0 t order0 -> Permutation (map fst t) order -> Forall ExtractFacts.plain out -> out <> [] ->
  let s := extract_all o0 out (create_from_tree c order0 t) (empty_dir out) in
  (forall q, nget (names s) q <> None -> observe (extract_all o out (create_from_tree c order t) s) q = observe s q) /\
  ((exists p, kept c t p = true) -> snd (extract_run o out (create_from_tree c order t) s) = false).
Proof. exact no_overwrite_same_tree. Qed.
Check C02_no_overwrite_same_tree : forall c o0 order0 o order t out,
  o_guarded o0 = true -> o_guarded o = true -> o_overwrite o = false -> wf_tree t -> tree_ok t ->
  walk_order_ok c o0 t order0 -> Permutation (map fst t) order -> Forall ExtractFacts.plain out -> out <> [] ->
  let s := extract_all o0 out (create_from_tree c order0 t) (empty_dir out) in
  (forall q, nget (names s) q <> None -> observe (extract_all o out (create_from_tree c order t) s) q = observe s q) /\
  ((exists p, kept c t p = true) -> snd (extract_run o out (create_from_tree c order t) s) = false).
Print Assumptions C02_no_overwrite_same_tree.
Theorem C02_no_overwrite_trees : forall c0 o0 order0 t0 c o order t out,
  o_guarded o0 = true -> wf_tree t0 -> tree_ok t0 -> walk_order_ok c0 o0 t0 order0 ->
  o_guarded o = true -> o_overwrite o = false -> wf_tree t -> tree_ok t -> Permutation (map fst t) order ->
  Forall ExtractFacts.plain out -> out <> [] -> compat c0 t0 c t ->
  let s := extract_all o0 out (create_from_tree c0 order0 t0) (empty_dir out) in
  (forall q, nget (names s) q <> None -> observe (extract_all o out (create_from_tree c order t) s) q = observe s q) /\
  ((exists p p0, kept c t p = true /\ kept c0 t0 p0 = true /\ is_prefix p p0 = true) ->
   snd (extract_run o out (create_from_tree c order t) s) = false).
Proof. exact no_overwrite_trees. Qed.
Check C02_no_overwrite_trees : forall c0 o0 order0 t0 c o order t out,
  o_guarded o0 = true -> wf_tree t0 -> tree_ok t0 -> walk_order_ok c0 o0 t0 order0 ->
  o_guarded o = true -> o_overwrite o = false -> wf_tree t -> tree_ok t -> Permutation (map fst t) order ->
  Forall ExtractFacts.plain out -> out <> [] -> compat c0 t0 c t ->
  let s := extract_all o0 out (create_from_tree c0 order0 t0) (empty_dir out) in
  (forall q, nget (names s) q <> None -> observe (extract_all o out (create_from_tree c order t) s) q = observe s q) /\
  ((exists p p0, kept c t p = true /\ kept c0 t0 p0 = true /\ is_prefix p p0 = true) ->
   snd (extract_run o out (create_from_tree c order t) s) = false).
Print Assumptions C02_no_overwrite_trees.
Theorem C02_no_overwrite_onto : forall c o out order t f0,
  o_guarded o = true -> o_overwrite o = false -> wf_tree t -> tree_ok t -> Permutation (map fst t) order ->
  Forall ExtractFacts.plain out -> out <> [] -> OverlayExtractFacts.Base out c t f0 ->
  (forall q, nget (names f0) q <> None -> observe (extract_all o out (create_from_tree c order t) f0) q = observe f0 q) /\
  ((exists p, kept c t p = true /\ nget (names f0) (out ++ p) <> None) ->
   snd (extract_run o out (create_from_tree c order t) f0) = false).
Proof. exact no_overwrite_onto. Qed.
Check C02_no_overwrite_onto : forall c o out order t f0,
  o_guarded o = true -> o_overwrite o = false -> wf_tree t -> tree_ok t -> Permutation (map fst t) order ->
  Forall ExtractFacts.plain out -> out <> [] -> OverlayExtractFacts.Base out c t f0 ->
  (forall q, nget (names f0) q <> None -> observe (extract_all o out (create_from_tree c order t) f0) q = observe f0 q) /\
  ((exists p, kept c t p = true /\ nget (names f0) (out ++ p) <> None) ->
   snd (extract_run o out (create_from_tree c order t) f0) = false).
Print Assumptions C02_no_overwrite_onto.

(* ---- 6. the table, the in-place overwrite and the stale attribute, evaluated ------------------------------------------ *)
Example C02_replacement_table : 
  tb_cell tb_x [lit "v"] nf = (true, 1, 1) /\ tb_cell tb_x [lit "f"] nf = (true, 1, 1) /\
  tb_cell tb_x [lit "d"] nf = (false, 2, 1) /\ tb_cell tb_x [lit "l"] nf = (true, 1, 1) /\
  
  tb_cell tb_x [lit "v"] nd = (true, 2, 1) /\ tb_cell tb_x [lit "f"] nd = (false, 1, 1) /\
  tb_cell tb_x [lit "d"] nd = (true, 2, 1) /\ tb_cell tb_x [lit "l"] nd = (true, 2, 1) /\
  
  tb_cell tb_x [lit "v"] nl = (true, 3, 1) /\ tb_cell tb_x [lit "f"] nl = (true, 3, 1) /\
  tb_cell tb_x [lit "d"] nl = (true, 3, 0) /\ tb_cell tb_x [lit "l"] nl = (true, 3, 1) /\
  
  tb_cell tb_x [lit "f"; lit "y"] nf = (false, 0, 1) /\ tb_cell tb_x [lit "l"; lit "y"] nf = (false, 0, 1) /\
  tb_cell tb_x [lit "f"; lit "y"] nd = (false, 0, 1) /\ tb_cell tb_x [lit "l"; lit "y"] nl = (false, 0, 1) /\
  
  tb_cell tb_nx [lit "v"] nf = (true, 1, 1) /\ tb_cell tb_nx [lit "f"] nf = (false, 1, 1) /\
  tb_cell tb_nx [lit "d"] nd = (false, 2, 1) /\ tb_cell tb_nx [lit "l"] nl = (false, 3, 1) /\
  tb_cell tb_nx [lit "d"] nl = (false, 2, 1) /\ tb_cell tb_nx [lit "l"] nf = (false, 3, 1).
Proof. exact replacement_table. Qed.
Print Assumptions C02_replacement_table.
Example C02_file_over_file_in_place : let s' := extract_all tb_plain ex_out (create_from_tree all_c [[lit "f"]] [([lit "f"], nf)]) tb_s in
  match observe tb_s (ex_out ++ [lit "f"]), observe s' (ex_out ++ [lit "f"]) with
  | OFile i n, OFile i' n' =>
      i = i' /\ i_content n = lit "old" /\ i_content n' = lit "new" /\ i_mode n = 384 /\ i_mode n' = 384 /\
      i_xattrs n' = i_xattrs n /\ i_xattrs n = [(lit "user.a", lit "1"); (lit "user.b", lit "2")] /\
      i_mtime n = Some 5 /\ i_mtime n' = None
  | _, _ => False
  end.
Proof. exact file_over_file_in_place. Qed.
Print Assumptions C02_file_over_file_in_place.
Example C02_stale_xattr_witness : let s := extract_all all_x ex_out (create_from_tree all_c [[lit "f"]] t_stale_old) (empty_dir ex_out) in
  let s' := extract_all tb_x ex_out (create_from_tree all_c [[lit "f"]] t_stale_new) s in
  wf_tree t_stale_new /\ tree_ok t_stale_new /\ compat all_c t_stale_old all_c t_stale_new /\
  snd (extract_run tb_x ex_out (create_from_tree all_c [[lit "f"]] t_stale_new) s) = true /\
  tree_of all_c tb_x ex_out [[lit "f"]] s' <> expected all_c tb_x [[lit "f"]] t_stale_new /\
  tree_of all_c tb_x ex_out [[lit "f"]] s' =
    [([lit "f"], EFile (lit "new") (Some 420) (Some 7) [(lit "user.a", lit "9"); (lit "user.b", lit "2")])] /\
  xattr_merge [(lit "user.a", lit "1"); (lit "user.b", lit "2")] [(lit "user.a", lit "9")] <> [(lit "user.a", lit "9")].
Proof. exact stale_xattr_witness. Qed.
Print Assumptions C02_stale_xattr_witness.

(* ---- 7. the premises are decidable and satisfiable; both runs evaluated on two concrete trees --------------------------- *)
Theorem C02_compat_decidable : forall c0 t0 c t, compatb c0 t0 c t = true -> compat c0 t0 c t.
Proof. exact compatb_sound. Qed.
Check C02_compat_decidable : forall c0 t0 c t, compatb c0 t0 c t = true -> compat c0 t0 c t.
Print Assumptions C02_compat_decidable.
Theorem C02_xfit_decidable : forall c0 o0 t0 c o t, xfitb t0 t = true -> xfit c0 o0 t0 c o t.
Proof. exact xfitb_sound. Qed.
Check C02_xfit_decidable : forall c0 o0 t0 c o t, xfitb t0 t = true -> xfit c0 o0 t0 c o t.
Print Assumptions C02_xfit_decidable.
Example C02_overlay_premises : forall c0 o0 c o,
  wf_tree ov_tree /\ tree_ok ov_tree /\ Permutation (map fst ov_tree) ov_order /\
  compat c0 ex_tree c ov_tree /\ xfit c0 o0 ex_tree c o ov_tree /\ compat c ov_tree c0 ex_tree.
Proof. exact overlay_premises. Qed.
Print Assumptions C02_overlay_premises.
Example C02_overlay_example : let s := extract_all all_x ex_out (create_from_tree all_c ex_order ex_tree) (empty_dir ex_out) in
  let s' := extract_all tb_x ex_out (create_from_tree all_c ov_order ov_tree) s in
  let s'' := extract_all tb_nx ex_out (create_from_tree all_c ov_order ov_tree) s in
  snd (extract_run tb_x ex_out (create_from_tree all_c ov_order ov_tree) s) = true /\
  tree_of all_c tb_x ex_out ov_order s' = expected all_c tb_x ov_order ov_tree /\
  observe s' (ex_out ++ [lit "t"; lit "dangling"]) = observe s (ex_out ++ [lit "t"; lit "dangling"]) /\
  observe s (ex_out ++ [lit "t"; lit "dangling"]) = OLink (lit "/no/where") /\
  snd (extract_run tb_nx ex_out (create_from_tree all_c ov_order ov_tree) s) = false /\
  tree_of all_c all_x ex_out ex_order s'' = expected all_c all_x ex_order ex_tree.
Proof. exact overlay_example. Qed.
Print Assumptions C02_overlay_example.
