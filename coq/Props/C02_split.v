(* Props/C02_split.v — C02 composed with C04: `pna create --split N` then `pna extract` of the part set
   reproduces the directory tree (Proofs/CreateSplitFacts.v).

   create.rs create_archive_with_split hands the entries built by create_entry (the C01 pipeline, build_job) to
   commons.rs write_split_archive_writer: every entry is cut with EntryPart::split / split_to_parts and a new part
   file is started whenever the next piece does not fit (Split.write_split); extract.rs reads x.part1.pna,
   x.part2.pna, ... through read_next_archive (Archive.read_parts, stream and slice reader).

   C02_create_split_extract: under the tree / option / job premises of C02_create_archive_extract and
   `Split.write_split max (chunks of the built entries) = Ok parts`, for ANY max:
     (a) every part file is at most max bytes, counted in the serialised file (Split.file_size is its length);
     (b) both part-chaining readers read the chain to its end, the raw entries parse to normal entries ns, and reading
         each (name, kind, content decrypted and decompressed with the password, mode, mtime, xattrs) with EVERY
         read-buffer policy that drains the data gives exactly create_from_tree c order t;
     (c) extracting those gives expected c o order t, exit 0.
   Premises compared with C02_create_archive_extract:
     dropped   reads_to_end (the conclusion quantifies over all draining buffer sequences instead), the compressor's
               determinism law (not needed without --solid);
     added     Forall phc_job jobs: the PHSF string of an ENCRYPTED entry has PHC shape (Wf.phsf_shape).  wf_job only
               says it is UTF-8 and verifies.  C04's read-back theorem goes through the strict recogniser of C14, which
               checks the shape, so the entries must be `writable`; C02_built_entries_writable is that bridge and
               C02_phc_premise_needed shows the premise is exactly what `writable` asks beyond wf_job.  The real KDF
               prints PHC strings (PasswordHash::to_string) and verifies only strings that parse as PHC:
               C02_create_split_extract_kdf takes that as a law of `verify` and has no premise beyond C02's.
               For this reason the general statement is named _partial: the case "encrypted entry whose PHSF is not a
               PHC string" is open (it needs the read-back theorem of C04 for entries the strict recogniser rejects for
               that reason alone), the full statement being the same without `Forall phc_job jobs`.
   C02_create_split_extract_real: AES-256 / Camellia-256 as modelled.  C02_create_solid_split_extract: --solid --split,
   one solid entry built by SolidEntryBuilder (add_entry of each, build) and cut into parts.
   Examples: premises satisfiable (3 entries, AES-256-CBC, 7 parts of at most 150 bytes; solid: 5 parts of at most 300);
   the whole chain evaluated in the kernel on that tree. *)
From PNA Require Import Base Crc32 Name Codec Chunk Archive Entry Flatten Cbc Ctr Pipeline Aes Camellia Wf
  BaseFacts NameFacts CodecFacts ChunkFacts ArchiveFacts EntryFacts FlattenFacts CbcFacts CtrFacts StreamFacts PipelineFacts
  WfFacts WfWriterFacts WfAgreeFacts WfSplitFacts WfPipelineFacts AesFacts CamelliaFacts PipelineRealFacts PipelineRun RecutFacts.
From PNA Require Split SplitFacts.
From PNA Require Import Fs Extract ExtractFacts CreateExtractFacts CreateTransportFacts CreateSplitFacts.
Open Scope N_scope.

(* ---- the main theorem ---------------------------------------------------------------------------------- *)
Theorem C02_create_split_extract_partial :
  forall (E D : encryption -> bytes -> bytes -> bytes) (compress : compression -> N -> list bytes -> list bytes)
         (decompress : compression -> bytes -> res bytes) (verify : bytes -> bytes -> res bytes),
  (forall a k c, len16 c -> len16 (D a k c)) -> (forall a k b, len16 b -> D a k (E a k b) = b) ->
  (forall a k b, len16 b -> len16 (E a k b)) ->
  (forall c lvl ws, decompress c (concat (compress c lvl ws)) = Ok (concat ws)) ->
  forall c o out order t pw jobs max parts,
  o_guarded o = true -> wf_tree t -> tree_ok t -> walk_order_ok c o t order ->
  Forall ExtractFacts.plain out -> out <> [] ->
  Forall2 carries jobs (create_from_tree c order t) -> Forall (wf_job E compress verify pw) jobs ->
  Forall phc_job jobs ->
  Split.write_split max (map (fun j => map of_c (ser_normal (build_job E compress j))) jobs) = Ok parts ->
  Forall (fun f => Split.file_size f <= max /\ len (ser_pfile f) = Split.file_size f) parts /\
  exists raws ns es,
    read_parts read_chunk_stream (map ser_pfile parts) = Ok (raws, FinOk) /\
    read_parts read_chunk_slice (map ser_pfile parts) = Ok (raws, FinOk) /\
    parse_all raws = (map RNormal ns, FinOk) /\
    (forall rb, (forall n, In n ns -> drains (n_data n) (rb n)) ->
       read_entries_x E D decompress verify pw rb ns = Ok es) /\
    es = create_from_tree c order t /\
    tree_of c o out order (extract_all o out es (empty_dir out)) = expected c o order t /\
    snd (extract_run o out es (empty_dir out)) = true.
Proof. exact create_split_extract. Qed.
Check C02_create_split_extract_partial :
  forall (E D : encryption -> bytes -> bytes -> bytes) (compress : compression -> N -> list bytes -> list bytes)
         (decompress : compression -> bytes -> res bytes) (verify : bytes -> bytes -> res bytes),
  (forall a k c, len16 c -> len16 (D a k c)) -> (forall a k b, len16 b -> D a k (E a k b) = b) ->
  (forall a k b, len16 b -> len16 (E a k b)) ->
  (forall c lvl ws, decompress c (concat (compress c lvl ws)) = Ok (concat ws)) ->
  forall c o out order t pw jobs max parts,
  o_guarded o = true -> wf_tree t -> tree_ok t -> walk_order_ok c o t order ->
  Forall ExtractFacts.plain out -> out <> [] ->
  Forall2 carries jobs (create_from_tree c order t) -> Forall (wf_job E compress verify pw) jobs ->
  Forall phc_job jobs ->
  Split.write_split max (map (fun j => map of_c (ser_normal (build_job E compress j))) jobs) = Ok parts ->
  Forall (fun f => Split.file_size f <= max /\ len (ser_pfile f) = Split.file_size f) parts /\
  exists raws ns es,
    read_parts read_chunk_stream (map ser_pfile parts) = Ok (raws, FinOk) /\
    read_parts read_chunk_slice (map ser_pfile parts) = Ok (raws, FinOk) /\
    parse_all raws = (map RNormal ns, FinOk) /\
    (forall rb, (forall n, In n ns -> drains (n_data n) (rb n)) ->
       read_entries_x E D decompress verify pw rb ns = Ok es) /\
    es = create_from_tree c order t /\
    tree_of c o out order (extract_all o out es (empty_dir out)) = expected c o order t /\
    snd (extract_run o out es (empty_dir out)) = true.
Print Assumptions C02_create_split_extract_partial.

(* with a KDF that verifies PHC strings only: exactly the premises of C02_create_archive_extract (less two) plus the split *)
Theorem C02_create_split_extract_kdf :
  forall (E D : encryption -> bytes -> bytes -> bytes) (compress : compression -> N -> list bytes -> list bytes)
         (decompress : compression -> bytes -> res bytes) (verify : bytes -> bytes -> res bytes),
  (forall a k c, len16 c -> len16 (D a k c)) -> (forall a k b, len16 b -> D a k (E a k b) = b) ->
  (forall a k b, len16 b -> len16 (E a k b)) ->
  (forall c lvl ws, decompress c (concat (compress c lvl ws)) = Ok (concat ws)) ->
  (forall p w k, verify p w = Ok k -> phsf_shape p = true) ->
  forall c o out order t pw jobs max parts,
  o_guarded o = true -> wf_tree t -> tree_ok t -> walk_order_ok c o t order ->
  Forall ExtractFacts.plain out -> out <> [] ->
  Forall2 carries jobs (create_from_tree c order t) -> Forall (wf_job E compress verify pw) jobs ->
  Split.write_split max (map (fun j => map of_c (ser_normal (build_job E compress j))) jobs) = Ok parts ->
  Forall (fun f => Split.file_size f <= max /\ len (ser_pfile f) = Split.file_size f) parts /\
  exists raws ns es,
    read_parts read_chunk_stream (map ser_pfile parts) = Ok (raws, FinOk) /\
    read_parts read_chunk_slice (map ser_pfile parts) = Ok (raws, FinOk) /\
    parse_all raws = (map RNormal ns, FinOk) /\
    (forall rb, (forall n, In n ns -> drains (n_data n) (rb n)) ->
       read_entries_x E D decompress verify pw rb ns = Ok es) /\
    es = create_from_tree c order t /\
    tree_of c o out order (extract_all o out es (empty_dir out)) = expected c o order t /\
    snd (extract_run o out es (empty_dir out)) = true.
Proof. exact create_split_extract_kdf. Qed.
Check C02_create_split_extract_kdf :
  forall (E D : encryption -> bytes -> bytes -> bytes) (compress : compression -> N -> list bytes -> list bytes)
         (decompress : compression -> bytes -> res bytes) (verify : bytes -> bytes -> res bytes),
  (forall a k c, len16 c -> len16 (D a k c)) -> (forall a k b, len16 b -> D a k (E a k b) = b) ->
  (forall a k b, len16 b -> len16 (E a k b)) ->
  (forall c lvl ws, decompress c (concat (compress c lvl ws)) = Ok (concat ws)) ->
  (forall p w k, verify p w = Ok k -> phsf_shape p = true) ->
  forall c o out order t pw jobs max parts,
  o_guarded o = true -> wf_tree t -> tree_ok t -> walk_order_ok c o t order ->
  Forall ExtractFacts.plain out -> out <> [] ->
  Forall2 carries jobs (create_from_tree c order t) -> Forall (wf_job E compress verify pw) jobs ->
  Split.write_split max (map (fun j => map of_c (ser_normal (build_job E compress j))) jobs) = Ok parts ->
  Forall (fun f => Split.file_size f <= max /\ len (ser_pfile f) = Split.file_size f) parts /\
  exists raws ns es,
    read_parts read_chunk_stream (map ser_pfile parts) = Ok (raws, FinOk) /\
    read_parts read_chunk_slice (map ser_pfile parts) = Ok (raws, FinOk) /\
    parse_all raws = (map RNormal ns, FinOk) /\
    (forall rb, (forall n, In n ns -> drains (n_data n) (rb n)) ->
       read_entries_x E D decompress verify pw rb ns = Ok es) /\
    es = create_from_tree c order t /\
    tree_of c o out order (extract_all o out es (empty_dir out)) = expected c o order t /\
    snd (extract_run o out es (empty_dir out)) = true.
Print Assumptions C02_create_split_extract_kdf.

(* AES-256 / Camellia-256 as modelled (Model/Aes.v, Model/Camellia.v): the block-cipher laws are theorems *)
Theorem C02_create_split_extract_real_partial :
  forall (compress : compression -> N -> list bytes -> list bytes)
         (decompress : compression -> bytes -> res bytes) (verify : bytes -> bytes -> res bytes),
  (forall c lvl ws, decompress c (concat (compress c lvl ws)) = Ok (concat ws)) ->
  forall c o out order t pw jobs max parts,
  o_guarded o = true -> wf_tree t -> tree_ok t -> walk_order_ok c o t order ->
  Forall ExtractFacts.plain out -> out <> [] ->
  Forall2 carries jobs (create_from_tree c order t) -> Forall (wf_job real_E_of compress verify pw) jobs ->
  Forall phc_job jobs ->
  Split.write_split max (map (fun j => map of_c (ser_normal (build_job real_E_of compress j))) jobs) = Ok parts ->
  Forall (fun f => Split.file_size f <= max /\ len (ser_pfile f) = Split.file_size f) parts /\
  exists raws ns es,
    read_parts read_chunk_stream (map ser_pfile parts) = Ok (raws, FinOk) /\
    read_parts read_chunk_slice (map ser_pfile parts) = Ok (raws, FinOk) /\
    parse_all raws = (map RNormal ns, FinOk) /\
    (forall rb, (forall n, In n ns -> drains (n_data n) (rb n)) ->
       read_entries_x real_E_of real_D_of decompress verify pw rb ns = Ok es) /\
    es = create_from_tree c order t /\
    tree_of c o out order (extract_all o out es (empty_dir out)) = expected c o order t /\
    snd (extract_run o out es (empty_dir out)) = true.
Proof. exact create_split_extract_real. Qed.
Check C02_create_split_extract_real_partial :
  forall (compress : compression -> N -> list bytes -> list bytes)
         (decompress : compression -> bytes -> res bytes) (verify : bytes -> bytes -> res bytes),
  (forall c lvl ws, decompress c (concat (compress c lvl ws)) = Ok (concat ws)) ->
  forall c o out order t pw jobs max parts,
  o_guarded o = true -> wf_tree t -> tree_ok t -> walk_order_ok c o t order ->
  Forall ExtractFacts.plain out -> out <> [] ->
  Forall2 carries jobs (create_from_tree c order t) -> Forall (wf_job real_E_of compress verify pw) jobs ->
  Forall phc_job jobs ->
  Split.write_split max (map (fun j => map of_c (ser_normal (build_job real_E_of compress j))) jobs) = Ok parts ->
  Forall (fun f => Split.file_size f <= max /\ len (ser_pfile f) = Split.file_size f) parts /\
  exists raws ns es,
    read_parts read_chunk_stream (map ser_pfile parts) = Ok (raws, FinOk) /\
    read_parts read_chunk_slice (map ser_pfile parts) = Ok (raws, FinOk) /\
    parse_all raws = (map RNormal ns, FinOk) /\
    (forall rb, (forall n, In n ns -> drains (n_data n) (rb n)) ->
       read_entries_x real_E_of real_D_of decompress verify pw rb ns = Ok es) /\
    es = create_from_tree c order t /\
    tree_of c o out order (extract_all o out es (empty_dir out)) = expected c o order t /\
    snd (extract_run o out es (empty_dir out)) = true.
Print Assumptions C02_create_split_extract_real_partial.

(* --solid --split: the entries travel inside one solid entry built by SolidEntryBuilder, which is cut into parts *)
Theorem C02_create_solid_split_extract_partial :
  forall (E D : encryption -> bytes -> bytes -> bytes) (compress : compression -> N -> list bytes -> list bytes)
         (decompress : compression -> bytes -> res bytes) (verify : bytes -> bytes -> res bytes),
  (forall a k c, len16 c -> len16 (D a k c)) -> (forall a k b, len16 b -> D a k (E a k b) = b) ->
  (forall a k b, len16 b -> len16 (E a k b)) ->
  (forall c lvl ws, decompress c (concat (compress c lvl ws)) = Ok (concat ws)) ->
  (forall c lvl (ws ws' : list bytes), concat ws = concat ws' -> concat (compress c lvl ws) = concat (compress c lvl ws')) ->
  forall c o out order t pw jobs cfg ctx max parts,
  o_guarded o = true -> wf_tree t -> tree_ok t -> walk_order_ok c o t order ->
  Forall ExtractFacts.plain out -> out <> [] ->
  Forall2 carries jobs (create_from_tree c order t) -> Forall (wf_job E compress verify pw) jobs ->
  Forall phc_job jobs ->
  wf_ctx verify ctx pw -> phc_ctx cfg ctx ->
  Split.write_split max
    [map of_c (ser_solid (build_solid E compress cfg ctx [] (solid_writes (map (build_job E compress) jobs))))] = Ok parts ->
  Forall (fun f => Split.file_size f <= max /\ len (ser_pfile f) = Split.file_size f) parts /\
  exists raws s es,
    read_parts read_chunk_stream (map ser_pfile parts) = Ok (raws, FinOk) /\
    read_parts read_chunk_slice (map ser_pfile parts) = Ok (raws, FinOk) /\
    parse_all raws = ([RSolid s], FinOk) /\
    (forall rbufs, drains (so_data s) rbufs ->
       decode_solid E D decompress verify s pw rbufs = Ok (map (build_job E compress) jobs, FinOk)) /\
    (forall rb, (forall n, In n (map (build_job E compress) jobs) -> drains (n_data n) (rb n)) ->
       read_entries_x E D decompress verify pw rb (map (build_job E compress) jobs) = Ok es) /\
    es = create_from_tree c order t /\
    tree_of c o out order (extract_all o out es (empty_dir out)) = expected c o order t /\
    snd (extract_run o out es (empty_dir out)) = true.
Proof. exact create_solid_split_extract. Qed.
Check C02_create_solid_split_extract_partial :
  forall (E D : encryption -> bytes -> bytes -> bytes) (compress : compression -> N -> list bytes -> list bytes)
         (decompress : compression -> bytes -> res bytes) (verify : bytes -> bytes -> res bytes),
  (forall a k c, len16 c -> len16 (D a k c)) -> (forall a k b, len16 b -> D a k (E a k b) = b) ->
  (forall a k b, len16 b -> len16 (E a k b)) ->
  (forall c lvl ws, decompress c (concat (compress c lvl ws)) = Ok (concat ws)) ->
  (forall c lvl (ws ws' : list bytes), concat ws = concat ws' -> concat (compress c lvl ws) = concat (compress c lvl ws')) ->
  forall c o out order t pw jobs cfg ctx max parts,
  o_guarded o = true -> wf_tree t -> tree_ok t -> walk_order_ok c o t order ->
  Forall ExtractFacts.plain out -> out <> [] ->
  Forall2 carries jobs (create_from_tree c order t) -> Forall (wf_job E compress verify pw) jobs ->
  Forall phc_job jobs ->
  wf_ctx verify ctx pw -> phc_ctx cfg ctx ->
  Split.write_split max
    [map of_c (ser_solid (build_solid E compress cfg ctx [] (solid_writes (map (build_job E compress) jobs))))] = Ok parts ->
  Forall (fun f => Split.file_size f <= max /\ len (ser_pfile f) = Split.file_size f) parts /\
  exists raws s es,
    read_parts read_chunk_stream (map ser_pfile parts) = Ok (raws, FinOk) /\
    read_parts read_chunk_slice (map ser_pfile parts) = Ok (raws, FinOk) /\
    parse_all raws = ([RSolid s], FinOk) /\
    (forall rbufs, drains (so_data s) rbufs ->
       decode_solid E D decompress verify s pw rbufs = Ok (map (build_job E compress) jobs, FinOk)) /\
    (forall rb, (forall n, In n (map (build_job E compress) jobs) -> drains (n_data n) (rb n)) ->
       read_entries_x E D decompress verify pw rb (map (build_job E compress) jobs) = Ok es) /\
    es = create_from_tree c order t /\
    tree_of c o out order (extract_all o out es (empty_dir out)) = expected c o order t /\
    snd (extract_run o out es (empty_dir out)) = true.
Print Assumptions C02_create_solid_split_extract_partial.

(* ---- the container in between, for any jobs (the analogue of C02_transport_lossless) ---------------------- *)
Theorem C02_transport_split_lossless_partial :
  forall (E D : encryption -> bytes -> bytes -> bytes) (compress : compression -> N -> list bytes -> list bytes)
         (decompress : compression -> bytes -> res bytes) (verify : bytes -> bytes -> res bytes),
  (forall a k c, len16 c -> len16 (D a k c)) -> (forall a k b, len16 b -> D a k (E a k b) = b) ->
  (forall a k b, len16 b -> len16 (E a k b)) ->
  (forall c lvl ws, decompress c (concat (compress c lvl ws)) = Ok (concat ws)) ->
  forall pw jobs es max parts,
  Forall2 carries jobs es -> Forall (wf_job E compress verify pw) jobs -> Forall (fun e => e_kind e <= 3) es ->
  Forall (fun e => e_name e <> []) es -> Forall phc_job jobs ->
  Split.write_split max (map (fun j => map of_c (ser_normal (build_job E compress j))) jobs) = Ok parts ->
  Forall (fun f => Split.file_size f <= max /\ len (ser_pfile f) = Split.file_size f) parts /\
  exists raws ns,
    read_parts read_chunk_stream (map ser_pfile parts) = Ok (raws, FinOk) /\
    read_parts read_chunk_slice (map ser_pfile parts) = Ok (raws, FinOk) /\
    parse_all raws = (map RNormal ns, FinOk) /\
    Forall2 normal_same (map (build_job E compress) jobs) ns /\
    forall rb, (forall n, In n ns -> drains (n_data n) (rb n)) -> read_entries_x E D decompress verify pw rb ns = Ok es.
Proof. exact transport_split_lossless. Qed.
Check C02_transport_split_lossless_partial :
  forall (E D : encryption -> bytes -> bytes -> bytes) (compress : compression -> N -> list bytes -> list bytes)
         (decompress : compression -> bytes -> res bytes) (verify : bytes -> bytes -> res bytes),
  (forall a k c, len16 c -> len16 (D a k c)) -> (forall a k b, len16 b -> D a k (E a k b) = b) ->
  (forall a k b, len16 b -> len16 (E a k b)) ->
  (forall c lvl ws, decompress c (concat (compress c lvl ws)) = Ok (concat ws)) ->
  forall pw jobs es max parts,
  Forall2 carries jobs es -> Forall (wf_job E compress verify pw) jobs -> Forall (fun e => e_kind e <= 3) es ->
  Forall (fun e => e_name e <> []) es -> Forall phc_job jobs ->
  Split.write_split max (map (fun j => map of_c (ser_normal (build_job E compress j))) jobs) = Ok parts ->
  Forall (fun f => Split.file_size f <= max /\ len (ser_pfile f) = Split.file_size f) parts /\
  exists raws ns,
    read_parts read_chunk_stream (map ser_pfile parts) = Ok (raws, FinOk) /\
    read_parts read_chunk_slice (map ser_pfile parts) = Ok (raws, FinOk) /\
    parse_all raws = (map RNormal ns, FinOk) /\
    Forall2 normal_same (map (build_job E compress) jobs) ns /\
    forall rb, (forall n, In n ns -> drains (n_data n) (rb n)) -> read_entries_x E D decompress verify pw rb ns = Ok es.
Print Assumptions C02_transport_split_lossless_partial.

(* ---- the bridges ------------------------------------------------------------------------------------------- *)
(* an entry built by the C01 pipeline is `writable` (what C04's read-back theorem asks for) *)
Theorem C02_built_entries_writable :
  forall (E : encryption -> bytes -> bytes -> bytes) (compress : compression -> N -> list bytes -> list bytes)
         (verify : bytes -> bytes -> res bytes),
  (forall a k b, len16 b -> len16 (E a k b)) ->
  forall pw j, wf_job E compress verify pw j -> sp_name (j_spec j) <> [] ->
  Forall extra_ok (sp_extra (j_spec j)) -> phc_job j -> writable_normal (build_job E compress j).
Proof. exact built_writable. Qed.
Check C02_built_entries_writable :
  forall (E : encryption -> bytes -> bytes -> bytes) (compress : compression -> N -> list bytes -> list bytes)
         (verify : bytes -> bytes -> res bytes),
  (forall a k b, len16 b -> len16 (E a k b)) ->
  forall pw j, wf_job E compress verify pw j -> sp_name (j_spec j) <> [] ->
  Forall extra_ok (sp_extra (j_spec j)) -> phc_job j -> writable_normal (build_job E compress j).
Print Assumptions C02_built_entries_writable.

(* ... and only then: the added premise is what `writable` asks of the PHSF string *)
Theorem C02_phc_premise_needed :
  forall (E : encryption -> bytes -> bytes -> bytes) (compress : compression -> N -> list bytes -> list bytes) j,
  writable_normal (build_job E compress j) -> phc_job j.
Proof. exact built_writable_needs_phc. Qed.
Check C02_phc_premise_needed :
  forall (E : encryption -> bytes -> bytes -> bytes) (compress : compression -> N -> list bytes -> list bytes) j,
  writable_normal (build_job E compress j) -> phc_job j.
Print Assumptions C02_phc_premise_needed.

Theorem C02_phc_premise_unfolded : forall j,
  phc_job j <->
  (Pipeline.encrypted (eff_cfg (j_cfg j) (sp_kind (j_spec j))) = true -> phsf_shape (c_phsf (j_ctx j)) = true).
Proof. exact phc_job_unfolded. Qed.
Print Assumptions C02_phc_premise_unfolded.

(* an entry that agrees with a built entry up to the cut of its data reads as the logical entry the job carries *)
Theorem C02_recut_entry_reads_the_same :
  forall (E D : encryption -> bytes -> bytes -> bytes) (compress : compression -> N -> list bytes -> list bytes)
         (decompress : compression -> bytes -> res bytes) (verify : bytes -> bytes -> res bytes),
  (forall a k c, len16 c -> len16 (D a k c)) -> (forall a k b, len16 b -> D a k (E a k b) = b) ->
  (forall a k b, len16 b -> len16 (E a k b)) ->
  (forall c lvl ws, decompress c (concat (compress c lvl ws)) = Ok (concat ws)) ->
  forall pw rb j e n, wf_job E compress verify pw j -> carries j e -> e_kind e <= 3 ->
  normal_same (build_job E compress j) n -> drains (n_data n) (rb n) ->
  read_entry_x E D decompress verify pw rb n = Ok e.
Proof. exact read_recut. Qed.
Check C02_recut_entry_reads_the_same :
  forall (E D : encryption -> bytes -> bytes -> bytes) (compress : compression -> N -> list bytes -> list bytes)
         (decompress : compression -> bytes -> res bytes) (verify : bytes -> bytes -> res bytes),
  (forall a k c, len16 c -> len16 (D a k c)) -> (forall a k b, len16 b -> D a k (E a k b) = b) ->
  (forall a k b, len16 b -> len16 (E a k b)) ->
  (forall c lvl ws, decompress c (concat (compress c lvl ws)) = Ok (concat ws)) ->
  forall pw rb j e n, wf_job E compress verify pw j -> carries j e -> e_kind e <= 3 ->
  normal_same (build_job E compress j) n -> drains (n_data n) (rb n) ->
  read_entry_x E D decompress verify pw rb n = Ok e.
Print Assumptions C02_recut_entry_reads_the_same.

(* the bound of C04 counts the bytes of the file *)
Theorem C02_split_parts_sizes : forall max es parts,
  Split.write_split max es = Ok parts -> Forall body_chunk (map to_c (concat es)) ->
  Forall (fun f => Split.file_size f <= max /\ len (ser_pfile f) = Split.file_size f) parts.
Proof. exact split_parts_sizes. Qed.
Check C02_split_parts_sizes : forall max es parts,
  Split.write_split max es = Ok parts -> Forall body_chunk (map to_c (concat es)) ->
  Forall (fun f => Split.file_size f <= max /\ len (ser_pfile f) = Split.file_size f) parts.
Print Assumptions C02_split_parts_sizes.

(* ---- the premises are satisfiable ------------------------------------------------------------------------- *)
Example C02_split_premises_satisfiable : exists parts sparts,
  Forall2 carries tx_jobs (create_from_tree tx_c tx_order tx_tree) /\
  Forall (wf_job real_E_of tx_compress tx_verify tx_pw) tx_jobs /\
  Forall phc_job tx_jobs /\
  (forall p w k, tx_verify p w = Ok k -> phsf_shape p = true) /\
  (forall c lvl ws, tx_decompress c (concat (tx_compress c lvl ws)) = Ok (concat ws)) /\
  wf_tree tx_tree /\ tree_ok tx_tree /\ (forall o, walk_order_ok tx_c o tx_tree tx_order) /\
  Split.write_split 150 tx_split_input = Ok parts /\ length parts = 7%nat /\
  wf_ctx tx_verify tx_ctx tx_pw /\ phc_ctx tx_cfg tx_ctx /\
  Split.write_split 300 [map of_c (ser_solid tx_solid)] = Ok sparts /\ length sparts = 5%nat.
Proof. exact split_premises. Qed.
Print Assumptions C02_split_premises_satisfiable.

(* the whole chain evaluated in the kernel: create, split at 150 bytes, the 7 part files as bytes, the chain reader,
   parse, decrypt with 5-byte read buffers *)
Example C02_split_round_trip_example : exists parts,
  Split.write_split 150 tx_split_input = Ok parts /\
  map (fun f => len (ser_pfile f)) parts = [142; 145; 150; 118; 131; 112; 91] /\
  (do rf <- read_parts read_chunk_stream (map ser_pfile parts);
   do ns <- normals (fst (parse_all (fst rf)));
   read_entries_x real_E_of real_D_of tx_decompress tx_verify tx_pw (fun _ => repeat 5 100%nat) ns)
  = Ok (create_from_tree tx_c tx_order tx_tree).
Proof. exact split_round_trip_ex. Qed.
Print Assumptions C02_split_round_trip_example.
