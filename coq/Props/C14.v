(* C14 — everything the tool writes is well-formed PNA that an independent reader decodes.
   Model: coq/Model/Wf.v (strict recogniser wf_archive / wf_parts and strict decoder, written from
   the format description) beside the tolerant reader model of Archive.v / Entry.v.
   Proved here: on everything the strict decoder accepts, the library's tolerant parser returns the
   same entries (entry level, and for the whole chunk sequence of a part chain).
   Partial / outside:
   * strict_agrees is proved at the level of the chunk sequence (`bodies`): relating the tolerant
     byte-level iteration (Archive.next_item_loop with its fuel) to `bodies` is not done;
   * writer_wf (forall entries: wf_archive (write_raw_archive 0 es)) is not proved in general: the
     closed instances below cover ser_normal (plain, rich metadata, encrypted) and ser_solid, and the
     check runs wf_archive on every archive the library and the CLI write;
   * the compressor/cipher pipeline is not in this model: its output is decoded by the independent
     reference reader (harness/src/refdec.rs) on every archive of the run. *)
From PNA Require Import Base Codec Chunk Archive Entry Wf WfFacts.

Theorem C14_strict_entry_agrees :
  forall (h : chunk) (body : list chunk) (e : chunk) (x : read_entry),
  (ty_is h FHED = true /\ ty_is e FEND = true) \/ (ty_is h SHED = true /\ ty_is e SEND = true) ->
  any_entry h body e = SOk x ->
  parse_entry (h :: body ++ [e]) = Ok x.
Proof. exact strict_entry_agrees. Qed.
Check C14_strict_entry_agrees :
  forall (h : chunk) (body : list chunk) (e : chunk) (x : read_entry),
  (ty_is h FHED = true /\ ty_is e FEND = true) \/ (ty_is h SHED = true /\ ty_is e SEND = true) ->
  any_entry h body e = SOk x ->
  parse_entry (h :: body ++ [e]) = Ok x.
Print Assumptions C14_strict_entry_agrees.

Theorem C14_strict_agrees_partial :
  forall (parts : list bytes) (es : list read_entry),
  strict_parts parts = SOk es ->
  exists (cs : list chunk) (groups : list (list chunk)),
    bodies 0 parts = SOk cs /\ cs = concat groups /\
    Forall2 (fun g x => parse_entry g = Ok x) groups es.
Proof. exact strict_agrees_chunks. Qed.
Check C14_strict_agrees_partial :
  forall (parts : list bytes) (es : list read_entry),
  strict_parts parts = SOk es ->
  exists (cs : list chunk) (groups : list (list chunk)),
    bodies 0 parts = SOk cs /\ cs = concat groups /\
    Forall2 (fun g x => parse_entry g = Ok x) groups es.
Print Assumptions C14_strict_agrees_partial.

Theorem C14_writer_wf_partial :
  wf_archive (write_raw_archive 0 [ser_normal ex_plain; ser_normal ex_enc; ser_solid ex_solid]) = true /\
  strict_decode (write_raw_archive 0 [ser_normal ex_plain; ser_normal ex_enc; ser_solid ex_solid])
    = Ok [RNormal ex_plain; RNormal ex_enc; RSolid ex_solid] /\
  entries read_chunk_stream (write_raw_archive 0 [ser_normal ex_plain; ser_normal ex_enc; ser_solid ex_solid])
    = Ok ([RNormal ex_plain; RNormal ex_enc; RSolid ex_solid], FinOk) /\
  wf_archive (write_raw_archive 0 [ser_normal (with_extra_chunks ex_enc [mk (lit "QQQQ") []])]) = false.
Proof. exact writer_wf_examples. Qed.
Check C14_writer_wf_partial :
  wf_archive (write_raw_archive 0 [ser_normal ex_plain; ser_normal ex_enc; ser_solid ex_solid]) = true /\
  strict_decode (write_raw_archive 0 [ser_normal ex_plain; ser_normal ex_enc; ser_solid ex_solid])
    = Ok [RNormal ex_plain; RNormal ex_enc; RSolid ex_solid] /\
  entries read_chunk_stream (write_raw_archive 0 [ser_normal ex_plain; ser_normal ex_enc; ser_solid ex_solid])
    = Ok ([RNormal ex_plain; RNormal ex_enc; RSolid ex_solid], FinOk) /\
  wf_archive (write_raw_archive 0 [ser_normal (with_extra_chunks ex_enc [mk (lit "QQQQ") []])]) = false.
Print Assumptions C14_writer_wf_partial.

Theorem C14_empty_archive_wf : wf_archive (write_raw_archive 0 []) = true.
Proof. exact wf_empty_archive. Qed.
Check C14_empty_archive_wf : wf_archive (write_raw_archive 0 []) = true.
Print Assumptions C14_empty_archive_wf.
