(* C14 — everything the tool writes is well-formed PNA that an independent reader decodes *)
From PNA Require Import Base Chunk Archive Entry Wf WfFacts.

Theorem C14_empty_archive_wf : wf_archive (write_raw_archive 0 []) = true.
Proof. exact wf_empty_archive. Qed.
Check C14_empty_archive_wf : wf_archive (write_raw_archive 0 []) = true.
Print Assumptions C14_empty_archive_wf.
