(* C14 — everything the tool writes is well-formed PNA that an independent reader decodes.
   Model: coq/Model/Wf.v (strict recogniser wf_archive / wf_parts / wf_part and strict decoder, written
   from the format description) beside the tolerant reader model of Archive.v / Entry.v, the
   chunk-level writer model (Archive.write_raw_archive of Entry.ser_entry) and the splitter model
   (Split.write_split).
   Proved here, for ALL inputs (no closed instances):
   * writer_wf: for every list of `writable` entries (WfWriterFacts.writable: what the recogniser
     genuinely needs — header version 0.0, a valid relative UTF-8 name, PHSF of PHC shape iff
     encrypted, IV + whole CBC blocks, payloads < 2^32, unknown chunks ancillary with a valid type,
     metadata in range) the written archive is accepted and strictly decoded to these entries
     (up to dropped empty FDAT payloads); also as part number n; `writable` is satisfiable and each
     kind of condition is needed (negative examples);
   * strict_agrees at byte level: whatever the recogniser accepts — one file or a part chain — the
     library's tolerant byte-level readers (stream and slice reader with their fuel, and the
     part-chaining reader read_parts) read to the end without error and deliver exactly the strict
     decoder's entries;
   * split_wf: the part files of every successful write_split of writable entries are accepted as a
     part chain, decode to the same entries up to where the data streams are cut, and are read back
     by read_parts.
   * pipeline writer_wf: the entries the library's builders produce (EntryBuilder, SolidEntryBuilder) are
     writable, and the chunk sequences of the streaming writers (Archive::write_file, SolidArchive) are
     accepted, for every compression x cipher x mode configuration, every slicing of the input into
     writes, an arbitrary compressor and every block cipher that keeps 16-byte blocks; hence every
     archive made of any mix of these is well-formed and read back.
   * writable is exact: every entry the strict decoder returns is writable (the converse of writer_wf),
     so the decoded entries of a well-formed archive — all of them (copy, concat), a selection
     (delete) — written again give a well-formed archive;
   * transform_wf for chmod, chown, xattr, strip and delete with both strategies (keep-solid, unsolid):
     the entry-level run (read with the tolerant reader, each entry's logical view through the
     transformer of Transform.v, the answer put back with with_metadata / with_xattrs /
     with_extra_chunks, written again) of a well-formed archive is well-formed, for arguments in range
     (16-bit mode words, owner ids < 2^64 with UTF-8 names <= 255 bytes, an xattr that fits a chunk);
     per entry the view of the rewritten entry is exactly the answer of Transform.v's transformer.
   Partial / outside:
   * transform_wf is `_partial`: acl set and migrate are not covered (their chunks carry owner names of
     unbounded length); expanding a solid entry (s.entries(password): decrypt, decompress, parse) is a
     parameter `expand` with the hypothesis that the expanded entries are writable; for a solid entry
     without compression and encryption that is a theorem about the library's inner iteration
     (C14_solid_inner_writable), for a compressed or encrypted one the recogniser cannot look inside,
     so it is a property of the archive's content; re-creating the solid entry is a parameter `rebuild` in C14_transform_wf_partial and the
     pipeline's SolidEntryBuilder in C14_transform_wf_pipeline_partial; append/update/concat of the
     CLI are covered only through C14_rewrite_wf (re-writing decoded entries) and the check;
   * the hypotheses `writable` / `writable_spec` / `strict_ctx` are premises: that the
     CLI only produces such inputs (sanitised non-empty names, PHC strings from the password-hash crate,
     owner names <= 255 bytes) is covered by running the recogniser on
     everything the CLI writes (two violations were found that way and repaired in /repo: the empty entry
     name of `create -r . --keep-dir` and --uname/--gname longer than 255 bytes).
   * NO premise on the size of writes or data payloads: `small_pieces` (every write that reaches a chunk sink below 2^32
     bytes), `compress_small` and the data clause of `writable_normal` were premises until fix 45407aa2; the three
     cutters (ChunkStreamWriter::write, FlattenWriter, into_chunks) are now in the model for every length
     (Props/C14_sink.v: every emitted chunk has at most u32::MAX payload bytes, its length field is exact). *)
From PNA Require Import Base Codec Chunk Archive Entry Cbc CliCodec Pipeline Wf WfFacts ArchiveFacts EntryFacts CbcFacts WfWriterFacts WfAgreeFacts WfSplitFacts WfPipelineFacts WfRewriteFacts WfTransformFacts.
From PNA Require Split Transform.

(* ---- writer_wf: the chunk-level writer ------------------------------------------------------------ *)
Theorem C14_writer_wf :
  forall es : list read_entry, Forall writable es ->
  wf_archive (write_raw_archive 0 (map ser_entry es)) = true /\
  strict_decode (write_raw_archive 0 (map ser_entry es)) = Ok (map normalize_entry es).
Proof. exact writer_wf. Qed.
Check C14_writer_wf :
  forall es : list read_entry, Forall writable es ->
  wf_archive (write_raw_archive 0 (map ser_entry es)) = true /\
  strict_decode (write_raw_archive 0 (map ser_entry es)) = Ok (map normalize_entry es).
Print Assumptions C14_writer_wf.

Theorem C14_writer_wf_part :
  forall (num : N) (es : list read_entry), num < 2 ^ 32 -> Forall writable es ->
  wf_part num (write_raw_archive num (map ser_entry es)) = true.
Proof. exact writer_wf_part. Qed.
Check C14_writer_wf_part :
  forall (num : N) (es : list read_entry), num < 2 ^ 32 -> Forall writable es ->
  wf_part num (write_raw_archive num (map ser_entry es)) = true.
Print Assumptions C14_writer_wf_part.

Theorem C14_writer_read_back :
  forall es : list read_entry, Forall writable es ->
  entries read_chunk_stream (write_raw_archive 0 (map ser_entry es)) = Ok (map normalize_entry es, FinOk) /\
  entries read_chunk_slice (write_raw_archive 0 (map ser_entry es)) = Ok (map normalize_entry es, FinOk).
Proof. exact written_read_back. Qed.
Check C14_writer_read_back :
  forall es : list read_entry, Forall writable es ->
  entries read_chunk_stream (write_raw_archive 0 (map ser_entry es)) = Ok (map normalize_entry es, FinOk) /\
  entries read_chunk_slice (write_raw_archive 0 (map ser_entry es)) = Ok (map normalize_entry es, FinOk).
Print Assumptions C14_writer_read_back.

Theorem C14_inner_stream_written :
  forall ns : list normal_entry, Forall writable_normal ns ->
  inner_entries (ser_chunks (concat (map ser_normal ns))) = SOk (map (fun n => RNormal (normalize n)) ns).
Proof. exact inner_entries_written. Qed.
Check C14_inner_stream_written :
  forall ns : list normal_entry, Forall writable_normal ns ->
  inner_entries (ser_chunks (concat (map ser_normal ns))) = SOk (map (fun n => RNormal (normalize n)) ns).
Print Assumptions C14_inner_stream_written.

Theorem C14_writable_satisfiable :
  Forall writable [RNormal ex_plain; RNormal ex_enc; RSolid ex_solid].
Proof. exact ex_writable. Qed.
Check C14_writable_satisfiable :
  Forall writable [RNormal ex_plain; RNormal ex_enc; RSolid ex_solid].
Print Assumptions C14_writable_satisfiable.

Theorem C14_not_writable_rejected :
  wf_archive (write_raw_archive 0 [ser_normal (with_extra_chunks ex_enc [mk (lit "QQQQ") []])]) = false /\
  wf_archive (write_raw_archive 0 [ser_normal
     {| n_hdr := n_hdr ex_enc; n_phsf := None; n_extra := []; n_data := n_data ex_enc; n_meta := n_meta ex_enc; n_xattrs := [] |}]) = false /\
  wf_archive (write_raw_archive 0 [ser_normal
     {| n_hdr := n_hdr ex_enc; n_phsf := n_phsf ex_enc; n_extra := []; n_data := [repeat x07 16; repeat x09 31];
        n_meta := n_meta ex_enc; n_xattrs := [] |}]) = false /\
  wf_archive (write_raw_archive 0 [ser_normal
     {| n_hdr := {| f_major := 0; f_minor := 0; f_kind := KFile; f_comp := CNo; f_enc := ENo; f_mode := MCbc; f_name := lit "../x" |};
        n_phsf := None; n_extra := []; n_data := []; n_meta := n_meta ex_plain; n_xattrs := [] |}]) = false.
Proof. exact not_writable_rejected. Qed.
Check C14_not_writable_rejected :
  wf_archive (write_raw_archive 0 [ser_normal (with_extra_chunks ex_enc [mk (lit "QQQQ") []])]) = false /\
  wf_archive (write_raw_archive 0 [ser_normal
     {| n_hdr := n_hdr ex_enc; n_phsf := None; n_extra := []; n_data := n_data ex_enc; n_meta := n_meta ex_enc; n_xattrs := [] |}]) = false /\
  wf_archive (write_raw_archive 0 [ser_normal
     {| n_hdr := n_hdr ex_enc; n_phsf := n_phsf ex_enc; n_extra := []; n_data := [repeat x07 16; repeat x09 31];
        n_meta := n_meta ex_enc; n_xattrs := [] |}]) = false /\
  wf_archive (write_raw_archive 0 [ser_normal
     {| n_hdr := {| f_major := 0; f_minor := 0; f_kind := KFile; f_comp := CNo; f_enc := ENo; f_mode := MCbc; f_name := lit "../x" |};
        n_phsf := None; n_extra := []; n_data := []; n_meta := n_meta ex_plain; n_xattrs := [] |}]) = false.
Print Assumptions C14_not_writable_rejected.

Theorem C14_empty_archive_wf :
  wf_archive (write_raw_archive 0 []) = true.
Proof. exact wf_empty_archive. Qed.
Check C14_empty_archive_wf :
  wf_archive (write_raw_archive 0 []) = true.
Print Assumptions C14_empty_archive_wf.

(* ---- strict_agrees: the strict and the tolerant reader -------------------------------------------- *)
Theorem C14_strict_entry_agrees :
  forall (h : chunk) (body : list chunk) (e : chunk) (x : read_entry),
  (ty_is h FHED = true /\ ty_is e FEND = true) \/ (ty_is h SHED = true /\ ty_is e SEND = true) ->
  any_entry h body e = SOk x ->
  parse_entry (h :: body ++ [e]) = Ok x.
Proof. exact strict_entry_agrees. Qed.
Check C14_strict_entry_agrees :
  forall (h : chunk) (body : list chunk) (e : chunk) (x : read_entry),
  (ty_is h FHED = true /\ ty_is e FEND = true) \/ (ty_is h SHED = true /\ ty_is e SEND = true) ->
  any_entry h body e = SOk x ->
  parse_entry (h :: body ++ [e]) = Ok x.
Print Assumptions C14_strict_entry_agrees.

Theorem C14_strict_agrees :
  forall bs : bytes, wf_archive bs = true ->
  exists es, strict_decode bs = Ok es /\ entries read_chunk_stream bs = Ok (es, FinOk) /\
             entries read_chunk_slice bs = Ok (es, FinOk).
Proof. exact wf_archive_read. Qed.
Check C14_strict_agrees :
  forall bs : bytes, wf_archive bs = true ->
  exists es, strict_decode bs = Ok es /\ entries read_chunk_stream bs = Ok (es, FinOk) /\
             entries read_chunk_slice bs = Ok (es, FinOk).
Print Assumptions C14_strict_agrees.

Theorem C14_strict_agrees_decode :
  forall (bs : bytes) (es : list read_entry), strict_decode bs = Ok es -> entries read_chunk_stream bs = Ok (es, FinOk).
Proof. exact strict_agrees. Qed.
Check C14_strict_agrees_decode :
  forall (bs : bytes) (es : list read_entry), strict_decode bs = Ok es -> entries read_chunk_stream bs = Ok (es, FinOk).
Print Assumptions C14_strict_agrees_decode.

Theorem C14_strict_agrees_parts :
  forall parts : list bytes, wf_parts parts = true ->
  exists es raws, strict_parts parts = SOk es /\ read_parts read_chunk_stream parts = Ok (raws, FinOk) /\
                  parse_all raws = (es, FinOk).
Proof. exact wf_parts_read. Qed.
Check C14_strict_agrees_parts :
  forall parts : list bytes, wf_parts parts = true ->
  exists es raws, strict_parts parts = SOk es /\ read_parts read_chunk_stream parts = Ok (raws, FinOk) /\
                  parse_all raws = (es, FinOk).
Print Assumptions C14_strict_agrees_parts.

Theorem C14_strict_agrees_parts_slice :
  forall (parts : list bytes) (es : list read_entry), strict_parts parts = SOk es ->
  exists raws, read_parts read_chunk_slice parts = Ok (raws, FinOk) /\ parse_all raws = (es, FinOk).
Proof. exact strict_agrees_parts_slice. Qed.
Check C14_strict_agrees_parts_slice :
  forall (parts : list bytes) (es : list read_entry), strict_parts parts = SOk es ->
  exists raws, read_parts read_chunk_slice parts = Ok (raws, FinOk) /\ parse_all raws = (es, FinOk).
Print Assumptions C14_strict_agrees_parts_slice.

Theorem C14_strict_agrees_chunks :
  forall (parts : list bytes) (es : list read_entry),
  strict_parts parts = SOk es ->
  exists (cs : list chunk) (groups : list (list chunk)),
    bodies 0 parts = SOk cs /\ cs = concat groups /\
    Forall2 (fun g x => parse_entry g = Ok x) groups es.
Proof. exact strict_agrees_chunks. Qed.
Check C14_strict_agrees_chunks :
  forall (parts : list bytes) (es : list read_entry),
  strict_parts parts = SOk es ->
  exists (cs : list chunk) (groups : list (list chunk)),
    bodies 0 parts = SOk cs /\ cs = concat groups /\
    Forall2 (fun g x => parse_entry g = Ok x) groups es.
Print Assumptions C14_strict_agrees_chunks.

(* ---- split_wf: the splitter ------------------------------------------------------------------------ *)
Theorem C14_split_wf :
  forall (max : N) (ents : list read_entry) (parts : list Split.pfile), Forall writable ents ->
  Split.write_split max (map (fun e => map of_c (ser_entry e)) ents) = Ok parts ->
  wf_parts (map ser_pfile parts) = true /\
  exists xs', strict_parts (map ser_pfile parts) = SOk xs' /\ Forall2 entry_same (map normalize_entry ents) xs'.
Proof. exact split_wf. Qed.
Check C14_split_wf :
  forall (max : N) (ents : list read_entry) (parts : list Split.pfile), Forall writable ents ->
  Split.write_split max (map (fun e => map of_c (ser_entry e)) ents) = Ok parts ->
  wf_parts (map ser_pfile parts) = true /\
  exists xs', strict_parts (map ser_pfile parts) = SOk xs' /\ Forall2 entry_same (map normalize_entry ents) xs'.
Print Assumptions C14_split_wf.

Theorem C14_split_wf_chunks :
  forall (max : N) (es : list Split.part) (parts : list Split.pfile) (xs : list read_entry),
  Split.write_split max es = Ok parts ->
  Forall body_chunk (map to_c (concat es)) -> entries_of (map to_c (concat es)) = SOk xs ->
  exists xs', strict_parts (map ser_pfile parts) = SOk xs' /\ Forall2 entry_same xs xs'.
Proof. exact split_wf_chunks. Qed.
Check C14_split_wf_chunks :
  forall (max : N) (es : list Split.part) (parts : list Split.pfile) (xs : list read_entry),
  Split.write_split max es = Ok parts ->
  Forall body_chunk (map to_c (concat es)) -> entries_of (map to_c (concat es)) = SOk xs ->
  exists xs', strict_parts (map ser_pfile parts) = SOk xs' /\ Forall2 entry_same xs xs'.
Print Assumptions C14_split_wf_chunks.

Theorem C14_split_read_back :
  forall (max : N) (ents : list read_entry) (parts : list Split.pfile), Forall writable ents ->
  Split.write_split max (map (fun e => map of_c (ser_entry e)) ents) = Ok parts ->
  exists xs' raws, Forall2 entry_same (map normalize_entry ents) xs' /\
    read_parts read_chunk_stream (map ser_pfile parts) = Ok (raws, FinOk) /\ parse_all raws = (xs', FinOk).
Proof. exact split_read_back. Qed.
Check C14_split_read_back :
  forall (max : N) (ents : list read_entry) (parts : list Split.pfile), Forall writable ents ->
  Split.write_split max (map (fun e => map of_c (ser_entry e)) ents) = Ok parts ->
  exists xs' raws, Forall2 entry_same (map normalize_entry ents) xs' /\
    read_parts read_chunk_stream (map ser_pfile parts) = Ok (raws, FinOk) /\ parse_all raws = (xs', FinOk).
Print Assumptions C14_split_read_back.

Theorem C14_split_wf_satisfiable :
  exists parts,
  Split.write_split 120 (map (fun e => map of_c (ser_entry e)) [RNormal ex_plain; RNormal ex_enc; RSolid ex_solid]) = Ok parts /\
  length parts = 12%nat /\ wf_parts (map ser_pfile parts) = true.
Proof. exact split_wf_ex. Qed.
Check C14_split_wf_satisfiable :
  exists parts,
  Split.write_split 120 (map (fun e => map of_c (ser_entry e)) [RNormal ex_plain; RNormal ex_enc; RSolid ex_solid]) = Ok parts /\
  length parts = 12%nat /\ wf_parts (map ser_pfile parts) = true.
Print Assumptions C14_split_wf_satisfiable.

(* ---- pipeline writer_wf: the library's builders and streaming writers -------------------------------- *)
Theorem C14_pipeline_writer_wf :
  forall (E : encryption -> bytes -> bytes -> bytes) (compress : compression -> N -> list bytes -> list bytes),
  (forall (a : encryption) (k b : bytes), len16 b -> len16 (E a k b)) ->
  forall jobs : list wjob, Forall (job_ok) jobs ->
  wf_archive (write_raw_archive 0 (map (job_chunks E compress) jobs)) = true /\
  strict_decode (write_raw_archive 0 (map (job_chunks E compress) jobs)) = Ok (map (job_entry E compress) jobs) /\
  entries read_chunk_stream (write_raw_archive 0 (map (job_chunks E compress) jobs)) = Ok (map (job_entry E compress) jobs, FinOk).
Proof. exact pipeline_writer_wf. Qed.
Check C14_pipeline_writer_wf :
  forall (E : encryption -> bytes -> bytes -> bytes) (compress : compression -> N -> list bytes -> list bytes),
  (forall (a : encryption) (k b : bytes), len16 b -> len16 (E a k b)) ->
  forall jobs : list wjob, Forall (job_ok) jobs ->
  wf_archive (write_raw_archive 0 (map (job_chunks E compress) jobs)) = true /\
  strict_decode (write_raw_archive 0 (map (job_chunks E compress) jobs)) = Ok (map (job_entry E compress) jobs) /\
  entries read_chunk_stream (write_raw_archive 0 (map (job_chunks E compress) jobs)) = Ok (map (job_entry E compress) jobs, FinOk).
Print Assumptions C14_pipeline_writer_wf.

Theorem C14_build_normal_writable :
  forall (E : encryption -> bytes -> bytes -> bytes) (compress : compression -> N -> list bytes -> list bytes),
  (forall (a : encryption) (k b : bytes), len16 b -> len16 (E a k b)) ->
  forall (cfg : config) (ctx : cctx) (sp : spec) (wcuts : list bytes),
  writable_spec sp -> strict_ctx ctx -> len (concat wcuts) < 2 ^ 128 ->
  writable_normal (build_normal E compress cfg ctx sp wcuts).
Proof. exact build_normal_writable. Qed.
Check C14_build_normal_writable :
  forall (E : encryption -> bytes -> bytes -> bytes) (compress : compression -> N -> list bytes -> list bytes),
  (forall (a : encryption) (k b : bytes), len16 b -> len16 (E a k b)) ->
  forall (cfg : config) (ctx : cctx) (sp : spec) (wcuts : list bytes),
  writable_spec sp -> strict_ctx ctx -> len (concat wcuts) < 2 ^ 128 ->
  writable_normal (build_normal E compress cfg ctx sp wcuts).
Print Assumptions C14_build_normal_writable.

Theorem C14_build_writer_wf :
  forall (E : encryption -> bytes -> bytes -> bytes) (compress : compression -> N -> list bytes -> list bytes),
  (forall (a : encryption) (k b : bytes), len16 b -> len16 (E a k b)) ->
  forall js : list (config * cctx * spec * list bytes),
  Forall (fun '(cfg, ctx, sp, wcuts) => job_ok (JBuild cfg ctx sp wcuts)) js ->
  wf_archive (write_archive (map (fun '(cfg, ctx, sp, wcuts) => build_normal E compress cfg ctx sp wcuts) js)) = true.
Proof. exact build_writer_wf. Qed.
Check C14_build_writer_wf :
  forall (E : encryption -> bytes -> bytes -> bytes) (compress : compression -> N -> list bytes -> list bytes),
  (forall (a : encryption) (k b : bytes), len16 b -> len16 (E a k b)) ->
  forall js : list (config * cctx * spec * list bytes),
  Forall (fun '(cfg, ctx, sp, wcuts) => job_ok (JBuild cfg ctx sp wcuts)) js ->
  wf_archive (write_archive (map (fun '(cfg, ctx, sp, wcuts) => build_normal E compress cfg ctx sp wcuts) js)) = true.
Print Assumptions C14_build_writer_wf.

Theorem C14_stream_file_accepted :
  forall (E : encryption -> bytes -> bytes -> bytes) (compress : compression -> N -> list bytes -> list bytes),
  (forall (a : encryption) (k b : bytes), len16 b -> len16 (E a k b)) ->
  forall (cfg : config) (ctx : cctx) (sp : spec) (wcuts : list bytes),
  writable_spec sp -> strict_ctx ctx ->
  accepted_as (stream_file_chunks E compress cfg ctx sp wcuts) (RNormal (streamed_normal E compress cfg ctx sp wcuts)).
Proof. exact stream_file_accepted. Qed.
Check C14_stream_file_accepted :
  forall (E : encryption -> bytes -> bytes -> bytes) (compress : compression -> N -> list bytes -> list bytes),
  (forall (a : encryption) (k b : bytes), len16 b -> len16 (E a k b)) ->
  forall (cfg : config) (ctx : cctx) (sp : spec) (wcuts : list bytes),
  writable_spec sp -> strict_ctx ctx ->
  accepted_as (stream_file_chunks E compress cfg ctx sp wcuts) (RNormal (streamed_normal E compress cfg ctx sp wcuts)).
Print Assumptions C14_stream_file_accepted.

Theorem C14_build_solid_writable :
  forall (E : encryption -> bytes -> bytes -> bytes) (compress : compression -> N -> list bytes -> list bytes),
  (forall (a : encryption) (k b : bytes), len16 b -> len16 (E a k b)) ->
  forall (cfg : config) (ctx : cctx) (extra : list chunk) (swcuts : list bytes),
  strict_ctx ctx -> Forall sextra_ok extra -> plain_inner cfg swcuts ->
  writable_solid (build_solid E compress cfg ctx extra swcuts).
Proof. exact build_solid_writable. Qed.
Check C14_build_solid_writable :
  forall (E : encryption -> bytes -> bytes -> bytes) (compress : compression -> N -> list bytes -> list bytes),
  (forall (a : encryption) (k b : bytes), len16 b -> len16 (E a k b)) ->
  forall (cfg : config) (ctx : cctx) (extra : list chunk) (swcuts : list bytes),
  strict_ctx ctx -> Forall sextra_ok extra -> plain_inner cfg swcuts ->
  writable_solid (build_solid E compress cfg ctx extra swcuts).
Print Assumptions C14_build_solid_writable.

Theorem C14_solid_archive_accepted :
  forall (E : encryption -> bytes -> bytes -> bytes) (compress : compression -> N -> list bytes -> list bytes),
  (forall (a : encryption) (k b : bytes), len16 b -> len16 (E a k b)) ->
  forall (cfg : config) (ctx : cctx) (swcuts : list bytes),
  strict_ctx ctx -> plain_inner cfg swcuts ->
  accepted_as (solid_archive_chunks E compress cfg ctx swcuts) (RSolid (streamed_solid E compress cfg ctx swcuts)).
Proof. exact solid_archive_accepted. Qed.
Check C14_solid_archive_accepted :
  forall (E : encryption -> bytes -> bytes -> bytes) (compress : compression -> N -> list bytes -> list bytes),
  (forall (a : encryption) (k b : bytes), len16 b -> len16 (E a k b)) ->
  forall (cfg : config) (ctx : cctx) (swcuts : list bytes),
  strict_ctx ctx -> plain_inner cfg swcuts ->
  accepted_as (solid_archive_chunks E compress cfg ctx swcuts) (RSolid (streamed_solid E compress cfg ctx swcuts)).
Print Assumptions C14_solid_archive_accepted.

Theorem C14_accepted_archive :
  forall (ess : list (list chunk)) (xs : list read_entry), Forall2 accepted_as ess xs ->
  strict_parts [write_raw_archive 0 ess] = SOk xs.
Proof. exact accepted_archive. Qed.
Check C14_accepted_archive :
  forall (ess : list (list chunk)) (xs : list read_entry), Forall2 accepted_as ess xs ->
  strict_parts [write_raw_archive 0 ess] = SOk xs.
Print Assumptions C14_accepted_archive.

Theorem C14_pipeline_satisfiable :
  Forall (job_ok) ex_jobs.
Proof. exact ex_jobs_ok. Qed.
Check C14_pipeline_satisfiable :
  Forall (job_ok) ex_jobs.
Print Assumptions C14_pipeline_satisfiable.

Theorem C14_pipeline_cipher_satisfiable :
  forall (a : encryption) (k b : bytes), len16 b -> len16 (toy_E_of a k b).
Proof. exact toy_E_of_len. Qed.
Check C14_pipeline_cipher_satisfiable :
  forall (a : encryption) (k b : bytes), len16 b -> len16 (toy_E_of a k b).
Print Assumptions C14_pipeline_cipher_satisfiable.

(* ---- writable is exact; re-writing decoded entries --------------------------------------------------- *)
Theorem C14_writable_exact :
  (forall es, Forall writable es -> strict_decode (write_raw_archive 0 (map ser_entry es)) = Ok (map normalize_entry es)) /\
  (forall a es, strict_decode a = Ok es -> Forall writable es).
Proof. exact writable_exact. Qed.
Check C14_writable_exact :
  (forall es, Forall writable es -> strict_decode (write_raw_archive 0 (map ser_entry es)) = Ok (map normalize_entry es)) /\
  (forall a es, strict_decode a = Ok es -> Forall writable es).
Print Assumptions C14_writable_exact.

Theorem C14_decoded_writable :
  forall (parts : list bytes) (es : list read_entry), strict_parts parts = SOk es -> Forall writable es.
Proof. exact decoded_writable. Qed.
Check C14_decoded_writable :
  forall (parts : list bytes) (es : list read_entry), strict_parts parts = SOk es -> Forall writable es.
Print Assumptions C14_decoded_writable.

Theorem C14_rewrite_wf :
  forall (a : bytes) (es : list read_entry) (keep : read_entry -> bool), strict_decode a = Ok es ->
  wf_archive (write_raw_archive 0 (map ser_entry (filter keep es))) = true /\
  strict_decode (write_raw_archive 0 (map ser_entry (filter keep es))) = Ok (map normalize_entry (filter keep es)).
Proof. exact rewrite_wf. Qed.
Check C14_rewrite_wf :
  forall (a : bytes) (es : list read_entry) (keep : read_entry -> bool), strict_decode a = Ok es ->
  wf_archive (write_raw_archive 0 (map ser_entry (filter keep es))) = true /\
  strict_decode (write_raw_archive 0 (map ser_entry (filter keep es))) = Ok (map normalize_entry (filter keep es)).
Print Assumptions C14_rewrite_wf.

(* ---- transform_wf: chmod, chown, xattr, strip, delete ------------------------------------------------ *)
Theorem C14_transform_wf_partial :
  forall (hdr_tok content_tok : normal_entry -> bytes)
         (expand : solid_entry -> res (list normal_entry)) (rebuild : solid_entry -> list normal_entry -> solid_entry),
  (forall (s : solid_entry) (inner : list normal_entry), writable_solid s -> expand s = Ok inner -> Forall writable_normal inner) ->
  (forall (s : solid_entry) (inner : list normal_entry), writable_solid s -> Forall writable_normal inner ->
     writable_solid (rebuild s inner)) ->
  forall (keep pw : bool) (c : Transform.cmd) (nfiles : N) (sel : bytes -> bool) (a a' : bytes),
  cmd_ok c -> wf_archive a = true ->
  run_edit hdr_tok content_tok expand rebuild keep pw c nfiles sel a = Ok a' -> wf_archive a' = true.
Proof. exact transform_wf. Qed.
Check C14_transform_wf_partial :
  forall (hdr_tok content_tok : normal_entry -> bytes)
         (expand : solid_entry -> res (list normal_entry)) (rebuild : solid_entry -> list normal_entry -> solid_entry),
  (forall (s : solid_entry) (inner : list normal_entry), writable_solid s -> expand s = Ok inner -> Forall writable_normal inner) ->
  (forall (s : solid_entry) (inner : list normal_entry), writable_solid s -> Forall writable_normal inner ->
     writable_solid (rebuild s inner)) ->
  forall (keep pw : bool) (c : Transform.cmd) (nfiles : N) (sel : bytes -> bool) (a a' : bytes),
  cmd_ok c -> wf_archive a = true ->
  run_edit hdr_tok content_tok expand rebuild keep pw c nfiles sel a = Ok a' -> wf_archive a' = true.
Print Assumptions C14_transform_wf_partial.

Theorem C14_edit_entry_view :
  forall hdr_tok content_tok : normal_entry -> bytes,
  (forall (e : normal_entry) (m : metadata) (xs : list xattr) (cs : list chunk),
     hdr_tok (with_extra_chunks (with_xattrs (with_metadata e m) xs) cs) = hdr_tok e) ->
  (forall (e : normal_entry) (m : metadata) (xs : list xattr) (cs : list chunk),
     content_tok (with_extra_chunks (with_xattrs (with_metadata e m) xs) cs) = content_tok e) ->
  forall (c : Transform.cmd) (sel : bytes -> bool) (e : normal_entry) (o : option normal_entry),
  edit_entry hdr_tok content_tok c sel e = Ok o ->
  Transform.cmd_transformer c sel (lview hdr_tok content_tok e) = Ok (option_map (lview hdr_tok content_tok) o).
Proof. exact edit_entry_view. Qed.
Check C14_edit_entry_view :
  forall hdr_tok content_tok : normal_entry -> bytes,
  (forall (e : normal_entry) (m : metadata) (xs : list xattr) (cs : list chunk),
     hdr_tok (with_extra_chunks (with_xattrs (with_metadata e m) xs) cs) = hdr_tok e) ->
  (forall (e : normal_entry) (m : metadata) (xs : list xattr) (cs : list chunk),
     content_tok (with_extra_chunks (with_xattrs (with_metadata e m) xs) cs) = content_tok e) ->
  forall (c : Transform.cmd) (sel : bytes -> bool) (e : normal_entry) (o : option normal_entry),
  edit_entry hdr_tok content_tok c sel e = Ok o ->
  Transform.cmd_transformer c sel (lview hdr_tok content_tok e) = Ok (option_map (lview hdr_tok content_tok) o).
Print Assumptions C14_edit_entry_view.

Theorem C14_edit_entry_writable :
  forall (hdr_tok content_tok : normal_entry -> bytes) (c : Transform.cmd) (sel : bytes -> bool) (e e' : normal_entry),
  cmd_ok c -> writable_normal e -> edit_entry hdr_tok content_tok c sel e = Ok (Some e') -> writable_normal e'.
Proof. exact edit_entry_writable. Qed.
Check C14_edit_entry_writable :
  forall (hdr_tok content_tok : normal_entry -> bytes) (c : Transform.cmd) (sel : bytes -> bool) (e e' : normal_entry),
  cmd_ok c -> writable_normal e -> edit_entry hdr_tok content_tok c sel e = Ok (Some e') -> writable_normal e'.
Print Assumptions C14_edit_entry_writable.

Theorem C14_transform_wf_satisfiable :
  let a := write_raw_archive 0 (map ser_entry [RNormal ex_plain; RNormal ex_enc]) in
  cmd_ok (Transform.CChmod (MPlus 1 1)) /\ wf_archive a = true /\
  exists a', run_edit ex_hdr_tok ex_content_tok (fun _ => Ok []) (fun s _ => s) true false
               (Transform.CChmod (MPlus 1 1)) 1 (fun _ => true) a = Ok a' /\
             a' <> a /\ wf_archive a' = true.
Proof. exact transform_wf_ex. Qed.
Check C14_transform_wf_satisfiable :
  let a := write_raw_archive 0 (map ser_entry [RNormal ex_plain; RNormal ex_enc]) in
  cmd_ok (Transform.CChmod (MPlus 1 1)) /\ wf_archive a = true /\
  exists a', run_edit ex_hdr_tok ex_content_tok (fun _ => Ok []) (fun s _ => s) true false
               (Transform.CChmod (MPlus 1 1)) 1 (fun _ => true) a = Ok a' /\
             a' <> a /\ wf_archive a' = true.
Print Assumptions C14_transform_wf_satisfiable.

Theorem C14_transform_tokens_satisfiable :
  (forall e m xs cs, ex_hdr_tok (with_extra_chunks (with_xattrs (with_metadata e m) xs) cs) = ex_hdr_tok e) /\
  (forall e m xs cs, ex_content_tok (with_extra_chunks (with_xattrs (with_metadata e m) xs) cs) = ex_content_tok e).
Proof. exact ex_tokens. Qed.
Check C14_transform_tokens_satisfiable :
  (forall e m xs cs, ex_hdr_tok (with_extra_chunks (with_xattrs (with_metadata e m) xs) cs) = ex_hdr_tok e) /\
  (forall e m xs cs, ex_content_tok (with_extra_chunks (with_xattrs (with_metadata e m) xs) cs) = ex_content_tok e).
Print Assumptions C14_transform_tokens_satisfiable.

Theorem C14_rebuild_solid_writable :
  forall (E : encryption -> bytes -> bytes -> bytes) (compress : compression -> N -> list bytes -> list bytes),
  (forall (a : encryption) (k b : bytes), len16 b -> len16 (E a k b)) ->
  forall (cfg : config) (ctx : cctx) (extra : list chunk) (inner : list normal_entry),
  strict_ctx ctx -> Forall sextra_ok extra -> Forall writable_normal inner ->
  writable_solid (build_solid E compress cfg ctx extra (solid_writes inner)).
Proof. exact rebuild_solid_writable. Qed.
Check C14_rebuild_solid_writable :
  forall (E : encryption -> bytes -> bytes -> bytes) (compress : compression -> N -> list bytes -> list bytes),
  (forall (a : encryption) (k b : bytes), len16 b -> len16 (E a k b)) ->
  forall (cfg : config) (ctx : cctx) (extra : list chunk) (inner : list normal_entry),
  strict_ctx ctx -> Forall sextra_ok extra -> Forall writable_normal inner ->
  writable_solid (build_solid E compress cfg ctx extra (solid_writes inner)).
Print Assumptions C14_rebuild_solid_writable.

Theorem C14_transform_wf_pipeline_partial :
  forall (E : encryption -> bytes -> bytes -> bytes) (compress : compression -> N -> list bytes -> list bytes),
  (forall (a : encryption) (k b : bytes), len16 b -> len16 (E a k b)) ->
  forall (hdr_tok content_tok : normal_entry -> bytes) (expand : solid_entry -> res (list normal_entry)),
  (forall (s : solid_entry) (inner : list normal_entry), writable_solid s -> expand s = Ok inner -> Forall writable_normal inner) ->
  forall (lvl : N) (ctx : cctx), strict_ctx ctx ->
  forall (keep pw : bool) (c : Transform.cmd) (nfiles : N) (sel : bytes -> bool) (a a' : bytes),
  cmd_ok c -> wf_archive a = true ->
  run_edit hdr_tok content_tok expand (rebuild_pipeline E compress lvl ctx) keep pw c nfiles sel a = Ok a' ->
  wf_archive a' = true.
Proof. exact transform_wf_pipeline. Qed.
Check C14_transform_wf_pipeline_partial :
  forall (E : encryption -> bytes -> bytes -> bytes) (compress : compression -> N -> list bytes -> list bytes),
  (forall (a : encryption) (k b : bytes), len16 b -> len16 (E a k b)) ->
  forall (hdr_tok content_tok : normal_entry -> bytes) (expand : solid_entry -> res (list normal_entry)),
  (forall (s : solid_entry) (inner : list normal_entry), writable_solid s -> expand s = Ok inner -> Forall writable_normal inner) ->
  forall (lvl : N) (ctx : cctx), strict_ctx ctx ->
  forall (keep pw : bool) (c : Transform.cmd) (nfiles : N) (sel : bytes -> bool) (a a' : bytes),
  cmd_ok c -> wf_archive a = true ->
  run_edit hdr_tok content_tok expand (rebuild_pipeline E compress lvl ctx) keep pw c nfiles sel a = Ok a' ->
  wf_archive a' = true.
Print Assumptions C14_transform_wf_pipeline_partial.

Theorem C14_solid_inner_writable :
  forall s : solid_entry, writable_solid s -> solid_plain s = true ->
  exists inner, solid_inner_entries s = (inner, FinOk) /\ Forall writable_normal inner.
Proof. exact solid_inner_writable. Qed.
Check C14_solid_inner_writable :
  forall s : solid_entry, writable_solid s -> solid_plain s = true ->
  exists inner, solid_inner_entries s = (inner, FinOk) /\ Forall writable_normal inner.
Print Assumptions C14_solid_inner_writable.

Theorem C14_expand_plain_writable :
  forall other : solid_entry -> res (list normal_entry),
  (forall s inner, writable_solid s -> solid_plain s = false -> other s = Ok inner -> Forall writable_normal inner) ->
  forall s inner, writable_solid s -> expand_plain_or other s = Ok inner -> Forall writable_normal inner.
Proof. exact expand_plain_or_writable. Qed.
Check C14_expand_plain_writable :
  forall other : solid_entry -> res (list normal_entry),
  (forall s inner, writable_solid s -> solid_plain s = false -> other s = Ok inner -> Forall writable_normal inner) ->
  forall s inner, writable_solid s -> expand_plain_or other s = Ok inner -> Forall writable_normal inner.
Print Assumptions C14_expand_plain_writable.

Theorem C14_valid_name_sanitised :
  forall n : bytes, utf8_valid n = true -> Name.sanitize_name n = n -> n <> [] -> valid_name n = true.
Proof. exact valid_name_sanitised. Qed.
Check C14_valid_name_sanitised :
  forall n : bytes, utf8_valid n = true -> Name.sanitize_name n = n -> n <> [] -> valid_name n = true.
Print Assumptions C14_valid_name_sanitised.
