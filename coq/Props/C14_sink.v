(* Props/C14_sink.v — C14 / C01: a chunk's length field is 32 bits wide, and every writer cuts what it is given so
   that the field is exact — for writes and payloads of EVERY length.

   The code (lib/src/chunk/write.rs ChunkStreamWriter::write since fix 45407aa2; lib/src/io.rs FlattenWriter<u32::MAX>;
   lib/src/entry.rs into_chunks / chunks_write_in) cuts at u32::MAX bytes with `slice::chunks`.  The model
   (Model/Chunk.v pieces; Model/Pipeline.v chunk_sink_at / flat_sink_at; Model/Entry.v data_chunks_at) states the
   cutters for every bound cmax, kept in N (the bound is never a unary number: the list is walked with a counter);
   the code's bound is CMAX = 2^32 - 1 (chunk_sink = chunk_sink_at CMAX, ...), opaque to every proof: whatever is
   proved with CMAX_pos / CMAX_lt alone holds for every positive bound.
   Until this file the three cutters were the identity / `filter nonempty` and "writes of 2^32 bytes or more are outside
   the model" was a premise (`small_pieces`, `compress_small`, the data clause of `fits` and of `writable_normal`):
   these premises are gone from every theorem of Props/C01*.v, C02_split.v, C10_container.v, C11_update.v,
   C12_container.v, C14.v, C14_create.v, C14_phc.v (the statements there no longer mention them).
     (a) C14_*_bounded, C14_*_length_fields       every emitted payload has at most cmax bytes; with CMAX the length
                                                  field read back is the payload's length
     (b) C14_*_concat, C14_sink_write_nil, C14_*_small   the pieces are the write; the empty write is one empty chunk;
                                                  a write of at most cmax bytes is itself, one chunk: the archives that
                                                  could be written before are written as before
     (c) C14_chunk_sink_unrepaired_refuted (bound 3: the write 1 2 3 4 5 is one 5-byte chunk) and
         C14_chunk_sink_orig_length_field_wrong (EVERY write of 2^32 bytes or more: the field is wrong)
   The implementation side of one 2^32 + k byte write is harness/src/bin/hugewrite.rs (C01). *)
From PNA Require Import Base Crc32 Name Codec Chunk Archive Entry Flatten Cbc Ctr Pipeline Wf.
From PNA Require Import BaseFacts NameFacts CodecFacts Crc32Facts ChunkFacts ArchiveFacts PiecesFacts EntryFacts CbcFacts CtrFacts
  FlattenFacts StreamFacts PipelineFacts WfFacts WfWriterFacts WfAgreeFacts WfPipelineFacts SinkFacts.
Open Scope N_scope.

(* ---- slice::chunks(cmax), for every positive bound and every list ------------------------------------------- *)
Theorem C14_pieces_concat : forall (cmax : N) (l : bytes), 0 < cmax -> concat (pieces cmax l) = l.
Proof. exact (@pieces_concat Byte.byte). Qed.
Check C14_pieces_concat : forall (cmax : N) (l : bytes), 0 < cmax -> concat (pieces cmax l) = l.
Print Assumptions C14_pieces_concat.

Theorem C14_pieces_bounded : forall (cmax : N) (l : bytes), 0 < cmax ->
  Forall (fun p => p <> [] /\ len p <= cmax) (pieces cmax l).
Proof. exact (@pieces_bounded Byte.byte). Qed.
Check C14_pieces_bounded : forall (cmax : N) (l : bytes), 0 < cmax ->
  Forall (fun p => p <> [] /\ len p <= cmax) (pieces cmax l).
Print Assumptions C14_pieces_bounded.

Theorem C14_pieces_small : forall (cmax : N) (l : bytes), l <> [] -> len l <= cmax -> pieces cmax l = [l].
Proof. exact (@pieces_small Byte.byte). Qed.
Check C14_pieces_small : forall (cmax : N) (l : bytes), l <> [] -> len l <= cmax -> pieces cmax l = [l].
Print Assumptions C14_pieces_small.

(* the step of slice::chunks: the first min(cmax, |l|) bytes, then the pieces of the rest *)
Theorem C14_pieces_step : forall (cmax : N) (l : bytes), 0 < cmax -> l <> [] ->
  pieces cmax l = fst (splitN cmax l) :: pieces cmax (snd (splitN cmax l)).
Proof. exact (@pieces_step Byte.byte). Qed.
Check C14_pieces_step : forall (cmax : N) (l : bytes), 0 < cmax -> l <> [] ->
  pieces cmax l = fst (splitN cmax l) :: pieces cmax (snd (splitN cmax l)).
Print Assumptions C14_pieces_step.

Theorem C14_code_bound : 0 < CMAX /\ forall n, n <= CMAX <-> n < 2 ^ 32.
Proof. exact CMAX_bound. Qed.
Check C14_code_bound : 0 < CMAX /\ forall n, n <= CMAX <-> n < 2 ^ 32.
Print Assumptions C14_code_bound.

(* ---- ChunkStreamWriter::write (45407aa2) --------------------------------------------------------------------- *)
(* (a) every chunk the sink emits has a payload of at most cmax bytes *)
Theorem C14_chunk_sink_bounded : forall cmax ps, 0 < cmax -> Forall (fun q => len q <= cmax) (chunk_sink_at cmax ps).
Proof. exact chunk_sink_at_bounded. Qed.
Check C14_chunk_sink_bounded : forall cmax ps, 0 < cmax -> Forall (fun q => len q <= cmax) (chunk_sink_at cmax ps).
Print Assumptions C14_chunk_sink_bounded.

(* (b) the payloads are the writes; the empty write is one empty chunk; a write of at most cmax bytes is one chunk; every
   write gives at least one chunk *)
Theorem C14_chunk_sink_concat : forall cmax ps, 0 < cmax -> concat (chunk_sink_at cmax ps) = concat ps.
Proof. exact chunk_sink_at_concat. Qed.
Check C14_chunk_sink_concat : forall cmax ps, 0 < cmax -> concat (chunk_sink_at cmax ps) = concat ps.
Print Assumptions C14_chunk_sink_concat.

Theorem C14_sink_write_nil : forall cmax, sink_write cmax [] = [[]].
Proof. exact sink_write_nil. Qed.
Check C14_sink_write_nil : forall cmax, sink_write cmax [] = [[]].
Print Assumptions C14_sink_write_nil.

Theorem C14_sink_write_small : forall cmax p, len p <= cmax -> sink_write cmax p = [p].
Proof. exact sink_write_small. Qed.
Check C14_sink_write_small : forall cmax p, len p <= cmax -> sink_write cmax p = [p].
Print Assumptions C14_sink_write_small.

Theorem C14_sink_write_concat : forall cmax p, 0 < cmax -> concat (sink_write cmax p) = p.
Proof. exact sink_write_concat. Qed.
Check C14_sink_write_concat : forall cmax p, 0 < cmax -> concat (sink_write cmax p) = p.
Print Assumptions C14_sink_write_concat.

(* writes of at most cmax bytes: the sink is the identity — the sink of before the generalisation, so the
   correspondence with the code on such writes is unchanged *)
Theorem C14_chunk_sink_small : forall cmax ps, Forall (fun p => len p <= cmax) ps -> chunk_sink_at cmax ps = ps.
Proof. exact chunk_sink_at_small. Qed.
Check C14_chunk_sink_small : forall cmax ps, Forall (fun p => len p <= cmax) ps -> chunk_sink_at cmax ps = ps.
Print Assumptions C14_chunk_sink_small.

Theorem C14_chunk_sink_small_code : forall ps, Forall (fun p => len p < 2 ^ 32) ps -> chunk_sink ps = ps.
Proof. exact chunk_sink_small. Qed.
Check C14_chunk_sink_small_code : forall ps, Forall (fun p => len p < 2 ^ 32) ps -> chunk_sink ps = ps.
Print Assumptions C14_chunk_sink_small_code.

Theorem C14_chunk_sink_length : forall cmax ps, 0 < cmax -> (length ps <= length (chunk_sink_at cmax ps))%nat.
Proof. exact chunk_sink_at_length. Qed.
Check C14_chunk_sink_length : forall cmax ps, 0 < cmax -> (length ps <= length (chunk_sink_at cmax ps))%nat.
Print Assumptions C14_chunk_sink_length.

(* ---- FlattenWriter<u32::MAX> (the builders) and into_chunks (re-serialisation) --------------------------------- *)
Theorem C14_flat_sink_bounded : forall cmax ps, 0 < cmax -> Forall (fun p => p <> [] /\ len p <= cmax) (flat_sink_at cmax ps).
Proof. exact flat_sink_at_bounded. Qed.
Check C14_flat_sink_bounded : forall cmax ps, 0 < cmax -> Forall (fun p => p <> [] /\ len p <= cmax) (flat_sink_at cmax ps).
Print Assumptions C14_flat_sink_bounded.

Theorem C14_flat_sink_concat : forall cmax ps, 0 < cmax -> concat (flat_sink_at cmax ps) = concat ps.
Proof. exact flat_sink_at_concat. Qed.
Check C14_flat_sink_concat : forall cmax ps, 0 < cmax -> concat (flat_sink_at cmax ps) = concat ps.
Print Assumptions C14_flat_sink_concat.

Theorem C14_flat_sink_small_code : forall ps, Forall (fun p => len p < 2 ^ 32) ps -> flat_sink ps = filter ne ps.
Proof. exact flat_sink_small. Qed.
Check C14_flat_sink_small_code : forall ps, Forall (fun p => len p < 2 ^ 32) ps -> flat_sink ps = filter ne ps.
Print Assumptions C14_flat_sink_small_code.

(* the sink is Flatten.flatten_write's slice::chunks with a unary bound, for every write *)
Theorem C14_flat_sink_faithful : forall (n : nat) ps, concat (map (chunks n) ps) = flat_sink_at (N.of_nat n) ps.
Proof. exact flat_sink_faithful. Qed.
Check C14_flat_sink_faithful : forall (n : nat) ps, concat (map (chunks n) ps) = flat_sink_at (N.of_nat n) ps.
Print Assumptions C14_flat_sink_faithful.

Theorem C14_data_chunks_bounded : forall cmax t d, 0 < cmax ->
  Forall (fun c => cty c = t /\ cdata c <> [] /\ len (cdata c) <= cmax) (data_chunks_at cmax t d).
Proof. exact data_chunks_at_bounded. Qed.
Check C14_data_chunks_bounded : forall cmax t d, 0 < cmax ->
  Forall (fun c => cty c = t /\ cdata c <> [] /\ len (cdata c) <= cmax) (data_chunks_at cmax t d).
Print Assumptions C14_data_chunks_bounded.

Theorem C14_data_chunks_concat : forall cmax t d, 0 < cmax -> concat (map cdata (data_chunks_at cmax t d)) = d.
Proof. exact data_chunks_at_concat. Qed.
Check C14_data_chunks_concat : forall cmax t d, 0 < cmax -> concat (map cdata (data_chunks_at cmax t d)) = d.
Print Assumptions C14_data_chunks_concat.

Theorem C14_data_chunks_small : forall cmax t d, d <> [] -> len d <= cmax -> data_chunks_at cmax t d = [mk t d].
Proof. exact data_chunks_at_small. Qed.
Check C14_data_chunks_small : forall cmax t d, d <> [] -> len d <= cmax -> data_chunks_at cmax t d = [mk t d].
Print Assumptions C14_data_chunks_small.

Theorem C14_data_chunks_nil : forall cmax t, data_chunks_at cmax t [] = [].
Proof. exact data_chunks_at_nil. Qed.
Check C14_data_chunks_nil : forall cmax t, data_chunks_at cmax t [] = [].
Print Assumptions C14_data_chunks_nil.

(* ---- the length field ------------------------------------------------------------------------------------------ *)
(* the first four bytes of a serialised chunk, read back as a big-endian number, are the payload's length iff the payload
   has less than 2^32 bytes *)
Theorem C14_length_field_exact : forall c, len (cdata c) < 2 ^ 32 -> length_field c = len (cdata c).
Proof. exact length_field_exact. Qed.
Check C14_length_field_exact : forall c, len (cdata c) < 2 ^ 32 -> length_field c = len (cdata c).
Print Assumptions C14_length_field_exact.

Theorem C14_length_field_wrong : forall c, 2 ^ 32 <= len (cdata c) -> length_field c <> len (cdata c).
Proof. exact length_field_wrong. Qed.
Check C14_length_field_wrong : forall c, 2 ^ 32 <= len (cdata c) -> length_field c <> len (cdata c).
Print Assumptions C14_length_field_wrong.

(* (a) with the code's bound: every chunk the three cutters emit declares its payload's length exactly — no premise *)
Theorem C14_chunk_sink_length_fields : forall t ps,
  Forall (fun c => length_field c = len (cdata c)) (map (mk t) (chunk_sink ps)).
Proof. exact chunk_sink_length_fields. Qed.
Check C14_chunk_sink_length_fields : forall t ps,
  Forall (fun c => length_field c = len (cdata c)) (map (mk t) (chunk_sink ps)).
Print Assumptions C14_chunk_sink_length_fields.

Theorem C14_flat_sink_length_fields : forall t ps,
  Forall (fun c => length_field c = len (cdata c)) (map (mk t) (flat_sink ps)).
Proof. exact flat_sink_length_fields. Qed.
Check C14_flat_sink_length_fields : forall t ps,
  Forall (fun c => length_field c = len (cdata c)) (map (mk t) (flat_sink ps)).
Print Assumptions C14_flat_sink_length_fields.

Theorem C14_data_chunks_length_fields : forall t d, Forall (fun c => length_field c = len (cdata c)) (data_chunks t d).
Proof. exact data_chunks_length_fields. Qed.
Check C14_data_chunks_length_fields : forall t d, Forall (fun c => length_field c = len (cdata c)) (data_chunks t d).
Print Assumptions C14_data_chunks_length_fields.

(* ... and so does every chunk of what Archive::write_file and SolidArchive write, and of every job of C14_pipeline_writer_wf,
   for writes of every length (the premise small_pieces of before the fix is gone) *)
Theorem C14_stream_file_length_fields :
  forall (E : encryption -> bytes -> bytes -> bytes) (compress : compression -> N -> list bytes -> list bytes),
  (forall a k b, len16 b -> len16 (E a k b)) ->
  forall cfg ctx sp wcuts, writable_spec sp -> strict_ctx ctx ->
  Forall (fun c => length_field c = len (cdata c)) (stream_file_chunks E compress cfg ctx sp wcuts).
Proof. exact stream_file_length_fields. Qed.
Check C14_stream_file_length_fields :
  forall (E : encryption -> bytes -> bytes -> bytes) (compress : compression -> N -> list bytes -> list bytes),
  (forall a k b, len16 b -> len16 (E a k b)) ->
  forall cfg ctx sp wcuts, writable_spec sp -> strict_ctx ctx ->
  Forall (fun c => length_field c = len (cdata c)) (stream_file_chunks E compress cfg ctx sp wcuts).
Print Assumptions C14_stream_file_length_fields.

Theorem C14_solid_archive_length_fields :
  forall (E : encryption -> bytes -> bytes -> bytes) (compress : compression -> N -> list bytes -> list bytes),
  (forall a k b, len16 b -> len16 (E a k b)) ->
  forall cfg ctx swcuts, strict_ctx ctx -> plain_inner cfg swcuts ->
  Forall (fun c => length_field c = len (cdata c)) (solid_archive_chunks E compress cfg ctx swcuts).
Proof. exact solid_archive_length_fields. Qed.
Check C14_solid_archive_length_fields :
  forall (E : encryption -> bytes -> bytes -> bytes) (compress : compression -> N -> list bytes -> list bytes),
  (forall a k b, len16 b -> len16 (E a k b)) ->
  forall cfg ctx swcuts, strict_ctx ctx -> plain_inner cfg swcuts ->
  Forall (fun c => length_field c = len (cdata c)) (solid_archive_chunks E compress cfg ctx swcuts).
Print Assumptions C14_solid_archive_length_fields.

Theorem C14_job_length_fields :
  forall (E : encryption -> bytes -> bytes -> bytes) (compress : compression -> N -> list bytes -> list bytes),
  (forall a k b, len16 b -> len16 (E a k b)) ->
  forall j, job_ok j -> Forall (fun c => length_field c = len (cdata c)) (job_chunks E compress j).
Proof. exact job_length_fields. Qed.
Check C14_job_length_fields :
  forall (E : encryption -> bytes -> bytes -> bytes) (compress : compression -> N -> list bytes -> list bytes),
  (forall a k b, len16 b -> len16 (E a k b)) ->
  forall j, job_ok j -> Forall (fun c => length_field c = len (cdata c)) (job_chunks E compress j).
Print Assumptions C14_job_length_fields.

(* what job_ok asks now: the format's ranges and the cipher context; nothing about the size of the writes *)
Theorem C14_job_ok_unfolded : forall j, job_ok j <->
  match j with
  | JBuild cfg ctx sp wcuts => writable_spec sp /\ strict_ctx ctx /\ len (concat wcuts) < 2 ^ 128
  | JStream cfg ctx sp wcuts => writable_spec sp /\ strict_ctx ctx
  | JSolid cfg ctx extra swcuts => strict_ctx ctx /\ Forall sextra_ok extra /\ plain_inner cfg swcuts
  | JSolidStream cfg ctx swcuts => strict_ctx ctx /\ plain_inner cfg swcuts
  end.
Proof. exact job_ok_unfolded. Qed.
Print Assumptions C14_job_ok_unfolded.

(* what `fits` (Props/C01_pipeline.v) asks: nothing about the data payloads; the normal form of re-serialisation *)
Theorem C01_fits_unfolded : forall e, fits e <->
  6 + len (f_name (n_hdr e)) < 2 ^ 32 /\ opt_all (fun s => len s < 2 ^ 32) (n_phsf e) /\
  Forall wf_chunk (n_extra e) /\ Forall (fun c => is_term c = false) (n_extra e) /\
  Forall (fun x => 8 + len (x_name x) + len (x_value x) < 2 ^ 32) (n_xattrs e).
Proof. exact fits_unfolded. Qed.
Print Assumptions C01_fits_unfolded.

Theorem C01_normalize_data : forall e, n_data (normalize e) = cutN CMAX (n_data e).
Proof. exact normalize_data. Qed.
Check C01_normalize_data : forall e, n_data (normalize e) = cutN CMAX (n_data e).
Print Assumptions C01_normalize_data.

Theorem C01_normalize_data_small : forall e, Forall (fun d => len d < 2 ^ 32) (n_data e) ->
  n_data (normalize e) = filter nonempty (n_data e).
Proof. exact normalize_data_small. Qed.
Check C01_normalize_data_small : forall e, Forall (fun d => len d < 2 ^ 32) (n_data e) ->
  n_data (normalize e) = filter nonempty (n_data e).
Print Assumptions C01_normalize_data_small.

(* ---- (c) the writer before 45407aa2 ------------------------------------------------------------------------------ *)
(* with a bound of 3 bytes: the write 1 2 3 4 5 left the old sink as one chunk of 5 bytes; the repaired sink makes
   1 2 3 | 4 5 of it *)
Theorem C14_chunk_sink_unrepaired_refuted :
  exists ps, ~ Forall (fun q => len q <= 3) (chunk_sink_orig ps) /\
             chunk_sink_at 3 ps = [[x01; x02; x03]; [x04; x05]] /\ concat (chunk_sink_at 3 ps) = concat ps.
Proof. exact chunk_sink_unrepaired. Qed.
Check C14_chunk_sink_unrepaired_refuted :
  exists ps, ~ Forall (fun q => len q <= 3) (chunk_sink_orig ps) /\
             chunk_sink_at 3 ps = [[x01; x02; x03]; [x04; x05]] /\ concat (chunk_sink_at 3 ps) = concat ps.
Print Assumptions C14_chunk_sink_unrepaired_refuted.

(* with the code's bound, for EVERY write of 2^32 bytes or more: the old sink's chunk declares a wrong length; the
   repaired sink's chunks declare exact lengths and carry the write *)
Theorem C14_chunk_sink_orig_length_field_wrong : forall t p, 2 ^ 32 <= len p ->
  exists c, In c (map (mk t) (chunk_sink_orig [p])) /\ length_field c <> len (cdata c).
Proof. exact chunk_sink_orig_length_field_wrong. Qed.
Check C14_chunk_sink_orig_length_field_wrong : forall t p, 2 ^ 32 <= len p ->
  exists c, In c (map (mk t) (chunk_sink_orig [p])) /\ length_field c <> len (cdata c).
Print Assumptions C14_chunk_sink_orig_length_field_wrong.

Theorem C14_chunk_sink_repaired : forall t p,
  Forall (fun c => length_field c = len (cdata c)) (map (mk t) (chunk_sink [p])) /\
  concat (chunk_sink [p]) = p /\ chunk_sink [p] <> [].
Proof. exact chunk_sink_repaired. Qed.
Check C14_chunk_sink_repaired : forall t p,
  Forall (fun c => length_field c = len (cdata c)) (map (mk t) (chunk_sink [p])) /\
  concat (chunk_sink [p]) = p /\ chunk_sink [p] <> [].
Print Assumptions C14_chunk_sink_repaired.
