(* Props/C06_solid.v — C06 at the level of the stream INSIDE a solid entry (entry.rs EntryIterator, after fix
   66ed01cc): the iterator reports the clean end of the stream only between two entries with no byte left; a stream
   that ends anywhere else — cut inside a chunk or inside an entry, or garbage produced by decrypting with a wrong
   password, whose bogus chunk length runs off the end — is reported as UnexpectedEof, never taken for the end.
   Before the fix every UnexpectedEof ended the iteration silently (`pna list --password wrong` on a stored CTR
   solid entry: exit 0 and nothing listed; `pna experimental delete --password wrong`: the archive rewritten
   without its entries): the last theorem is the witness on the model of the unrepaired iterator.
   Only statements, closed by `exact`, pinned by `Check`, audited by `Print Assumptions`. *)
From PNA Require Import Base Crc32 Codec Chunk Archive Entry BaseFacts ChunkFacts ArchiveFacts EntryFacts.
Open Scope N_scope.

Theorem C06_solid_stream_ends_only_between_entries :
  forall fuel bs acc, inner_item fuel bs acc = Ok None -> bs = [] /\ acc = [].
Proof. exact inner_item_none. Qed.
Check C06_solid_stream_ends_only_between_entries :
  forall fuel bs acc, inner_item fuel bs acc = Ok None -> bs = [] /\ acc = [].
Print Assumptions C06_solid_stream_ends_only_between_entries.

(* an entry that is yielded has consumed a non-empty piece from the front of the stream: nothing is skipped *)
Theorem C06_solid_stream_entry_consumes :
  forall fuel bs acc cs r, inner_item fuel bs acc = Ok (Some (cs, r)) -> exists used, bs = used ++ r /\ used <> [].
Proof. exact inner_item_some_suffix. Qed.
Check C06_solid_stream_entry_consumes :
  forall fuel bs acc cs r, inner_item fuel bs acc = Ok (Some (cs, r)) -> exists used, bs = used ++ r /\ used <> [].
Print Assumptions C06_solid_stream_entry_consumes.

Theorem C06_solid_stream_unrepaired_refuted :
  exists bs, bs <> [] /\ inner_item_orig (S (length bs)) bs [] = Ok None /\ inner_item (S (length bs)) bs [] = Err UnexpectedEof.
Proof. exact inner_item_orig_silent. Qed.
Check C06_solid_stream_unrepaired_refuted :
  exists bs, bs <> [] /\ inner_item_orig (S (length bs)) bs [] = Ok None /\ inner_item (S (length bs)) bs [] = Err UnexpectedEof.
Print Assumptions C06_solid_stream_unrepaired_refuted.

(* a clean end certifies the whole stream: byte for byte a sequence of well-formed chunks whose CRCs matched *)
Theorem C06_solid_clean_end_certifies_stream :
  forall fuel bs es, inner_entries_loop fuel bs = (es, FinOk) -> exists cs, bs = ser_chunks cs /\ Forall wf_chunk cs.
Proof. exact inner_loop_ok_shape. Qed.
Check C06_solid_clean_end_certifies_stream :
  forall fuel bs es, inner_entries_loop fuel bs = (es, FinOk) -> exists cs, bs = ser_chunks cs /\ Forall wf_chunk cs.
Print Assumptions C06_solid_clean_end_certifies_stream.
