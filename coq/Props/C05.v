(* Props/C05.v — C05: any altered byte is detected; no read succeeds with different content.
   Chunk level (this file, growing): a single altered byte in the type, data or CRC field of a
   chunk always fails that chunk's CRC check; an altered length byte re-frames the stream and is
   accepted only on an explicit 32-bit CRC coincidence (which no argument about the code can
   exclude: the universal statement of the property is true up to that 2^-32 event). *)
From PNA Require Import Base Crc32 Codec Chunk Archive Entry ArchiveRun BaseFacts Crc32Facts ChunkFacts ArchiveFacts EntryFacts.
Open Scope N_scope.

Theorem C05_crc32_detects_single_byte :
  forall p b b' q, b <> b' -> crc32 (p ++ b :: q) <> crc32 (p ++ b' :: q).
Proof. exact crc32_single_byte. Qed.
Check C05_crc32_detects_single_byte : forall p b b' q, b <> b' -> crc32 (p ++ b :: q) <> crc32 (p ++ b' :: q).
Print Assumptions C05_crc32_detects_single_byte.

Theorem C05_crc32_is_32_bit : forall l, crc32 l < 2 ^ 32.
Proof. exact crc32_w32. Qed.
Check C05_crc32_is_32_bit : forall l, crc32 l < 2 ^ 32.
Print Assumptions C05_crc32_is_32_bit.

Theorem C05_altered_chunk_byte_detected :
  forall c i m, wf_chunk c -> (4 <= i < length (ser_chunk c))%nat -> 0 < m < 256 ->
  forall rest, read_chunk_stream (xor_at (ser_chunk c ++ rest) i m) = Err InvalidData.
Proof. exact read_chunk_altered. Qed.
Check C05_altered_chunk_byte_detected :
  forall c i m, wf_chunk c -> (4 <= i < length (ser_chunk c))%nat -> 0 < m < 256 ->
  forall rest, read_chunk_stream (xor_at (ser_chunk c ++ rest) i m) = Err InvalidData.
Print Assumptions C05_altered_chunk_byte_detected.

Theorem C05_altered_length_byte_needs_crc_coincidence :
  forall c i m rest c' r',
  wf_chunk c -> (i < 4)%nat -> 0 < m < 256 ->
  read_chunk_stream (xor_at (ser_chunk c ++ rest) i m) = Ok (c', r') ->
  let tail := cdata c ++ be32 (chunk_crc c) ++ rest in
  crc_coincidence c rest (len (cdata c')) /\
  cty c' = cty c /\ cdata c' = firstn (length (cdata c')) tail /\
  r' = skipn (length (cdata c') + 4) tail.
Proof. exact read_chunk_altered_len. Qed.
Print Assumptions C05_altered_length_byte_needs_crc_coincidence.

(* the slice reader is the same function, so everything above holds for it too *)
Theorem C05_slice_reader_same : forall bs, read_chunk_slice bs = read_chunk_stream bs.
Proof. exact read_chunk_slice_eq. Qed.
Print Assumptions C05_slice_reader_same.

(* ---- archive level ------------------------------------------------------------------------
   For every archive the writer model produces (any part number, any list of well-formed entries),
   every offset >= 8 outside a length field and every non-zero mask: the read ends in InvalidData and
   the entries returned before it are EXACTLY the entries that lie wholly before the altered byte.
   (in_length_field: the first 4 bytes of a chunk; for those see the coincidence theorem above.) *)
Theorem C05_alter_detected :
  forall num es i m, Forall wf_entry es -> num < 2 ^ 32 -> 0 < m < 256 ->
  (8 <= i < length (write_raw_archive num es))%nat -> in_length_field num es i = false ->
  match raw_entries read_chunk_stream (xor_at (write_raw_archive num es) i m) with
  | Err InvalidData => (i < 28)%nat
  | Ok (got, FinErr InvalidData, _) => (28 <= i)%nat /\ got = firstn (entries_complete_within num es i) es
  | _ => False
  end.
Proof. exact alter_detected. Qed.
Print Assumptions C05_alter_detected.

Theorem C05_alter_signature :
  forall num es i m, (i < 8)%nat -> 0 < m < 256 ->
  forall rd, raw_entries rd (xor_at (write_raw_archive num es) i m) = Err InvalidData.
Proof. exact alter_signature_written. Qed.
Print Assumptions C05_alter_signature.

(* the same for the slice reader and the structured-entry iterator: they are the same functions *)
Theorem C05_all_readers_same :
  forall bs, (raw_entries read_chunk_slice bs = raw_entries read_chunk_stream bs /\ chunks_slice bs = chunks_stream bs)
             /\ entries read_chunk_slice bs = entries read_chunk_stream bs.
Proof. exact (fun bs => conj (stream_slice_agree bs) (entries_stream_slice_agree bs)). Qed.
Print Assumptions C05_all_readers_same.
