(* Props/C05.v — C05: any altered byte is detected; no read succeeds with different content.
   Theorem families (model of lib/src/chunk/read.rs, archive/read.rs incl. read_next_archive; proofs in
   Proofs/{Crc32Facts,ChunkFacts,ArchiveFacts,PartsFacts}.v):
     crc        CRC-32 detects every single altered byte
     chunk      a single altered byte in the type, data or CRC field of a chunk always fails that chunk's CRC
                check; an altered length byte re-frames the stream and is accepted only on an explicit 32-bit
                CRC coincidence (which no argument about the code can exclude: the universal statement of the
                property is true up to that 2^-32 event)
     archive    one altered byte anywhere in a written archive, outside length fields: InvalidData after exactly
                the entries wholly before it; inside the signature: InvalidData at open
     multipart  the same for one altered byte in any part of a chain of part files, whatever parts follow;
                for a length-field byte: an error (UnexpectedEof or InvalidData) unless ONE stated equation
                between two 32-bit values (len_coincidence) holds — entries before it unchanged
     numbers    a part whose AHED number is not its predecessor's + 1 (swapped, duplicated, foreign part) ends
                the read with InvalidData; the FIRST part's number is not checked by Archive::read_header
                (C05_part_number_of_first_part_refuted)
     readers    stream and slice readers are the same functions *)
From PNA Require Import Base Crc32 Codec Chunk Archive Entry ArchiveRun BaseFacts Crc32Facts ChunkFacts ArchiveFacts EntryFacts OffsetFacts PartsFacts.
Open Scope N_scope.

Theorem C05_crc32_detects_single_byte :
  forall p b b' q, b <> b' -> crc32 (p ++ b :: q) <> crc32 (p ++ b' :: q).
Proof. exact crc32_single_byte. Qed.
Check C05_crc32_detects_single_byte : forall p b b' q, b <> b' -> crc32 (p ++ b :: q) <> crc32 (p ++ b' :: q).
Print Assumptions C05_crc32_detects_single_byte.

Theorem C05_crc32_is_32_bit : forall l, crc32 l < 2 ^ 32.
Proof. exact crc32_w32. Qed.
Check C05_crc32_is_32_bit : forall l, crc32 l < 2 ^ 32.
Print Assumptions C05_crc32_is_32_bit.

Theorem C05_altered_chunk_byte_detected :
  forall c i m, wf_chunk c -> (4 <= i < length (ser_chunk c))%nat -> 0 < m < 256 ->
  forall rest, read_chunk_stream (xor_at (ser_chunk c ++ rest) i m) = Err InvalidData.
Proof. exact read_chunk_altered. Qed.
Check C05_altered_chunk_byte_detected :
  forall c i m, wf_chunk c -> (4 <= i < length (ser_chunk c))%nat -> 0 < m < 256 ->
  forall rest, read_chunk_stream (xor_at (ser_chunk c ++ rest) i m) = Err InvalidData.
Print Assumptions C05_altered_chunk_byte_detected.

Theorem C05_altered_length_byte_needs_crc_coincidence :
  forall c i m rest c' r',
  wf_chunk c -> (i < 4)%nat -> 0 < m < 256 ->
  read_chunk_stream (xor_at (ser_chunk c ++ rest) i m) = Ok (c', r') ->
  let tail := cdata c ++ be32 (chunk_crc c) ++ rest in
  crc_coincidence c rest (len (cdata c')) /\
  cty c' = cty c /\ cdata c' = firstn (length (cdata c')) tail /\
  r' = skipn (length (cdata c') + 4) tail.
Proof. exact read_chunk_altered_len. Qed.
Print Assumptions C05_altered_length_byte_needs_crc_coincidence.

(* the slice reader is the same function, so everything above holds for it too *)
Theorem C05_slice_reader_same : forall bs, read_chunk_slice bs = read_chunk_stream bs.
Proof. exact read_chunk_slice_eq. Qed.
Print Assumptions C05_slice_reader_same.

(* ---- archive level ------------------------------------------------------------------------
   For every archive the writer model produces (any part number, any list of well-formed entries),
   every offset >= 8 outside a length field and every non-zero mask: the read ends in InvalidData and
   the entries returned before it are EXACTLY the entries that lie wholly before the altered byte.
   (in_length_field: the first 4 bytes of a chunk; for those see the coincidence theorem above.) *)
Theorem C05_alter_detected :
  forall num es i m, Forall wf_entry es -> num < 2 ^ 32 -> 0 < m < 256 ->
  (8 <= i < length (write_raw_archive num es))%nat -> in_length_field num es i = false ->
  match raw_entries read_chunk_stream (xor_at (write_raw_archive num es) i m) with
  | Err InvalidData => (i < 28)%nat
  | Ok (got, FinErr InvalidData, _) => (28 <= i)%nat /\ got = firstn (entries_complete_within num es i) es
  | _ => False
  end.
Proof. exact alter_detected. Qed.
Print Assumptions C05_alter_detected.

Theorem C05_alter_signature :
  forall num es i m, (i < 8)%nat -> 0 < m < 256 ->
  forall rd, raw_entries rd (xor_at (write_raw_archive num es) i m) = Err InvalidData.
Proof. exact alter_signature_written. Qed.
Print Assumptions C05_alter_signature.

(* the same for the slice reader and the structured-entry iterator: they are the same functions *)
Theorem C05_all_readers_same :
  forall bs, (raw_entries read_chunk_slice bs = raw_entries read_chunk_stream bs /\ chunks_slice bs = chunks_stream bs)
             /\ entries read_chunk_slice bs = entries read_chunk_stream bs.
Proof. exact (fun bs => conj (stream_slice_agree bs) (entries_stream_slice_agree bs)). Qed.
Print Assumptions C05_all_readers_same.

(* ---- multipart ------------------------------------------------------------------------------
   (vocabulary as in Props/C06.v)  part_len_field num bk lf n: offset n of the part file lies in the first 4 bytes of
   one of its chunks.  One altered byte (any non-zero mask m) at any other offset n of any part of a chain, whatever
   parts follow it: the read ends with InvalidData — never Ok — after exactly the entries that the chunks before the
   altered one complete; if the very first part is hit inside its 28-byte header, the open fails. *)
Theorem C05_alter_multipart :
  forall pre bk lf later n0 n m, Forall body_ok pre -> body_ok bk -> n0 + len pre < 2 ^ 32 ->
  0 < m < 256 -> (n < length (part_bytes (n0 + len pre) bk lf))%nat ->
  part_len_field (n0 + len pre) bk lf n = false ->
  read_parts read_chunk_stream (chain_nl n0 pre ++ xor_at (part_bytes (n0 + len pre) bk lf) n m :: later) =
  if is_nil pre && Nat.ltb n 28 then Err InvalidData
  else Ok (fst (scan [] (concat pre ++ chunks_before bk (n - 28))), FinErr InvalidData).
Proof. exact alter_multipart. Qed.
Check C05_alter_multipart :
  forall pre bk lf later n0 n m, Forall body_ok pre -> body_ok bk -> n0 + len pre < 2 ^ 32 ->
  0 < m < 256 -> (n < length (part_bytes (n0 + len pre) bk lf))%nat ->
  part_len_field (n0 + len pre) bk lf n = false ->
  read_parts read_chunk_stream (chain_nl n0 pre ++ xor_at (part_bytes (n0 + len pre) bk lf) n m :: later) =
  if is_nil pre && Nat.ltb n 28 then Err InvalidData
  else Ok (fst (scan [] (concat pre ++ chunks_before bk (n - 28))), FinErr InvalidData).
Print Assumptions C05_alter_multipart.

(* the chain on the left is what the `palter` correspondence cases hand to the real readers *)
Theorem C05_alter_parts_is_the_altered_chain :
  forall n0 pre p later n m,
  alter_parts (chain_nl n0 pre ++ p :: later) (length pre) n m = chain_nl n0 pre ++ xor_at p n m :: later.
Proof. exact alter_parts_chain. Qed.
Check C05_alter_parts_is_the_altered_chain :
  forall n0 pre p later n m,
  alter_parts (chain_nl n0 pre ++ p :: later) (length pre) n m = chain_nl n0 pre ++ xor_at p n m :: later.
Print Assumptions C05_alter_parts_is_the_altered_chain.

(* a byte of a length field (i < 4 inside the chunk c that `hit` finds at offset n; `after` = the chunks behind c in
   the part): detected as an error, with the same entries delivered, unless
   len_coincidence c rest i m  :=  crc_coincidence c rest (of_be (xor_at (be32 (len (cdata c))) i m)),
   i.e. unless the four bytes at the re-framed CRC position happen to equal the CRC of the re-framed payload *)
Theorem C05_alter_multipart_length_field :
  forall pre bk lf later n0 n m c after i,
  Forall body_ok pre -> body_ok bk -> n0 + len pre < 2 ^ 32 -> 0 < m < 256 -> (8 <= n)%nat ->
  hit (part_chunks (n0 + len pre) bk lf) (n - 8) = Some (c, after, i) -> (i < 4)%nat ->
  ~ len_coincidence c (ser_chunks after) i m ->
  exists e, (e = UnexpectedEof \/ e = InvalidData) /\
    read_parts read_chunk_stream (chain_nl n0 pre ++ xor_at (part_bytes (n0 + len pre) bk lf) n m :: later) =
    if is_nil pre && Nat.ltb n 28 then Err e
    else Ok (fst (scan [] (concat pre ++ chunks_before bk (n - 28))), FinErr e).
Proof. exact alter_multipart_len_field. Qed.
Check C05_alter_multipart_length_field :
  forall pre bk lf later n0 n m c after i,
  Forall body_ok pre -> body_ok bk -> n0 + len pre < 2 ^ 32 -> 0 < m < 256 -> (8 <= n)%nat ->
  hit (part_chunks (n0 + len pre) bk lf) (n - 8) = Some (c, after, i) -> (i < 4)%nat ->
  ~ len_coincidence c (ser_chunks after) i m ->
  exists e, (e = UnexpectedEof \/ e = InvalidData) /\
    read_parts read_chunk_stream (chain_nl n0 pre ++ xor_at (part_bytes (n0 + len pre) bk lf) n m :: later) =
    if is_nil pre && Nat.ltb n 28 then Err e
    else Ok (fst (scan [] (concat pre ++ chunks_before bk (n - 28))), FinErr e).
Print Assumptions C05_alter_multipart_length_field.

(* every byte of a part is covered by one of the two theorems: offsets below 8 and non-length-field offsets by the
   first, the rest by the second (the chunk that is hit exists and is well-formed) *)
Theorem C05_every_part_offset_is_in_a_chunk :
  forall num bk lf n, body_ok bk -> (8 <= n < length (part_bytes num bk lf))%nat ->
  exists c after i, hit (part_chunks num bk lf) (n - 8) = Some (c, after, i) /\ wf_chunk c /\ (i < length (ser_chunk c))%nat.
Proof. exact part_hit_some. Qed.
Check C05_every_part_offset_is_in_a_chunk :
  forall num bk lf n, body_ok bk -> (8 <= n < length (part_bytes num bk lf))%nat ->
  exists c after i, hit (part_chunks num bk lf) (n - 8) = Some (c, after, i) /\ wf_chunk c /\ (i < length (ser_chunk c))%nat.
Print Assumptions C05_every_part_offset_is_in_a_chunk.

(* a single archive is the chain of one part *)
Theorem C05_single_archive_is_one_part :
  forall num es, part_bytes num (concat es) true = write_raw_archive num es.
Proof. exact single_part_is_archive. Qed.
Check C05_single_archive_is_one_part :
  forall num es, part_bytes num (concat es) true = write_raw_archive num es.
Print Assumptions C05_single_archive_is_one_part.

Example C05_multipart_example :
  Forall body_ok [exp_b0; exp_b1; exp_b2] /\
  part_len_field 2 exp_b2 true 65 = false /\
  read_parts read_chunk_stream (firstn 2 exp_chain ++ [xor_at (nth 2 exp_chain []) 65 1]) = Ok ([exp_e1; exp_e2], FinErr InvalidData) /\
  (exists c after, hit (part_chunks 0 exp_b0 false) (31 - 8) = Some (c, after, 3%nat) /\ ~ len_coincidence c (ser_chunks after) 3 8 /\
     read_parts read_chunk_stream (xor_at (nth 0 exp_chain []) 31 8 :: skipn 1 exp_chain) = Ok ([], FinErr InvalidData)).
Proof. exact (conj (proj1 exp_wf) (conj (proj1 exp_alter) (conj (proj2 exp_alter) exp_alter_len))). Qed.

(* ---- part numbers -----------------------------------------------------------------------------
   read_next_archive compares the AHED number of the part it opens with that of the part just read: a part k >= 1
   that carries any other number than its predecessor's + 1 (parts swapped, a part given twice, a part of another
   set) ends the read with InvalidData after the entries of the parts before it *)
Theorem C05_part_number_mismatch_detected :
  forall pre b n0 m bk lf later, Forall body_ok (b :: pre) -> n0 + len pre < 2 ^ 32 ->
  m < 2 ^ 32 -> m <> n0 + len pre + 1 ->
  read_parts read_chunk_stream (chain_nl n0 (b :: pre) ++ part_bytes m bk lf :: later) =
  Ok (fst (scan [] (concat (b :: pre))), FinErr InvalidData).
Proof. exact chain_number_mismatch. Qed.
Check C05_part_number_mismatch_detected :
  forall pre b n0 m bk lf later, Forall body_ok (b :: pre) -> n0 + len pre < 2 ^ 32 ->
  m < 2 ^ 32 -> m <> n0 + len pre + 1 ->
  read_parts read_chunk_stream (chain_nl n0 (b :: pre) ++ part_bytes m bk lf :: later) =
  Ok (fst (scan [] (concat (b :: pre))), FinErr InvalidData).
Print Assumptions C05_part_number_mismatch_detected.

(* "part k carries a number <> k => error" does NOT hold for k = 0: Archive::read_header accepts any number in
   the first part, so a set that is read starting from a later part is taken as it comes (witness: any single last
   part, whatever its number) *)
Theorem C05_part_number_of_first_part_refuted :
  forall b num, body_ok b -> num < 2 ^ 32 ->
  read_parts read_chunk_stream [part_bytes num b true] = Ok (fst (scan [] b), FinOk).
Proof. exact first_part_number_unchecked. Qed.
Check C05_part_number_of_first_part_refuted :
  forall b num, body_ok b -> num < 2 ^ 32 ->
  read_parts read_chunk_stream [part_bytes num b true] = Ok (fst (scan [] b), FinOk).
Print Assumptions C05_part_number_of_first_part_refuted.

Example C05_part_number_examples :
  read_parts read_chunk_stream [nth 0 exp_chain []; nth 2 exp_chain []; nth 1 exp_chain []] = Ok ([exp_e1], FinErr InvalidData) /\
  read_parts read_chunk_stream [nth 0 exp_chain []; nth 1 exp_chain []; nth 1 exp_chain []; nth 2 exp_chain []] = Ok ([exp_e1], FinErr InvalidData) /\
  read_parts read_chunk_stream [nth 2 exp_chain []] = Ok ([[mk FDAT [x07]; mk FEND []]; exp_e3], FinOk).
Proof. exact (conj exp_swapped (conj exp_duplicated exp_last_alone)). Qed.

(* the slice reader chains parts through the same function *)
Theorem C05_part_chain_readers_same :
  forall parts, read_parts read_chunk_slice parts = read_parts read_chunk_stream parts.
Proof. exact stream_slice_agree_parts. Qed.
Check C05_part_chain_readers_same :
  forall parts, read_parts read_chunk_slice parts = read_parts read_chunk_stream parts.
Print Assumptions C05_part_chain_readers_same.
