(* Props/C05.v — C05: any altered byte is detected; no read succeeds with different content. *)
From PNA Require Import Base Crc32 BaseFacts Crc32Facts.
Open Scope N_scope.

(* the checksum of type+data changes whenever exactly one of their bytes changes *)
Theorem C05_crc32_detects_single_byte :
  forall p b b' q, b <> b' -> crc32 (p ++ b :: q) <> crc32 (p ++ b' :: q).
Proof. exact crc32_single_byte. Qed.
Check C05_crc32_detects_single_byte : forall p b b' q, b <> b' -> crc32 (p ++ b :: q) <> crc32 (p ++ b' :: q).
Print Assumptions C05_crc32_detects_single_byte.

Theorem C05_crc32_is_32_bit : forall l, crc32 l < 2 ^ 32.
Proof. exact crc32_w32. Qed.
Check C05_crc32_is_32_bit : forall l, crc32 l < 2 ^ 32.
Print Assumptions C05_crc32_is_32_bit.
