(* Props/C03 (stream part) — decoding is independent of data-chunk framing: the byte-stream layer.
   Only statements, closed by `exact`, pinned by `Check`, audited by `Print Assumptions`.
   The block cipher is a pair of functions E D : key -> block -> block; its laws
   (16-byte blocks stay 16 bytes, D k (E k b) = b) are PREMISES of the theorems that need them,
   and are discharged for the toy cipher the model is run with (C0x_toy_* examples).
   To merge: append below the imports of Props/C03.v; needed imports: *)
From PNA Require Import Base Flatten Cbc Ctr BaseFacts FlattenFacts CbcFacts CtrFacts StreamFacts.
Open Scope N_scope.
(* what a caller that reads until an empty read obtains from a FlattenReader depends only on the
   concatenation of the chunks: never on where FDAT/SDAT chunks are cut (0-length and 1-byte chunks
   included), nor on the buffer sizes *)
Theorem C03_flatten_cut_indep :
  forall c1 c2 ns1 ns2, concat c1 = concat c2 ->
  Forall (fun n => 0 < n) ns1 -> Forall (fun n => 0 < n) ns2 ->
  In [] (flat_reads c1 ns1) -> In [] (flat_reads c2 ns2) ->
  concat (flat_reads c1 ns1) = concat (flat_reads c2 ns2).
Proof. exact flatten_read_cut_indep. Qed.
Check C03_flatten_cut_indep :
  forall c1 c2 ns1 ns2, concat c1 = concat c2 ->
  Forall (fun n => 0 < n) ns1 -> Forall (fun n => 0 < n) ns2 ->
  In [] (flat_reads c1 ns1) -> In [] (flat_reads c2 ns2) ->
  concat (flat_reads c1 ns1) = concat (flat_reads c2 ns2).
Print Assumptions C03_flatten_cut_indep.

(* one read never crosses a chunk boundary (this is why every consumer must tolerate short reads) *)
Theorem C03_flatten_read_within_chunk :
  forall s n s' out, flat_read s n = (s', out) -> out <> [] ->
  exists pre c r, s = pre ++ c :: r /\ concat pre = [] /\ out = ftake n c /\ s' = fdrop n c :: r.
Proof. exact flat_read_within_chunk. Qed.
Check C03_flatten_read_within_chunk :
  forall s n s' out, flat_read s n = (s', out) -> out <> [] ->
  exists pre c r, s = pre ++ c :: r /\ concat pre = [] /\ out = ftake n c /\ s' = fdrop n c :: r.
Print Assumptions C03_flatten_read_within_chunk.

(* the CBC reader's look-ahead (repaired D4): the read-until-full loop delivers the next 16 bytes of the
   concatenation, fewer only at its end, however the chunks are cut (inside the IV, inside a block) *)
Theorem C03_read_block_spec :
  forall s s' blk, read_block s = (s', blk) ->
  blk = firstn 16 (concat s) /\ concat s' = skipn 16 (concat s).
Proof. exact read_block_spec. Qed.
Check C03_read_block_spec :
  forall s s' blk, read_block s = (s', blk) ->
  blk = firstn 16 (concat s) /\ concat s' = skipn 16 (concat s).
Print Assumptions C03_read_block_spec.

(* a CBC reader constructed over ANY cut of the ciphertext of m owes exactly m *)
Theorem C03_cbcr_new_spec :
  forall (E D : bytes -> bytes -> bytes),
  (forall k c, len16 c -> len16 (D k c)) -> (forall k b, len16 b -> D k (E k b) = b) ->
  (forall k b, len16 b -> len16 (E k b)) ->
  forall key iv m chunks, key_iv_ok key iv = true ->
  concat chunks = cbc_enc E key iv (pkcs7 m) ->
  exists st, cbcr_new key iv chunks = Ok st /\ stream D st = Ok m /\ wf st.
Proof. exact cbcr_new_spec. Qed.
Check C03_cbcr_new_spec :
  forall (E D : bytes -> bytes -> bytes),
  (forall k c, len16 c -> len16 (D k c)) -> (forall k b, len16 b -> D k (E k b) = b) ->
  (forall k b, len16 b -> len16 (E k b)) ->
  forall key iv m chunks, key_iv_ok key iv = true ->
  concat chunks = cbc_enc E key iv (pkcs7 m) ->
  exists st, cbcr_new key iv chunks = Ok st /\ stream D st = Ok m /\ wf st.
Print Assumptions C03_cbcr_new_spec.

(* two cuts of the same CBC ciphertext, two buffer-size sequences: the same decoded bytes *)
Theorem C03_cbc_cut_indep :
  forall (E D : bytes -> bytes -> bytes),
  (forall k c, len16 c -> len16 (D k c)) -> (forall k b, len16 b -> len16 (E k b)) ->
  (forall k b, len16 b -> D k (E k b) = b) ->
  forall key iv m c1 c2 ns1 ns2, key_iv_ok key iv = true ->
  concat c1 = cbc_enc E key iv (pkcs7 m) -> concat c2 = concat c1 ->
  exists st1 st2, cbcr_new key iv c1 = Ok st1 /\ cbcr_new key iv c2 = Ok st2 /\
    cbcr_read_seq D st1 ns1 = Ok (deliver m ns1) /\ cbcr_read_seq D st2 ns2 = Ok (deliver m ns2).
Proof. exact cbc_cut_indep. Qed.
Check C03_cbc_cut_indep :
  forall (E D : bytes -> bytes -> bytes),
  (forall k c, len16 c -> len16 (D k c)) -> (forall k b, len16 b -> len16 (E k b)) ->
  (forall k b, len16 b -> D k (E k b) = b) ->
  forall key iv m c1 c2 ns1 ns2, key_iv_ok key iv = true ->
  concat c1 = cbc_enc E key iv (pkcs7 m) -> concat c2 = concat c1 ->
  exists st1 st2, cbcr_new key iv c1 = Ok st1 /\ cbcr_new key iv c2 = Ok st2 /\
    cbcr_read_seq D st1 ns1 = Ok (deliver m ns1) /\ cbcr_read_seq D st2 ns2 = Ok (deliver m ns2).
Print Assumptions C03_cbc_cut_indep.

(* the CTR reader is the FlattenReader with the keystream applied at the running position, hence ... *)
Theorem C03_ctrr_seq_spec :
  forall (E : bytes -> bytes -> bytes) ns st,
  concat (ctrr_read_seq E st ns) = ctr_xor E (cr_key st) (cr_iv st) (cr_pos st) (concat (flat_reads (cr_src st) ns)) /\
  map (@length byte) (ctrr_read_seq E st ns) = map (@length byte) (flat_reads (cr_src st) ns).
Proof. exact ctrr_seq_spec. Qed.
Check C03_ctrr_seq_spec :
  forall (E : bytes -> bytes -> bytes) ns st,
  concat (ctrr_read_seq E st ns) = ctr_xor E (cr_key st) (cr_iv st) (cr_pos st) (concat (flat_reads (cr_src st) ns)) /\
  map (@length byte) (ctrr_read_seq E st ns) = map (@length byte) (flat_reads (cr_src st) ns).
Print Assumptions C03_ctrr_seq_spec.

(* ... two cuts of the same CTR ciphertext read to the same bytes *)
Theorem C03_ctr_cut_indep :
  forall (E : bytes -> bytes -> bytes) key iv c1 c2 ns1 ns2 st1 st2,
  ctrr_new key iv c1 = Ok st1 -> ctrr_new key iv c2 = Ok st2 -> concat c1 = concat c2 ->
  Forall (fun n => 0 < n) ns1 -> Forall (fun n => 0 < n) ns2 ->
  In [] (ctrr_read_seq E st1 ns1) -> In [] (ctrr_read_seq E st2 ns2) ->
  concat (ctrr_read_seq E st1 ns1) = concat (ctrr_read_seq E st2 ns2).
Proof. exact ctr_cut_indep. Qed.
Check C03_ctr_cut_indep :
  forall (E : bytes -> bytes -> bytes) key iv c1 c2 ns1 ns2 st1 st2,
  ctrr_new key iv c1 = Ok st1 -> ctrr_new key iv c2 = Ok st2 -> concat c1 = concat c2 ->
  Forall (fun n => 0 < n) ns1 -> Forall (fun n => 0 < n) ns2 ->
  In [] (ctrr_read_seq E st1 ns1) -> In [] (ctrr_read_seq E st2 ns2) ->
  concat (ctrr_read_seq E st1 ns1) = concat (ctrr_read_seq E st2 ns2).
Print Assumptions C03_ctr_cut_indep.

(* premises satisfiable: see C01_toy_laws; the concrete re-cut run (ciphertext cut 7/0/20/5) is C01_example_run *)
Example C03_example_premises :
  cbcw_new ex_key ex_iv <> Panic /\ length ex_ct = 32%nat /\ concat ex_chunks = ex_ct.
Proof. exact ex_premises. Qed.
Check C03_example_premises :
  cbcw_new ex_key ex_iv <> Panic /\ length ex_ct = 32%nat /\ concat ex_chunks = ex_ct.
Print Assumptions C03_example_premises.

