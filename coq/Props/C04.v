(* Props/C04.v — C04: splitting respects the size limit, loses nothing, and terminates.
   Only statements, closed by `exact`, pinned by `Check`, audited by `Print Assumptions`.
   Model: Model/Split.v (EntryPart::split, split_to_parts, write_split_archive_writer after the
   D6 repair).  [merge] fuses adjacent stream chunks (FDAT/SDAT) of one type and drops empty ones:
   two chunk lists with equal [merge] differ only in where stream chunks are cut. *)
From PNA Require Import Base Codec Split BaseFacts CodecFacts SplitFacts.
Open Scope N_scope.

(* -- library level: EntryPart::split, for all chunk lists and all max_bytes_len ------------- *)
Theorem C04_split_first_bound : forall m p, bytes_len (fst (split m p)) <= m.
Proof. exact split_first_bound. Qed.
Check C04_split_first_bound : forall m p, bytes_len (fst (split m p)) <= m.
Print Assumptions C04_split_first_bound.

Theorem C04_split_preserves : forall m p,
  merge (fst (split m p) ++ rest_or_nil (snd (split m p))) = merge p.
Proof. exact split_preserves. Qed.
Check C04_split_preserves : forall m p,
  merge (fst (split m p) ++ rest_or_nil (snd (split m p))) = merge p.
Print Assumptions C04_split_preserves.

(* nothing is returned as a remainder unless the part was too big, and then it was too big *)
Theorem C04_split_none : forall m p w, split m p = (w, None) -> w = p /\ bytes_len p <= m.
Proof. exact split_none. Qed.
Check C04_split_none : forall m p w, split m p = (w, None) -> w = p /\ bytes_len p <= m.
Print Assumptions C04_split_none.

(* if the head chunk fits whole, or is a non-empty stream chunk and 13 <= m, the first part is
   non-empty and the remainder strictly smaller *)
Theorem C04_split_progress : forall m p w rest,
  split m p = (w, Some rest) -> head_fits m p = true ->
  0 < bytes_len w /\ bytes_len rest < bytes_len p.
Proof. exact split_progress. Qed.
Check C04_split_progress : forall m p w rest,
  split m p = (w, Some rest) -> head_fits m p = true ->
  0 < bytes_len w /\ bytes_len rest < bytes_len p.
Print Assumptions C04_split_progress.
Example C04_split_progress_premises :
  split 39 (hd [] d6_witness) =
  ([(lit "FHED", [x00; x00; x00; x00; x00; x01] ++ lit "test.txt"); (FDAT, lit "t")],
   Some [(FDAT, lit "ext"); (lit "FEND", [])]) /\ head_fits 39 (hd [] d6_witness) = true.
Proof. exact (conj split_cut_example head_fits_example). Qed.

(* -- termination: fuel adequacy, for every input and every max -------------------------------- *)
Theorem C04_split_to_parts_terminates : forall max es fuel,
  (entries_fuel es <= fuel)%nat -> write_split_fuel fuel max es = Fin (write_split max es).
Proof. exact split_to_parts_terminates. Qed.
Check C04_split_to_parts_terminates : forall max es fuel,
  (entries_fuel es <= fuel)%nat -> write_split_fuel fuel max es = Fin (write_split max es).
Print Assumptions C04_split_to_parts_terminates.

(* -- the part files ------------------------------------------------------------------------------ *)
Theorem C04_parts_bounded : forall max es parts,
  52 <= max -> write_split max es = Ok parts -> Forall (fun f => file_size f <= max) parts.
Proof. exact parts_bounded. Qed.
Check C04_parts_bounded : forall max es parts,
  52 <= max -> write_split max es = Ok parts -> Forall (fun f => file_size f <= max) parts.
Print Assumptions C04_parts_bounded.
Example C04_parts_bounded_premises : exists parts, write_split 78 d6_witness = Ok parts /\ length parts = 3%nat.
Proof. exact repaired_accepts_78. Qed.

(* parts = assemble bodies lastb: part i is AHED(i), its entry chunks, then ANXT, AEND — the
   last one AEND alone; the entry chunks of all parts in sequence are the original chunks up
   to stream-chunk cuts *)
Theorem C04_parts_wellformed_lossless : forall max es parts,
  write_split max es = Ok parts ->
  exists bodies lastb, parts = assemble bodies lastb /\
                       merge (concat bodies ++ lastb) = merge (concat es).
Proof. exact parts_wellformed_lossless. Qed.
Check C04_parts_wellformed_lossless : forall max es parts,
  write_split max es = Ok parts ->
  exists bodies lastb, parts = assemble bodies lastb /\
                       merge (concat bodies ++ lastb) = merge (concat es).
Print Assumptions C04_parts_wellformed_lossless.

Theorem C04_parts_wellformed : forall bodies lastb,
  length (assemble bodies lastb) = S (length bodies) /\
  forall i f, nth_error (assemble bodies lastb) i = Some f ->
    exists b, f = ahed_chunk (N.of_nat i) :: b ++
                  (if Nat.eqb i (length bodies) then [aend_chunk] else [anxt_chunk; aend_chunk]).
Proof. exact parts_wellformed. Qed.
Check C04_parts_wellformed : forall bodies lastb,
  length (assemble bodies lastb) = S (length bodies) /\
  forall i f, nth_error (assemble bodies lastb) i = Some f ->
    exists b, f = ahed_chunk (N.of_nat i) :: b ++
                  (if Nat.eqb i (length bodies) then [aend_chunk] else [anxt_chunk; aend_chunk]).
Print Assumptions C04_parts_wellformed.

(* Reading the parts in sequence with the reader chain (Model/Split.v read_parts: entries closed by
   FEND/SEND, open chunks carried into the next part, part numbers checked) finds exactly the
   original raw entries, each up to where its stream chunks are cut.  Premises: the input is what
   raw_entries() yields (entry_ok) and contains no ANXT/AEND chunk (the reader consumed them). *)
Theorem C04_parts_read_back : forall max es parts,
  write_split max es = Ok parts -> Forall entry_ok es -> clean (concat es) = true ->
  exists es', read_parts parts = Ok es' /\ map merge es' = map merge es.
Proof. exact parts_read_back. Qed.
Check C04_parts_read_back : forall max es parts,
  write_split max es = Ok parts -> Forall entry_ok es -> clean (concat es) = true ->
  exists es', read_parts parts = Ok es' /\ map merge es' = map merge es.
Print Assumptions C04_parts_read_back.
Example C04_parts_read_back_premises :
  exists parts es', write_split 91 d6_witness = Ok parts /\ read_parts parts = Ok es' /\
                    es' <> d6_witness /\ map merge es' = map merge d6_witness.
Proof. exact read_back_cut_example. Qed.

(* finding F-C04-foreign-stream (known_findings.txt): equality "up to stream cuts" is observable
   when a stream-typed chunk is foreign to its entry (SDAT inside FHED..FEND): the splitter cuts
   it, the entry parser reports it as an extra chunk.  Names, contents, metadata are unaffected. *)
Theorem C04_foreign_stream_chunk_recut_refuted :
  exists parts es', write_split 71 foreign_witness = Ok parts /\ read_parts parts = Ok es' /\
    map (filter (ty_is SDAT)) es' <> map (filter (ty_is SDAT)) foreign_witness /\
    map merge es' = map merge foreign_witness.
Proof. exact foreign_stream_chunk_recut_refuted. Qed.
Check C04_foreign_stream_chunk_recut_refuted :
  exists parts es', write_split 71 foreign_witness = Ok parts /\ read_parts parts = Ok es' /\
    map (filter (ty_is SDAT)) es' <> map (filter (ty_is SDAT)) foreign_witness /\
    map merge es' = map merge foreign_witness.
Print Assumptions C04_foreign_stream_chunk_recut_refuted.

(* -- too small a maximum is an error ------------------------------------------------------------- *)
Theorem C04_below_minimum_rejected : forall max es, max < 52 -> write_split max es = Err InvalidInput.
Proof. exact below_minimum_rejected. Qed.
Check C04_below_minimum_rejected : forall max es, max < 52 -> write_split max es = Err InvalidInput.
Print Assumptions C04_below_minimum_rejected.

(* never accepted, whatever the input size *)
Theorem C04_unfit_never_ok : forall max es parts,
  ~ (52 <= max /\ indivisible_fit (max - 52) es = true) -> write_split max es <> Ok parts.
Proof. exact unfit_never_ok. Qed.
Check C04_unfit_never_ok : forall max es parts,
  ~ (52 <= max /\ indivisible_fit (max - 52) es = true) -> write_split max es <> Ok parts.
Print Assumptions C04_unfit_never_ok.

(* _partial: the premise total_bytes es <= U32_MAX (entry chunks below 4 GiB) is sufficient for the
   u32 part number (`archive_number + 1`, write.rs) not to overflow but not necessary; what is
   missing is a sharp bound on the number of parts.  Beyond it the model allows a Panic after
   2^32 parts, never a hang (C04_split_to_parts_terminates) and never an Ok (C04_unfit_never_ok). *)
Theorem C04_small_max_rejected_partial : forall max es,
  ~ (52 <= max /\ indivisible_fit (max - 52) es = true) -> total_bytes es <= U32_MAX ->
  write_split max es = Err InvalidInput.
Proof. exact small_max_rejected. Qed.
Check C04_small_max_rejected_partial : forall max es,
  ~ (52 <= max /\ indivisible_fit (max - 52) es = true) -> total_bytes es <= U32_MAX ->
  write_split max es = Err InvalidInput.
Print Assumptions C04_small_max_rejected_partial.
Example C04_small_max_rejected_premises :
  indivisible_fit (60 - 52) d6_witness = false /\ write_split 60 d6_witness = Err InvalidInput.
Proof. exact (conj witness_unfit_60 repaired_rejects_60). Qed.

Theorem C04_fitting_max_accepted_partial : forall max es,
  52 <= max -> indivisible_fit (max - 52) es = true -> total_bytes es <= U32_MAX ->
  exists parts, write_split max es = Ok parts.
Proof. exact fitting_max_accepted. Qed.
Check C04_fitting_max_accepted_partial : forall max es,
  52 <= max -> indivisible_fit (max - 52) es = true -> total_bytes es <= U32_MAX ->
  exists parts, write_split max es = Ok parts.
Print Assumptions C04_fitting_max_accepted_partial.
Example C04_fitting_max_accepted_premises :
  52 <= 78 /\ indivisible_fit (78 - 52) d6_witness = true /\ total_bytes d6_witness <= U32_MAX.
Proof. exact witness_fit_78. Qed.

(* -- the original defect D6 (code before the repair; the loop is kept in Proofs/SplitFacts.v) ----- *)
Theorem C04_unrepaired_hangs : forall fuel, unrepaired_write_split_fuel fuel 60 d6_witness = OutOfFuel.
Proof. exact unrepaired_hangs. Qed.
Check C04_unrepaired_hangs : forall fuel, unrepaired_write_split_fuel fuel 60 d6_witness = OutOfFuel.
Print Assumptions C04_unrepaired_hangs.

Theorem C04_unrepaired_underflows : forall fuel max es,
  max < 52 -> unrepaired_write_split_fuel fuel max es = Fin Panic.
Proof. exact unrepaired_underflows. Qed.
Check C04_unrepaired_underflows : forall fuel max es,
  max < 52 -> unrepaired_write_split_fuel fuel max es = Fin Panic.
Print Assumptions C04_unrepaired_underflows.
