(* Props/C03.v — C03: decoding is independent of data-chunk framing and of the reader used.
   Reader half (this file, growing): the slice parser and the stream parser are the same function
   on ALL byte strings (valid, corrupted, truncated). *)
From PNA Require Import Base Crc32 Chunk BaseFacts ChunkFacts.
Open Scope N_scope.

Theorem C03_chunk_parsers_agree : forall bs, read_chunk_slice bs = read_chunk_stream bs.
Proof. exact read_chunk_slice_eq. Qed.
Check C03_chunk_parsers_agree : forall bs, read_chunk_slice bs = read_chunk_stream bs.
Print Assumptions C03_chunk_parsers_agree.
