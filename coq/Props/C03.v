(* Props/C03.v — C03: decoding is independent of data-chunk framing and of the reader used.
   Reader half (this file, growing): the slice parser and the stream parser are the same function
   on ALL byte strings (valid, corrupted, truncated). *)
From PNA Require Import Base Crc32 Codec Chunk Archive Entry BaseFacts ChunkFacts ArchiveFacts EntryFacts.
Open Scope N_scope.

Theorem C03_chunk_parsers_agree : forall bs, read_chunk_slice bs = read_chunk_stream bs.
Proof. exact read_chunk_slice_eq. Qed.
Check C03_chunk_parsers_agree : forall bs, read_chunk_slice bs = read_chunk_stream bs.
Print Assumptions C03_chunk_parsers_agree.

(* hence the raw-entry readers, the chunk iterators, the structured-entry readers and the part
   chains return the same entries, contents and success or failure on EVERY input *)
Theorem C03_stream_slice_agree :
  forall bs, raw_entries read_chunk_slice bs = raw_entries read_chunk_stream bs /\ chunks_slice bs = chunks_stream bs.
Proof. exact stream_slice_agree. Qed.
Print Assumptions C03_stream_slice_agree.

Theorem C03_entries_stream_slice_agree :
  forall bs, entries read_chunk_slice bs = entries read_chunk_stream bs.
Proof. exact entries_stream_slice_agree. Qed.
Print Assumptions C03_entries_stream_slice_agree.

Theorem C03_parts_stream_slice_agree :
  forall parts, read_parts read_chunk_slice parts = read_parts read_chunk_stream parts.
Proof. exact stream_slice_agree_parts. Qed.
Print Assumptions C03_parts_stream_slice_agree.
