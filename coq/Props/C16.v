(* C16 — only the right password reads an encrypted entry, and it always does.
   Model: coq/Model/Kdf.v (get_writer_context / verify_password / decrypt_reader).  The KDF, its
   parameter rules, the PHC string codec and the decrypting pipeline are universally quantified;
   the two hypotheses are the PHC round trip on the records a writer prints (a salt of SALT_LEN
   bytes, parameters its parameter rules accept: the PHC format has length limits) and that the
   reader dispatches on the algorithm names the writer records; both are theorems for the
   executable codec (Props/C16_phc.v).
   Outside: the negative half holds relative to two named premises (no KDF collision on the
   password pair — PBKDF2-HMAC does collide on pw / pw+NUL, finding pbkdf2-trailing-nul — and the
   cipher distinguishing the two keys on the ciphertext). *)
From PNA Require Import Base Codec Kdf KdfFacts.

Theorem C16_right_password_reads :
  forall (key : Type) (kdf : bytes -> option N -> list (bytes * bytes) -> bytes -> bytes -> key)
    (kdf_valid : bytes -> option N -> list (bytes * bytes) -> bytes -> option bytes -> bool)
    (alg_supported : bytes -> bool) (phc_print : phc -> bytes) (phc_parse : bytes -> option phc),
  (forall (h : hash_alg) (salt : bytes),
   length salt = SALT_LEN -> kdf_valid (alg_name h) (alg_version h) (alg_params h) salt None = true ->
   phc_parse (phc_print (writer_record h salt None)) = Some (writer_record h salt None)) ->
  (forall h : hash_alg, alg_supported (alg_name h) = true) ->
  forall (m : cipher_mode) (h : hash_alg) (pw tape : bytes) (c : ctx key) (t' : bytes),
  writer_context key kdf kdf_valid phc_print m h pw tape = Ok (c, t') ->
  reader_key key kdf kdf_valid alg_supported phc_parse (ctx_phsf c) pw = Ok (ctx_key c).
Proof. exact right_password_reads. Qed.
Check C16_right_password_reads :
  forall (key : Type) (kdf : bytes -> option N -> list (bytes * bytes) -> bytes -> bytes -> key)
    (kdf_valid : bytes -> option N -> list (bytes * bytes) -> bytes -> option bytes -> bool)
    (alg_supported : bytes -> bool) (phc_print : phc -> bytes) (phc_parse : bytes -> option phc),
  (forall (h : hash_alg) (salt : bytes),
   length salt = SALT_LEN -> kdf_valid (alg_name h) (alg_version h) (alg_params h) salt None = true ->
   phc_parse (phc_print (writer_record h salt None)) = Some (writer_record h salt None)) ->
  (forall h : hash_alg, alg_supported (alg_name h) = true) ->
  forall (m : cipher_mode) (h : hash_alg) (pw tape : bytes) (c : ctx key) (t' : bytes),
  writer_context key kdf kdf_valid phc_print m h pw tape = Ok (c, t') ->
  reader_key key kdf kdf_valid alg_supported phc_parse (ctx_phsf c) pw = Ok (ctx_key c).
Print Assumptions C16_right_password_reads.

Theorem C16_right_password_decodes :
  forall (key : Type) (kdf : bytes -> option N -> list (bytes * bytes) -> bytes -> bytes -> key)
    (kdf_valid : bytes -> option N -> list (bytes * bytes) -> bytes -> option bytes -> bool)
    (alg_supported : bytes -> bool) (phc_print : phc -> bytes) (phc_parse : bytes -> option phc)
    (decrypt : key -> bytes -> bytes -> res bytes),
  (forall (h : hash_alg) (salt : bytes),
   length salt = SALT_LEN -> kdf_valid (alg_name h) (alg_version h) (alg_params h) salt None = true ->
   phc_parse (phc_print (writer_record h salt None)) = Some (writer_record h salt None)) ->
  (forall h : hash_alg, alg_supported (alg_name h) = true) ->
  forall (enc : encryption) (m : cipher_mode) (h : hash_alg) (pw tape : bytes) (c : ctx key)
    (t' : bytes) (ct : list byte) (content : bytes),
  encrypted_b enc = true ->
  writer_context key kdf kdf_valid phc_print m h pw tape = Ok (c, t') ->
  (m = MCbc -> (16 <= length ct)%nat) ->
  decrypt (ctx_key c) (ctx_iv c) ct = Ok content ->
  decode key kdf kdf_valid alg_supported phc_parse decrypt enc m (Some (ctx_phsf c)) (Some pw) (ctx_iv c ++ ct) = Ok content.
Proof. exact right_password_decodes. Qed.
Check C16_right_password_decodes :
  forall (key : Type) (kdf : bytes -> option N -> list (bytes * bytes) -> bytes -> bytes -> key)
    (kdf_valid : bytes -> option N -> list (bytes * bytes) -> bytes -> option bytes -> bool)
    (alg_supported : bytes -> bool) (phc_print : phc -> bytes) (phc_parse : bytes -> option phc)
    (decrypt : key -> bytes -> bytes -> res bytes),
  (forall (h : hash_alg) (salt : bytes),
   length salt = SALT_LEN -> kdf_valid (alg_name h) (alg_version h) (alg_params h) salt None = true ->
   phc_parse (phc_print (writer_record h salt None)) = Some (writer_record h salt None)) ->
  (forall h : hash_alg, alg_supported (alg_name h) = true) ->
  forall (enc : encryption) (m : cipher_mode) (h : hash_alg) (pw tape : bytes) (c : ctx key)
    (t' : bytes) (ct : list byte) (content : bytes),
  encrypted_b enc = true ->
  writer_context key kdf kdf_valid phc_print m h pw tape = Ok (c, t') ->
  (m = MCbc -> (16 <= length ct)%nat) ->
  decrypt (ctx_key c) (ctx_iv c) ct = Ok content ->
  decode key kdf kdf_valid alg_supported phc_parse decrypt enc m (Some (ctx_phsf c)) (Some pw) (ctx_iv c ++ ct) = Ok content.
Print Assumptions C16_right_password_decodes.

Theorem C16_no_password_fails :
  forall (key : Type) (kdf : bytes -> option N -> list (bytes * bytes) -> bytes -> bytes -> key)
    (kdf_valid : bytes -> option N -> list (bytes * bytes) -> bytes -> option bytes -> bool)
    (alg_supported : bytes -> bool) (phc_parse : bytes -> option phc)
    (decrypt : key -> bytes -> bytes -> res bytes) (enc : encryption) (m : cipher_mode) (s stream : bytes),
  encrypted_b enc = true ->
  decode key kdf kdf_valid alg_supported phc_parse decrypt enc m (Some s) None stream = Err InvalidInput.
Proof. exact no_password_decode_fails. Qed.
Check C16_no_password_fails :
  forall (key : Type) (kdf : bytes -> option N -> list (bytes * bytes) -> bytes -> bytes -> key)
    (kdf_valid : bytes -> option N -> list (bytes * bytes) -> bytes -> option bytes -> bool)
    (alg_supported : bytes -> bool) (phc_parse : bytes -> option phc)
    (decrypt : key -> bytes -> bytes -> res bytes) (enc : encryption) (m : cipher_mode) (s stream : bytes),
  encrypted_b enc = true ->
  decode key kdf kdf_valid alg_supported phc_parse decrypt enc m (Some s) None stream = Err InvalidInput.
Print Assumptions C16_no_password_fails.

Theorem C16_no_phsf_fails :
  forall (key : Type) (kdf : bytes -> option N -> list (bytes * bytes) -> bytes -> bytes -> key)
    (kdf_valid : bytes -> option N -> list (bytes * bytes) -> bytes -> option bytes -> bool)
    (alg_supported : bytes -> bool) (phc_parse : bytes -> option phc)
    (decrypt : key -> bytes -> bytes -> res bytes) (enc : encryption) (m : cipher_mode) (pw : option bytes) (stream : bytes),
  encrypted_b enc = true ->
  decode key kdf kdf_valid alg_supported phc_parse decrypt enc m None pw stream = Err InvalidData.
Proof. exact no_phsf_decode_fails. Qed.
Check C16_no_phsf_fails :
  forall (key : Type) (kdf : bytes -> option N -> list (bytes * bytes) -> bytes -> bytes -> key)
    (kdf_valid : bytes -> option N -> list (bytes * bytes) -> bytes -> option bytes -> bool)
    (alg_supported : bytes -> bool) (phc_parse : bytes -> option phc)
    (decrypt : key -> bytes -> bytes -> res bytes) (enc : encryption) (m : cipher_mode) (pw : option bytes) (stream : bytes),
  encrypted_b enc = true ->
  decode key kdf kdf_valid alg_supported phc_parse decrypt enc m None pw stream = Err InvalidData.
Print Assumptions C16_no_phsf_fails.

Theorem C16_password_used_whole :
  forall (key : Type) (kdf : bytes -> option N -> list (bytes * bytes) -> bytes -> bytes -> key)
    (kdf_valid : bytes -> option N -> list (bytes * bytes) -> bytes -> option bytes -> bool)
    (alg_supported : bytes -> bool) (phc_parse : bytes -> option phc) (phsf pw : bytes) (k : key),
  reader_key key kdf kdf_valid alg_supported phc_parse phsf pw = Ok k ->
  exists (p : phc) (salt : bytes),
    phc_parse phsf = Some p /\ ph_salt p = Some salt /\
    k = kdf (ph_alg p) (ph_version p) (ph_params p) salt pw /\
    (forall pw' : bytes, reader_key key kdf kdf_valid alg_supported phc_parse phsf pw' =
                         Ok (kdf (ph_alg p) (ph_version p) (ph_params p) salt pw')).
Proof. exact password_used_whole. Qed.
Check C16_password_used_whole :
  forall (key : Type) (kdf : bytes -> option N -> list (bytes * bytes) -> bytes -> bytes -> key)
    (kdf_valid : bytes -> option N -> list (bytes * bytes) -> bytes -> option bytes -> bool)
    (alg_supported : bytes -> bool) (phc_parse : bytes -> option phc) (phsf pw : bytes) (k : key),
  reader_key key kdf kdf_valid alg_supported phc_parse phsf pw = Ok k ->
  exists (p : phc) (salt : bytes),
    phc_parse phsf = Some p /\ ph_salt p = Some salt /\
    k = kdf (ph_alg p) (ph_version p) (ph_params p) salt pw /\
    (forall pw' : bytes, reader_key key kdf kdf_valid alg_supported phc_parse phsf pw' =
                         Ok (kdf (ph_alg p) (ph_version p) (ph_params p) salt pw')).
Print Assumptions C16_password_used_whole.

Theorem C16_wrong_password_partial :
  forall (key : Type) (kdf : bytes -> option N -> list (bytes * bytes) -> bytes -> bytes -> key)
    (kdf_valid : bytes -> option N -> list (bytes * bytes) -> bytes -> option bytes -> bool)
    (alg_supported : bytes -> bool) (phc_print : phc -> bytes) (phc_parse : bytes -> option phc)
    (decrypt : key -> bytes -> bytes -> res bytes),
  (forall (h : hash_alg) (salt : bytes),
   length salt = SALT_LEN -> kdf_valid (alg_name h) (alg_version h) (alg_params h) salt None = true ->
   phc_parse (phc_print (writer_record h salt None)) = Some (writer_record h salt None)) ->
  (forall h : hash_alg, alg_supported (alg_name h) = true) ->
  forall (enc : encryption) (m : cipher_mode) (h : hash_alg) (pw pw' tape : bytes) (c : ctx key) (t' ct content : bytes),
  writer_context key kdf kdf_valid phc_print m h pw tape = Ok (c, t') ->
  (let salt := firstn SALT_LEN tape in
   kdf (alg_name h) (alg_version h) (alg_params h) salt pw' <> kdf (alg_name h) (alg_version h) (alg_params h) salt pw) ->
  (forall k' : key, k' <> ctx_key c -> decrypt k' (ctx_iv c) ct <> Ok content) ->
  encrypted_b enc = true ->
  decode key kdf kdf_valid alg_supported phc_parse decrypt enc m (Some (ctx_phsf c)) (Some pw') (ctx_iv c ++ ct) <> Ok content.
Proof. exact wrong_password_partial. Qed.
Check C16_wrong_password_partial :
  forall (key : Type) (kdf : bytes -> option N -> list (bytes * bytes) -> bytes -> bytes -> key)
    (kdf_valid : bytes -> option N -> list (bytes * bytes) -> bytes -> option bytes -> bool)
    (alg_supported : bytes -> bool) (phc_print : phc -> bytes) (phc_parse : bytes -> option phc)
    (decrypt : key -> bytes -> bytes -> res bytes),
  (forall (h : hash_alg) (salt : bytes),
   length salt = SALT_LEN -> kdf_valid (alg_name h) (alg_version h) (alg_params h) salt None = true ->
   phc_parse (phc_print (writer_record h salt None)) = Some (writer_record h salt None)) ->
  (forall h : hash_alg, alg_supported (alg_name h) = true) ->
  forall (enc : encryption) (m : cipher_mode) (h : hash_alg) (pw pw' tape : bytes) (c : ctx key) (t' ct content : bytes),
  writer_context key kdf kdf_valid phc_print m h pw tape = Ok (c, t') ->
  (let salt := firstn SALT_LEN tape in
   kdf (alg_name h) (alg_version h) (alg_params h) salt pw' <> kdf (alg_name h) (alg_version h) (alg_params h) salt pw) ->
  (forall k' : key, k' <> ctx_key c -> decrypt k' (ctx_iv c) ct <> Ok content) ->
  encrypted_b enc = true ->
  decode key kdf kdf_valid alg_supported phc_parse decrypt enc m (Some (ctx_phsf c)) (Some pw') (ctx_iv c ++ ct) <> Ok content.
Print Assumptions C16_wrong_password_partial.

(* the premises are met by the executable stand-ins on concrete contexts (argon2id and pbkdf2) *)
Theorem C16_example_contexts :
  ex_check MCtr (Argon2Id (Some 1) (Some 8) (Some 1)) (lit "$argon2id$v=19$m=8,t=1,p=1$AQIDBAUGBwgJCgsMDQ4PEA") = true /\
  ex_check MCbc (Pbkdf2Sha256 None) (lit "$pbkdf2-sha256$i=600000,l=32$AQIDBAUGBwgJCgsMDQ4PEA") = true.
Proof. exact (conj ex_context_argon2 ex_context_pbkdf2). Qed.
Check C16_example_contexts :
  ex_check MCtr (Argon2Id (Some 1) (Some 8) (Some 1)) (lit "$argon2id$v=19$m=8,t=1,p=1$AQIDBAUGBwgJCgsMDQ4PEA") = true /\
  ex_check MCbc (Pbkdf2Sha256 None) (lit "$pbkdf2-sha256$i=600000,l=32$AQIDBAUGBwgJCgsMDQ4PEA") = true.
Print Assumptions C16_example_contexts.
