(* Props/C13_concat.v — C13 for the commands `pna concat` and `pna split` + `pna concat` (Model/Concat.v:
   concat_run / concat_cmd = concat.rs over run_across_archive and Archive::raw_entries/add_entry; split_cmd =
   split.rs (as repaired by f4d9f833: the input is read as a part chain, like an argument of concat) over
   write_split_archive; both tied to the real binary by props/_concat.py, which compares the BYTES of
   the output files with the model's).
   Proved for ALL inputs (byte strings handed in as the files of the arguments), no closed instances:
   * concat_spec / concat_entries: the command succeeds exactly when every argument's part chain reads to a
     successful end, and then the output is header 0 + every raw entry the reader delivered, in order, chunk for
     chunk + end marker; reading the output back delivers exactly that concatenation (nothing unknown is dropped,
     nothing lost, duplicated or reordered); every raw entry the reader delivers is well-formed;
   * on arguments the strict recogniser accepts: the output carries EVERY chunk standing between the header and
     the ANXT/AEND markers of every part, in order; a single accepted file is reproduced byte for byte; so is
     whatever the chunk-level model writer wrote (any chunk types), as one file or cut into a part chain;
   * concat_split_inverse(_chain): split (any size the splitter accepts) then concat of an accepted archive — a single
     file or, since f4d9f833, the part chain of a multipart archive entered at its first part — gives an
     accepted archive whose chunk sequence is the original's with FDAT/SDAT payloads cut in pieces and nothing else
     changed (crefines), decoding to the same entries (entry_same); resplit_inverse: splitting the parts `pna split`
     wrote once more loses nothing; the command as it was (one file) on part 1 of a two-part chain whose entry
     straddles the boundary succeeds and writes an archive without that entry (C13_split_part1_unrepaired_refuted);
   * concat_flatten / concat_assoc: an argument that is the result of a concat can be replaced by the arguments it
     was made from, with the same output file and status;
   * size: 8 + 20 + the byte counts add_entry returned + 12; for single-file arguments 40 + sum (len - 40);
   * failures: an argument that does not read to a successful end makes the command fail; a missing continuation
     part is NotFound, a wrongly numbered part InvalidData, a truncated one UnexpectedEof, with the exact file left
     behind (the command creates its output before reading); whatever is left behind after a failure has no end
     marker: every reader reports UnexpectedEof on it and the strict recogniser rejects it.
   * outside the format (rejected by the strict recogniser) but accepted by the command, recorded as an example: chunks
     behind the last entry terminator and bytes behind AEND are dropped without an error.
   Outside: the --overwrite guard and the case output path = an input path (C20); the memmap build. *)
From PNA Require Import Base Crc32 Name Codec Chunk Archive Entry Wf Concat.
From PNA Require Import BaseFacts ChunkFacts ArchiveFacts EntryFacts WfFacts WfWriterFacts WfAgreeFacts WfSplitFacts
  OffsetFacts PartsFacts ConcatFacts.
Open Scope N_scope.

Theorem C13_reader_delivers_wellformed_entries :
  forall (parts : list bytes) (es : list (list chunk)) (f : fin),
  read_parts read_chunk_stream parts = Ok (es, f) -> Forall wf_entry es.
Proof. exact read_parts_wf. Qed.
Check C13_reader_delivers_wellformed_entries :
  forall (parts : list bytes) (es : list (list chunk)) (f : fin),
  read_parts read_chunk_stream parts = Ok (es, f) -> Forall wf_entry es.
Print Assumptions C13_reader_delivers_wellformed_entries.

Theorem C13_concat_spec :
  forall (inputs : list (list bytes)) (out : bytes),
  concat_cmd inputs = Ok out <->
  exists ess : list (list (list chunk)), Forall2 reads inputs ess /\ out = write_raw_archive 0 (concat ess).
Proof. exact concat_spec. Qed.
Check C13_concat_spec :
  forall (inputs : list (list bytes)) (out : bytes),
  concat_cmd inputs = Ok out <->
  exists ess : list (list (list chunk)), Forall2 reads inputs ess /\ out = write_raw_archive 0 (concat ess).
Print Assumptions C13_concat_spec.

Theorem C13_concat_entries :
  forall (inputs : list (list bytes)) (out : bytes), concat_cmd inputs = Ok out ->
  exists ess : list (list (list chunk)), Forall2 reads inputs ess /\ reads [out] (concat ess) /\
    raw_entries read_chunk_stream out =
      Ok (concat ess, FinOk, {| r_rest := []; r_buf := []; r_next := false;
                                r_hdr := {| a_major := 0; a_minor := 0; a_number := 0 |} |}).
Proof. exact concat_entries. Qed.
Check C13_concat_entries :
  forall (inputs : list (list bytes)) (out : bytes), concat_cmd inputs = Ok out ->
  exists ess : list (list (list chunk)), Forall2 reads inputs ess /\ reads [out] (concat ess) /\
    raw_entries read_chunk_stream out =
      Ok (concat ess, FinOk, {| r_rest := []; r_buf := []; r_next := false;
                                r_hdr := {| a_major := 0; a_minor := 0; a_number := 0 |} |}).
Print Assumptions C13_concat_entries.

Theorem C13_concat_of_nothing :
  concat_cmd [] = Ok (write_raw_archive 0 []).
Proof. exact concat_nothing. Qed.
Check C13_concat_of_nothing :
  concat_cmd [] = Ok (write_raw_archive 0 []).
Print Assumptions C13_concat_of_nothing.

Theorem C13_concat_keeps_every_chunk :
  forall (inputs : list (list bytes)) (xss : list (list read_entry)),
  Forall2 (fun i xs => strict_parts i = SOk xs) inputs xss ->
  exists css : list (list chunk), Forall2 (fun i cs => bodies 0 i = SOk cs) inputs css /\
    concat_cmd inputs = Ok (write_header 0 ++ ser_chunks (concat css) ++ finalize).
Proof. exact concat_keeps_every_chunk. Qed.
Check C13_concat_keeps_every_chunk :
  forall (inputs : list (list bytes)) (xss : list (list read_entry)),
  Forall2 (fun i xs => strict_parts i = SOk xs) inputs xss ->
  exists css : list (list chunk), Forall2 (fun i cs => bodies 0 i = SOk cs) inputs css /\
    concat_cmd inputs = Ok (write_header 0 ++ ser_chunks (concat css) ++ finalize).
Print Assumptions C13_concat_keeps_every_chunk.

Theorem C13_concat_single_exact :
  forall a : bytes, wf_archive a = true -> concat_cmd [[a]] = Ok a.
Proof. exact concat_single_exact. Qed.
Check C13_concat_single_exact :
  forall a : bytes, wf_archive a = true -> concat_cmd [[a]] = Ok a.
Print Assumptions C13_concat_single_exact.

Theorem C13_concat_written_exact :
  forall (num : N) (es : list (list chunk)), num < 2 ^ 32 -> Forall wf_entry es ->
  concat_cmd [[write_raw_archive num es]] = Ok (write_raw_archive 0 es).
Proof. exact concat_written_exact. Qed.
Check C13_concat_written_exact :
  forall (num : N) (es : list (list chunk)), num < 2 ^ 32 -> Forall wf_entry es ->
  concat_cmd [[write_raw_archive num es]] = Ok (write_raw_archive 0 es).
Print Assumptions C13_concat_written_exact.

Theorem C13_concat_chain_exact :
  forall (es : list (list chunk)) (pre : list (list chunk)) (b : list chunk) (n0 : N),
  Forall wf_entry es -> concat (pre ++ [b]) = concat es -> n0 + len pre < 2 ^ 32 ->
  concat_cmd [chain n0 (pre ++ [b])] = Ok (write_raw_archive 0 es).
Proof. exact concat_chain_exact. Qed.
Check C13_concat_chain_exact :
  forall (es : list (list chunk)) (pre : list (list chunk)) (b : list chunk) (n0 : N),
  Forall wf_entry es -> concat (pre ++ [b]) = concat es -> n0 + len pre < 2 ^ 32 ->
  concat_cmd [chain n0 (pre ++ [b])] = Ok (write_raw_archive 0 es).
Print Assumptions C13_concat_chain_exact.

(* `pna split` on an accepted part chain (f4d9f833): the chain is read to its end the way concat reads an argument, the raw
   entries — an entry straddling a part boundary reassembled — are what the splitter gets *)
Theorem C13_split_reads_chain :
  forall (chain : list bytes) (max : N) (xs : list read_entry),
  strict_parts chain = SOk xs ->
  exists groups : list (list chunk),
    bodies 0 chain = SOk (concat groups) /\ Forall2 group_of groups xs /\ Forall body_chunk (concat groups) /\
    reads chain groups /\
    split_cmd max chain = (do sp <- Split.write_split max (map (map of_c) groups); Ok (map ser_pfile sp)).
Proof. exact split_cmd_strict. Qed.
Check C13_split_reads_chain :
  forall (chain : list bytes) (max : N) (xs : list read_entry),
  strict_parts chain = SOk xs ->
  exists groups : list (list chunk),
    bodies 0 chain = SOk (concat groups) /\ Forall2 group_of groups xs /\ Forall body_chunk (concat groups) /\
    reads chain groups /\
    split_cmd max chain = (do sp <- Split.write_split max (map (map of_c) groups); Ok (map ser_pfile sp)).
Print Assumptions C13_split_reads_chain.

(* split then concat is the identity up to the cutting of data chunks, for every accepted input CHAIN *)
Theorem C13_concat_split_inverse_chain :
  forall (chain : list bytes) (max : N) (parts : list bytes) (xs : list read_entry),
  strict_parts chain = SOk xs -> split_cmd max chain = Ok parts ->
  exists (cs cs' : list chunk) (b : bytes) (xs' : list read_entry),
    bodies 0 chain = SOk cs /\
    bodies 0 parts = SOk cs' /\ crefines cs cs' /\
    concat_cmd [parts] = Ok b /\ b = write_header 0 ++ ser_chunks cs' ++ finalize /\
    strict_parts parts = SOk xs' /\ strict_parts [b] = SOk xs' /\ Forall2 entry_same xs xs'.
Proof. exact concat_split_inverse_chain. Qed.
Check C13_concat_split_inverse_chain :
  forall (chain : list bytes) (max : N) (parts : list bytes) (xs : list read_entry),
  strict_parts chain = SOk xs -> split_cmd max chain = Ok parts ->
  exists (cs cs' : list chunk) (b : bytes) (xs' : list read_entry),
    bodies 0 chain = SOk cs /\
    bodies 0 parts = SOk cs' /\ crefines cs cs' /\
    concat_cmd [parts] = Ok b /\ b = write_header 0 ++ ser_chunks cs' ++ finalize /\
    strict_parts parts = SOk xs' /\ strict_parts [b] = SOk xs' /\ Forall2 entry_same xs xs'.
Print Assumptions C13_concat_split_inverse_chain.

Theorem C13_concat_split_inverse :
  forall (a : bytes) (max : N) (parts : list bytes) (xs : list read_entry),
  strict_parts [a] = SOk xs -> split_cmd max [a] = Ok parts ->
  exists (cs cs' : list chunk) (b : bytes) (xs' : list read_entry),
    a = write_header 0 ++ ser_chunks cs ++ finalize /\
    bodies 0 parts = SOk cs' /\ crefines cs cs' /\
    concat_cmd [parts] = Ok b /\ b = write_header 0 ++ ser_chunks cs' ++ finalize /\
    strict_parts parts = SOk xs' /\ strict_parts [b] = SOk xs' /\ Forall2 entry_same xs xs'.
Proof. exact concat_split_inverse. Qed.
Check C13_concat_split_inverse :
  forall (a : bytes) (max : N) (parts : list bytes) (xs : list read_entry),
  strict_parts [a] = SOk xs -> split_cmd max [a] = Ok parts ->
  exists (cs cs' : list chunk) (b : bytes) (xs' : list read_entry),
    a = write_header 0 ++ ser_chunks cs ++ finalize /\
    bodies 0 parts = SOk cs' /\ crefines cs cs' /\
    concat_cmd [parts] = Ok b /\ b = write_header 0 ++ ser_chunks cs' ++ finalize /\
    strict_parts parts = SOk xs' /\ strict_parts [b] = SOk xs' /\ Forall2 entry_same xs xs'.
Print Assumptions C13_concat_split_inverse.

(* re-splitting loses nothing (C04/C13): the parts `pna split --max-size max1` wrote, split again with max2 *)
Theorem C13_resplit_inverse :
  forall (chain : list bytes) (max1 max2 : N) (parts1 parts2 : list bytes) (xs : list read_entry),
  strict_parts chain = SOk xs -> split_cmd max1 chain = Ok parts1 -> split_cmd max2 parts1 = Ok parts2 ->
  exists (cs cs2 : list chunk) (b : bytes) (xs2 : list read_entry),
    bodies 0 chain = SOk cs /\
    bodies 0 parts2 = SOk cs2 /\ crefines cs cs2 /\
    concat_cmd [parts2] = Ok b /\ b = write_header 0 ++ ser_chunks cs2 ++ finalize /\
    strict_parts parts2 = SOk xs2 /\ strict_parts [b] = SOk xs2 /\ Forall2 entry_same xs xs2.
Proof. exact resplit_inverse. Qed.
Check C13_resplit_inverse :
  forall (chain : list bytes) (max1 max2 : N) (parts1 parts2 : list bytes) (xs : list read_entry),
  strict_parts chain = SOk xs -> split_cmd max1 chain = Ok parts1 -> split_cmd max2 parts1 = Ok parts2 ->
  exists (cs cs2 : list chunk) (b : bytes) (xs2 : list read_entry),
    bodies 0 chain = SOk cs /\
    bodies 0 parts2 = SOk cs2 /\ crefines cs cs2 /\
    concat_cmd [parts2] = Ok b /\ b = write_header 0 ++ ser_chunks cs2 ++ finalize /\
    strict_parts parts2 = SOk xs2 /\ strict_parts [b] = SOk xs2 /\ Forall2 entry_same xs xs2.
Print Assumptions C13_resplit_inverse.

Theorem C13_concat_split_inverse_example :
  split_cmd 120 [ex_a] = Ok ex_parts /\ length ex_parts = 12%nat /\
  forallb (fun p => Nat.leb (length p) 120) ex_parts = true /\
  concat_cmd [ex_parts] = Ok ex_b /\ wf_archive ex_b = true /\ length ex_b = (length ex_a + 72)%nat /\
  concat_cmd [[ex_a]] = Ok ex_a.
Proof. exact concat_split_inverse_ex. Qed.
Check C13_concat_split_inverse_example :
  split_cmd 120 [ex_a] = Ok ex_parts /\ length ex_parts = 12%nat /\
  forallb (fun p => Nat.leb (length p) 120) ex_parts = true /\
  concat_cmd [ex_parts] = Ok ex_b /\ wf_archive ex_b = true /\ length ex_b = (length ex_a + 72)%nat /\
  concat_cmd [[ex_a]] = Ok ex_a.
Print Assumptions C13_concat_split_inverse_example.

(* the premises of C13_resplit_inverse are satisfiable: the 12 parts of ex_a split again at 200 bytes *)
Theorem C13_resplit_example :
  wf_parts ex_parts = true /\
  split_cmd 200 ex_parts = Ok ex_parts2 /\ (1 < length ex_parts2 < 12)%nat /\ forallb (fun p => Nat.leb (length p) 200) ex_parts2 = true /\
  wf_parts ex_parts2 = true /\ concat_cmd [ex_parts2] = Ok ex_b2 /\ wf_archive ex_b2 = true /\
  (exists xs xs', strict_decode ex_a = Ok xs /\ strict_decode ex_b2 = Ok xs' /\ length xs = 3%nat /\ Forall2 entry_same xs xs') /\
  (exists p, split_cmd_orig 200 (nth 0 ex_parts []) = Ok [p] /\ read_parts rds [p] = Ok ([], FinOk)).
Proof. exact resplit_ex. Qed.
Check C13_resplit_example :
  wf_parts ex_parts = true /\
  split_cmd 200 ex_parts = Ok ex_parts2 /\ (1 < length ex_parts2 < 12)%nat /\ forallb (fun p => Nat.leb (length p) 200) ex_parts2 = true /\
  wf_parts ex_parts2 = true /\ concat_cmd [ex_parts2] = Ok ex_b2 /\ wf_archive ex_b2 = true /\
  (exists xs xs', strict_decode ex_a = Ok xs /\ strict_decode ex_b2 = Ok xs' /\ length xs = 3%nat /\ Forall2 entry_same xs xs') /\
  (exists p, split_cmd_orig 200 (nth 0 ex_parts []) = Ok [p] /\ read_parts rds [p] = Ok ([], FinOk)).
Print Assumptions C13_resplit_example.

(* the command as it was before f4d9f833 (split_cmd_orig: ONE file, successor flag ignored) on part 1 of a two-part chain
   whose only entry straddles the boundary: exit 0 and an archive with no entry; the repaired command keeps the entry *)
Theorem C13_split_part1_unrepaired_refuted :
  read_parts rds sp_chain = Ok ([sp_e], FinOk) /\
  (exists p, split_cmd_orig 1000 (nth 0 sp_chain []) = Ok [p] /\ read_parts rds [p] = Ok ([], FinOk)) /\
  (exists p, split_cmd 1000 sp_chain = Ok [p] /\ read_parts rds [p] = Ok ([sp_e], FinOk)).
Proof. exact split_part1_unrepaired. Qed.
Check C13_split_part1_unrepaired_refuted :
  read_parts rds sp_chain = Ok ([sp_e], FinOk) /\
  (exists p, split_cmd_orig 1000 (nth 0 sp_chain []) = Ok [p] /\ read_parts rds [p] = Ok ([], FinOk)) /\
  (exists p, split_cmd 1000 sp_chain = Ok [p] /\ read_parts rds [p] = Ok ([sp_e], FinOk)).
Print Assumptions C13_split_part1_unrepaired_refuted.

(* the chain walk of split: a missing successor NotFound, a wrongly numbered one (the chain entered at part 2, whose
   successor by name is part 2 itself; a part skipped) InvalidData, no file NotFound, a size below the minimum InvalidInput
   before anything is read behind the header; the last part alone: its (headless) chunks are copied *)
Theorem C13_split_chain_errors_example :
  split_cmd 1000 [nth 0 sp_chain []] = Err NotFound /\
  split_cmd 1000 [nth 0 sp_chain []; nth 0 sp_chain []] = Err InvalidData /\
  split_cmd 1000 [] = Err NotFound /\
  split_cmd 10 [nth 0 sp_chain []] = Err InvalidInput /\
  (exists p, split_cmd 1000 [nth 1 sp_chain []; nth 1 sp_chain []] = Ok [p] /\ read_parts rds [p] = Ok ([sp_b1], FinOk)) /\
  split_cmd 1000 [nth 0 exp_chain []; nth 2 exp_chain []] = Err InvalidData /\
  split_cmd 1000 [nth 1 exp_chain []; nth 1 exp_chain []; nth 2 exp_chain []] = Err InvalidData.
Proof. exact split_chain_errors_ex. Qed.
Check C13_split_chain_errors_example :
  split_cmd 1000 [nth 0 sp_chain []] = Err NotFound /\
  split_cmd 1000 [nth 0 sp_chain []; nth 0 sp_chain []] = Err InvalidData /\
  split_cmd 1000 [] = Err NotFound /\
  split_cmd 10 [nth 0 sp_chain []] = Err InvalidInput /\
  (exists p, split_cmd 1000 [nth 1 sp_chain []; nth 1 sp_chain []] = Ok [p] /\ read_parts rds [p] = Ok ([sp_b1], FinOk)) /\
  split_cmd 1000 [nth 0 exp_chain []; nth 2 exp_chain []] = Err InvalidData /\
  split_cmd 1000 [nth 1 exp_chain []; nth 1 exp_chain []; nth 2 exp_chain []] = Err InvalidData.
Print Assumptions C13_split_chain_errors_example.

Theorem C13_concat_flatten :
  forall (pre xs post : list (list bytes)) (a : bytes), concat_cmd xs = Ok a ->
  concat_run (pre ++ [a] :: post) = concat_run (pre ++ xs ++ post).
Proof. exact concat_flatten. Qed.
Check C13_concat_flatten :
  forall (pre xs post : list (list bytes)) (a : bytes), concat_cmd xs = Ok a ->
  concat_run (pre ++ [a] :: post) = concat_run (pre ++ xs ++ post).
Print Assumptions C13_concat_flatten.

Theorem C13_concat_assoc :
  forall (xs ys : list (list bytes)) (a b : bytes), concat_cmd xs = Ok a -> concat_cmd ys = Ok b ->
  concat_cmd [[a]; [b]] = concat_cmd (xs ++ ys).
Proof. exact concat_assoc. Qed.
Check C13_concat_assoc :
  forall (xs ys : list (list bytes)) (a b : bytes), concat_cmd xs = Ok a -> concat_cmd ys = Ok b ->
  concat_cmd [[a]; [b]] = concat_cmd (xs ++ ys).
Print Assumptions C13_concat_assoc.

Theorem C13_concat_assoc_left :
  forall (xs ys : list (list bytes)) (a : bytes), concat_cmd xs = Ok a ->
  concat_cmd ([a] :: ys) = concat_cmd (xs ++ ys).
Proof. exact concat_assoc_left. Qed.
Check C13_concat_assoc_left :
  forall (xs ys : list (list bytes)) (a : bytes), concat_cmd xs = Ok a ->
  concat_cmd ([a] :: ys) = concat_cmd (xs ++ ys).
Print Assumptions C13_concat_assoc_left.

Theorem C13_concat_two_example :
  concat_cmd [[ex_arch]; exp_chain] = Ok (write_raw_archive 0 [ex_e1; ex_e2; exp_e1; exp_e2; exp_e3]).
Proof. exact concat_two_ex. Qed.
Check C13_concat_two_example :
  concat_cmd [[ex_arch]; exp_chain] = Ok (write_raw_archive 0 [ex_e1; ex_e2; exp_e1; exp_e2; exp_e3]).
Print Assumptions C13_concat_two_example.

Theorem C13_concat_size :
  forall (inputs : list (list bytes)) (out : bytes), concat_cmd inputs = Ok out ->
  exists ess : list (list (list chunk)), Forall2 reads inputs ess /\
    len out = 8 + 20 + sumN (map (fun e => snd (add_chunks e)) (concat ess)) + 12.
Proof. exact concat_size. Qed.
Check C13_concat_size :
  forall (inputs : list (list bytes)) (out : bytes), concat_cmd inputs = Ok out ->
  exists ess : list (list (list chunk)), Forall2 reads inputs ess /\
    len out = 8 + 20 + sumN (map (fun e => snd (add_chunks e)) (concat ess)) + 12.
Print Assumptions C13_concat_size.

Theorem C13_concat_size_files :
  forall args : list (N * list (list chunk)),
  Forall (fun x => fst x < 2 ^ 32 /\ Forall wf_entry (snd x)) args ->
  exists out : bytes, concat_cmd (map (fun x => [write_raw_archive (fst x) (snd x)]) args) = Ok out /\
    len out + 40 * len args = 40 + sumN (map (fun x => len (write_raw_archive (fst x) (snd x))) args).
Proof. exact concat_size_files. Qed.
Check C13_concat_size_files :
  forall args : list (N * list (list chunk)),
  Forall (fun x => fst x < 2 ^ 32 /\ Forall wf_entry (snd x)) args ->
  exists out : bytes, concat_cmd (map (fun x => [write_raw_archive (fst x) (snd x)]) args) = Ok out /\
    len out + 40 * len args = 40 + sumN (map (fun x => len (write_raw_archive (fst x) (snd x))) args).
Print Assumptions C13_concat_size_files.

Theorem C13_concat_needs_every_input :
  forall (inputs : list (list bytes)) (out : bytes), concat_cmd inputs = Ok out ->
  Forall (fun i => exists es, reads i es) inputs.
Proof. exact concat_needs_every_input. Qed.
Check C13_concat_needs_every_input :
  forall (inputs : list (list bytes)) (out : bytes), concat_cmd inputs = Ok out ->
  Forall (fun i => exists es, reads i es) inputs.
Print Assumptions C13_concat_needs_every_input.

Theorem C13_concat_fails_at :
  forall (pre : list (list bytes)) (i : list bytes) (post : list (list bytes)) (ess : list (list (list chunk)))
         (es : list (list chunk)) (e : ekind),
  Forall2 reads pre ess -> read_parts read_chunk_stream i = Ok (es, FinErr e) -> check_inputs post = Ok tt ->
  concat_run (pre ++ i :: post) = (Some (write_header 0 ++ ArchiveFacts.ser_entries (concat ess ++ es)), FinErr e) /\
  concat_cmd (pre ++ i :: post) = Err e.
Proof. exact concat_fails_at. Qed.
Check C13_concat_fails_at :
  forall (pre : list (list bytes)) (i : list bytes) (post : list (list bytes)) (ess : list (list (list chunk)))
         (es : list (list chunk)) (e : ekind),
  Forall2 reads pre ess -> read_parts read_chunk_stream i = Ok (es, FinErr e) -> check_inputs post = Ok tt ->
  concat_run (pre ++ i :: post) = (Some (write_header 0 ++ ArchiveFacts.ser_entries (concat ess ++ es)), FinErr e) /\
  concat_cmd (pre ++ i :: post) = Err e.
Print Assumptions C13_concat_fails_at.

Theorem C13_concat_missing_part :
  forall (pre post : list (list bytes)) (ess : list (list (list chunk))) (n0 : N) (b : list chunk) (bodies : list (list chunk)),
  Forall2 reads pre ess -> check_inputs post = Ok tt ->
  Forall body_ok (b :: bodies) -> n0 + len bodies < 2 ^ 32 ->
  concat_cmd (pre ++ chain_nl n0 (b :: bodies) :: post) = Err NotFound.
Proof. exact concat_missing_part. Qed.
Check C13_concat_missing_part :
  forall (pre post : list (list bytes)) (ess : list (list (list chunk))) (n0 : N) (b : list chunk) (bodies : list (list chunk)),
  Forall2 reads pre ess -> check_inputs post = Ok tt ->
  Forall body_ok (b :: bodies) -> n0 + len bodies < 2 ^ 32 ->
  concat_cmd (pre ++ chain_nl n0 (b :: bodies) :: post) = Err NotFound.
Print Assumptions C13_concat_missing_part.

Theorem C13_concat_misnumbered_part :
  forall (pre post : list (list bytes)) (ess : list (list (list chunk))) (n0 : N) (b : list chunk) (bodies : list (list chunk))
         (m : N) (bk : list chunk) (lf : bool) (later : list bytes),
  Forall2 reads pre ess -> check_inputs post = Ok tt ->
  Forall body_ok (b :: bodies) -> n0 + len bodies < 2 ^ 32 -> m < 2 ^ 32 -> m <> n0 + len bodies + 1 ->
  concat_cmd (pre ++ (chain_nl n0 (b :: bodies) ++ part_bytes m bk lf :: later) :: post) = Err InvalidData.
Proof. exact concat_misnumbered_part. Qed.
Check C13_concat_misnumbered_part :
  forall (pre post : list (list bytes)) (ess : list (list (list chunk))) (n0 : N) (b : list chunk) (bodies : list (list chunk))
         (m : N) (bk : list chunk) (lf : bool) (later : list bytes),
  Forall2 reads pre ess -> check_inputs post = Ok tt ->
  Forall body_ok (b :: bodies) -> n0 + len bodies < 2 ^ 32 -> m < 2 ^ 32 -> m <> n0 + len bodies + 1 ->
  concat_cmd (pre ++ (chain_nl n0 (b :: bodies) ++ part_bytes m bk lf :: later) :: post) = Err InvalidData.
Print Assumptions C13_concat_misnumbered_part.

Theorem C13_concat_truncated_part :
  forall (pre post : list (list bytes)) (ess : list (list (list chunk))) (n0 : N) (bodies : list (list chunk))
         (bk : list chunk) (lf : bool) (n : nat),
  Forall2 reads pre ess -> check_inputs post = Ok tt ->
  Forall body_ok bodies -> body_ok bk -> n0 + len bodies < 2 ^ 32 ->
  (28 <= n < length (part_bytes (n0 + len bodies) bk lf))%nat ->
  concat_cmd (pre ++ (chain_nl n0 bodies ++ [firstn n (part_bytes (n0 + len bodies) bk lf)]) :: post) = Err UnexpectedEof.
Proof. exact concat_truncated_part. Qed.
Check C13_concat_truncated_part :
  forall (pre post : list (list bytes)) (ess : list (list (list chunk))) (n0 : N) (bodies : list (list chunk))
         (bk : list chunk) (lf : bool) (n : nat),
  Forall2 reads pre ess -> check_inputs post = Ok tt ->
  Forall body_ok bodies -> body_ok bk -> n0 + len bodies < 2 ^ 32 ->
  (28 <= n < length (part_bytes (n0 + len bodies) bk lf))%nat ->
  concat_cmd (pre ++ (chain_nl n0 bodies ++ [firstn n (part_bytes (n0 + len bodies) bk lf)]) :: post) = Err UnexpectedEof.
Print Assumptions C13_concat_truncated_part.

Theorem C13_concat_failure_leaves_no_archive :
  forall (inputs : list (list bytes)) (o : option bytes) (st : fin), concat_run inputs = (o, st) -> st <> FinOk ->
  (forall out, concat_cmd inputs <> Ok out) /\
  match o with
  | None => True
  | Some f => exists es, Forall wf_entry es /\ f = write_header 0 ++ ArchiveFacts.ser_entries es /\
                         read_parts read_chunk_stream [f] = Ok (es, FinErr UnexpectedEof) /\ wf_archive f = false
  end.
Proof. exact concat_failure_leaves_no_archive. Qed.
Check C13_concat_failure_leaves_no_archive :
  forall (inputs : list (list bytes)) (o : option bytes) (st : fin), concat_run inputs = (o, st) -> st <> FinOk ->
  (forall out, concat_cmd inputs <> Ok out) /\
  match o with
  | None => True
  | Some f => exists es, Forall wf_entry es /\ f = write_header 0 ++ ArchiveFacts.ser_entries es /\
                         read_parts read_chunk_stream [f] = Ok (es, FinErr UnexpectedEof) /\ wf_archive f = false
  end.
Print Assumptions C13_concat_failure_leaves_no_archive.

Theorem C13_concat_errors_example :
  concat_run [[ex_arch]; firstn 2 exp_chain] =
    (Some (write_header 0 ++ ArchiveFacts.ser_entries [ex_e1; ex_e2; exp_e1]), FinErr NotFound) /\
  concat_cmd [[ex_arch]; [nth 0 exp_chain []; nth 2 exp_chain []]] = Err InvalidData /\
  concat_cmd [[nth 1 exp_chain []; nth 1 exp_chain []; nth 2 exp_chain []]] = Err InvalidData /\
  concat_cmd [[ex_arch]; []] = Err NotFound /\
  concat_run [[ex_arch]; [lit "not a pna file"]] = (None, FinErr InvalidData) /\
  concat_run [[ex_arch]; [firstn 100 ex_arch]] =
    (Some (write_header 0 ++ ArchiveFacts.ser_entries [ex_e1; ex_e2; ex_e1]), FinErr UnexpectedEof).
Proof. exact concat_errors_ex. Qed.
Check C13_concat_errors_example :
  concat_run [[ex_arch]; firstn 2 exp_chain] =
    (Some (write_header 0 ++ ArchiveFacts.ser_entries [ex_e1; ex_e2; exp_e1]), FinErr NotFound) /\
  concat_cmd [[ex_arch]; [nth 0 exp_chain []; nth 2 exp_chain []]] = Err InvalidData /\
  concat_cmd [[nth 1 exp_chain []; nth 1 exp_chain []; nth 2 exp_chain []]] = Err InvalidData /\
  concat_cmd [[ex_arch]; []] = Err NotFound /\
  concat_run [[ex_arch]; [lit "not a pna file"]] = (None, FinErr InvalidData) /\
  concat_run [[ex_arch]; [firstn 100 ex_arch]] =
    (Some (write_header 0 ++ ArchiveFacts.ser_entries [ex_e1; ex_e2; ex_e1]), FinErr UnexpectedEof).
Print Assumptions C13_concat_errors_example.

Theorem C13_concat_tolerant_reader_example :
  let u := mk (T "abCd") [x01] in
  concat_cmd [[write_header 0 ++ ser_chunks (ex_e1 ++ [u]) ++ finalize ++ lit "anything"]] = Ok (write_raw_archive 0 [ex_e1]) /\
  wf_archive (write_header 0 ++ ser_chunks (ex_e1 ++ [u]) ++ finalize) = false /\
  concat_cmd [[write_header 0 ++ ser_chunks (ex_e1 ++ [u] ++ ex_e2) ++ finalize]] = Ok (write_raw_archive 0 [ex_e1; u :: ex_e2]).
Proof. exact concat_tolerant_reader_ex. Qed.
Check C13_concat_tolerant_reader_example :
  let u := mk (T "abCd") [x01] in
  concat_cmd [[write_header 0 ++ ser_chunks (ex_e1 ++ [u]) ++ finalize ++ lit "anything"]] = Ok (write_raw_archive 0 [ex_e1]) /\
  wf_archive (write_header 0 ++ ser_chunks (ex_e1 ++ [u]) ++ finalize) = false /\
  concat_cmd [[write_header 0 ++ ser_chunks (ex_e1 ++ [u] ++ ex_e2) ++ finalize]] = Ok (write_raw_archive 0 [ex_e1; u :: ex_e2]).
Print Assumptions C13_concat_tolerant_reader_example.
