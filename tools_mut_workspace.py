#!/usr/bin/env python3
"""tools_mut_workspace.py <Cxx> [tag]  — prepare a scratch worktree for a mutation sub-agent.

Creates /tmp/mut_<Cxx><tag>/ (a detached git worktree of /repo HEAD) holding PROPERTY.txt (the property's
text from properties.jsonl) and TASK.md, and a warm cargo target directory /tmp/mut_<Cxx><tag>_target
(copy of /repo/target's dependency artefacts, so the agent does not rebuild 300 crates).  Nothing from
/verif other than the property text goes in.  Prints the worktree path."""
import json, os, subprocess, sys

pid = sys.argv[1]
tag = sys.argv[2] if len(sys.argv) > 2 else ""
avoid = sys.argv[3] if len(sys.argv) > 3 else ""     # free text: sites already used by earlier seeded changes
wt = f"/tmp/mut_{pid}{tag}"
td = f"{wt}_target"
prop = None
for l in open("/verif/properties.jsonl"):
    p = json.loads(l)
    if p["id"] == pid:
        prop = p
assert prop, pid
subprocess.check_call(["git", "-C", "/repo", "worktree", "add", "--detach", "-q", wt, "HEAD"])
with open(os.path.join(wt, "PROPERTY.txt"), "w") as f:
    f.write(f"Property {prop['id']}: {prop['title']}\n\n")
    f.write("Statement:\n" + prop["statement"] + "\n\n")
    f.write("Quantifier:\n" + json.dumps(prop["quantifier"], indent=1) + "\n\n")
    f.write("Why the existing tests cannot settle it:\n" + prop["why_tests_cant"] + "\n\n")
    f.write("Anchors (where the property lives in the code):\n" + json.dumps(prop["anchors"], indent=1) + "\n")
base = json.load(open("/root/.vp/BASELINE.json"))
task = f"""# Task

You are in `{wt}`, a scratch git worktree of the Rust project Portable-Network-Archive (library `lib/` = libpna,
`pna/`, CLI `cli/` = portable-network-archive, binary `pna`).  `PROPERTY.txt` holds the text of a semantic property
this code base is meant to satisfy.

Produce ONE change to the project's source (under `lib/`, `pna/` or `cli/`; not tests, not Cargo files) that
**breaks that property** while

* still compiling (`cargo build --offline --workspace`), and
* leaving every test of the existing suite that passes today still passing
  (`cargo test --offline --no-fail-fast -p libpna` and, if you touch `cli/` or `pna/`,
  `cargo test --offline --no-fail-fast -p portable-network-archive` / `-p pna`).  The following tests fail
  already on the unchanged tree (resource files missing in this sandbox) and do not count:
  {", ".join(base["always_fail"])}.

The change should look like something a maintainer could plausibly commit (a refactoring, an optimisation, a
"simplification", an off-by-one, a reordered step, a forgotten case), **not** an obvious sabotage, and it must need
something *specific* to manifest: a particular interleaving, a crash or fault at a particular point, a multi-step
sequence of operations, an unusual input (a length relative to the 16-byte cipher block, a particular chunk layout,
a name shape, an option combination), or two cooperating sites that each look fine alone.  A change that ordinary use
would expose at once (every archive unreadable, every command failing) is not wanted.

{("Earlier changes against this property already used the following sites; choose a DIFFERENT site and a different mechanism: " + avoid + chr(10)) if avoid else ""}
Deliver, in `{wt}/_mutation/1/`:

* `patch.diff` — `git diff` of your change (must apply with `git apply` to a clean checkout of this commit);
* `demo/` — a demonstration that **fails (non-zero exit) with the change and passes (exit 0) without it**: either a
  small cargo project (`Cargo.toml` with `libpna = {{ path = "{wt}/lib" }}` and/or
  `portable-network-archive = {{ path = "{wt}/cli" }}`, an empty `[workspace]` table, copy `{wt}/Cargo.lock` next to it,
  run with `cargo run --offline --target-dir {td}/demo`), or a shell script `run.sh` driving the `pna` binary
  (build it with `cargo build --offline -p portable-network-archive --target-dir {td}`; honour `$PNA_TARGET_DIR` /
  `$CARGO_TARGET_DIR` if set, and refer to the worktree by its absolute path `{wt}`);
* `meta.json` — `{{"property": "{pid}", "summary": what the change does and why it looks innocent, "needs": what is
  needed for the violation to manifest, "files": [...], "ran": [every command you ran to confirm: tests with and
  without the change, demo with and without]}}`.

Rules: no network (`CARGO_NET_OFFLINE=true`; always pass `--offline`).  Use `--target-dir {td}` for every cargo
command (it is pre-warmed with the dependency builds; do not build into the worktree).  Work only inside `{wt}` and
`{td}`; never touch `/repo` or `/verif` (do not even read `/verif`).  Leave the worktree with your change **reverted**
(`git checkout -- .`) at the end — the deliverable is the `_mutation/1` directory.  Confirm all of it yourself before
you finish: tests with the change, demo passing without it, demo failing with it.  Report back in two or three
sentences what you changed and what it needs to manifest.
"""
open(os.path.join(wt, "TASK.md"), "w").write(task)
if not os.path.exists(td):
    subprocess.check_call(["cp", "-r", "--reflink=auto", "/repo/target", td])
print(wt)
