(* Generic driver: reads TSV case lines on stdin, hands each to the extracted
   [Model.run_line] as a [byte list], prints the answer.  The only glue is the
   char <-> extracted-byte conversion: [byte] is a 256-constructor constant variant
   (x00 first), so constructor k is the immediate integer k; checked at start-up
   against the extracted [Byte.to_N]. *)
let byte_of_char (c : char) : Model.byte = Obj.magic (Char.code c)
let char_of_byte (b : Model.byte) : char = Char.chr (Obj.magic b : int)

let rec n_to_int (n : Model.n) : int =
  match n with
  | Model.N0 -> 0
  | Model.Npos p ->
    let rec pos = function
      | Model.XH -> 1
      | Model.XO q -> 2 * pos q
      | Model.XI q -> 2 * pos q + 1 in
    pos p

let () =
  for k = 0 to 255 do
    if n_to_int (Model.b2n (byte_of_char (Char.chr k))) <> k then
      (prerr_endline "driver self-test failed: byte representation"; exit 3)
  done

let bytes_of_string (s : string) : Model.byte list =
  let r = ref [] in
  for i = String.length s - 1 downto 0 do r := byte_of_char s.[i] :: !r done;
  !r

let string_of_bytes (l : Model.byte list) : string =
  let b = Buffer.create 256 in
  List.iter (fun x -> Buffer.add_char b (char_of_byte x)) l;
  Buffer.contents b

let () =
  try
    while true do
      let line = input_line stdin in
      if line <> "" then
        print_endline (string_of_bytes (Model.run_line (bytes_of_string line)))
    done
  with End_of_file -> ()
