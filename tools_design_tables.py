#!/usr/bin/env python3
"""tools_design_tables.py — regenerate the generated part of DESIGN.md §12 (between the markers
<!-- BEGIN GENERATED 12 --> and <!-- END GENERATED 12 -->): per property the theorems stated in coq/Props,
the correspondence areas its check runs, the latest evidence figures, and the seeded changes with what detects them."""
import glob, json, os, re, sys

V = "/verif"
props = [json.loads(l) for l in open(f"{V}/properties.jsonl")]


def theorems(pid):
    out = []
    for f in sorted(glob.glob(f"{V}/coq/Props/{pid}.v") + glob.glob(f"{V}/coq/Props/{pid}_*.v")):
        names = re.findall(r"^(?:Theorem|Example|Corollary)\s+([A-Za-z0-9_']+)", open(f).read(), re.M)
        out.append((os.path.basename(f), names))
    return out


def areas(pid):
    s = open(f"{V}/props/{pid}.py").read()
    found = re.findall(r"correspondence(?:_py)?\(\s*\"([a-z0-9_]+)\"", s)
    for helper, area in (("_archive.step", "archive"), ("_stream.step", "stream"), ("_pipeline.step", "pipeline"), ("_clicodec.step", "clicodec"),
                         ("_c13cli.step", "CLI transforms (oracle)"), ("_clihostile.", "CLI on hostile/sample archives (oracle)")):
        if helper in s:
            found.append(area)
    return list(dict.fromkeys(found))


def seeded(pid):
    rows = []
    for d in sorted(glob.glob(f"{V}/seeded/{pid}-*")):
        m = json.load(open(d + "/meta.json"))
        rows.append((os.path.basename(d), ", ".join(m.get("files", [])), m.get("needs", "").replace("\n", " "), m.get("detection", "").replace("\n", " ")))
    return rows


def short(t, n):
    t = " ".join(t.split())
    return t if len(t) <= n else t[: n - 1].rstrip() + "…"


lines = []
for p in props:
    pid = p["id"]
    lines.append(f"### {pid} — {p['title']}\n")
    ev = {}
    try:
        ev = json.load(open(f"{V}/evidence/{pid}.json"))
    except Exception:
        pass
    cov = ev.get("coverage", {})
    th = theorems(pid)
    n = sum(len(x[1]) for x in th)
    lines.append(f"*Theorems* ({n}; each closed by `exact`, pinned by `Check`, `Print Assumptions` = closed under the global context):\n")
    for f, names in th:
        lines.append(f"* `{f}`: " + ", ".join(f"`{x}`" for x in names))
    lines.append("")
    lines.append("*Tie to the code*: " + ", ".join(areas(pid)) + (f" — last committed quick run: {cov.get('evaluations', '?')} evaluations, "
                 f"{cov.get('kernel_checked_cases', '?')} of them re-evaluated in the kernel, {ev.get('wall_s', '?')} s." if cov else "."))
    lines.append("")
    rows = seeded(pid)
    if rows:
        lines.append("*Seeded changes* (each compiles and passes the 201 baseline tests; confirmed in a scratch worktree):\n")
        lines.append("| id | site | needs | detection |")
        lines.append("|---|---|---|---|")
        for r in rows:
            lines.append(f"| {r[0]} | `{r[1]}` | {short(r[2], 260)} | {short(r[3], 420)} |")
        lines.append("")
gen = "\n".join(lines)

path = f"{V}/DESIGN.md"
s = open(path).read()
b, e = "<!-- BEGIN GENERATED 12 -->", "<!-- END GENERATED 12 -->"
if b not in s:
    sys.exit("markers missing in DESIGN.md")
s = s[: s.index(b) + len(b)] + "\n" + gen + "\n" + s[s.index(e):]
open(path, "w").write(s)
print("DESIGN.md §12 regenerated:", len(lines), "lines")
