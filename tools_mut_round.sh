#!/bin/sh
# tools_mut_round.sh <tag> <Cxx>...  — prepare sub-agent workspaces for a round of seeded changes;
# the "avoid" text names the sites of the changes already kept under seeded/ for that property.
TAG=$1; shift
for P in "$@"; do
  AV=$(python3 - "$P" <<'PY'
import json,glob,sys
p=sys.argv[1]; out=[]
for d in sorted(glob.glob(f'/verif/seeded/{p}-*')):
    m=json.load(open(d+'/meta.json'))
    out.append(f"({', '.join(m.get('files') or [])}: {m.get('summary','')[:260]})")
print(' ; '.join(out))
PY
)
  python3 /verif/tools_mut_workspace.py "$P" "$TAG" "$AV"
done
