#!/bin/sh
# tools_keep_round.sh <mutation dir> <seeded id> <prop that was tried> — keep a confirmed seeded change under seeded/<id>/
# with the verify line and a detection summary taken from the try log (first oracle message).
M=$1; ID=$2; P=$3; L=/verif/.work/mutlogs
V=$(grep "^RESULT" $L/$ID.verify.log | sed 's/^RESULT [^:]*: //')
X=$(grep "^exit=" $L/$ID.try_$P.log)
NV=$(grep -c "^VIOLATION" $L/$ID.try_$P.log); NF=$(grep "^VIOLATION" $L/$ID.try_$P.log | grep -c no-failing-input-found)
MSG=$(grep -A1 "^VIOLATION" $L/$ID.try_$P.log | grep "(oracle)" | head -1 | cut -c1-420)
[ -z "$MSG" ] && MSG=$(grep -A1 "^VIOLATION" $L/$ID.try_$P.log | grep "^  (" | head -1 | cut -c1-420)
if [ "$X" = "exit=1" ]; then D="./check $P --tier quick as delivered: $NV VIOLATION lines ($((NV-NF)) with a concrete replay): $MSG";
else D="MISSED by ./check $P --tier quick as delivered ($X)"; fi
python3 /verif/tools_keep_mutation.py "$M" "$ID" "$V" "$D${4:+ ; $4}"
