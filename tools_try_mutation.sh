#!/bin/sh
# tools_try_mutation.sh <patch.diff> <property> [tier]  — try a seeded change in isolation:
# scratch worktree of /repo HEAD + patch, checks redirected with VERIF_REPO. Cleans up after itself.
set -e
PATCH=$(readlink -f "$1"); PROP=$2; TIER=${3:-quick}
WT=/tmp/try_$$
git -C /repo worktree add --detach -q $WT ${MUT_BASE:-HEAD}
( cd $WT && git apply "$PATCH" ) || { echo "patch does not apply"; git -C /repo worktree remove --force $WT; exit 2; }
cd /verif
# the evidence file of the registered check must come from /repo itself: keep it aside while the check runs on the patched tree
cp evidence/$PROP.json /tmp/try_$$_evidence.json 2>/dev/null
RC=0; VERIF_REPO=$WT ./check $PROP --tier $TIER || RC=$?
cp evidence/$PROP.json /verif/.work/mutlogs/last_try_$PROP.evidence.json 2>/dev/null
mv /tmp/try_$$_evidence.json evidence/$PROP.json 2>/dev/null
ALT=/verif/.build/alt_$(python3 -c "import hashlib,sys; print(hashlib.sha256('$WT'.encode()).hexdigest()[:10])")
rm -rf "$ALT"
git -C /repo worktree remove --force $WT
echo "exit=$RC"
