#!/usr/bin/env python3
"""tools_coverage_report.py <covdir> — merge the profraw files of a VERIF_COV run and report line coverage of /repo's
own sources: <covdir>/report.txt (per file: covered/instrumented lines, uncovered ranges) and /verif/coverage.md (table)."""
import glob, os, subprocess, sys, re
cov = sys.argv[1]
tools = "/root/.rustup/toolchains/nightly-x86_64-unknown-linux-gnu/lib/rustlib/x86_64-unknown-linux-gnu/bin"
raws = glob.glob(os.path.join(cov, "prof", "*.profraw"))
data = os.path.join(cov, "cov.profdata")
subprocess.check_call([os.path.join(tools, "llvm-profdata"), "merge", "-sparse", "-o", data] + raws)
bins = []
for d in ("target/debug", "target-pna/debug"):
    p = os.path.join(cov, d)
    if os.path.isdir(p):
        for f in sorted(os.listdir(p)):
            q = os.path.join(p, f)
            if os.path.isfile(q) and os.access(q, os.X_OK) and "." not in f:
                bins.append(q)
cmd = [os.path.join(tools, "llvm-cov"), "export", "-format=lcov", "-instr-profile", data, bins[0]]
for b in bins[1:]:
    cmd += ["-object", b]
cmd += ["-ignore-filename-regex", r"(\.cargo/registry|/rustc/|/verif/)"]
lcov = subprocess.run(cmd, stdout=subprocess.PIPE, stderr=subprocess.DEVNULL, text=True).stdout
files = {}
cur = None
for line in lcov.split("\n"):
    if line.startswith("SF:"):
        cur = files.setdefault(line[3:], {})
    elif line.startswith("DA:") and cur is not None:
        ln, cnt = line[3:].split(",")[:2]
        cur[int(ln)] = max(cur.get(int(ln), 0), int(cnt))
def ranges(nums):
    out = []; s = p = None
    for n in sorted(nums):
        if s is None: s = p = n
        elif n == p + 1: p = n
        else: out.append((s, p)); s = p = n
    if s is not None: out.append((s, p))
    return ",".join("%d" % a if a == b else "%d-%d" % (a, b) for a, b in out)
rows = []
with open(os.path.join(cov, "report.txt"), "w") as rep:
    for f in sorted(files):
        if "/src/" not in f or "verif_hooks" in f: continue
        m = re.search(r"/(lib|cli|pna)/src/.*$", f)
        if not m: continue
        d = files[f]; tot = len(d); hit = sum(1 for v in d.values() if v)
        # lines of #[cfg(test)] modules are never instrumented in these builds
        rel = m.group(0)[1:]
        rows.append((rel, hit, tot))
        rep.write("%s  %d/%d\n  uncovered: %s\n" % (rel, hit, tot, ranges([k for k, v in d.items() if not v])))
tot_h = sum(r[1] for r in rows); tot_t = sum(r[2] for r in rows)
with open("/verif/coverage.md", "w") as md:
    md.write("# Line coverage of /repo's sources under the quick tier of the checks\n\n")
    md.write("Measured by `tools_coverage.sh` (nightly `-C instrument-coverage`; harness binaries and the real `pna`; windows/redox\n"
             "modules and `#[cfg(test)]` code are not compiled). Instrumented lines that the checks executed / instrumented lines.\n\n")
    md.write("| file | covered | lines | % |\n|---|---|---|---|\n")
    for rel, h, t in rows:
        md.write("| `%s` | %d | %d | %.0f |\n" % (rel, h, t, 100.0 * h / max(t, 1)))
    md.write("| **total** | %d | %d | %.1f |\n" % (tot_h, tot_t, 100.0 * tot_h / max(tot_t, 1)))
print("total %d/%d = %.1f%%; report in %s/report.txt" % (tot_h, tot_t, 100.0 * tot_h / max(tot_t, 1), cov))
