"""Shared machinery of ./check: building (Coq, extracted model, Rust harness), running an
area's cases on implementation and model, diffing, kernel-side re-evaluation of a sample,
known findings, evidence.  Everything is rebuilt from /repo's current working tree and
from the .v files present; nothing is taken from a cache that does not check its inputs."""
import fcntl, hashlib, json, os, random, re, shutil, subprocess, sys, time

ROOT = os.path.dirname(os.path.dirname(os.path.abspath(__file__)))
COQ = os.path.join(ROOT, "coq")
BUILD = os.path.join(ROOT, ".build")
WORK = os.path.join(ROOT, ".work")
# The checks registered in MANIFEST.json run against /repo.  For trying a seeded change in isolation
# (without touching /repo, which other work may be using) VERIF_REPO=<scratch worktree> redirects every
# build to that tree: the harness is copied with its path dependencies rewritten and gets its own
# target directories under .build/alt_<hash>/ (remove them afterwards).
REPO = os.environ.get("VERIF_REPO", "/repo").rstrip("/")
if REPO == "/repo":
    HARNESS = os.path.join(ROOT, "harness")
    TARGET = os.path.join(BUILD, "target")
    PNA_TARGET = os.path.join(BUILD, "target-pna")
else:
    _alt = os.path.join(BUILD, "alt_" + hashlib.sha256(REPO.encode()).hexdigest()[:10])
    HARNESS = os.path.join(_alt, "harness")
    TARGET = os.path.join(_alt, "target")
    PNA_TARGET = os.path.join(_alt, "target-pna")


def _sync_alt_harness():
    if REPO == "/repo":
        return
    src = os.path.join(ROOT, "harness")
    os.makedirs(HARNESS, exist_ok=True)
    sh(["rsync", "-a", "--delete", "--exclude", "target", "--exclude", "Cargo.lock", src + "/", HARNESS + "/"])
    for rel in ("Cargo.toml", os.path.join(".cargo", "config.toml")):
        f = os.path.join(HARNESS, rel)
        t = open(f).read().replace('"/repo/', '"%s/' % REPO).replace("/verif/.build/target", TARGET)
        open(f, "w").write(t)

# Coverage measurement (tools_coverage.sh, never used by a registered check): VERIF_COV=<dir> builds harness and pna
# with the nightly toolchain and -C instrument-coverage into <dir>/target*, and every process started from a check
# writes its counters to <dir>/prof (merge pool of 8 files per binary).  It answers "how far do the correspondence
# generators reach into the Rust files the model mirrors" with line numbers instead of a guess.
COV = os.environ.get("VERIF_COV")
COV_RUSTFLAGS = "--cfg pna_verif"
if COV:
    COV = os.path.abspath(COV)
    TARGET = os.path.join(COV, "target")
    PNA_TARGET = os.path.join(COV, "target-pna")
    COV_RUSTFLAGS = "--cfg pna_verif -C instrument-coverage"
    os.makedirs(os.path.join(COV, "prof"), exist_ok=True)
    os.environ["LLVM_PROFILE_FILE"] = os.path.join(COV, "prof", "%8m.profraw")
    os.environ["RUSTUP_TOOLCHAIN"] = "nightly"
    os.environ["RUSTFLAGS"] = COV_RUSTFLAGS

ENV = dict(os.environ, CARGO_NET_OFFLINE="true", CARGO_TERM_COLOR="never")

FORBIDDEN = re.compile(
    r"\b(Admitted|admit|Axiom|Axioms|Parameter|Parameters|Conjecture|Hypothesis|Variable|Admit Obligations)\b"
    r"|Unset Guard|bypass_check|type-in-type|impredicative-set|Unset Universe Checking|Unset Positivity")


class Lock:
    def __init__(self, name):
        os.makedirs(BUILD, exist_ok=True)
        self.path = os.path.join(BUILD, name + ".lock")

    def __enter__(self):
        self.f = open(self.path, "w")
        fcntl.flock(self.f, fcntl.LOCK_EX)

    def __exit__(self, *a):
        fcntl.flock(self.f, fcntl.LOCK_UN)
        self.f.close()


def _limit_as(nbytes):
    def f():
        import resource
        resource.setrlimit(resource.RLIMIT_AS, (nbytes, nbytes))
    return f


def sh(cmd, cwd=None, timeout=3600, env=None, stdin=None, mem_limit=None):
    """mem_limit (bytes of address space): a harness process running changed code that allocates without bound is stopped
    by the allocator (abort: a crash the check reports) instead of taking the machine down with it"""
    p = subprocess.run(cmd, cwd=cwd, timeout=timeout, env=env or ENV, input=stdin,
                       stdout=subprocess.PIPE, stderr=subprocess.STDOUT, text=True, errors="replace",
                       preexec_fn=_limit_as(mem_limit) if mem_limit else None)
    return p.returncode, p.stdout


def file_hash(paths):
    h = hashlib.sha256()
    for p in sorted(paths):
        h.update(p.encode())
        with open(p, "rb") as f:
            h.update(f.read())
    return h.hexdigest()


# --------------------------------------------------------------------------- Coq
def strip_comments(text):
    out, depth, i = [], 0, 0
    while i < len(text):
        if text.startswith("(*", i):
            depth += 1; i += 2
        elif text.startswith("*)", i) and depth:
            depth -= 1; i += 2
        else:
            if not depth:
                out.append(text[i])
            i += 1
    return "".join(out)


def coq_sources():
    out = []
    for d in ("Model", "Proofs", "Props", "Extract"):
        p = os.path.join(COQ, d)
        if os.path.isdir(p):
            out += [os.path.join(p, f) for f in sorted(os.listdir(p)) if f.endswith(".v")]
    return out


def grep_forbidden(files=None):
    """Admitted/Axiom/... anywhere in the development (comments and strings stripped).
    `Variable`/`Hypothesis` are allowed only inside a Section (checked by nesting)."""
    bad = []
    for p in files or coq_sources():
        text = strip_comments(open(p).read())
        text = re.sub(r'"[^"]*"', '""', text)
        depth = 0
        for ln, line in enumerate(text.split("\n"), 1):
            if re.match(r"\s*Section\b", line):
                depth += 1
            if re.match(r"\s*End\b", line) and depth:
                depth -= 1
            for m in FORBIDDEN.finditer(line):
                w = m.group(0)
                if w in ("Variable", "Hypothesis", "Variables", "Hypotheses") and depth > 0:
                    continue
                bad.append("%s:%d: %s" % (os.path.relpath(p, ROOT), ln, w))
    return bad


def coq_make(targets, timeout=2400):
    """Full .vo build (never -vos) of the given targets and what they depend on."""
    with Lock("coq"):
        rc, out = sh(["sh", os.path.join(COQ, "files.sh")], cwd=COQ)
        if rc != 0:
            return False, out
        rc, out = sh(["make", "-j16"] + targets, cwd=COQ, timeout=timeout)
        return rc == 0, out


def props_files(prop):
    """Props/<prop>.v and Props/<prop>_<part>.v (a property may spread its theorems over several files)"""
    d = os.path.join(COQ, "Props")
    return sorted(f[:-2] for f in os.listdir(d) if re.match(r"^%s(_[A-Za-z0-9]+)?\.v$" % prop, f))


def props_targets(prop):
    """the .vo files a Props file imports (make builds their dependencies): one broken
    proof elsewhere does not block an unrelated property."""
    text = strip_comments(open(os.path.join(COQ, "Props", prop + ".v")).read())
    names = []
    for m in re.finditer(r"From PNA Require (?:Import|Export)\s+([^.]*)\.", text):
        names += m.group(1).split()
    out = []
    for n in names:
        for d in ("Model", "Proofs"):
            if os.path.exists(os.path.join(COQ, d, n + ".v")):
                out.append("%s/%s.vo" % (d, n))
    return out or ["all"]


def coq_props(prop, timeout=900):
    """Compile Props/<prop>.v (theorem = exact lemma; Check pin; Print Assumptions) and
    return (ok, [(theorem, assumptions-text)], log)."""
    src = os.path.join(COQ, "Props", prop + ".v")
    with Lock("coq"):
        rc, out = sh(["coqc", "-q", "-Q", ".", "PNA", "-w", "-notation-overridden", src], cwd=COQ, timeout=timeout)
    text = strip_comments(open(src).read())
    wanted = re.findall(r"Print Assumptions\s+([A-Za-z0-9_'.]+)\s*\.", text)
    theorems = re.findall(r"(?:Theorem|Lemma|Corollary)\s+([A-Za-z0-9_']+)", text)
    # split the log into the answers of Print Assumptions, in order
    answers = []
    blocks = re.split(r"(?m)^(?=Closed under the global context|Axioms:|Section Variables:)", out)
    for b in blocks[1:]:
        answers.append(b.strip())
    res = list(zip(wanted, answers))
    ok = rc == 0 and len(answers) == len(wanted) and set(wanted) >= set(theorems)
    return ok, res, out, theorems


def coqchk(files, timeout=3000):
    """Re-check the compiled Props modules and everything they depend on with the independent checker and
    return (ok, one-line summary, log): ok iff coqchk succeeds and reports no axiom, no type-in-type, no unsafe
    (co)fixpoint and no assumed positivity in the whole context."""
    mods = ["PNA.Props." + f for f in files]
    with Lock("coq"):
        rc, out = sh(["coqchk", "-o", "-silent", "-Q", ".", "PNA"] + mods, cwd=COQ, timeout=timeout)
    fields = {}
    for key, pat in (("axioms", r"\* Axioms:"), ("type_in_type", r"\* Constants/Inductives relying on type-in-type:"),
                     ("unsafe_fix", r"\* Constants/Inductives relying on unsafe \(co\)fixpoints:"),
                     ("assumed_positivity", r"\* Inductives whose positivity is assumed:")):
        m = re.search(pat + r"(.*?)(?=\n\s*\n|\Z)", out, re.S)
        fields[key] = " ".join(m.group(1).split()) if m else "?"
    ok = rc == 0 and all(v == "<none>" for v in fields.values())
    return ok, "; ".join("%s %s" % kv for kv in fields.items()), out


def assumptions_ok(answer, allow=()):
    if answer.startswith("Closed under the global context"):
        return True
    names = re.findall(r"(?m)^\s*([A-Za-z0-9_'.]+)\s*:", answer)
    return bool(names) and all(n in allow for n in names)


# ------------------------------------------------------------------- extracted model
def build_model(area, timeout=1200):
    """Extract coq/Extract/Extract<Area>.v to OCaml and link it with modelrun/driver.ml."""
    ex = os.path.join(COQ, "Extract", "Extract%s.v" % area.capitalize())
    models = [os.path.join(COQ, "Model", f) for f in sorted(os.listdir(os.path.join(COQ, "Model"))) if f.endswith(".v")]
    drv = os.path.join(ROOT, "modelrun", "driver.ml")
    key = file_hash(models + [ex, drv])
    d = os.path.join(BUILD, "ml", area)
    exe = os.path.join(d, "modelrun")
    stamp = os.path.join(d, "stamp")
    with Lock("ml_" + area):
        if os.path.exists(exe) and os.path.exists(stamp) and open(stamp).read() == key:
            return True, exe, "cached"
        # the Model files the extraction imports must be compiled (they need not be dependencies of the Props file)
        names = []
        for m in re.finditer(r"From PNA Require (?:Import|Export)\s+([^.]*)\.", strip_comments(open(ex).read())):
            names += m.group(1).split()
        targets = ["Model/%s.vo" % n for n in names if os.path.exists(os.path.join(COQ, "Model", n + ".v"))]
        ok, log = coq_make(targets)
        if not ok:
            return False, exe, log
        shutil.rmtree(d, ignore_errors=True)
        os.makedirs(d)
        rc, out = sh(["coqc", "-q", "-Q", COQ, "PNA", "-w", "-all", ex], cwd=d, timeout=timeout)
        for junk in ("Extract%s.vo" % area.capitalize(), "Extract%s.glob" % area.capitalize()):
            for base in (d, os.path.join(COQ, "Extract")):
                try: os.remove(os.path.join(base, junk))
                except OSError: pass
        if rc != 0:
            return False, exe, out
        shutil.copy(drv, d)
        rc, out2 = sh(["ocamlfind", "ocamlopt", "-O3", "-w", "-a", "model.mli", "model.ml", "driver.ml", "-o", "modelrun"],
                      cwd=d, timeout=timeout)
        if rc != 0:
            return False, exe, out + out2
        open(stamp, "w").write(key)
        return True, exe, out + out2


# ------------------------------------------------------------------------ Rust harness
def build_harness(bins=None, timeout=3000):
    """cargo build of the harness against /repo's current working tree, hooks on
    (RUSTFLAGS --cfg pna_verif comes from harness/.cargo/config.toml)."""
    _sync_alt_harness()
    lock = os.path.join(HARNESS, "Cargo.lock")
    with Lock("cargo" if REPO == "/repo" else "cargo_alt"):
        if not os.path.exists(lock) or open(lock).read().count("name = ") < 50:
            shutil.copy(os.path.join(REPO, "Cargo.lock"), lock)
        cmd = ["cargo", "build", "--offline", "--quiet", "--target-dir", TARGET]
        for b in bins or []:
            cmd += ["--bin", b]
        rc, out = sh(cmd, cwd=HARNESS, timeout=timeout)
        if rc != 0:
            # a lock file that no longer matches /repo: start again from /repo's
            shutil.copy(os.path.join(REPO, "Cargo.lock"), lock)
            rc, out = sh(cmd, cwd=HARNESS, timeout=timeout)
    errs = "\n".join(l for l in out.split("\n") if l.startswith("error"))
    return rc == 0, out if rc != 0 else errs


def build_pna(timeout=3000):
    """the real `pna` binary from /repo's working tree (same target dir, hooks cfg on)."""
    with Lock("cargo" if REPO == "/repo" else "cargo_alt"):
        env = dict(ENV, RUSTFLAGS=COV_RUSTFLAGS)
        rc, out = sh(["cargo", "build", "--offline", "--quiet", "--manifest-path", os.path.join(REPO, "cli", "Cargo.toml"),
                      "--bin", "pna", "--target-dir", PNA_TARGET], cwd=REPO, timeout=timeout, env=env)
    return rc == 0, os.path.join(PNA_TARGET, "debug", "pna"), out


def harness_bin(name):
    return os.path.join(TARGET, "debug", name)


# --------------------------------------------------------------------- running an area
def read_tsv(path):
    d = {}
    with open(path, errors="replace") as f:
        for line in f:
            line = line.rstrip("\n")
            if not line:
                continue
            k, _, v = line.partition("\t")
            d.setdefault(k, []).append(v)
    return d


def _big_stack():
    import resource
    try:
        hard = resource.getrlimit(resource.RLIMIT_STACK)[1]
        resource.setrlimit(resource.RLIMIT_STACK, (hard, hard))
    except (ValueError, OSError):
        pass


def run_model(exe, cases_path, out_path, shards=16, timeout=3000):
    """run the extracted model over the case file, sharded over processes"""
    lines = [l for l in open(cases_path).read().split("\n") if l]
    n = max(1, min(shards, len(lines) // 200 + 1))
    procs = []
    for i in range(n):
        part = "\n".join(lines[i::n]) + "\n"
        # extracted list functions are not tail-recursive: a case with a write of a megabyte needs more than the 8 MiB
        # default stack (C14 thorough: `Stack_overflow` on csw … g1048576)
        p = subprocess.Popen([exe], stdin=subprocess.PIPE, stdout=subprocess.PIPE, text=True, preexec_fn=_big_stack)
        procs.append((p, part))
    # feed and collect (small inputs: communicate sequentially is fine, processes run concurrently)
    import threading
    outs = [None] * n
    def work(i):
        p, part = procs[i]
        try:
            outs[i] = p.communicate(part, timeout=timeout)[0]
        except subprocess.TimeoutExpired:
            p.kill(); outs[i] = ""
    ts = [threading.Thread(target=work, args=(i,)) for i in range(n)]
    [t.start() for t in ts]; [t.join() for t in ts]
    ok = all(p.returncode == 0 for p, _ in procs)
    with open(out_path, "w") as f:
        for o in outs:
            f.write(o or "")
    return ok


def kernel_eval(area, case_lines, timeout=900):
    """evaluate the same cases inside Coq (vm_compute on <Area>Run.run_line): checks the
    extraction and the OCaml driver instead of trusting them."""
    d = os.path.join(WORK, "kernel_%s_%d" % (area, os.getpid()))
    os.makedirs(d, exist_ok=True)
    src = os.path.join(d, "cases.v")
    with open(src, "w") as f:
        f.write("From PNA Require Import Base %sRun.\n" % area.capitalize())
        for l in case_lines:
            f.write('Eval vm_compute in show (run_line (lit "%s")).\n' % l.replace('"', '""'))
    with Lock("coq"):
        rc, out = sh(["coqc", "-q", "-noglob", "-Q", COQ, "PNA", "-w", "-all", src], cwd=d, timeout=timeout)
    answers = re.findall(r'=\s*"((?:[^"]|"")*)"\s*(?:%string)?\s*:\s*String\.string', out, re.S)
    answers = [a.replace('""', '"') for a in answers]
    shutil.rmtree(d, ignore_errors=True)
    return rc == 0 and len(answers) == len(case_lines), answers, out


# ----------------------------------------------------------------------- known findings
def load_findings(prop):
    """known_findings.txt: `finding: property=Cxx id=<slug> case=<case text, \\t for tab> :: <what fails>`
    and `fixed: property=Cxx <commit> <what failed>` (a fixed line suppresses nothing)."""
    out = []
    p = os.path.join(ROOT, "known_findings.txt")
    if not os.path.exists(p):
        return out
    for line in open(p):
        line = line.rstrip("\n")
        m = re.match(r"finding: property=(\S+) id=(\S+) case=(.*?) :: (.*)$", line)
        if m and m.group(1) == prop:
            out.append({"id": m.group(2), "case": m.group(3).replace("\\t", "\t"), "what": m.group(4)})
    return out


# ------------------------------------------------------------------------------ evidence
def write_evidence(prop, data):
    os.makedirs(os.path.join(ROOT, "evidence"), exist_ok=True)
    with open(os.path.join(ROOT, "evidence", prop + ".json"), "w") as f:
        json.dump(data, f, indent=1, sort_keys=True)


def replay_path(prop, tag):
    d = os.path.join(ROOT, "replays")
    os.makedirs(d, exist_ok=True)
    return os.path.join(d, "%s_%s.txt" % (prop, tag))
