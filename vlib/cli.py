"""Helpers for the CLI-level checks: the freshly built `pna` binary, sandboxes under
/verif/.work, running commands under a wall-clock limit, logical dumps of archives
(harness `dump`), tree snapshots, seeded tree generation."""
import hashlib, json, os, random, shutil, stat, subprocess, time
from . import core

_PNA = None


def pna_path():
    """build (incrementally) and return the real `pna` binary from /repo's working tree"""
    global _PNA
    if _PNA is None:
        ok, path, log = core.build_pna()
        if not ok:
            raise RuntimeError("pna does not build:\n" + log[-3000:])
        _PNA = path
    return _PNA


class Sandbox:
    """a private directory; TMPDIR points inside so temp files of the CLI are observable"""
    def __init__(self, tag):
        self.root = os.path.join(core.WORK, "sb_%s_%d_%d" % (tag, os.getpid(), random.getrandbits(24)))

    def __enter__(self):
        shutil.rmtree(self.root, ignore_errors=True)
        os.makedirs(os.path.join(self.root, "tmp"))
        return self

    def __exit__(self, *a):
        # make everything removable again
        for d, ds, fs in os.walk(self.root):
            for x in ds:
                try: os.chmod(os.path.join(d, x), 0o700)
                except OSError: pass
        shutil.rmtree(self.root, ignore_errors=True)

    def path(self, *p):
        return os.path.join(self.root, *p)


def _limit_as(nbytes):
    def f():
        import resource
        resource.setrlimit(resource.RLIMIT_AS, (nbytes, nbytes))
    return f


def run_pna(args, cwd, timeout=20, env=None, stdin=None, threads=None, mem_limit=16 << 30):
    """run pna; returns dict(rc, out, err, timeout). rc 101 = Rust panic.  mem_limit (bytes of address space): a
    run-away allocation loop is stopped by the allocator (abort, rc -6) instead of eating the machine."""
    e = dict(os.environ, TMPDIR=os.path.join(cwd, "tmp") if os.path.isdir(os.path.join(cwd, "tmp")) else cwd,
             NO_COLOR="1", LANG="C.UTF-8")
    if threads:
        e["RAYON_NUM_THREADS"] = str(threads)
    if env:
        e.update(env)
    # a limit is a statement about the command ("terminates within .."), not about the machine: on a box whose run
    # queue is several times its cores (other checks, builds) the same limit is stretched, so that a starved process is
    # not taken for a hung one (DESIGN §12.4: C14 thorough, a 60 s append under load 30+); a real hang still ends at the limit
    try:
        timeout = timeout * min(8.0, max(1.0, 3.0 * os.getloadavg()[0] / (os.cpu_count() or 16)))
    except OSError:
        pass
    t0 = time.time()
    try:
        p = subprocess.run([pna_path()] + list(args), cwd=cwd, env=e, input=stdin, timeout=timeout,
                           stdout=subprocess.PIPE, stderr=subprocess.PIPE,
                           preexec_fn=_limit_as(mem_limit) if mem_limit else None)
        return {"rc": p.returncode, "out": p.stdout, "err": p.stderr, "timeout": False, "t": time.time() - t0,
                "cmd": "pna " + " ".join(args)}
    except subprocess.TimeoutExpired as ex:
        return {"rc": None, "out": ex.stdout or b"", "err": ex.stderr or b"", "timeout": True, "t": time.time() - t0,
                "cmd": "pna " + " ".join(args)}


def dump(paths, password=None, expand=True):
    """logical content of an archive / part sequence: (list of entry dicts, end string)"""
    core.build_harness(["dump"]) if not os.path.exists(core.harness_bin("dump")) else None
    cmd = [core.harness_bin("dump")]
    if password is not None:
        cmd += ["--password", password]
    if not expand:
        cmd += ["--no-expand"]
    p = subprocess.run(cmd + list(paths), stdout=subprocess.PIPE, stderr=subprocess.PIPE, timeout=120)
    entries, end = [], "ERR nooutput"
    for line in p.stdout.decode("utf-8", "replace").split("\n"):
        if not line.strip():
            continue
        o = json.loads(line)
        if "end" in o:
            end = o["end"]
        else:
            entries.append(o)
    return entries, end


def unhex(s):
    return bytes.fromhex(s)


def logical(entries):
    """canonical comparable form of dumped entries (file entries only, solid headers dropped)"""
    out = []
    for e in entries:
        if "solid_header" in e:
            continue
        out.append((unhex(e["name"]).decode("utf-8", "replace"), e["kind"], e["content"], e["mtime"], e["ctime"],
                    json.dumps(e["perm"]), json.dumps(e["xattrs"]), json.dumps(e["extras"])))
    return out


# ------------------------------------------------------------------------ tree snapshots
def snapshot(root, content=True, follow=False):
    """{relative path: (kind, detail)}; kind in file/dir/symlink/other; detail = sha256 / link target"""
    snap = {}
    for d, ds, fs in os.walk(root, followlinks=follow):
        for n in ds + fs:
            p = os.path.join(d, n)
            rel = os.path.relpath(p, root)
            st = os.lstat(p)
            if stat.S_ISLNK(st.st_mode):
                snap[rel] = ("symlink", os.readlink(p))
            elif stat.S_ISDIR(st.st_mode):
                snap[rel] = ("dir", "")
            elif stat.S_ISREG(st.st_mode):
                h = ""
                if content:
                    with open(p, "rb") as f:
                        h = hashlib.sha256(f.read()).hexdigest()
                snap[rel] = ("file", h)
            else:
                snap[rel] = ("other", "")
    return snap


def snapshot_meta(root):
    """{relative path: (kind, size, mtime_ns, inode, mode, sha256)} for clobber/escape detection"""
    snap = {}
    for d, ds, fs in os.walk(root):
        for n in ds + fs:
            p = os.path.join(d, n)
            rel = os.path.relpath(p, root)
            st = os.lstat(p)
            kind = "symlink" if stat.S_ISLNK(st.st_mode) else "dir" if stat.S_ISDIR(st.st_mode) else "file" if stat.S_ISREG(st.st_mode) else "other"
            h = ""
            if kind == "file":
                with open(p, "rb") as f:
                    h = hashlib.sha256(f.read()).hexdigest()
            elif kind == "symlink":
                h = os.readlink(p)
            snap[rel] = (kind, st.st_size if kind == "file" else 0, st.st_mtime_ns if kind != "dir" else 0, st.st_ino, stat.S_IMODE(st.st_mode), h)
    return snap


# ---------------------------------------------------------------------- tree generation
NAMES = ["a", "b.txt", "with space", "ünï", "名前", "-dash", ".hidden", "x.tar.gz", "UPPER", "q'uote", "tab\tname",
         "glob*star", "br[ack]et", "que?stion", "semi;colon", "long" * 40]


def gen_tree(rnd, root, max_files=8, symlinks=True, empty_dirs=True, big=False):
    """create a random tree under root; returns the list of relative paths created (in creation order)"""
    os.makedirs(root, exist_ok=True)
    dirs = [""]
    made = []
    n = rnd.randint(1, max_files)
    for i in range(n):
        kind = rnd.choice(["file"] * 5 + ["dir"] * 2 + (["symlink"] if symlinks else []) + (["emptydir"] if empty_dirs else []))
        parent = rnd.choice(dirs)
        name = rnd.choice(NAMES)
        rel = os.path.join(parent, name) if parent else name
        p = os.path.join(root, rel)
        if os.path.lexists(p) or len(p.encode()) > 900:
            continue
        if kind == "file":
            size = rnd.choice([0, 1, 15, 16, 17, 100, 4096, 70000 if big else 300])
            data = bytes(rnd.getrandbits(8) for _ in range(min(size, 4096))) * (size // 4096 + 1)
            with open(p, "wb") as f:
                f.write(data[:size])
            os.utime(p, (1_600_000_000 + rnd.randint(0, 10**8), 1_500_000_000 + rnd.randint(0, 10**8)))
            os.chmod(p, rnd.choice([0o644, 0o600, 0o755, 0o640]))
        elif kind in ("dir", "emptydir"):
            os.makedirs(p)
            if kind == "dir":
                dirs.append(rel)
        else:
            target = rnd.choice(["a", "nonexistent", "..", "b.txt", "./x", "/etc/hostname"])
            os.symlink(target, p)
        made.append(rel)
    return made
