"""The standard shape of a check:  proof obligations  +  correspondence (model vs
implementation on generated cases)  +  property oracles on the implementation  +
decision / known findings / evidence.   A property module builds a Check, calls the
steps it needs and ends with finish()."""
import json, os, random, re, shutil, sys, time
from . import core


class Check:
    def __init__(self, prop, tier, seed, design_ref=""):
        self.prop, self.tier, self.seed = prop, tier, seed
        self.t0 = time.time()
        self.violations = []          # (kind, detail, replay_text, has_failing_input)
        self.known_lines = []
        self.notes = []
        self.obligations = []         # (theorem, status)
        self.trusted = []
        self.assumptions = []
        self.cov = {"evaluations": 0, "distinct_nontrivial": 0, "samples": [], "traces_validated_against_impl": 0,
                    "disagreements_checked": 0}
        self.findings = core.load_findings(prop)
        self.finding_hit = set()
        self.work = os.path.join(core.WORK, "%s_%d" % (prop, os.getpid()))
        shutil.rmtree(self.work, ignore_errors=True)
        os.makedirs(self.work)
        self.checker_cmd = "cd /verif/coq && sh files.sh && make -j16 && for f in Props/%s.v Props/%s_*.v; do coqc -Q . PNA $f; done" % (prop, prop)
        self.rule = ""
        self.hist = {}
        self.search_specs = []        # (harness bin, gen_prop) for the failing-input search

    # ------------------------------------------------------------------ proofs
    def proofs(self, allow_axioms=()):
        """make the Coq development (full .vo), compile Props/<prop>.v, audit assumptions."""
        bad = core.grep_forbidden()
        if bad:
            self.violations.append(("proof", "forbidden declarations in the Coq development: " + "; ".join(bad[:5]),
                                    "grep over coq/: " + "\n".join(bad), False))
        files = core.props_files(self.prop)
        if not files:
            self.violations.append(("proof", "no Props file for %s" % self.prop, "theorem-or-correspondence: coq/Props/%s.v missing" % self.prop, False))
            return False
        targets = sorted(set(t for f in files for t in core.props_targets(f)))
        ok, log = core.coq_make(targets)
        if not ok:
            tail = "\n".join(log.split("\n")[-25:])
            m = re.search(r'File "\./([^"]+)", line (\d+)', log)
            where = "%s:%s" % (m.group(1), m.group(2)) if m else "?"
            self.obligations.append(("make (dependencies of Props/%s.v)" % self.prop, "FAILED at " + where))
            self.violations.append(("proof", "Coq development no longer builds (%s)" % where,
                                    "theorem-or-correspondence: make all (coq/) fails at %s\n%s" % (where, tail), False))
            return False
        res = []
        for pf in files:
            ok, res1, log, theorems = core.coq_props(pf)
            if not ok:
                tail = "\n".join(log.split("\n")[-25:])
                self.obligations.append(("Props/%s.v" % pf, "FAILED"))
                self.violations.append(("proof", "Props/%s.v does not check" % pf,
                                        "theorem-or-correspondence: coq/Props/%s.v\n%s" % (pf, tail), False))
                return False
            res += res1
        for name, ans in res:
            if core.assumptions_ok(ans, allow_axioms):
                self.obligations.append((name, "proved; " + ans.split("\n")[0]))
            else:
                self.obligations.append((name, "UNEXPECTED ASSUMPTIONS " + ans))
                self.violations.append(("proof", "theorem %s depends on unexpected assumptions" % name,
                                        "theorem-or-correspondence: %s\nPrint Assumptions:\n%s" % (name, ans), False))
        if self.tier == "thorough":
            # the independent checker over the compiled Props modules and the whole of what they depend on
            ok, summary, log = core.coqchk(files)
            self.obligations.append(("coqchk -o on " + ", ".join("Props/%s.vo" % f for f in files), ("checked; " if ok else "FAILED; ") + summary))
            if not ok:
                self.violations.append(("proof", "coqchk does not accept the compiled development (%s)" % summary,
                                        "theorem-or-correspondence: coqchk -o -silent -Q . PNA %s\n%s" % (" ".join("PNA.Props." + f for f in files), log[-3000:]), False))
        return True

    # ----------------------------------------------------------- correspondence
    def correspondence(self, area, bins, gen_prop=None, extra_cases=(), kernel_samples=None, trivial=None):
        """generate cases, run implementation and extracted model, compare line by line;
        evaluate the implementation-side oracles; re-evaluate a sample in the Coq kernel."""
        gen_prop = gen_prop or self.prop
        ok, log = core.build_harness(bins)
        if not ok:
            self.violations.append(("build", "harness does not build against /repo",
                                    "theorem-or-correspondence: cargo build of /verif/harness\n" + log[-3000:], False))
            return None
        ok, exe, log = core.build_model(area)
        if not ok:
            self.violations.append(("build", "model extraction failed", "theorem-or-correspondence: extraction of area %s\n%s" % (area, log[-3000:]), False))
            return None
        hb = core.harness_bin(bins[0])
        self.search_specs.append((hb, gen_prop))
        cases = os.path.join(self.work, "cases_%s.tsv" % area)
        rc, out = core.sh([hb, "gen", gen_prop, self.tier, str(self.seed), cases])
        if rc != 0:
            self.violations.append(("build", "case generator failed", out[-2000:], False))
            return None
        # corpus (minimised past disagreements) and known-finding cases run first
        pre = []
        cdir = os.path.join(core.ROOT, "corpus", area)
        if os.path.isdir(cdir):
            for f in sorted(os.listdir(cdir)):
                pre += [l.rstrip("\n") for l in open(os.path.join(cdir, f)) if l.strip() and not l.startswith("#")]
        pre += [f["case"] for f in self.findings if f.get("case")]
        pre += list(extra_cases)
        lines = [l for l in open(cases).read().split("\n") if l]
        body = [l.partition("\t")[2] for l in lines]
        allc = pre + body
        with open(cases, "w") as f:
            for i, c in enumerate(allc):
                f.write("%d\t%s\n" % (i, c))
        impl_out, orc_out, model_out = [os.path.join(self.work, n + "_" + area) for n in ("impl.out", "oracle.out", "model.out")]
        rc, out = core.sh([hb, "run", cases, impl_out, orc_out], timeout=3000, mem_limit=24 << 30)
        if rc != 0:
            # which case?  the smallest prefix of the case file on which the run still crashes (bisection), then that case alone
            lo, hi = 0, len(allc)           # allc[:lo] runs, allc[:hi] crashes
            sub = cases + ".bisect"
            def crashes(cs):
                with open(sub, "w") as f:
                    for i, c in enumerate(cs):
                        f.write("%d\t%s\n" % (i, c))
                try:
                    return core.sh([hb, "run", sub, impl_out + ".b", orc_out + ".b"], timeout=1200, mem_limit=24 << 30)[0] != 0
                except Exception:
                    return True
            while hi - lo > 1 and hi > 0:
                mid = (lo + hi) // 2
                if crashes(allc[:mid]):
                    hi = mid
                else:
                    lo = mid
            if hi > 0 and crashes([allc[hi - 1]]):
                self.violations.append(("impl", "the harness (%s) crashes (rc=%d: panic, abort or memory limit) on one case" % (bins[0], rc),
                                        "theorem-or-correspondence: harness %s run\ncase (alone in a case file, `%s run <file> impl.out oracle.out`):\n0\t%s\n%s"
                                        % (bins[0], hb, allc[hi - 1], out[-1500:]), True))
            else:
                self.violations.append(("impl", "harness run crashed (rc=%d)" % rc,
                                        "theorem-or-correspondence: harness %s run\nfirst crashing prefix of the case file: %d cases\n%s" % (bins[0], hi, out[-2000:]), False))
            return None
        if not core.run_model(exe, cases, model_out):
            self.violations.append(("build", "model run failed", "theorem-or-correspondence: modelrun %s" % area, False))
            return None
        impl, model, orc = core.read_tsv(impl_out), core.read_tsv(model_out), core.read_tsv(orc_out)
        case_of = {str(i): c for i, c in enumerate(allc)}
        known = {f["case"]: f for f in self.findings}
        n_dis = 0
        distinct = set()
        for i, c in case_of.items():
            a, b = impl.get(i, ["<missing>"])[0], model.get(i, ["<missing>"])[0]
            op = c.split("\t")[0]
            self.hist[op] = self.hist.get(op, 0) + 1
            if trivial is None or not trivial(c, a):
                distinct.add(c)
            fails = []
            if a != b:
                n_dis += 1
                fails.append(("correspondence", "model and implementation disagree on op %s" % op,
                              "case: %s\nimplementation: %s\nmodel: %s" % (c, a, b), False))
            for msg in orc.get(i, []):
                fails.append(("oracle", msg, "case: %s\nimplementation: %s\noracle: %s" % (c, a, msg), True))
            for fl in fails:
                if c in known:
                    self.finding_hit.add(known[c]["id"])
                else:
                    self.violations.append(fl)
        self.cov["evaluations"] += len(allc)
        self.cov["distinct_nontrivial"] += len(distinct)
        self.cov["traces_validated_against_impl"] += len(allc)
        self.cov["disagreements_checked"] += n_dis
        rnd = random.Random(self.seed)
        for c in rnd.sample(allc, min(3, len(allc))):
            i = allc.index(c)
            self.cov["samples"].append({"case": c[:400], "implementation": impl.get(str(i), ["?"])[0][:400]})
        # kernel-side re-evaluation of a sample
        k = kernel_samples if kernel_samples is not None else (20 if self.tier == "quick" else 200)
        idx = rnd.sample(range(len(allc)), min(k, len(allc)))
        small = [i for i in idx if len(allc[i]) < 20000]
        ok, answers, log = core.kernel_eval(area, ["%d\t%s" % (i, allc[i]) for i in small])
        if not ok:
            self.violations.append(("kernel", "kernel-side evaluation of the case sample failed",
                                    "theorem-or-correspondence: vm_compute evaluation of %sRun.run_line\n%s" % (area, log[-2000:]), False))
        else:
            for i, ans in zip(small, answers):
                want = "%d\t%s" % (i, model.get(str(i), ["<missing>"])[0])
                if ans != want:
                    self.violations.append(("kernel", "extracted model differs from kernel evaluation",
                                            "case: %s\nextracted: %s\nkernel: %s" % (allc[i], want, ans), False))
            self.cov["kernel_checked_cases"] = self.cov.get("kernel_checked_cases", 0) + len(small)
        return {"cases": allc, "impl": impl, "model": model, "oracle": orc}

    def correspondence_py(self, area, cases, impl_outcomes, oracle_msgs=None, kernel_samples=None):
        """Correspondence for areas whose implementation side is orchestrated from Python (CLI
        histories): `cases` are case texts (`op\targs`, no id), `impl_outcomes[i]` the canonical
        outcome observed on the implementation for case i, `oracle_msgs[i]` a list of property-oracle
        failures on the implementation (independent of the model).  Runs the extracted model
        (coq/Model/<Area>Run.v run_line) on the same cases, compares, re-evaluates a sample in the kernel."""
        oracle_msgs = oracle_msgs or {}
        ok, exe, log = core.build_model(area)
        if not ok:
            self.violations.append(("build", "model extraction failed", "theorem-or-correspondence: extraction of area %s\n%s" % (area, log[-3000:]), False))
            return None
        cases_path = os.path.join(self.work, "cases_%s.tsv" % area)
        with open(cases_path, "w") as f:
            for i, c in enumerate(cases):
                f.write("%d\t%s\n" % (i, c))
        model_out = os.path.join(self.work, "model.out_" + area)
        if not core.run_model(exe, cases_path, model_out):
            self.violations.append(("build", "model run failed", "theorem-or-correspondence: modelrun %s" % area, False))
            return None
        model = core.read_tsv(model_out)
        known = {f["case"]: f for f in self.findings}
        n_dis = 0
        for i, c in enumerate(cases):
            a, b = impl_outcomes[i], model.get(str(i), ["<missing>"])[0]
            op = c.split("\t")[0]
            self.hist[op] = self.hist.get(op, 0) + 1
            fails = []
            if a != b:
                n_dis += 1
                fails.append(("correspondence", "model and implementation disagree on op %s" % op,
                              "case: %s\nimplementation: %s\nmodel: %s" % (c, a, b), False))
            for msg in oracle_msgs.get(i, []):
                fails.append(("oracle", msg, "case: %s\nimplementation: %s\noracle: %s" % (c, a, msg), True))
            for fl in fails:
                if c in known:
                    self.finding_hit.add(known[c]["id"])
                else:
                    self.violations.append(fl)
        self.cov["evaluations"] += len(cases)
        self.cov["distinct_nontrivial"] += len(set(cases))
        self.cov["traces_validated_against_impl"] += len(cases)
        self.cov["disagreements_checked"] += n_dis
        rnd = random.Random(self.seed)
        for i in rnd.sample(range(len(cases)), min(3, len(cases))):
            self.cov["samples"].append({"case": cases[i][:400], "implementation": impl_outcomes[i][:400]})
        k = kernel_samples if kernel_samples is not None else (10 if self.tier == "quick" else 100)
        idx = [i for i in rnd.sample(range(len(cases)), min(k, len(cases))) if len(cases[i]) < 20000]
        if idx:
            ok, answers, log = core.kernel_eval(area, ["%d\t%s" % (i, cases[i]) for i in idx])
            if not ok:
                self.violations.append(("kernel", "kernel-side evaluation of the case sample failed",
                                        "theorem-or-correspondence: vm_compute evaluation of %sRun.run_line\n%s" % (area, log[-2000:]), False))
            else:
                for i, ans in zip(idx, answers):
                    want = "%d\t%s" % (i, model.get(str(i), ["<missing>"])[0])
                    if ans != want:
                        self.violations.append(("kernel", "extracted model differs from kernel evaluation",
                                                "case: %s\nextracted: %s\nkernel: %s" % (cases[i], want, ans), False))
                self.cov["kernel_checked_cases"] = self.cov.get("kernel_checked_cases", 0) + len(idx)
        return model

    # ------------------------------------------------------------------ finish
    def search_failing_input(self):
        """a proof or the correspondence broke but no oracle failed on the cases of this run:
        look for a concrete failing input with fresh seeded bursts (implementation + oracles only)."""
        bursts = 4 if self.tier == "quick" else 24
        known = {f["case"] for f in self.findings}
        for hb, gen_prop in self.search_specs:
            for b in range(bursts):
                seed = (self.seed * 1000003 + 7919 * (b + 1)) % (2 ** 31)
                cases = os.path.join(self.work, "search_cases.tsv")
                rc, _ = core.sh([hb, "gen", gen_prop, self.tier, str(seed), cases])
                if rc != 0:
                    continue
                rc, _ = core.sh([hb, "run", cases, cases + ".impl", cases + ".orc"], timeout=3000, mem_limit=24 << 30)
                if rc != 0:
                    continue
                self.cov["evaluations"] += sum(1 for _ in open(cases))
                orc = core.read_tsv(cases + ".orc")
                if orc:
                    case_of = dict(l.rstrip("\n").split("\t", 1) for l in open(cases) if "\t" in l)
                    impl = core.read_tsv(cases + ".impl")
                    for i, msgs in orc.items():
                        c = case_of.get(i, "?")
                        if c in known:
                            continue
                        self.violations.append(("oracle", msgs[0], "case: %s\nimplementation: %s\noracle: %s\n(found by the search burst, seed %d)"
                                                % (c, impl.get(i, ["?"])[0], msgs[0], seed), True))
                        return True
        return False

    def finish(self, level, level_text_trusted=(), explanation=""):
        if self.violations and not any(v[3] for v in self.violations):
            found = self.search_failing_input()
            self.notes.append("failing-input search after a broken proof/correspondence: %s" % ("found one" if found else "none found"))
        # known findings that were replayed and still fail
        for f in self.findings:
            if f["id"] in self.finding_hit or f.get("always"):
                print("KNOWN-FINDING: property=%s %s (%s)" % (self.prop, f["what"], f["id"]))
            else:
                self.notes.append("known finding %s did not reproduce in this run" % f["id"])
        rc = 0
        seen = set()
        n = 0
        for kind, detail, replay, has_input in self.violations:
            key = (kind, detail)
            if key in seen:
                continue
            seen.add(key)
            n += 1
            if n > 5:
                continue
            path = core.replay_path(self.prop, "%s_%d" % (kind, n))
            with open(path, "w") as f:
                f.write("property: %s\nkind: %s\ndetail: %s\nseed: %d tier: %s\n%s\nre-run: ./check %s --tier %s --seed %d\n"
                        % (self.prop, kind, detail, self.seed, self.tier, replay, self.prop, self.tier, self.seed))
            tail = "" if has_input else " no-failing-input-found"
            print("VIOLATION property=%s replay=%s%s" % (self.prop, path, tail))
            print("  (%s) %s" % (kind, detail))
            rc = 1
        discharged = sum(1 for _, s in self.obligations if s.startswith(("proved", "checked")))
        cov = dict(self.cov)
        cov.update({"obligations": max(1, len(self.obligations)), "discharged": discharged,
                    "checker_cmd": self.checker_cmd,
                    "trusted_base": list(level_text_trusted) + self.trusted,
                    "obligation_list": ["%s: %s" % o for o in self.obligations],
                    "rule": self.rule, "input_distribution": self.hist,
                    "explanation": explanation, "notes": self.notes,
                    "known_findings_reproduced": sorted(self.finding_hit)})
        if not cov["samples"]:
            cov["samples"] = ["%s: %s" % o for o in self.obligations][:3] or ["none"]
        core.write_evidence(self.prop, {
            "property_id": self.prop, "tier": self.tier, "seed": self.seed, "level": level,
            "coverage": cov, "assumptions": self.assumptions, "wall_s": round(time.time() - self.t0, 2),
            "violations": len(seen)})
        shutil.rmtree(self.work, ignore_errors=True)
        for n_ in self.notes:
            print("note: " + n_)
        print("%s %s: %d obligations (%d discharged), %d evaluations, %d violations, %.1fs"
              % (self.prop, self.tier, len(self.obligations), discharged, cov["evaluations"], len(seen), time.time() - self.t0))
        return rc
