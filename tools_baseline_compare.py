#!/usr/bin/env python3
"""compare a `cargo test --workspace` log with /root/.vp/BASELINE.json: every stable_pass test must pass"""
import json, re, sys
log = open(sys.argv[1]).read()
base = json.load(open("/root/.vp/BASELINE.json"))
ok, failed = set(), set()
for m in re.finditer(r"^test (\S+) \.\.\. (ok|FAILED)", log, re.M):
    (ok if m.group(2) == "ok" else failed).add(m.group(1))
def cands(n):   # strip crate prefix, and the test-binary component of integration tests
    a = n.split("::", 1)[1]
    a = re.sub(r"^bin/pna::", "", a)
    out = [a]
    if "::" in a:
        out.append(a.split("::", 1)[1])
    return out
subset = "--subset" in sys.argv     # only the crates that were run: a stable test counts as missing only if it FAILED
if subset:
    missing = [n for n in base["stable_pass"] if any(c in failed for c in cands(n)) and not any(c in ok for c in cands(n))]
else:
    missing = [n for n in base["stable_pass"] if not any(c in ok for c in cands(n))]
unexpected_fail = [f for f in failed if not any(f in cands(n) for n in base["always_fail"])]
print("passed %d, failed %d; baseline stable tests not passing: %d; failures outside always_fail: %d"
      % (len(ok), len(failed), len(missing), len(unexpected_fail)))
for n in missing[:20]: print("  MISSING", n)
for n in unexpected_fail[:20]: print("  FAIL", n)
sys.exit(1 if missing or unexpected_fail else 0)
