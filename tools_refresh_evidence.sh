#!/bin/sh
# tools_refresh_evidence.sh [tier] — run every registered check on /repo itself (never a patched tree) and keep the
# evidence files it writes; prints one line per property. Used before committing evidence.
TIER=${1:-quick}
cd /verif
for p in C01 C02 C03 C04 C05 C06 C07 C08 C09 C10 C11 C12 C13 C14 C15 C16 C17 C18 C19 C20; do
  ./check $p --tier $TIER > .work/refresh_$p.log 2>&1; rc=$?
  echo "$p rc=$rc $(grep -c '^VIOLATION' .work/refresh_$p.log) violations; $(tail -1 .work/refresh_$p.log)"
done
