#!/usr/bin/env python3
"""tools_keep_mutation.py <mutation dir> <seeded id> <verify RESULT line> <detection summary>
copies patch.diff + demo + meta.json into /verif/seeded/<id>/ and records what was run here"""
import json, os, shutil, sys
src, sid, verify, detect = sys.argv[1:5]
dst = os.path.join("/verif/seeded", sid)
shutil.rmtree(dst, ignore_errors=True)
os.makedirs(dst)
shutil.copy(os.path.join(src, "patch.diff"), dst)
shutil.copytree(os.path.join(src, "demo"), os.path.join(dst, "demo"),
                ignore=shutil.ignore_patterns("target", "Cargo.lock", "*.log"))
meta = json.load(open(os.path.join(src, "meta.json")))
meta["confirmed_here"] = {
    "how": "tools_verify_mutation.sh in a scratch worktree of /repo HEAD: demo run without and with the patch; cargo test --offline --no-fail-fast "
           "-p libpna (and -p portable-network-archive when cli/ is touched) with the patch, compared with /root/.vp/BASELINE.json",
    "result": verify,
}
meta["detection"] = detect
json.dump(meta, open(os.path.join(dst, "meta.json"), "w"), indent=1)
print("kept", dst)
