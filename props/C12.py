"""C12 — a command that fails part-way leaves the archive intact and readable."""
import os, random, shutil, struct
from vlib import cli
from vlib.flow import Check
from props import _update as U

META = {
    "level": "proof",
    "technique": "Coq theorems on an effect-script model (temp file + final rename vs. in-place append) with a failure injected at the k-th processed item; the real `pna` binary is run with failures injected at every position (FIFO / socket / device / unreadable file as k-th input, corrupted k-th entry, wrong password for the k-th solid block) Failing strip / delete runs are also given an --output that names an existing file (the archive under another spelling, a bystander archive): every file that existed before must be unchanged.",
    "level_text": "For every command that writes to an existing archive path the model's script touches the target path only in its last effect (rewriting commands) or only after every item has been built (the repaired append); this is proved for all archives and all failure positions (Coq, closed under the global context), together with the shape of the result when nothing fails. The model is tied to the real binary by runs with a failure injected at the k-th processed item; bytes before/after, exit status, `pna list`, TMPDIR and the archive's directory are observed, the model must predict the verdict (SAME / VALID_SUPERSET / BROKEN, temp file left or not), and the property (byte-identical or valid superset, nothing new next to the archive, no panic, no hang) is evaluated directly as an oracle.",
    "level_note": "Outside the model: a failure of the final rename itself (cross-device copy interrupted, disk full) and process crashes; the property quantifies over failures of processed items. A file vanishing between walk and read is emulated by inputs that cannot be read or archived (FIFO, socket, /dev/null, /proc/self/mem), since the checks run as root and timing a removal is not reproducible. Trusted: Coq kernel + vm_compute; extraction + OCaml driver (sample re-evaluated in the kernel); props/_update.py; harness `dump`.",
}

RUNS = {"quick": 120, "thorough": 3000}
REWRITERS = ["update", "delete", "strip", "chmod", "chown", "xattr", "acl", "migrate"]
CMDS = ["append"] + REWRITERS
BAD = ["fifo", "socket", "/dev/null", "/proc/self/mem", "fifo", "fifo"]


def chunks(data):
    """[(type, data offset, data length)] of a PNA file"""
    out, i = [], 8
    while i + 12 <= len(data):
        n = struct.unpack(">I", data[i:i + 4])[0]
        out.append((data[i + 4:i + 8], i + 8, n))
        i += 12 + n
    return out


def corrupt_item(arch, rnd, k):
    """flip one byte inside the k-th top-level item (entry or solid block); returns a description"""
    idx = -1
    for p in arch.parts:
        data = bytearray(open(p, "rb").read())
        inside = False
        cands = []
        for ty, off, n in chunks(bytes(data)):
            if ty in (b"FHED", b"SHED"):
                idx += 1
                inside = True
            if inside and idx == k and n > 0 and ty in (b"FHED", b"FDAT", b"SHED", b"SDAT"):
                cands.append((ty, off, n))
            if ty in (b"FEND", b"SEND"):
                inside = False
        if cands:
            ty, off, n = rnd.choice(cands)
            at = off + rnd.randrange(n)
            data[at] ^= rnd.choice([1, 0x55, 0x80])
            open(p, "wb").write(data)
            return "flip byte %d of %s (%s chunk of item %d)" % (at, os.path.basename(p), ty.decode(), k)
    return None


def plan(rnd, n):
    """(command, archive variant, failure kind, k)"""
    out = []
    for k in range(4):
        out.append(("append", "plain", "bad", k))
        out.append(("update", "plain", "bad", k))
        for cmd in REWRITERS:
            out.append((cmd, "plain", "corrupt", k))
    for cmd in CMDS:
        out.append((cmd, "plain", "none", 0))
    for k in range(3):
        for cmd in ("delete", "chmod", "update"):
            out.append((cmd, "solidmix", "wrongpw", k))
    out.append(("append", "multipart", "bad", 1))
    out.append(("update", "multipart", "bad", 1))
    out.append(("delete", "multipart", "corrupt", 2))
    out.append(("strip", "solid", "corrupt", 0))
    out.append(("chmod", "enc", "wrongpw-normal", 0))
    rnd.shuffle(out)
    out = out[:n]
    while len(out) < n:
        cmd = rnd.choice(CMDS)
        variant = rnd.choice(["plain", "plain", "solid", "multipart", "multipart", "solidmix", "enc"])
        kinds = ["none"] + (["bad"] * 4 if cmd in ("append", "update") else []) + (["corrupt"] * 3 if cmd != "append" else [])
        if variant == "solidmix":
            kinds = ["wrongpw", "wrongpw", "none"] if cmd != "append" else ["bad", "none"]
        out.append((cmd, variant, rnd.choice(kinds), rnd.randint(0, 4)))
    return out


def one_run(c, rnd, rid, spec):
    cmd, variant, fkind, k = spec
    with cli.Sandbox("c12") as sb:
        log = []
        os.makedirs(sb.path("t"))
        os.makedirs(sb.path("ar"))
        n = rnd.randint(3, 5)
        files = []
        for i in range(n):
            f = "t/f%d" % i
            size = rnd.choice([900, 1500, 2500]) if variant == "multipart" else rnd.choice([0, 5, 40, 300])
            data = bytes(rnd.getrandbits(8) for _ in range(size))
            open(sb.path(f), "wb").write(data)
            log.append("write %s <- %d bytes %s" % (f, size, data[:16].hex()))
            files.append(f)

        def pna(*args):
            r = cli.run_pna(["--quiet"] + list(args), sb.root, timeout=60)
            log.append("$ %s    -> rc %s %s" % (r["cmd"], r["rc"], r["err"].decode("utf-8", "replace").strip()[:160]))
            return r

        arch = U.Arch(sb)
        pw = None
        entries0 = None
        if variant == "solidmix":
            nb = max(2, min(n, 4))
            groups = [files[i::nb] for i in range(nb)]
            kk = k % nb
            pw = "pwA"
            entries0 = []
            # stored as well as compressed streams, CTR as well as CBC: what a wrong key makes of a STORED CTR stream is
            # plain garbage with no decompressor or padding to object (fix 66ed01cc: the solid iterator took the bogus chunk
            # length running off the end for the end of the stream, and the rewrite went through without the block's entries)
            comp = rnd.choice([[], ["--store"], ["--store"], ["--deflate=6"]])
            ciph = rnd.choice([["--aes", "ctr"], ["--aes", "ctr"], ["--camellia", "ctr"], ["--aes", "cbc"]])
            for i, g in enumerate(groups):
                p_i = "pwB" if (fkind == "wrongpw" and i == kk) else "pwA"
                pna("create", "s%d.pna" % i, "--overwrite", "--solid", "--password", p_i, *ciph, "--pbkdf2", "r=1", *comp, *g)
                entries0 += U.entries_of(cli.dump([sb.path("s%d.pna" % i)], password=p_i)[0])
            pna("concat", "ar/x.pna", *["s%d.pna" % i for i in range(nb)])
            item_k = sum(len(g) for g in groups[:kk])          # flat index of the first entry of block kk
            top_k = kk
        else:
            args = ["create", "ar/x.pna", "--overwrite"]
            if variant == "solid":
                args.append("--solid")
            if variant == "multipart":
                args += ["--split", "1200", "--store"]
            if variant == "enc":
                pw = "pwA"
                args += ["--password", pw, "--aes", "ctr", "--pbkdf2", "r=1"]
            pna(*(args + files))
        arch.rescan()
        if entries0 is None:
            entries0, end0 = arch.dump(password=pw)
        ntop = 1 if variant == "solid" else len(entries0)
        # ---- inject the failure
        fail_k = None                      # index of the archive entry that cannot be read (model's k)
        extra = []                         # new inputs for append / update
        if cmd in ("append", "update"):
            m = rnd.randint(1, 3)
            if fkind == "bad" and rnd.random() < 0.3:
                # many inputs, the failing one late: whatever is written before the failing item is reached (a batch,
                # a buffer) must not have touched the archive
                m = rnd.randint(34, 90)
                k = rnd.randint(33, m)
            for i in range(m):
                f = "t/n%d" % i
                open(sb.path(f), "wb").write(bytes(rnd.getrandbits(8) for _ in range(rnd.choice([0, 7, 200]))))
                log.append("write %s (new)" % f)
                extra.append(f)
            if cmd == "update":
                for f in rnd.sample(files, rnd.randint(1, 2)):     # modified, to be re-created
                    open(sb.path(f), "wb").write(b"changed" + bytes(rnd.getrandbits(8) for _ in range(9)))
                    log.append("rewrite %s" % f)
                    extra.append(f)
                rnd.shuffle(extra)
        if fkind == "bad" and cmd in ("append", "update"):
            kind = rnd.choice(BAD)
            if kind.startswith("/"):
                bad = kind
            elif cmd == "update" and rnd.random() < 0.4:
                bad = rnd.choice(files)                            # an archived path turns into a FIFO
                if bad in extra:
                    extra.remove(bad)
                os.remove(sb.path(bad))
                U.mk_unsupported(sb.path(bad), kind)
                log.append("replace %s by a %s" % (bad, kind))
            else:
                bad = "t/bad"
                U.mk_unsupported(sb.path(bad), kind)
                log.append("mk%s %s" % (kind, bad))
            extra.insert(min(k, len(extra)), bad)
        elif fkind == "corrupt" and cmd != "append":
            kk = k % ntop
            what = corrupt_item(arch, rnd, kk)
            if what:
                log.append(what)
                fail_k = 0 if variant == "solid" else kk
        elif fkind == "wrongpw" and variant == "solidmix" and cmd != "append":
            fail_k = item_k
        # ---- the command
        cur = arch.cur
        target = "ar/x.pna"
        victim = rnd.choice(entries0)[0] if entries0 else "t/f0"
        strat = rnd.choice([[], ["--unsolid"], ["--keep-solid"]])
        pwargs = ["--password", pw, "--aes", "ctr", "--pbkdf2", "r=1"] if pw and cmd in ("append", "update") else (["--password", pw] if pw else [])
        dropped = []
        if cmd == "append":
            args = ["append", cur, "--keep-dir"] + pwargs + extra
        elif cmd == "update":
            args = ["experimental", "update", cur, "--keep-dir"] + strat + pwargs + extra
        elif cmd == "delete":
            args = ["experimental", "delete", cur, victim] + strat + pwargs
            dropped = [victim]
        elif cmd == "strip":
            args = ["strip", cur] + strat + pwargs
        elif cmd == "chmod":
            args = ["experimental", "chmod", cur, "600", victim] + strat + pwargs
        elif cmd == "chown":
            args = ["experimental", "chown", cur, "root:root", victim] + strat + pwargs
        elif cmd == "xattr":
            args = ["experimental", "xattr", "set", cur, "-n", "user.k", "-v", "v", victim] + strat + pwargs
        elif cmd == "acl":
            args = ["experimental", "acl", "set", cur, "-m", "u:root:r", victim] + strat + pwargs
        else:
            args = ["experimental", "migrate", cur, "--output", target] + strat + pwargs
        # --output of strip / delete (the only commands that have it besides migrate): now and then it names an EXISTING
        # file — the archive itself under another spelling, or a bystander archive next to it.  A failing run must leave
        # both as they were (seeded C12-7: a clean-up of "the unfinished output" that removes the file at the output path)
        outp = None
        if cmd in ("strip", "delete") and len(arch.parts) == 1 and rnd.random() < 0.5:
            how = rnd.choice(["dot", "abs", "other", "other"])
            if how == "other":
                shutil.copy(sb.path(cur), sb.path("ar", "bystander.pna"))
                outp = "ar/bystander.pna"
                log.append("cp %s ar/bystander.pna" % cur)
            else:
                outp = "./" + cur if how == "dot" else sb.path(cur)
            args += ["--output", outp]
        nodes = [U.node(sb.root, p) for p in extra]
        before_files = {f: open(sb.path("ar", f), "rb").read() for f in os.listdir(sb.path("ar"))}
        lb, listed_b = U.pna_list(sb, arch, pw)
        r = pna(*args)
        after_files = {f: open(sb.path("ar", f), "rb").read() for f in os.listdir(sb.path("ar"))}
        left = sorted(os.listdir(sb.path("tmp")))
        msgs = []
        if r["timeout"] or r["rc"] == 101:
            msgs.append("%s: %s" % (cmd, "timeout" if r["timeout"] else "panic (exit 101)"))
        if r["rc"] == 0 and outp == "ar/bystander.pna":
            os.replace(sb.path(outp), sb.path(cur))       # the result went to the output path: the history goes on with it
        if r["rc"] != 0:
            gone = sorted(f for f in before_files if f not in after_files)
            if gone:
                msgs.append("after the failing %s (exit %s) a file that existed before is gone: ar/%s" % (cmd, r["rc"], ", ar/".join(gone)))
            elif outp == "ar/bystander.pna" and after_files.get("bystander.pna") != before_files.get("bystander.pna"):
                msgs.append("the failing %s (exit %s) modified the existing file at its --output path" % (cmd, r["rc"]))
        if r["rc"] == 0:
            if cmd != "append" and len(arch.parts) > 1:
                for p in arch.parts:
                    os.remove(p)
            arch.rescan()
            res, end = arch.dump(password=pw)
            if end != "OK":
                msgs.append("%s succeeded but the result cannot be read: %s" % (cmd, end))
            want_keep = [e for e in entries0 if e[0] not in dropped]
            if cmd != "update" and not U_subseq(want_keep, res):
                msgs.append("%s succeeded but original entries are missing from the result" % cmd)
            outcome = "DONE " + U.arch_txt(res) + (" TMP" if left else "")
        else:
            if after_files == before_files:
                verdict = "SAME"
            else:
                new = sorted(set(after_files) - set(before_files))
                if new:
                    msgs.append("after the failing %s a new file was left next to the archive: %s" % (cmd, ", ".join(new)))
                arch.rescan()
                res, end = arch.dump(password=pw)
                verdict = "VALID_SUPERSET" if end == "OK" and U_subseq(entries0, res) else "BROKEN"
                if verdict == "BROKEN":
                    msgs.append("after the failing %s (exit %s) the archive is neither as it was nor a valid archive holding all original entries (read: %s, %d of %d entries)"
                                % (cmd, r["rc"], end, len(res), len(entries0)))
            la, listed_a = U.pna_list(sb, arch, pw)
            if (la["rc"] == 0) != (lb["rc"] == 0) or (la["rc"] == 0 and listed_a[:len(listed_b)] != listed_b):
                msgs.append("pna list answered differently after the failing %s (exit %s -> %s)" % (cmd, lb["rc"], la["rc"]))
            outcome = verdict + (" TMP" if left else "")
        for m in msgs:
            c.violations.append(("oracle", m, "run %d: %s on a %s archive, failure %s at %d; commands run in the sandbox root (TMPDIR=<sandbox>/tmp):\n%s\nleft in TMPDIR: %s\nfiles in ar/: %s"
                                 % (rid, cmd, variant, fkind, k, "\n".join(log), left, sorted(after_files)), True))
        # ---- the case for the model
        a0 = U.arch_txt(entries0)
        if cmd == "append":
            case = "fail\tappend\t%s\t1;0;%s" % (a0, ",".join(U.node_txt(x) for x in nodes))
        elif cmd == "update":
            case = "fail\tupdate\t%s\t1;0;0;;%s\t%s" % (a0, ",".join(U.node_txt(x) for x in nodes), "-" if fail_k is None else fail_k)
        else:
            case = "fail\trewrite\t%s\t%s\t%s" % (a0, ",".join(U.hx(p) for p in dropped), "-" if fail_k is None else fail_k)
        key = "%s/%s/%s" % (cmd, variant, fkind)
        c.hist[key] = c.hist.get(key, 0) + 1
        c.hist["outcome:" + outcome.split(" ")[0]] = c.hist.get("outcome:" + outcome.split(" ")[0], 0) + 1
        return case, outcome


def U_subseq(a, b):
    it = iter(b)
    return all(any(x == y for y in it) for x in a)


def run(tier, seed, replay=None):
    c = Check("C12", tier, seed)
    c.rule = ("one case per run of the real binary: (command, logical archive, inputs as walked nodes or dropped paths, index of the "
              "unreadable entry) -> SAME | VALID_SUPERSET | BROKEN [TMP] or DONE <archive>; distinct = distinct case text")
    c.assumptions = ["failures of the final rename itself and process crashes are outside the model",
                     "a temporary file left in TMPDIR after a failing rewriting command is reported in the outcome (TMP) but is not a violation: it does not take the archive's place"]
    c.proofs()
    rnd = random.Random(seed)
    cases, outcomes = [], []
    for rid, spec in enumerate(plan(rnd, RUNS.get(tier, 120))):
        case, outcome = one_run(c, random.Random(rnd.getrandbits(48)), rid, spec)
        cases.append(case)
        outcomes.append(outcome)
    left = sum(1 for o in outcomes if o.endswith(" TMP"))
    if left:
        c.notes.append("%d failing rewriting commands left their <random>.pna.tmp in TMPDIR (predicted by the model: the script has no "
                       "clean-up effect; the file never takes the archive's place, so this is reported, not counted as a violation)" % left)
    c.correspondence_py("update", cases, outcomes)
    return c.finish("proof", ["Coq 8.16.1 kernel and VM", "ExtrOcamlBasic extraction + modelrun/driver.ml",
                              "props/_update.py", "harness/src/bin/dump.rs", "vlib/cli.py"])
