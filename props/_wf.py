"""shared by C14 (and usable by others): the independent reference reader `refdecode`, the spool of
archives left by other checks, and a seeded sample of archives from every CLI writer/editor."""
import hashlib, json, os, random, shutil, subprocess
from vlib import core, cli

SPOOL = os.path.join(core.WORK, "spool")
CODECS = [["--store"], ["--deflate"], ["--zstd"], ["--xz"], ["--deflate", "1"], ["--zstd", "3"], ["--xz", "0"]]
CIPHERS = [["--aes", "cbc"], ["--aes", "ctr"], ["--camellia", "cbc"], ["--camellia", "ctr"], ["--aes"], ["--camellia"]]
KDFS = [["--pbkdf2", "r=1"], ["--pbkdf2", "r=2"], ["--argon2", "t=1,m=8,p=1"], ["--argon2", "t=2,m=16,p=2"]]


def refdecode(paths, password=None, timeout=120):
    """(entries, wf, why, verdict) through the independent reader (no libpna)"""
    cmd = [core.harness_bin("refdecode")]
    if password is not None:
        cmd += ["--password-hex", password.encode().hex() if isinstance(password, str) else password.hex()]
    p = subprocess.run(cmd + list(paths), stdout=subprocess.PIPE, stderr=subprocess.PIPE, timeout=timeout)
    entries, wf, why, verdict = [], False, "no output (rc %s) %s" % (p.returncode, p.stderr.decode("utf-8", "replace")[-300:]), "?"
    for line in p.stdout.decode("utf-8", "replace").split("\n"):
        if not line.strip():
            continue
        o = json.loads(line)
        if "wf" in o:
            wf, why, verdict = o["wf"], o["why"], o.get("verdict", "?")
        elif "end" in o:
            pass
        else:
            entries.append(o)
    return entries, wf, why, verdict


def contents(entries):
    """[(name, kind, sha256(content))] of the file-level entries of a dump/refdecode listing"""
    out = []
    for e in entries:
        if "solid_header" in e:
            continue
        c = e["content"]
        out.append((bytes.fromhex(e["name"]).decode("utf-8", "replace"), e["kind"],
                    hashlib.sha256(bytes.fromhex(c)).hexdigest() if c is not None else None))
    return out


def tree_expect(root, prefix, keep_dir=False):
    """what an archive of `root` (stored under the name prefix) must contain: {name: (kind, sha256)}"""
    exp = {}
    if keep_dir and prefix:
        exp[prefix] = (1, hashlib.sha256(b"").hexdigest())
    for rel, (kind, detail) in cli.snapshot(root).items():
        name = prefix + "/" + rel if prefix else rel
        if kind == "file":
            exp[name] = (0, detail)
        elif kind == "symlink":
            exp[name] = (2, None)          # the stored target may be normalised: presence only
        elif kind == "dir" and keep_dir:
            exp[name] = (1, hashlib.sha256(b"").hexdigest())
    return exp


def spool_files():
    """archives other checks left behind: *.pna with an optional sidecar <file>.json
    {"password":..., "expect": [[name-hex, sha256-hex], ...], "parts": [other part files]}"""
    out = []
    if not os.path.isdir(SPOOL):
        os.makedirs(SPOOL, exist_ok=True)
        return out
    for f in sorted(os.listdir(SPOOL)):
        if not f.endswith(".pna"):
            continue
        p = os.path.join(SPOOL, f)
        side = {}
        if os.path.exists(p + ".json"):
            try:
                side = json.load(open(p + ".json"))
            except Exception:
                side = {}
        if side.get("continuation"):
            continue            # a later part, consumed with its first part
        parts = [p] + [os.path.join(SPOOL, q) for q in side.get("parts", [])]
        exp = None
        if "expect" in side:
            exp = {bytes.fromhex(n).decode("utf-8", "replace"): (None, h) for n, h in side["expect"]}
        out.append({"label": "spool:" + f, "paths": parts, "password": side.get("password"), "expect": exp,
                    "cmd": side.get("cmd", "left in the spool by another check: " + f), "exact": False})
    return out


class CliSampler:
    """runs the CLI writers/editors in a sandbox and records every archive they leave"""
    def __init__(self, sb, rnd):
        self.sb, self.rnd, self.out, self.n = sb, rnd, [], 0
        self.errors = []

    def pna(self, args, stdin=None, cwd=None):
        r = cli.run_pna(args, cwd or self.sb.root, timeout=60, stdin=stdin, env={"TMPDIR": self.sb.root} if cwd else None)
        if r["rc"] != 0:
            self.errors.append((r["cmd"], r["rc"], r["err"].decode("utf-8", "replace")[-300:]))
        return r

    def new_dir(self):
        self.n += 1
        d = "w%d" % self.n
        os.makedirs(self.sb.path(d))
        return d

    def record(self, label, paths, password, expect, cmds, exact=True):
        self.out.append({"label": label + ("+stale-outputs" if getattr(self, "stale_round", False) else ""), "paths": [self.sb.path(p) for p in paths], "password": password,
                         "expect": expect, "cmd": " && ".join(cmds), "exact": exact})

    STALE = b"STALE-OUTPUT-OF-AN-EARLIER-RUN"

    def make_stale(self, d):
        """occupy every path a writer of this round may write with an older, LONGER file: with --overwrite the
        tool must replace it completely (a part file that keeps the tail of its predecessor is not a PNA file)"""
        os.makedirs(self.sb.path(d, "out"), exist_ok=True)
        names = ["a.pna", "b.pna", "c.pna", "joined.pna"] + ["a.part%d.pna" % i for i in range(1, 9)] + ["out/a.part%d.pna" % i for i in range(1, 9)]
        for n in names:
            with open(self.sb.path(d, n), "wb") as f:
                f.write(self.STALE + bytes(self.rnd.getrandbits(8) for _ in range(64)) * 1500)

    def is_stale(self, path):
        with open(path, "rb") as f:
            return f.read(len(self.STALE)) == self.STALE

    def parts_of(self, d, base):
        """base.pna or base.part1.pna, base.part2.pna, ... in directory d (a file still holding the untouched
        stale content was not written by this run)"""
        if os.path.exists(self.sb.path(d, base + ".pna")) and not self.is_stale(self.sb.path(d, base + ".pna")):
            return [os.path.join(d, base + ".pna")]
        ps, i = [], 1
        while os.path.exists(self.sb.path(d, "%s.part%d.pna" % (base, i))) and not self.is_stale(self.sb.path(d, "%s.part%d.pna" % (base, i))):
            ps.append(os.path.join(d, "%s.part%d.pna" % (base, i)))
            i += 1
        return ps

    def one_round(self, kinds):
        rnd = self.rnd
        d = self.new_dir()
        cli.gen_tree(rnd, self.sb.path(d, "src"), max_files=6)
        codec = rnd.choice(CODECS)
        enc, pw = [], None
        if rnd.random() < 0.6:
            pw = rnd.choice(["pw", "pass word", "päss", "x" * 70])
            enc = rnd.choice(CIPHERS) + rnd.choice(KDFS) + ["--password", pw]
        keep = [o for o in ["--keep-dir", "--keep-timestamp", "--keep-permission", "--keep-xattr"] if rnd.random() < 0.5]
        kd = "--keep-dir" in keep
        stale = rnd.random() < 0.35
        ow = ["--overwrite"] if stale else []
        self.stale_round = stale
        if stale:
            self.make_stale(d)
        base = ["create", d + "/a.pna", "-r", d + "/src", "--quiet"] + codec + enc + keep + ow
        exp = tree_expect(self.sb.path(d, "src"), d + "/src", kd)
        pwargs = ["--password", pw] if pw else []

        def cmdtext(a):
            return "pna " + " ".join(a)
        kind = kinds[self.n % len(kinds)]
        hist = []
        if kind == "create":
            if rnd.random() < 0.15:
                # owner names at the limit of the fPRM encoding (one length byte): 255 bytes must work, more must be refused
                base = base + ([] if "--keep-permission" in keep else ["--keep-permission"]) + \
                    [rnd.choice(["--uname", "--gname"]), rnd.choice(["u" * 255, "n" * 256, "\u00e9" * 150])]
            r = self.pna(base); hist.append(cmdtext(base))
            if r["rc"] == 0:
                self.record("cli:create", [d + "/a.pna"], pw, exp, hist)
        elif kind == "dot":
            # the current directory itself as the source: `.` names no entry (it used to be written with the empty name)
            a = ["create", "../a.pna", "-r", rnd.choice([".", "./"]), "--quiet"] + codec + enc + keep + ow + (["--solid"] if rnd.random() < 0.3 else [])
            r = self.pna(a, cwd=self.sb.path(d, "src")); hist.append("cd %s/src && %s" % (d, cmdtext(a)))
            if r["rc"] == 0:
                self.record("cli:create-dot", [d + "/a.pna"], pw, tree_expect(self.sb.path(d, "src"), "", kd), hist)
        elif kind == "big":
            # one file above 1 MiB (above 2 MiB every other time), stored: whatever a writer below the cipher or the
            # compressor does with very large single writes shows only here
            size = (1 << 20) + 4097 if self.n % 2 else (2 << 20) + 17
            with open(self.sb.path(d, "src", "big.bin"), "wb") as f:
                f.write(bytes(rnd.getrandbits(8) for _ in range(4096)) * (size // 4096) + b"tail" * ((size % 4096) // 4))
            pw = "pw"
            a = ["create", d + "/a.pna", "-r", d + "/src", "--quiet", "--store", "--password", pw] + rnd.choice([["--aes", "ctr"], ["--camellia", "ctr"], ["--aes", "cbc"]]) \
                + ["--pbkdf2", "r=1"] + keep + ow + (["--solid"] if rnd.random() < 0.7 else [])
            exp = tree_expect(self.sb.path(d, "src"), d + "/src", kd)
            r = self.pna(a); hist.append(cmdtext(a))
            if r["rc"] == 0:
                self.record("cli:create-big", [d + "/a.pna"], pw, exp, hist)
        elif kind == "solid":
            a = base + ["--solid"]
            r = self.pna(a); hist.append(cmdtext(a))
            if r["rc"] == 0:
                self.record("cli:create--solid", [d + "/a.pna"], pw, exp, hist)
        elif kind == "split":
            a = base + ["--split", str(rnd.choice([80, 120, 200, 400, 1000]))]
            r = self.pna(a); hist.append(cmdtext(a))
            if r["rc"] == 0:
                self.record("cli:create--split", self.parts_of(d, "a"), pw, exp, hist)
        elif kind == "splitcmd":
            r = self.pna(base); hist.append(cmdtext(base))
            if r["rc"] == 0:
                os.makedirs(self.sb.path(d, "out"), exist_ok=True)
                a = ["split", d + "/a.pna", "--max-size", str(rnd.choice([80, 120, 200, 400])), "--out-dir", d + "/out"] + ow
                r = self.pna(a); hist.append(cmdtext(a))
                if r["rc"] == 0:
                    ps = self.parts_of(d + "/out", "a")
                    self.record("cli:split", ps, pw, exp, hist)
                    # the parts as INPUT of another split (the chain is read from its first part; an entry that straddles
                    # a boundary of the input parts must come out whole: seeded C14-6 = C04-6)
                    if len(ps) > 1:
                        os.makedirs(self.sb.path(d, "out2"), exist_ok=True)
                        a2 = ["split", ps[0], "--max-size", str(rnd.choice([90, 150, 300, 5000])), "--out-dir", d + "/out2"] + ow
                        r2 = self.pna(a2)
                        if r2["rc"] == 0:
                            self.record("cli:split-of-parts", self.parts_of(d + "/out2", "a"), pw, exp, hist + [cmdtext(a2)])
                    # and back together
                    a = ["concat", d + "/joined.pna", ps[0]] + ow
                    r = self.pna(a); hist.append(cmdtext(a))
                    if r["rc"] == 0:
                        self.record("cli:concat-parts", [d + "/joined.pna"], pw, exp, hist)
        elif kind == "concat":
            cli.gen_tree(rnd, self.sb.path(d, "src2"), max_files=3)
            b2 = ["create", d + "/b.pna", "-r", d + "/src2", "--quiet"] + rnd.choice(CODECS) + enc + keep + ow
            r1 = self.pna(base); r2 = self.pna(b2); hist += [cmdtext(base), cmdtext(b2)]
            if r1["rc"] == 0 and r2["rc"] == 0:
                a = ["concat", d + "/c.pna", d + "/a.pna", d + "/b.pna"] + ow
                r = self.pna(a); hist.append(cmdtext(a))
                e2 = dict(exp); e2.update(tree_expect(self.sb.path(d, "src2"), d + "/src2", kd))
                if r["rc"] == 0:
                    self.record("cli:concat", [d + "/c.pna"], pw, e2, hist)
        elif kind == "append":
            cli.gen_tree(rnd, self.sb.path(d, "src2"), max_files=3)
            # half of the appends go to a MULTIPART archive (create --split): append.rs walks to the last part and
            # writes there; the whole part set must still be well-formed (seeded C14-5: a seek_to_end that forgets
            # the successor mark appends into part 1)
            multi = rnd.random() < 0.5
            b0 = base + (["--split", str(rnd.choice([200, 350, 600]))] if multi else [])
            r = self.pna(b0); hist.append(cmdtext(b0))
            if r["rc"] == 0:
                before = self.parts_of(d, "a")
                first = before[0] if before else d + "/a.pna"
                a = ["append", first, "-r", d + "/src2", "--quiet"] + rnd.choice(CODECS) + enc + keep
                r = self.pna(a); hist.append(cmdtext(a))
                e2 = dict(exp); e2.update(tree_expect(self.sb.path(d, "src2"), d + "/src2", kd))
                if r["rc"] == 0:
                    self.record("cli:append" + ("/multipart" if len(before) > 1 else ""), self.parts_of(d, "a") or [d + "/a.pna"], pw, e2, hist)
        elif kind == "update":
            solid = ["--solid"] if rnd.random() < 0.4 else []
            a0 = base + solid
            r = self.pna(a0); hist.append(cmdtext(a0))
            if r["rc"] == 0:
                # change one file, add one
                files = [p for p, (k, _) in cli.snapshot(self.sb.path(d, "src")).items() if k == "file"]
                if files:
                    with open(self.sb.path(d, "src", files[0]), "wb") as f:
                        f.write(b"updated content " + bytes(rnd.getrandbits(8) for _ in range(20)))
                with open(self.sb.path(d, "src", "added.txt"), "wb") as f:
                    f.write(b"added")
                a = ["experimental", "update", d + "/a.pna", "-r", d + "/src", "--quiet"] + codec + enc + keep + \
                    (rnd.choice([["--keep-solid"], ["--unsolid"]]) if solid else [])
                r = self.pna(a); hist.append(cmdtext(a))
                if r["rc"] == 0:
                    self.record("cli:update", [d + "/a.pna"], pw, tree_expect(self.sb.path(d, "src"), d + "/src", False), hist, exact=False)
        elif kind == "edit":
            solid = ["--solid"] if rnd.random() < 0.5 else []
            a0 = base + solid
            r = self.pna(a0); hist.append(cmdtext(a0))
            if r["rc"] == 0:
                mode = rnd.choice([["--keep-solid"], ["--unsolid"], []]) if solid else []
                which = rnd.choice(["strip", "chmod", "chown", "xattr", "delete"])
                e2 = dict(exp)
                if which == "strip":
                    a = ["strip", d + "/a.pna"] + [o for o in ["--keep-timestamp", "--keep-permission", "--keep-xattr"] if rnd.random() < 0.4] + mode + pwargs
                elif which == "chmod":
                    a = ["experimental", "chmod", d + "/a.pna", rnd.choice(["644", "u+x", "go-rwx"]), "*", d + "/src/*"] + mode + pwargs
                elif which == "chown":
                    a = ["experimental", "chown", d + "/a.pna", rnd.choice(["user:grp", ":grp", "root"]), "*", d + "/src/*"] + mode + pwargs
                elif which == "xattr":
                    a = ["experimental", "xattr", "set", d + "/a.pna", "-n", "user.test", "-v", rnd.choice(["v", "0x0102", "secretvalue"]), d + "/src/*"] + mode + pwargs
                else:
                    victims = [n for n, (k, _) in exp.items() if k == 0]
                    if not victims:
                        return
                    v = rnd.choice(victims)
                    a = ["experimental", "delete", d + "/a.pna", v] + mode + pwargs
                    if not any(ch in v for ch in "*?[]{}!\\"):
                        e2.pop(v, None)
                    else:
                        e2 = None
                r = self.pna(a); hist.append(cmdtext(a))
                if r["rc"] == 0:
                    self.record("cli:" + which + ("-solid" if solid else "") + "".join(mode), [d + "/a.pna"], pw, e2, hist, exact=(which != "delete"))
        elif kind == "stdio":
            a = ["experimental", "stdio", "-c", "-r", d + "/src", "--unstable"] + codec + enc + keep
            if rnd.random() < 0.5:
                r = self.pna(a); hist.append(cmdtext(a) + " > a.pna")
                if r["rc"] == 0:
                    with open(self.sb.path(d, "a.pna"), "wb") as f:
                        f.write(r["out"])
                    self.record("cli:stdio-stdout", [d + "/a.pna"], pw, exp, hist)
            else:
                a += ["-f", d + "/a.pna"] + ow
                r = self.pna(a); hist.append(cmdtext(a))
                if r["rc"] == 0:
                    self.record("cli:stdio-file", [d + "/a.pna"], pw, exp, hist)


KINDS = ["create", "solid", "split", "append", "update", "edit", "edit", "concat", "splitcmd", "stdio", "create", "solid", "dot",
         "create", "solid", "split", "append", "update", "edit", "edit", "concat", "splitcmd", "stdio", "create", "solid", "dot", "big"]


def check_file(c, f, cases, impl_outcomes, stats):
    """one archive (or part sequence): the independent reader must accept and decode it, its
    contents must be the known ones and the ones libpna reads; queue it for the model"""
    label, paths, pw, cmd = f["label"], f["paths"], f["password"], f["cmd"]
    try:
        blobs = [open(p, "rb").read() for p in paths]
    except OSError as e:
        c.notes.append("spool file vanished: %s" % e)
        return
    stats[label.split("-")[0]] = stats.get(label.split("-")[0], 0) + 1
    hexes = ",".join(b.hex() for b in blobs)
    replay = "produced by: %s\nfiles: %s\npassword: %r\n" % (cmd, " ".join(paths), pw)
    if sum(len(b) for b in blobs) < 6000:
        replay += "bytes: %s\n" % hexes
    try:
        ents, wf, why, verdict = refdecode(paths, pw)
    except Exception as e:
        c.violations.append(("oracle", "C14: the reference reader crashed or hung on %s: %s" % (label, e), replay, True))
        return
    if sum(len(b) for b in blobs) <= 40000:
        cases.append(("wf\t%s\t%s" % (label, hexes)) if len(blobs) == 1 else ("wfparts\t%s\t%s" % (label, hexes)))
        impl_outcomes.append(verdict)
    if not wf:
        c.violations.append(("oracle", "C14: an archive the tool wrote is not well-formed / not decodable by an independent reader (%s): %s" % (label, why),
                             replay + "refdecode: %s\n" % why, True))
        return
    got = contents(ents)
    # the same contents as the library's own reader
    try:
        lents, lend = cli.dump(paths, pw)
    except Exception as e:
        lents, lend = [], "ERR dump crashed: %s" % e
    if lend != "OK":
        c.violations.append(("oracle", "C14: libpna cannot read an archive the tool wrote (%s): %s" % (label, lend), replay, True))
    else:
        keys = ("name", "kind", "codec", "cipher", "mode", "solid", "content", "raw_size", "csize", "ctime", "mtime", "atime", "perm", "xattrs", "extras")
        a = [tuple(json.dumps(e.get(k)) for k in keys) for e in ents if "solid_header" not in e]
        b = [tuple(json.dumps(e.get(k)) for k in keys) for e in lents if "solid_header" not in e]
        if a != b:
            diff = next((i for i in range(min(len(a), len(b))) if a[i] != b[i]), min(len(a), len(b)))
            c.violations.append(("oracle", "C14: the independent reader and libpna decode different contents (%s), first difference at entry %d" % (label, diff),
                                 replay + "independent: %s\nlibpna: %s\n" % (a[diff] if diff < len(a) else None, b[diff] if diff < len(b) else None), True))
    exp = f["expect"]
    if exp is not None:
        last = {}
        for n, k, h in got:
            last[n] = (k, h)
        for n, (k, h) in exp.items():
            if n not in last:
                c.violations.append(("oracle", "C14: entry %r missing from the decoded archive (%s)" % (n, label), replay, True)); break
            if h is not None and last[n][1] != h:
                c.violations.append(("oracle", "C14: entry %r decodes to different content than its source (%s)" % (n, label), replay, True)); break
        if f.get("exact"):
            extra = [n for n, k, h in got if n not in exp]
            if extra:
                c.violations.append(("oracle", "C14: decoded archive holds unexpected entries %r (%s)" % (extra[:3], label), replay, True))
