"""C11 — append and update never lose or duplicate entries."""
import os, random, shutil
from vlib import cli
from vlib.flow import Check
from props import _update as U

META = {
    "level": "proof",
    "technique": "Coq theorems on a Gallina model of append / update / delete over the ordered entry list; model tied to the real `pna` binary by seeded command histories over an evolving file tree, compared after every step Refined to the container level (Props/C11_container.v): in-place append on any archive file / part chain the reader accepts reads back as old ++ new at raw, entry and decoded level with every earlier byte unchanged; delete on the bytes of solid-free archives; abstraction `logical` from files to the list model.",
    "level_text": "The ordered-list equations for append and for the repaired update pass (entries not named stay, unchanged and in order; every named path on disk occurs exactly once with the disk's content; no duplicate names survive a history) are proved in Coq for all archives, targets and disks (closed under the global context). The model is run against the real binary on seeded histories of create / append / update (with and without -r, time filters, exclude, solid strategies) / delete / re-split over single-file, multipart and solid archives; after each step the archive read through libpna and through `pna list` must equal the model's list, and the property's ordered-map specification is evaluated on the implementation's archives as an independent oracle. Refined to archive FILES (Props/C11_container.v, C11_update.v): for any byte string the reader accepts, the in-place append (seek_to_end, overwrite from the end marker, finalize; for part chains the walk of append.rs) leaves every earlier byte unchanged and reads back as old ++ new at raw, entry and decoded level for every codec and cipher; update and delete on the bytes, with solid blocks under both strategies, equal Update.update_cmd / Update.delete under the abstraction `logical`; on written-form files any history of create / append / update / delete / failing commands ends in a file abstracting to the list model's result with no duplicate names.",
    "level_note": "Trusted: Coq kernel + vm_compute; extraction and the OCaml driver (sample re-evaluated in the kernel each run); the Python orchestration (props/_update.py: walker emulation = pre-order over raw readdir order, glob table for delete patterns, content tokens = first 8 bytes of SHA-256); harness `dump`. The logical model flattens solid blocks and part boundaries; symbolic links and ctime filters are not generated (overlapping file arguments are, for create, append and update).",
}

STEPS = {"quick": 100, "thorough": 4000}


def respell(roots, rnd, root):
    """other spellings of the same paths: absolute, through an interior `..`, doubled separators.  The stored
    entry name keeps only the normal components (EntryName::from_lossy), so `/abs/t/a` is entry `abs/t/a` and
    `t/../t/a` is entry `t/t/a`: create/append/update must agree with one another on that name."""
    r = rnd.random()
    if r < 0.70:
        return roots
    if r < 0.85:
        return [os.path.join(root, p[2:] if p.startswith("./") else p) for p in roots]
    if r < 0.95:
        return ["t/../" + (p[2:] if p.startswith("./") else p) for p in roots]
    return [p.replace("/", "//", 1) for p in roots]


def pick_roots(tree, rnd, overlap=False):
    roots, rec = pick_roots0(tree, rnd)
    if overlap and rnd.random() < 0.3:
        # overlapping file arguments of create / append / update: a directory and a file beneath it, the same file twice in
        # two spellings (fixes a048f63a, update: a NEW path named twice was archived twice; 4cfc8ff5, collect_items: create
        # and append archived every path named twice twice, and `pna extract` of the result failed on the second copy)
        files, dirs = tree.files(), tree.dirs()
        if files:
            f = rnd.choice(files)
            roots, rec = rnd.choice([(["t", f], True), ([f, "./" + f], rnd.random() < 0.5), ([f, f], False),
                                     ([os.path.dirname(f) or "t", f], True)])
    return respell(roots, rnd, tree.sb.root), rec


def pick_roots0(tree, rnd):
    r = rnd.random()
    dirs = tree.dirs()
    files = tree.files()
    if r < 0.40 or not files:
        return ["t"], True
    if r < 0.50:
        return ["./t"], True
    if r < 0.62 and dirs:
        return [rnd.choice(dirs)], rnd.random() < 0.85
    k = rnd.randint(1, min(3, len(files)))
    roots = [(("./" + f) if rnd.random() < 0.25 else f) for f in rnd.sample(files, k)]
    if rnd.random() < 0.06:
        roots.insert(rnd.randint(0, len(roots)), "t/no-such-file")
    return roots, rnd.random() < 0.5


def one_history(c, rnd, hid, max_steps, force_mode=None, force_kinds=()):
    """returns (cases, outcomes, number of steps); force_mode / force_kinds fix the archive flavour and the first step kinds"""
    cases, outcomes = [], []
    with cli.Sandbox("c11") as sb:
        mode = force_mode or rnd.choice(["single", "single", "split", "split", "solid", "solidsplit"])
        tree = U.Tree(sb, rnd, big="split" in mode)
        tree.populate(rnd.randint(2, 6))
        # in a third of the histories the commands run INSIDE the archive's directory: the archive is named by a bare
        # file name (`x.pna`, whose Path::parent() is empty) and the inputs by ../t/...
        bare = rnd.random() < 0.33
        cwd = sb.path("ar") if bare else sb.root
        os.makedirs(sb.path("ar"), exist_ok=True)
        # archive file names with dots and with `part`-like extensions: the rewriting commands write their result to
        # remove_part(path) (seeded C11-5: a bare `.part` extension taken for a part marker sends it to another file)
        stem = rnd.choice(["x", "x", "x", "x.part", "my.file", "x.partial", "x.part0x"])
        arch = U.Arch(sb, base=cwd, stem=stem)
        log = tree.log
        if bare:
            log.append("cd ar     # every command below runs in <sandbox>/ar")
        def from_cwd(roots):
            return [p if (not bare or os.path.isabs(p)) else "../" + (p[2:] if p.startswith("./") else p) for p in roots]
        nsteps = max(len(force_kinds), min(max_steps, rnd.randint(3, 8)))
        before = []
        ops_txt, results = [], []
        for si in range(nsteps):
            if si:
                tree.evolve()
            # ---- choose the operation
            kinds = ["C"] if si == 0 else ["A"] * 4 + ["U"] * 8 + ["D"] * 3 + ["C"] + (["N"] * 2 if len(arch.parts) == 1 else [])
            t = force_kinds[si] if si < len(force_kinds) else rnd.choice(kinds)
            op = {"t": t}
            fifo = None
            rewriting = False
            if t in ("C", "A", "U"):
                op["kd"] = int(rnd.random() < 0.35)
                op["kt"] = int(rnd.random() < 0.6)
                roots, rec = pick_roots(tree, rnd, overlap=True)
                roots = from_cwd(roots)
                if t != "C" and op["kd"] and rnd.random() < 0.2:
                    fifo = sb.path("t", rnd.choice(["zfifo", "d/afifo", "0sock"]))
                    os.makedirs(os.path.dirname(fifo), exist_ok=True)
                    U.mk_unsupported(fifo, "fifo" if "fifo" in fifo else "socket")
                    log.append("mk%s %s" % ("fifo" if "fifo" in fifo else "socket", os.path.relpath(fifo, sb.root)))
                flags = (["-r"] if rec else []) + (["--keep-dir"] if op["kd"] else []) + (["--keep-timestamp"] if op["kt"] else [])
                if t == "C":
                    arch.clear()
                    if rnd.random() < 0.5 and si and not force_mode:
                        mode = rnd.choice(["single", "split", "solid", "solidsplit"])
                    args = ["create", os.path.relpath(sb.path("ar", stem + ".pna"), cwd), "--overwrite"] + flags
                    if "solid" in mode:
                        args.append("--solid")
                    if "split" in mode:
                        args += ["--split", str(rnd.choice([700, 1500, 4000])), "--store"]
                    args += roots
                elif t == "A":
                    args = ["append", arch.cur] + flags + roots
                else:
                    op["cond"] = rnd.choice([0, 0, 0, 1, 1, 2])
                    names_before = sorted({e[0] for e in before})
                    op["excl"] = rnd.sample(names_before, min(len(names_before), rnd.randint(1, 2))) if rnd.random() < 0.25 else []
                    if op["excl"] and rnd.random() < 0.5:
                        op["excl"].append(rnd.choice(["t/a", "t/d/c", "t/new"]))
                    args = ["experimental", "update"] + (["--unstable"] if op["excl"] else []) + [arch.cur] + flags
                    args += {0: [], 1: ["--newer-mtime"], 2: ["--older-mtime"]}[op["cond"]]
                    args += rnd.choice([[], [], ["--unsolid"], ["--keep-solid"]])
                    for p in op["excl"]:
                        args += ["--exclude", p]
                    args += roots
                    rewriting = True
                op["nodes"] = [U.node(cwd, p) for p in U.walk(cwd, roots, rec)]
            elif t == "D":
                names_before = sorted({e[0] for e in before})
                pats = []
                for _ in range(rnd.randint(1, 2)):
                    r = rnd.random()
                    if r < 0.5 and names_before:
                        nm = rnd.choice(names_before)
                        # a pattern is a glob: a literal backslash is written `\\` (mostly; left bare now and then, where
                        # `d\c` is the pattern for the name dc)
                        pats.append(nm.replace("\\", "\\\\") if rnd.random() < 0.8 else nm)
                    elif r < 0.65:
                        pats.append(rnd.choice(["t/d/*", "t/e/*", "t/d/sub/*"]))
                    elif r < 0.8:
                        pats.append("**/" + rnd.choice(U.FILES))
                    elif r < 0.9:
                        pats.append("*" + rnd.choice([".txt", ".gz", "a", "c"]))
                    else:
                        pats.append("t/nothing-here")
                op["matched"] = U.glob_matched(pats, names_before)
                args = ["experimental", "delete", arch.cur] + rnd.choice([[], ["--unsolid"], ["--keep-solid"]]) + pats
                rewriting = True
            else:
                shutil.rmtree(sb.path("ar2"), ignore_errors=True)
                args = ["split", arch.cur, "--max-size", str(rnd.choice([600, 1200, 5000])), "--out-dir", sb.path("ar2"), "--overwrite"]
            # ---- run it
            was_parts = list(arch.parts)
            raw_before = arch.bytes() if si else {}
            r = cli.run_pna(["--quiet"] + args, cwd, timeout=60)
            log.append("$ %s    -> rc %s %s" % (r["cmd"], r["rc"], r["err"].decode("utf-8", "replace").strip()[:160]))
            failed = r["rc"] != 0
            if r["timeout"] or r["rc"] == 101:
                c.violations.append(("oracle", "%s on step %d" % ("timeout" if r["timeout"] else "panic (exit 101)", si),
                                     "history %d (mode %s), commands run in the sandbox root:\n%s" % (hid, mode, "\n".join(log)), True))
            if fifo:
                os.remove(fifo)
                log.append("rm %s" % os.path.relpath(fifo, sb.root))
            if not failed:
                if t == "C":
                    arch.rescan()
                elif t == "N":
                    arch.clear()
                    for n in os.listdir(sb.path("ar2")):
                        shutil.move(sb.path("ar2", n), os.path.join(arch.dir, n))
                    arch.rescan()
                elif rewriting and len(was_parts) > 1:
                    # a rewriting command on x.part1.pna writes the unsplit x.pna next to the parts
                    for p in was_parts:
                        os.remove(p)
                    arch.rescan()
            elif t == "C":
                # create --overwrite that fails: not an in-place command of this property; start again
                break
            # ---- observe
            after, end = arch.dump()
            msgs = []
            if end != "OK":
                msgs.append("the archive cannot be read after step %d (%s): %s" % (si, t, end))
            lr, listed = U.pna_list(sb, arch)
            if lr["rc"] != 0 or listed != [e[0] for e in after]:
                msgs.append("pna list and the library disagree after step %d: %r vs %r" % (si, listed[:6], [e[0] for e in after][:6]))
            if failed and si and arch.bytes() != raw_before:
                msgs.append("a failing command changed the archive file(s)")
            msgs += U.oracle_step(before, after, op, failed)
            for m in msgs:
                c.violations.append(("oracle", m, "history %d (mode %s), commands run in the sandbox root:\n%s\n\narchive before the step: %s\narchive after the step:  %s"
                                     % (hid, mode, "\n".join(log), U.arch_txt(before), U.arch_txt(after)), True))
            txt = U.op_txt(op)
            res = "E" if failed else "A:" + U.arch_txt(after)
            ops_txt.append(txt)
            results.append(res)
            cases.append("hist\t%s\t%s" % (U.arch_txt(before), txt))
            outcomes.append("OK " + res)
            key = "step:" + t + ("/multipart" if len(was_parts) > 1 else "") + ("/failed" if failed else "")
            c.hist[key] = c.hist.get(key, 0) + 1
            before = after
        if ops_txt:
            cases.append("hist\t\t" + "\t".join(ops_txt))
            outcomes.append("OK " + "|".join(results))
        return cases, outcomes, len(ops_txt)


def run(tier, seed, replay=None):
    c = Check("C11", tier, seed)
    c.rule = ("one case per step (archive before, operation with the walked nodes / glob table -> archive after) plus one case per "
              "whole history (the model threads its own state); distinct = distinct case text")
    c.assumptions = ["the walker yields the file arguments in the order given, each -r directory in pre-order over readdir order; overlapping "
                     "arguments (a path walked twice) are generated for create, append and update",
                     "a rewriting command on a multipart archive leaves its result in the unsplit file next to the parts (remove_part); the history goes on with that file"]
    c.proofs()
    rnd = random.Random(seed)
    cases, outcomes = [], []
    steps, hid = 0, 0
    budget = STEPS.get(tier, 100)
    # every run: in-place append to the LAST part of a multipart archive (append.rs walks the parts with seek_to_end /
    # read_next_archive), twice, then an update of it; the same on a solid multipart archive (line coverage showed that
    # the random histories of a quick run may never append to a part set)
    for fm in ("split", "solidsplit"):
        cs, os_, n = one_history(c, random.Random(rnd.getrandbits(48)), hid, 4, force_mode=fm, force_kinds=("C", "A", "A", "U"))
        cases += cs
        outcomes += os_
        steps += n
        hid += 1
    while steps < budget:
        cs, os_, n = one_history(c, random.Random(rnd.getrandbits(48)), hid, budget - steps if budget - steps >= 2 else 2)
        cases += cs
        outcomes += os_
        steps += n
        hid += 1
    c.hist["histories"] = hid
    c.correspondence_py("update", cases, outcomes)
    return c.finish("proof", ["Coq 8.16.1 kernel and VM", "ExtrOcamlBasic extraction + modelrun/driver.ml",
                              "props/_update.py (walker emulation, glob table, oracle)", "harness/src/bin/dump.rs", "vlib/cli.py"])
