"""shared step of the archive-area properties (C03, C05, C06, C07, C13, C18)"""
TRUSTED = ["Coq 8.16.1 kernel and VM", "ExtrOcamlBasic extraction + modelrun/driver.ml (cross-checked against kernel evaluation on a sample)",
           "harness/src/bin/archive.rs, harness/src/arch.rs (generators, canonical rendering, oracles)",
           "lib/src/verif_hooks.rs accessors (PHSF/data of parsed entries, chunk type bytes)"]
NOTE = ("Trusted: Coq kernel + vm_compute; extraction and the OCaml driver (cross-checked each run); the Rust harness and the "
        "cfg(pna_verif) accessors; the hand-written model of lib/src/chunk*.rs, archive/read*.rs, archive/write.rs, entry.rs is "
        "faithful only as far as the correspondence generators reach (distribution in the evidence). CRC-32 is modelled bitwise; "
        "crc32fast itself is exercised through the library only.")

def nontrivial(case, impl):
    return True

def step(c, prop):
    return c.correspondence("archive", ["archive"], gen_prop=prop)
