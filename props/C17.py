"""C17 — list, extract and the library agree on what an archive contains."""
import unicodedata
import json, os, random, re, stat
from vlib.flow import Check
from vlib import cli, core
from props import _xform as X

META = {
    "level": "proof",
    "technique": "Coq theorems on a Gallina model of run_list_archive / print_entries / build_tree and of extract's entry selection; the model is tied to the real `pna list` (plain, table, JSON lines, tree; --solid, --classify, patterns) and `pna extract` by parsing their real output on generated archives and comparing with the model, plus a direct three-way set comparison list / extract / libpna Generated archives include files that record no size (no fSIZ chunk) and link targets up to 4000 bytes; every view must show the recorded size (none) and the whole target.",
    "level_text": "list_rows, the four printers' row content, the tree's node set and extract's selection are modelled in Gallina; that list --solid reports exactly the library's entries matched by the patterns, that list without --solid omits exactly the inner entries of solid blocks, that extract materialises exactly the listed names (plus their parent directories) and that the tree's nodes are the prefix closure of the names are proved for all archives and selections (Coq, closed under the global context; glob matching is a parameter). The stdout of the real `pna list` in every format and the tree written by `pna extract` are parsed back on generated archives (normal, solid, mixed, encrypted, multipart; names with spaces, unicode, control characters, glob metacharacters) and must equal the model's answer and each other.",
    "level_note": "Trusted: Coq kernel + vm_compute; extraction and the OCaml driver (cross-checked in the kernel on a sample); harness mkarchive/dump/globtab; the Python parsers of the table and tree drawings (the table is only parsed on archives whose names have no newline and no trailing blank). JSON lines and the table do not print link targets, and print hard links as files: kinds and targets are compared as far as each format shows them.",
}

OBS = {"quick": 200, "thorough": 6000}
DIRS = ["dir", "dir2", "emptyd", "ünï"]
FILES = ["a.txt", "b.txt", "dir/b.txt", "dir/sub/c", "dir/sub/d.txt", "with space", "dir/with space.txt", "ünï/名前", "glob*star",
         "br[ack]et", "q?m", "tab\tname", "ctl\x01x", "cr\rx", "-dash", ".hidden", "x.tar.gz", "dir2/e", "z", "{cur,ly}", "back\\slash"]
NEWLINE = ["new\nline", "dir/nl\n"]
ANSI = re.compile(r"\x1b\[[0-9;]*m")
CELL_SEP = "\x1b[8m \x1b[0m"


def gen_archive(rnd, flavour, newline):
    """spec items with consistent names (no name is both a file and a directory prefix, no repeats)"""
    pool = FILES + (NEWLINE if newline else [])
    names = rnd.sample(pool, rnd.randint(1, 7)) + rnd.sample(DIRS, rnd.randint(0, 2))
    rnd.shuffle(names)
    files = [n for n in names if n not in DIRS]
    enc = (rnd.choice([1, 2]), rnd.choice([0, 1])) if flavour in ("encrypted", "encsolid") else None
    entries = []
    regular = []
    for n in names:
        if n in DIRS:
            kind = 1
        else:
            kind = rnd.choice([0, 0, 0, 0, 2, 3]) if regular else rnd.choice([0, 0, 0, 2])
        e = X.gen_entry(rnd, n, kind, rich=rnd.random() < 0.5, enc=enc if flavour == "encrypted" else None, names=files)
        if kind == 0:
            regular.append(n)
            if rnd.random() < 0.15:
                e["nosize"] = True      # no fSIZ chunk (a writer that records no sizes): every view must say "not recorded"
        elif kind == 2:
            e["data"] = rnd.choice(["a.txt", "../x", "dir/sub", "nowhere", "ünï", "with space"]).encode()
            if rnd.random() < 0.2:
                # a long target (up to just below PATH_MAX; components of at most 255 bytes): list, extract and the library
                # must show the same text (seeded C17-6: list cut the target at 1024 bytes)
                n_ = rnd.choice([1023, 1024, 1025, 1503, 2048, 4000])
                e["data"] = ("/".join(["t" * 200] * 25))[:n_ - 1].rstrip("/").encode() + b"x"
        elif kind == 3:
            # the stored source of a hard link is relative to the entry's own directory (extract.rs)
            here = [r for r in regular if os.path.dirname(r) == os.path.dirname(n)]
            if here:
                e["data"] = os.path.basename(rnd.choice(here)).encode()
            else:
                e = X.gen_entry(rnd, n, 0, rich=False, enc=enc if flavour == "encrypted" else None, names=files)
                regular.append(n)
        entries.append(e)
    items, i = [], 0
    while i < len(entries):
        if flavour == "solid" or (flavour in ("mixed", "encsolid") and rnd.random() < 0.5):
            k = rnd.randint(1, 3)
            inner = entries[i:i + k]
            for e in inner:
                e["enc"] = 0
            senc = enc if flavour == "encsolid" else None
            items.append(("solid", rnd.choice([0, 1, 2, 3]), senc[0] if senc else 0, senc[1] if senc else 0, [], inner))
            i += k
        else:
            items.append(("entry", entries[i])); i += 1
    # solid blocks that hold no entry at all (a finished SolidEntryBuilder nobody added to; what `delete --keep-solid`
    # leaves of a block whose entries are all deleted) in front of, between and behind the others (seeded C17-3: an
    # iterator that stops at an empty block hides everything behind it from extract only)
    if rnd.random() < 0.3:
        for _ in range(rnd.randint(1, 2)):
            senc = enc if flavour == "encsolid" else None
            items.insert(rnd.randint(0, len(items)),
                         ("solid", rnd.choice([0, 1, 2, 3]), senc[0] if senc else 0, senc[1] if senc else 0, [], []))
    return items


def render(objs):
    out = []
    for o in objs:
        if "solid_header" in o:
            out.append("S")
        else:
            tgt = o["content"] if o["kind"] in (2, 3) and o["content"] is not None else ""
            out.append("%s|%s|%d|%s|%d|%s" % ("I" if o["solid"] >= 0 else "E", o["name"], o["kind"],
                                               "-" if o["raw_size"] is None else str(o["raw_size"]), max(o["clen"], 0), tgt))
    return ";".join(out)


def kind_char(k):
    return {1: "d", 2: "l"}.get(k, ".")


# ----------------------------------------------------------------------------------------- parsers
def parse_jsonl(out):
    rows = []
    for line in out.decode("utf-8").split("\n"):
        if line:
            o = json.loads(line)
            rows.append((o["filename"], o["permissions"][0], o["raw_size"]))
    return rows


def parse_table(out):
    rows = []
    for line in out.decode("utf-8").split("\n"):
        if not line.strip():
            continue
        cells = [ANSI.sub("", c) for c in line.split(CELL_SEP)]
        if len(cells) < 10:
            return None
        rows.append((cells[2][0], cells[3].strip(), cells[9].rstrip(" ")))
    return rows


def table_csizes(out):
    vals = []
    for line in out.decode("utf-8").split("\n"):
        if not line.strip():
            continue
        cells = [ANSI.sub("", c) for c in line.split(CELL_SEP)]
        if len(cells) < 10:
            return None
        vals.append(cells[4].strip())
    return vals


def parse_tree(out):
    lines = out.decode("utf-8").split("\n")
    if not lines or lines[0] != ".":
        return None
    res = []
    for line in lines[1:]:
        if line == "":
            continue
        d = 0
        while line[4 * d:4 * d + 4] in ("│   ", "    "):
            d += 1
        if line[4 * d:4 * d + 4] not in ("├── ", "└── "):
            return None
        res.append((d, line[4 * d + 4:]))
    return res


def fs_rows(root, hardlinks):
    rows = []
    for d, ds, fs in os.walk(root):
        for n in ds + fs:
            p = os.path.join(d, n)
            rel = os.path.relpath(p, root)
            st = os.lstat(p)
            if stat.S_ISLNK(st.st_mode):
                rows.append((rel, 2, X.hx(os.readlink(p))))
            elif stat.S_ISDIR(st.st_mode):
                rows.append((rel, 1, ""))
            else:
                rows.append((rel, 0, "-" if rel in hardlinks else str(st.st_size)))
    rows.sort(key=lambda r: r[0].encode())
    return rows


# -------------------------------------------------------------------------------------- observations
def observe(c, rnd, n_obs):
    cases, outcomes, oracle = [], [], {}
    done, ano = 0, 0
    skipped = 0
    xno = 0
    with cli.Sandbox("c17") as sb:
        while done < n_obs:
            ano += 1
            d = sb.path("a%d" % ano)
            os.makedirs(d)
            flavour = ["plain", "solid", "mixed", "encrypted", "encsolid", "multipart"][ano % 6]
            # multipart sets also of encrypted entries, cut at many different sizes: a part boundary then falls inside IV chunks,
            # PHSF-to-data transitions and metadata (seeded C17-4: the IV read with one read() instead of read_exact)
            base = {"multipart": rnd.choice(["plain", "mixed", "encrypted", "encrypted"])}.get(flavour, flavour)
            newline = rnd.random() < 0.2
            items = gen_archive(rnd, base, newline)
            path = os.path.join(d, "a.pna")
            X.mkarchive(items, path)
            inputs = [path]
            if flavour == "multipart":
                parts = X.split_parts(sb.root, path, rnd.choice([150, 250, rnd.randint(120, 300), rnd.randint(120, 300)]))
                if parts:
                    inputs = parts
                else:
                    flavour = base
            c.hist["archive:" + flavour] = c.hist.get("archive:" + flavour, 0) + 1
            objs, end = cli.dump(inputs, X.PW)
            if end != "OK":
                raise RuntimeError("generated archive does not read back: " + end)
            atext = render(objs)
            lib = [o for o in objs if "solid_header" not in o]
            names = X.names_of(objs)
            has_solid = any("solid_header" in o for o in objs)
            has_nl = any("\n" in n for n in names)
            pw = ["--password", X.PW] if base in ("encrypted", "encsolid") else []
            # `experimental stdio -t` is the same listing as `list --solid` (stdio.rs run_list_archive builds the same
            # ListOptions), from a named file and from standard input; single-file archives only (stdin cannot chain parts)
            if len(inputs) == 1 and rnd.random() < 0.5:
                ref = cli.run_pna(["list", "--solid"] + pw + ["--", inputs[0]], cwd=sb.root, timeout=60)
                for how in ("file", "stdin"):
                    if how == "file":
                        r2 = cli.run_pna(["experimental", "stdio", "-t", "-f", inputs[0]] + pw, cwd=sb.root, timeout=60)
                    else:
                        r2 = cli.run_pna(["experimental", "stdio", "-t"] + pw, cwd=sb.root, timeout=60, stdin=open(inputs[0], "rb").read())
                    c.cov["evaluations"] += 1
                    c.hist["stdio -t (" + how + ")"] = c.hist.get("stdio -t (" + how + ")", 0) + 1
                    if (r2["rc"], r2["out"]) != (ref["rc"], ref["out"]):
                        c.violations.append(("oracle", "`pna experimental stdio -t` (%s) and `pna list --solid` disagree on what the archive contains" % how,
                                             "archive: %s (%s)\nlist --solid: rc %s %r\nstdio -t: rc %s %r %r" % (atext, flavour, ref["rc"], ref["out"][:400], r2["rc"], r2["out"][:400], r2["err"][-200:]), True))
            for _ in range(8):
                if done >= n_obs:
                    break
                # names that hold a control character, selected by a pattern that spells the character itself:
                # the patterns are matched against the stored name, never against what a printer shows for it
                ctl_names = [n for n in names if any(unicodedata.category(ch) == "Cc" and ch != "\n" for ch in n)]
                force_ctl = bool(ctl_names) and rnd.random() < 0.15
                while True:
                    if force_ctl:
                        n0 = rnd.choice(ctl_names)
                        lit_ = "".join("[%s]" % ch if ch in "*?[]{}\\" else ch for ch in n0)
                        i0 = next(i for i, ch in enumerate(n0) if unicodedata.category(ch) == "Cc")
                        pats = [rnd.choice([lit_, "*" + lit_[lit_.index(n0[i0]):], "**/*[" + n0[i0] + "]*", "*[" + n0[i0] + "]*"])]
                    else:
                        pats = [] if rnd.random() < 0.3 else X.gen_patterns(rnd, names)
                    m = X.matched(pats, names) if pats else []
                    if m is not None:
                        break
                    force_ctl = False
                mh = sorted(set(X.hx(n) for n in m))
                selected = lambda o: (not pats) or o["name"] in mh
                view = rnd.choice(["plain", "plain", "jsonl", "jsonl", "table", "long", "tree", "tree", "extract", "extract"])
                if has_nl and view in ("table", "long", "tree"):
                    view = "plain"
                solid = has_solid and rnd.random() < 0.7
                if flavour == "encsolid" and not solid and view != "extract":
                    pass
                classify = view in ("plain", "table", "long", "tree") and rnd.random() < 0.3
                # -q shows control characters of the printed names as '?'; it must not change WHICH entries are listed
                if force_ctl:
                    view = rnd.choice(["plain", "plain", "long", "table", "extract"]) if not has_nl else rnd.choice(["plain", "extract"])
                quiet = view in ("plain", "table", "long") and (force_ctl or rnd.random() < 0.4)
                hide = (lambda t: "".join("?" if unicodedata.category(ch) == "Cc" else ch for ch in t)) if quiet else (lambda t: t)
                msgs = []
                i = len(cases)
                if view == "extract":
                    xno += 1                    # a fresh directory for every attempt: a skipped observation (below) must not
                    out = os.path.join(d, "x%d" % xno)   # leave its partial extraction in the next one's output directory
                    r = cli.run_pna(["extract", "--overwrite", "--out-dir", out] + pw + ["--", inputs[0]] + pats, cwd=sb.root, timeout=60)
                    want = [o for o in lib if selected(o)]
                    hl = [o for o in want if o["kind"] == 3]
                    sel_names = set(o["name"] for o in want)
                    if r["rc"] != 0:
                        def source(o):
                            dn = os.path.dirname(bytes.fromhex(o["name"]).decode())
                            return X.hx(os.path.join(dn, bytes.fromhex(o["content"]).decode()))
                        if any(source(o) not in sel_names for o in hl):
                            skipped += 1          # a hard link whose target the patterns do not select: extract refuses, correctly
                            continue
                        msgs.append("extract fails (%s): %s" % (X.err_kind(r), r["err"].decode("utf-8", "replace")[-200:]))
                        rows = []
                    else:
                        rows = fs_rows(out, set(bytes.fromhex(o["name"]).decode() for o in hl)) if os.path.isdir(out) else []
                    case = "\t".join(["extract", str(len(pats)), ",".join(mh), atext])
                    outcome = "OK " + ",".join("%s:%d:%s" % (X.hx(p), k, det) for p, k, det in rows)
                    # oracle: leaves = selected names with the library's kind / size / target; everything else is a parent directory
                    got = {p: (k, det) for p, k, det in rows}
                    for o in want:
                        p = bytes.fromhex(o["name"]).decode()
                        exp = (1, "") if o["kind"] == 1 else (2, o["content"]) if o["kind"] == 2 else (0, "-") if o["kind"] == 3 else (0, str(o["clen"]))
                        if r["rc"] == 0 and got.get(p) != exp:
                            msgs.append("extract: %r is %s, the library says %s" % (p, got.get(p), exp))
                    wanted_paths = set()
                    for o in want:
                        comps = bytes.fromhex(o["name"]).decode().split("/")
                        for j in range(1, len(comps) + 1):
                            wanted_paths.add("/".join(comps[:j]))
                    extra = set(got) - wanted_paths
                    if extra:
                        msgs.append("extract created %s which no selected entry accounts for" % sorted(extra)[:3])
                else:
                    args = ["list"] + (["--solid"] if solid else []) + (["--classify"] if classify else []) + (["-q"] if quiet else [])
                    args += {"plain": [], "long": ["-l"], "table": ["--format", "table", "--unstable"], "jsonl": ["--format", "jsonl", "--unstable"],
                             "tree": ["--format", "tree", "--unstable"]}[view]
                    r = cli.run_pna(args + pw + ["--", inputs[0]] + pats, cwd=sb.root, timeout=60)
                    visible = [o for o in lib if (solid or o["solid"] < 0) and selected(o)]
                    op = {"long": "table"}.get(view, view) + ("q" if quiet else "")
                    if op == "jsonl":
                        case = "\t".join([op, "1" if solid else "0", str(len(pats)), ",".join(mh), atext])
                    else:
                        case = "\t".join([op, "1" if solid else "0", "1" if classify else "0", str(len(pats)), ",".join(mh), atext])
                    if r["rc"] != 0:
                        outcome = X.err_kind(r)
                        msgs.append("list fails (%s): %s" % (outcome, r["err"].decode("utf-8", "replace")[-200:]))
                    elif view == "plain":
                        outcome = "OK " + r["out"].hex()
                        def disp(o):
                            n = bytes.fromhex(o["name"]).decode()
                            t = bytes.fromhex(o["content"] or "").decode("utf-8", "replace") if o["content"] is not None else "-"
                            if o["kind"] == 1: return n + ("/" if classify else "")
                            if o["kind"] == 2: return n + ("@" if classify else "") + " -> " + t
                            if o["kind"] == 3: return n + " -> " + t
                            return n
                        exp = "".join(hide(disp(o)) + "\n" for o in visible).encode()
                        if r["out"] != exp:
                            msgs.append("plain list differs from the library's entries: %r vs %r" % (r["out"][:200], exp[:200]))
                    elif view == "jsonl":
                        rows = parse_jsonl(r["out"])
                        outcome = "OK " + ",".join("%s:%s:%s" % (X.hx(n), k, "-" if s is None else s) for n, k, s in rows)
                        # raw_size is the RECORDED size: null when the entry has no fSIZ chunk (directories, links, files of a
                        # writer that records none; fix 09617fb8: it used to print 0 there); a recorded size is the content's length
                        exp = [(bytes.fromhex(o["name"]).decode(), kind_char(o["kind"]), o["raw_size"]) for o in visible]
                        for o in visible:
                            if o["kind"] == 0 and o["raw_size"] is not None and o["clen"] >= 0 and o["raw_size"] != o["clen"]:
                                msgs.append("recorded raw size %s of %s differs from its content length %s" % (o["raw_size"], o["name"], o["clen"]))
                        if rows != exp:
                            msgs.append("jsonl list differs from the library's entries (name, kind, size): %s vs %s" % (rows[:4], exp[:4]))
                        # C18: `size` is the compressed size (sum of the data chunk payloads)
                        try:
                            js = [json.loads(l).get("size") for l in r["out"].decode("utf-8").split("\n") if l]
                        except Exception:
                            js = None
                        if js is not None and js != [o["csize"] for o in visible]:
                            msgs.append("jsonl list: size %s differs from the library's compressed sizes %s" % (js[:6], [o["csize"] for o in visible][:6]))
                    elif view in ("table", "long"):
                        rows = parse_table(r["out"])
                        if rows is None:
                            outcome = "UNPARSED"; msgs.append("table output does not parse: %r" % r["out"][:200])
                        else:
                            outcome = "OK " + ",".join("%s:%s:%s" % (k, s, X.hx(n)) for k, s, n in rows)
                            exp = [(kind_char(o["kind"]), "-" if o["raw_size"] is None else str(o["raw_size"])) for o in visible]      # the recorded size
                            if [(k, s) for k, s, _ in rows] != exp:
                                msgs.append("table list differs from the library's entries (kind, size): %s vs %s" % (rows[:4], exp[:4]))
                            if [n.split(" -> ")[0].rstrip("/@") if classify else n.split(" -> ")[0] for _, _, n in rows] != [hide(bytes.fromhex(o["name"]).decode()) for o in visible]:
                                msgs.append("table list names differ from the library's")
                            # C18 (Props/C18_list.v): the compressed-size column is Metadata::compressed_size of the entry
                            # the row stands for = the sum of its data chunk payloads (dump's csize)
                            cs = table_csizes(r["out"])
                            if cs is not None and cs != [str(o["csize"]) for o in visible]:
                                msgs.append("table list: compressed-size column %s differs from the library's compressed sizes %s" % (cs[:6], [o["csize"] for o in visible][:6]))
                    else:
                        rows = parse_tree(r["out"]) if r["out"] else []
                        if rows is None:
                            outcome = "UNPARSED"; msgs.append("tree output does not parse: %r" % r["out"][:200])
                        else:
                            outcome = "OK " + ",".join("%d:%s" % (dd, X.hx(n)) for dd, n in rows)
                            # node set = prefix closure of the visible names
                            stack, paths = [], set()
                            for dd, n in rows:
                                n2 = n.rstrip("/@") if classify else n
                                stack = stack[:dd] + [n2]
                                paths.add("/".join(stack))
                            want = set()
                            for o in visible:
                                comps = bytes.fromhex(o["name"]).decode().split("/")
                                for j in range(1, len(comps) + 1):
                                    want.add("/".join(comps[:j]))
                            if paths != want:
                                msgs.append("tree nodes are not the prefix closure of the listed names: %s" % sorted(paths ^ want)[:4])
                key = "view:%s%s%s%s" % (view, "/solid" if solid else "", "/patterns" if pats else "", "/-q" if quiet and view != "extract" else "") + ("/ctl-pattern" if force_ctl else "")
                c.hist[key] = c.hist.get(key, 0) + 1
                if msgs:
                    replay = "archive: %s (%s) // command: %s" % (atext, flavour, r["cmd"].replace(sb.root, "<sandbox>"))
                    oracle[i] = ["%s [%s]" % (mm, replay) for mm in msgs]
                cases.append(case); outcomes.append(outcome)
                done += 1
    c.notes.append("extract observations skipped because a selected hard link's target was not selected: %d" % skipped)
    return cases, outcomes, oracle


def run(tier, seed, replay=None):
    c = Check("C17", tier, seed)
    c.rule = ("one evaluation = one observation: a generated archive (plain / solid / mixed / encrypted / encrypted solid / multipart; names with "
              "spaces, unicode, control characters, glob metacharacters) viewed by `pna list` in one format (plain, -l, table, jsonl, tree) with/without "
              "--solid, --classify and a generated pattern set, or extracted with the pattern set; the parsed output is compared with the model and "
              "with libpna's entries; distinct = distinct case text")
    c.assumptions = ["glob matching is the globset crate (a parameter of the theorems; a truth table in the cases)",
                     "archives whose entries carry unreadable ACL chunks are outside this check (`list` reports the error and prints nothing)"]
    c.proofs()
    X.build()
    rnd = random.Random(seed)
    cases, outcomes, oracle = observe(c, rnd, OBS.get(tier, 200))
    c.correspondence_py("listcmd", cases, outcomes, oracle)
    return c.finish("proof", ["Coq 8.16.1 kernel and VM", "ExtrOcamlBasic extraction + modelrun/driver.ml",
                              "harness/src/bin/{mkarchive,dump,globtab}.rs", "vlib/cli.py, props/_xform.py, the output parsers in props/C17.py"])
