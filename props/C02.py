"""C02 — `pna create` then `pna extract` reproduces the directory tree.

Random trees (nested and empty directories, empty and large files, unicode / space / leading-dash / 255-byte
names, symbolic links to files, directories, nothing and absolute targets, file and directory modes, mtimes,
user.* xattrs when the sandbox file system has them) x option vectors drawn from
{default,--store,--deflate=n,--zstd=n,--xz=n} x {no password, password only, --aes/--camellia = cbc/ctr with
--pbkdf2=r=1 / --argon2=t=1,m=8,p=1} x {--solid} x {--split=size} x {create+extract on a file, stdio pipe,
stdio -f F} x the four keep flags on either side (pairwise-covering in quick, random in thorough).
Oracle (implementation alone): both commands exit 0 and the extracted tree equals the source tree — paths,
kinds, contents, link targets; file modes / file mtimes to the second / xattrs when kept on both sides;
directory modes with --keep-dir + --keep-permission; empty directories only with --keep-dir.
Model: Model/ExtractRun.v op `roundtrip` = tree_of (extract_all (create_from_walk walk tree) empty_dir) with
the walk order read back from the archive (paths reached through a second, overlapping argument listed again).  Directory and symbolic-link mtimes are NOT checked: extract never
restores them (and creating children bumps a directory's mtime anyway); the property promises files' mtime."""
import hashlib, os, random, shutil, stat, subprocess
from vlib.flow import Check
from vlib import cli, core

META = {
    "level": "proof",
    "technique": "Coq theorem for every tree, walk order and option vector on a Gallina model of collect_items/create_entry/apply_metadata and run_extract_archive_reader/extract_entry over an abstract file system, composed with the C01 pipeline theorems for the container in between; model tied to the code by differential execution of the real `pna create` / `pna extract` on generated trees and option vectors Composed with C04 (Props/C02_split.v): create --split then extract of the part set, for every max for which the split succeeds. Extraction with --overwrite into an older extraction of the same or another tree, and without --overwrite (Props/C02_overlay.v). Implementation-side oracles where the model has no notion: extraction as an unprivileged user (modes), a symbolic link given as the tree argument.",
    "level_text": "Proved in Coq (closed, no axioms) for EVERY tree of files, directories and symbolic links, every walk order and every option vector on both sides (C02_create_extract): extraction of what `create` collected into an empty directory exits 0 and the tree read back equals `expected` (defined from the tree and the options only): same paths and kinds, contents exact, link targets exact up to EntryReference normalisation (dangling links and links to directories stay links), file mode / mtime / xattrs exactly when kept on both sides, directory entries only with --keep-dir, implicit parents as plain directories, nothing else; create emits no hard links. Premises (decidable, each shown needed or satisfiable in the kernel): the repaired extractor (the pre-C09 code chmods through an extracted link: C02_create_extract_unguarded_refuted), a well-formed tree (Normal components, distinct non-empty paths, only directories have children, attribute tables, non-empty UTF-8 link targets), an order that lists the tree's paths and — only with --keep-dir without --overwrite — parents first (C02_parents_first_needed). The container is no longer a hypothesis: C02_transport_lossless / C02_create_archive_extract(_real) / C02_create_solid_archive_extract compose the theorem with C01 for every codec, cipher, mode, per-entry cipher context, write slicing and read-buffer policy; with the AES-256/Camellia-256 models the remaining premises are the compressor and KDF laws and the format's ranges (wf_job). Carried and compared: name, kind, content/target, mode, mtime, xattrs; cTIM, aTIM and owner travel in the container but are not observed by the file-system model. Partial: --split rests on C04/C14, extraction into a non-empty directory is C20; the tie of the model to the binaries is the differential runs: real `pna create` / `pna extract` (file, --split, stdio pipe, stdio -f; every codec, cipher, KDF, solid; keep flags on either side) on generated trees, the extracted tree compared with the source tree (implementation-side oracle) and with the model's prediction (60 / 2 000 histories). Composed with C04 (Props/C02_split.v): for every max for which the split succeeds, the part set written by create --split (and --solid --split) is read by both part-chaining readers to exactly create_from_tree and extracts to the expected tree.",
    "level_note": "Trusted: Coq kernel; extraction and driver (sample re-evaluated in the kernel); Model/Fs.v as a description of the std::fs calls (no permission checks, no ownership); the compressor and KDF laws (premises, checked per case in C01's runs). Outside: kernel file system semantics, the `ignore` walker (its order is an oracle of the theorem; read back from the archive in the runs), xattr support of the sandbox file system, names that are not UTF-8, --keep-acl. Directory / symlink timestamps are stored but never restored by the tool and not checked.",
}

PW = "pässword 1"
LONG = "L" * 255
NAMES = cli.NAMES + [LONG, "é" * 100, "a b  c", "--", "-rf", "dot.", "...", "名前/".strip("/"), "back\\slash", "new\nline"]
TARGETS_ABS = ["/etc/hostname", "/nonexistent/x", "/"]


def sha(b):
    return hashlib.sha256(b).digest()


def xattr_supported(d):
    p = os.path.join(d, "xprobe")
    open(p, "w").close()
    try:
        os.setxattr(p, "user.verif", b"1")
        return os.getxattr(p, "user.verif") == b"1"
    except OSError:
        return False
    finally:
        os.remove(p)


def gen_tree(rnd, root, xattrs):
    """a random tree below root (which is created); returns nothing — the tree is read back by snap()"""
    os.makedirs(root)
    dirs, files = [""], []
    for _ in range(rnd.randint(1, 14)):
        kind = rnd.choice(["file"] * 6 + ["dir"] * 3 + ["emptydir"] * 2 + ["symlink"] * 3)
        parent = rnd.choice(dirs)
        rel = os.path.join(parent, rnd.choice(NAMES))
        p = os.path.join(root, rel)
        if os.path.lexists(p) or len(p.encode()) > 1500:
            continue
        if kind == "file":
            size = rnd.choice([0, 0, 1, 15, 16, 17, 100, 4096, 5000, 70000, 300000])
            data = (bytes(rnd.getrandbits(8) for _ in range(min(size, 512))) * (size // 512 + 1))[:size]
            with open(p, "wb") as f:
                f.write(data)
            if xattrs and rnd.random() < 0.4:
                for k in range(rnd.randint(1, 2)):
                    os.setxattr(p, "user.k%d" % k, bytes(rnd.getrandbits(8) for _ in range(rnd.choice([0, 1, 20]))))
            os.chmod(p, rnd.choice([0o644, 0o600, 0o755, 0o640, 0o444, 0o4755, 0o000]))
            os.utime(p, (1_600_000_000 + rnd.randint(0, 10 ** 8), rnd.choice([0, 1, 86400 * 365, 1_500_000_000 + rnd.randint(0, 10 ** 8)])))
            files.append(rel)
        elif kind in ("dir", "emptydir"):
            os.makedirs(p)
            if kind == "dir":
                dirs.append(rel)
        else:
            t = rnd.choice(["file", "dir", "dangling", "abs", "parent", "dot"])
            target = (os.path.relpath(os.path.join(root, rnd.choice(files)), os.path.dirname(p)) if t == "file" and files else
                      os.path.relpath(os.path.join(root, rnd.choice(dirs)), os.path.dirname(p)) if t == "dir" else
                      rnd.choice(TARGETS_ABS) if t == "abs" else ".." if t == "parent" else "./" + rnd.choice(NAMES) if t == "dot" else
                      "no/such target")
            os.symlink(target, p)
    for d in dirs[1:]:
        os.chmod(os.path.join(root, d), rnd.choice([0o755, 0o750, 0o700, 0o775]))


def snap(root, top):
    """{relative path (with the top directory's name first): node}; node = (kind, data, mode, mtime, xattrs)"""
    out = {}
    def node(p):
        st = os.lstat(p)
        if stat.S_ISLNK(st.st_mode):
            return ("l", os.readlink(p).encode(), 0, 0, ())
        if stat.S_ISDIR(st.st_mode):
            return ("d", b"", stat.S_IMODE(st.st_mode), 0, ())
        with open(p, "rb") as f:
            h = sha(f.read())
        try:
            xs = tuple(sorted((k.encode(), os.getxattr(p, k)) for k in os.listxattr(p) if k.startswith("user.")))
        except OSError:
            xs = ()
        return ("f", h, stat.S_IMODE(st.st_mode), int(st.st_mtime), xs)
    if not os.path.lexists(root):
        return out
    out[top] = node(root)
    for d, ds, fs in os.walk(root):
        for n in ds + fs:
            p = os.path.join(d, n)
            out[os.path.join(top, os.path.relpath(p, root))] = node(p)
    return out


def norm_target(t):
    """what EntryReference keeps of a link target: no empty and no interior `.` segments, no trailing slash"""
    root = t.startswith(b"/")
    segs = [s for s in t.split(b"/") if s]
    keep = [s for i, s in enumerate(segs) if s != b"." or (i == 0 and not root)]
    return (b"/" if root else b"") + b"/".join(keep)


# ------------------------------------------------------------------------------- option vectors
FACTORS = {
    "comp": ["", "--store", "--deflate=1", "--deflate=9", "--zstd=1", "--zstd=19", "--xz=0", "--xz=6"],
    "cipher": ["", "pw", "--aes=cbc --pbkdf2=r=1", "--aes=ctr --argon2=t=1,m=8,p=1", "--camellia=cbc --argon2=t=1,m=8,p=1",
               "--camellia=ctr --pbkdf2=r=1", "--aes=ctr --pbkdf2=r=1", "--camellia=cbc --pbkdf2=r=1", "--aes=cbc --argon2=t=1,m=8,p=1"],
    "solid": [0, 1],
    "split": [0, 0, 3000, 20000],
    "transport": ["file", "file", "pipe", "stdio-f"],
    "kdir": [0, 1], "ktime": [0, 1], "kperm": [0, 1], "kxattr": [0, 1],
    "sides": ["both", "both", "both", "create-only", "extract-only"],
}


def vectors(rnd, n, pairwise):
    keys = list(FACTORS)
    def rand():
        return {k: rnd.choice(FACTORS[k]) for k in keys}
    if not pairwise:
        return [rand() for _ in range(n)], None
    allpairs = {(a, va, b, vb) for i, a in enumerate(keys) for b in keys[i + 1:] for va in set(map(str, FACTORS[a])) for vb in set(map(str, FACTORS[b]))}
    todo = set(allpairs)
    rows = []
    for _ in range(n):
        best, gain = None, -1
        for _ in range(60):
            v = rand()
            g = sum(1 for i, a in enumerate(keys) for b in keys[i + 1:] if (a, str(v[a]), b, str(v[b])) in todo)
            if g > gain:
                best, gain = v, g
        rows.append(best)
        todo -= {(a, str(best[a]), b, str(best[b])) for i, a in enumerate(keys) for b in keys[i + 1:]}
    return rows, (len(allpairs) - len(todo), len(allpairs))


def keep_args(v, side):
    on = v["sides"] == "both" or v["sides"] == side + "-only"
    a = []
    if side == "create" and v["kdir"]:
        a.append("--keep-dir")
    if on:
        a += (["--keep-timestamp"] if v["ktime"] else []) + (["--keep-permission"] if v["kperm"] else []) + (["--keep-xattr"] if v["kxattr"] else [])
    return a


def flags_of(args):
    return (1 if "--keep-dir" in args else 0) | (2 if "--keep-permission" in args else 0) | (4 if "--keep-timestamp" in args else 0) | (8 if "--keep-xattr" in args else 0)


# ---------------------------------------------------------------------------------- one history
def run_history(sb, i, rnd, v, xattrs):
    """returns (case line, observed outcome, oracle messages)"""
    root = sb.path("h%d" % i)
    os.makedirs(os.path.join(root, "tmp"))
    gen_tree(rnd, os.path.join(root, "t"), xattrs)
    if v.get("big"):
        for name, size in (("big70k.bin", 70001), ("big300k.bin", 300000), ("big1m.bin", (1 << 20) + 4097),
                           ("big2m.bin", (5 << 19) + 13)):
            with open(os.path.join(root, "t", name), "wb") as f:
                # incompressible for the first 300 KB (a compressor's output buffer fills and its writer takes only part of a
                # write: seeded C02-5), then a repeated block (cheap to make, still megabytes)
                f.write((rnd.randbytes(min(size, 300_000)) + bytes(rnd.getrandbits(8) for _ in range(4096)) * (size // 4096 + 1))[:size])
            os.utime(os.path.join(root, "t", name), (1_600_000_000, 1_600_000_000))
    src = snap(os.path.join(root, "t"), "t")
    cargs, xargs = keep_args(v, "create"), keep_args(v, "extract")
    enc = v["cipher"] != ""
    copt = ([v["comp"]] if v["comp"] else []) + ([] if v["cipher"] in ("", "pw") else v["cipher"].split(" ")) \
        + (["--password=" + PW] if enc else []) + (["--solid"] if v["solid"] else []) + cargs
    xopt = (["--password=" + PW] if enc else []) + xargs
    split = v["split"] if v["transport"] == "file" else 0
    msgs = []
    arch = os.path.join(root, "a.pna")
    parts = [arch]
    # overlapping file arguments in a quarter of the histories: `-r t` and a path beneath it (or t itself) once more, in one of
    # two spellings.  The walker reaches those paths twice; collect_items keeps the first path of every entry name (fix
    # 4cfc8ff5: create archived them twice and the extraction below failed with AlreadyExists on the second copy)
    again = None
    if rnd.random() < 0.25:
        again = rnd.choice(sorted(p for p in src if src[p][0] != "l"))      # links as arguments: link_root_histories
        copt = copt + [("./" + again) if rnd.random() < 0.4 else again]
    if v["transport"] == "file":
        r1 = cli.run_pna(["--quiet", "create", arch, "-r", "t"] + copt + (["--split=%d" % split] if split else []), cwd=root, timeout=120)
        if split and not os.path.exists(arch):
            k = 1
            parts = []
            while os.path.exists(os.path.join(root, "a.part%d.pna" % k)):
                parts.append(os.path.join(root, "a.part%d.pna" % k)); k += 1
        r2 = cli.run_pna(["--quiet", "extract", parts[0] if parts else arch, "--out-dir", "out"] + xopt, cwd=root, timeout=120) if r1["rc"] == 0 else None
    elif v["transport"] == "pipe":
        r1 = cli.run_pna(["--quiet", "experimental", "stdio", "-c", "-r", "t"] + copt, cwd=root, timeout=120)
        with open(arch, "wb") as f:
            f.write(r1["out"])
        r2 = cli.run_pna(["--quiet", "experimental", "stdio", "-x", "--out-dir", "out"] + xopt, cwd=root, stdin=r1["out"], timeout=120) if r1["rc"] == 0 else None
    else:
        r1 = cli.run_pna(["--quiet", "experimental", "stdio", "-c", "-r", "t", "-f", arch] + copt, cwd=root, timeout=120)
        r2 = cli.run_pna(["--quiet", "experimental", "stdio", "-x", "-f", arch, "--out-dir", "out"] + xopt, cwd=root, timeout=120) if r1["rc"] == 0 else None
    cmd = "%s transport=%s split=%s | extract %s" % (" ".join(copt), v["transport"], split, " ".join(xopt))
    if r1["rc"] != 0 or r1["timeout"]:
        msgs.append("create fails (rc %s): %s [%s]" % (r1["rc"], r1["err"][-200:].decode("utf-8", "replace"), cmd))
    elif r2["rc"] != 0 or r2["timeout"]:
        msgs.append("extract fails (rc %s): %s [%s]" % (r2["rc"], r2["err"][-200:].decode("utf-8", "replace"), cmd))
    # walk order = archive order of the collected items; directories that were not collected go last
    order = []
    if r1["rc"] == 0 and parts:
        entries, end = cli.dump(parts, PW if enc else None)
        order = [cli.unhex(e["name"]).decode("utf-8", "surrogateescape") for e in entries if "solid_header" not in e]
        if end != "OK":
            msgs.append("the created archive does not read back: %s [%s]" % (end, cmd))
    order = [p for p in order if p in src] + sorted(p for p in src if p not in order)
    if again is not None:
        # the walk of the model: the paths reached through the second argument are listed again (Model/Extract.v create_from_walk)
        order = order + [p for p in order if p == again or p.startswith(again + "/")]
    cf, xf = flags_of(cargs), flags_of(xargs)
    def item(p):
        k, data, mode, mtime, xs = src[p]
        return "%s:%s:%s:%d:%d:%s" % (p.encode("utf-8", "surrogateescape").hex(), k, data.hex(), mode, mtime,
                                      ";".join("%s=%s" % (a.hex(), b.hex()) for a, b in xs))
    case = "roundtrip\t%d\t%d\t%s" % (cf, xf, ",".join(item(p) for p in order))
    # ---- observed tree
    got = snap(os.path.join(root, "out", "t"), "t")
    kperm, ktime, kx, kdir = bool(cf & xf & 2), bool(cf & xf & 4), bool(cf & xf & 8), bool(cf & 1)
    def show(p):
        k, data, mode, mtime, xs = got[p]
        ph = p.encode("utf-8", "surrogateescape").hex()
        if k == "f":
            return "%s:f:%s:%s:%s:%s" % (ph, data.hex(), mode if kperm else "-", mtime if ktime else "-",
                                         ";".join("%s=%s" % (a.hex(), b.hex()) for a, b in xs) if kx else "")
        if k == "d":
            return "%s:d::%s:-:" % (ph, mode if (kdir and kperm) else "-")
        return "%s:l:%s:-:-:" % (ph, data.hex())
    rc = 0 if (r2 is not None and r2["rc"] == 0) else 1
    outcome = "OK %d %s" % (rc, ",".join(show(p) for p in sorted(got, key=lambda s: s.encode("utf-8", "surrogateescape"))) or "-")
    # ---- the property itself, on the implementation alone
    for p, (k, data, mode, mtime, xs) in src.items():
        if k == "d" and not kdir and not any(q.startswith(p + "/") and src[q][0] != "d" for q in src):
            if p in got:
                msgs.append("directory %r extracted although nothing kept lies below it and --keep-dir is off [%s]" % (p, cmd))
            continue
        if p not in got:
            msgs.append("%s %r is missing after extraction [%s]" % ({"f": "file", "d": "directory", "l": "symbolic link"}[k], p, cmd))
            continue
        gk, gdata, gmode, gmtime, gxs = got[p]
        if gk != k:
            msgs.append("%r changed kind %s -> %s [%s]" % (p, k, gk, cmd))
        elif k == "f" and gdata != data:
            msgs.append("content of %r differs after the round trip [%s]" % (p, cmd))
        elif k == "l" and gdata != norm_target(data):
            msgs.append("target of symbolic link %r: %r -> %r [%s]" % (p, data, gdata, cmd))
        if k == gk == "f":
            if kperm and gmode != mode:
                msgs.append("mode of %r: %o -> %o with --keep-permission on both sides [%s]" % (p, mode, gmode, cmd))
            if ktime and gmtime != mtime:
                msgs.append("mtime of %r: %d -> %d with --keep-timestamp on both sides [%s]" % (p, mtime, gmtime, cmd))
            if kx and gxs != xs:
                msgs.append("xattrs of %r: %r -> %r with --keep-xattr on both sides [%s]" % (p, xs, gxs, cmd))
        if k == gk == "d" and kdir and kperm and gmode != mode:
            msgs.append("mode of directory %r: %o -> %o with --keep-dir and --keep-permission [%s]" % (p, mode, gmode, cmd))
    for p in got:
        if p not in src:
            msgs.append("%r appears after extraction but is not in the source tree [%s]" % (p, cmd))
    return case, outcome, msgs


def finding_history(sb):
    """known finding keepdir-file-before-dir: a file named on the command line before its own directory, --keep-dir,
    extraction without --overwrite (never the order of the -r walker); fixed case, replayed in every run"""
    root = sb.path("kf")
    os.makedirs(os.path.join(root, "tmp"))
    os.makedirs(os.path.join(root, "t", "d"))
    with open(os.path.join(root, "t", "d", "f"), "wb") as f:
        f.write(b"hi")
    os.chmod(os.path.join(root, "t", "d", "f"), 0o644)
    os.utime(os.path.join(root, "t", "d", "f"), (1, 1))
    os.chmod(os.path.join(root, "t", "d"), 0o755)
    r1 = cli.run_pna(["--quiet", "create", "a.pna", "t/d/f", "t/d", "--keep-dir"], cwd=root, timeout=60)
    r2 = cli.run_pna(["--quiet", "extract", "a.pna", "--out-dir", "out"], cwd=root, timeout=60)
    case = "roundtrip\t1\t0\t%s:f:%s:420:1:,%s:d::493:0:" % (b"t/d/f".hex(), sha(b"hi").hex(), b"t/d".hex())
    got = snap(os.path.join(root, "out", "t"), "t")
    got.pop("t", None)           # `t` itself is not an item of this invocation
    def show(p):
        k, data, mode, mtime, xs = got[p]
        return "%s:%s:%s:-:-:" % (p.encode().hex(), k, data.hex())
    outcome = "OK %d %s" % (0 if (r1["rc"] == 0 and r2["rc"] == 0) else 1, ",".join(show(p) for p in sorted(got)) or "-")
    msgs = [] if r2["rc"] == 0 else ["extract fails (rc %s): %s [create a.pna t/d/f t/d --keep-dir | extract]" % (r2["rc"], r2["err"][-120:].decode("utf-8", "replace"))]
    shutil.rmtree(root, ignore_errors=True)
    return case, outcome, msgs


def histories(c, tier, seed):
    os.umask(0o022)
    rnd = random.Random(seed * 104729 + 2)
    n = 60 if tier == "quick" else 2000
    vs, cov = vectors(rnd, n, tier == "quick")
    # forced rows: large files through the streaming (solid) and the building writers, stored, every cipher mode — a
    # writer below the cipher or the compressor that treats large single writes specially shows only here
    base = {"split": 0, "kdir": 1, "ktime": 1, "kperm": 1, "kxattr": 0, "sides": "both", "big": 1}
    for comp, ciph, solid, tr in (("--store", "--aes=ctr --pbkdf2=r=1", 1, "file"), ("--store", "--camellia=ctr --pbkdf2=r=1", 1, "pipe"),
                                  ("--store", "pw", 1, "file"), ("--store", "--aes=cbc --pbkdf2=r=1", 0, "stdio-f"),
                                  ("--zstd=1", "--aes=ctr --pbkdf2=r=1", 0, "file"), ("--deflate=1", "", 1, "pipe"),
                                  # the building writer (EntryBuilder over the in-memory FlattenWriter) under a CTR cipher with
                                  # stored files above 1 and 2 MiB (seeded C02-4: a sink that takes a write only partly)
                                  ("--store", "--aes=ctr --pbkdf2=r=1", 0, "file"), ("--store", "pw", 0, "pipe"),
                                  ("--store", "--camellia=ctr --pbkdf2=r=1", 0, "stdio-f"),
                                  # every compressor on incompressible data through the NON-solid builder (deflate's writer
                                  # accepts only part of a write when its output buffer is full)
                                  ("--deflate=1", "", 0, "file"), ("--deflate=9", "--aes=cbc --pbkdf2=r=1", 0, "pipe"), ("--xz=1", "", 0, "file"),
                                  ("--zstd=3", "pw", 0, "stdio-f")):
        vs.append(dict(base, comp=comp, cipher=ciph, solid=solid, transport=tr))
    if cov:
        c.notes.append("option vectors: %d rows cover %d of %d value pairs of the 10 factors" % (n, cov[0], cov[1]))
    cases, outs, orc = [], [], {}
    with cli.Sandbox("C02") as sb:
        xattrs = xattr_supported(sb.root)
        if not xattrs:
            c.notes.append("user.* extended attributes are not supported by the sandbox file system: the xattr leg is skipped")
        for i, v in enumerate(vs):
            case, out, msgs = run_history(sb, i, rnd, v, xattrs)
            cases.append(case); outs.append(out)
            if msgs:
                orc[i] = msgs[:3]
            for k in ("transport", "comp", "solid"):
                c.hist["%s=%s" % (k, v[k])] = c.hist.get("%s=%s" % (k, v[k]), 0) + 1
            shutil.rmtree(sb.path("h%d" % i), ignore_errors=True)
        case, out, msgs = finding_history(sb)
        cases.append(case); outs.append(out)
        if msgs:
            orc[len(cases) - 1] = msgs
    c.correspondence_py("extract", cases, outs, orc)


def link_root_histories(c, rnd, n):
    """The tree argument itself is (or comes with) a symbolic link to a directory: `create -r L t` with L -> t, `create -r L`
    with L -> t, without --follow-links.  The link is an item like any other link (fix 559daabb: the walker used to descend
    into a link given as an argument, storing L and L/...; extraction of that archive failed).  Implementation-side oracle:
    extraction succeeds, out/L is a link with the target given, out/t equals t."""
    bad = []
    with cli.Sandbox("C02l") as sb:
        for i in range(n):
            d = sb.path("l%d" % i)
            os.makedirs(os.path.join(d, "tmp"))
            gen_tree(rnd, os.path.join(d, "t"), False)
            lname = rnd.choice(["L", "z link", "-l", "a"])
            os.symlink("t", os.path.join(d, lname))
            opts = rnd.choice([[], ["--keep-dir"], ["--solid"], ["--keep-dir", "--solid", "--store"]])
            roots = rnd.choice([["--", lname, "t"], ["--", "t", lname], ["--", lname], ["--", "./" + lname, "t"]])
            cmd = "create a.pna -r %s %s | extract" % (" ".join(opts), " ".join(roots))
            r1 = cli.run_pna(["--quiet", "create", "a.pna", "-r"] + opts + roots, cwd=d, timeout=120)
            r2 = cli.run_pna(["--quiet", "extract", "a.pna", "--out-dir", "out"], cwd=d, timeout=120) if r1["rc"] == 0 else None
            c.hist["link given as an argument"] = c.hist.get("link given as an argument", 0) + 1
            c.cov["evaluations"] += 1
            msgs = []
            if r1["rc"] != 0:
                msgs.append("create fails (rc %s): %s" % (r1["rc"], r1["err"][-200:].decode("utf-8", "replace")))
            elif r2["rc"] != 0:
                msgs.append("extract fails (rc %s): %s" % (r2["rc"], r2["err"][-200:].decode("utf-8", "replace")))
            else:
                lp = os.path.join(d, "out", lname)
                if not os.path.islink(lp) or os.readlink(lp) != "t":
                    msgs.append("the link %r is not restored as a link to 't' (%s)" % (lname, "missing" if not os.path.lexists(lp) else "a directory" if os.path.isdir(lp) else "other"))
                if "t" in roots:
                    src, got = snap(os.path.join(d, "t"), "t"), snap(os.path.join(d, "out", "t"), "t")
                    kd = "--keep-dir" in opts
                    for p_, (k, data, mode, mtime, xs) in src.items():
                        if k == "d" and not kd:
                            continue
                        if p_ not in got or got[p_][0] != k or (k == "f" and got[p_][1] != data):
                            msgs.append("%r is missing or differs after extraction" % p_)
                            break
                    extra = [q for q in got if q not in src]
                    if extra:
                        msgs.append("%r appears after extraction but is not in the source tree" % extra[0])
            if msgs:
                bad.append("%s: %s" % (cmd, "; ".join(msgs[:2])))
            shutil.rmtree(d, ignore_errors=True)
    for b in bad[:3]:
        c.violations.append(("oracle", "C02 with a symbolic link as tree argument: " + b, b, True))


def split_sweep(c, rnd, n):
    """create --split S / extract for many part sizes S on one small encrypted tree (normal and solid entries): part
    boundaries fall at every offset of the small chunks in front of the data (FHED, PHSF, the 16-byte IV piece), which the
    two fixed sizes of the option vectors never reach (seeded C02-7: a reader that takes the IV with a single read).
    Implementation-side oracle: both commands succeed and the tree comes back."""
    bad = []
    with cli.Sandbox("C02s") as sb:
        d = sb.path("s")
        os.makedirs(os.path.join(d, "tmp"))
        os.makedirs(os.path.join(d, "t", "sub"))
        for name, size in (("a", 40), ("sub/b", 333), ("c.txt", 0), ("sub/d", 17)):
            with open(os.path.join(d, "t", name), "wb") as f:
                f.write(rnd.randbytes(size))
        src = snap(os.path.join(d, "t"), "t")
        sizes = rnd.sample(range(150, 420), min(n, 270))
        for i, m in enumerate(sizes):
            ciph = rnd.choice([["--aes", "ctr"], ["--aes", "cbc"], ["--camellia", "ctr"], ["--camellia", "cbc"]])
            opts = ["--store"] + ciph + ["--pbkdf2", "r=1", "--password", PW] + (["--solid"] if i % 2 else [])
            for f in os.listdir(d):
                if f.startswith("a.") or f == "out":
                    p_ = os.path.join(d, f)
                    shutil.rmtree(p_) if os.path.isdir(p_) else os.remove(p_)
            cmd = "create a.pna -r t %s --split=%d | extract" % (" ".join(opts), m)
            r1 = cli.run_pna(["--quiet", "create", "a.pna", "-r", "t", "--split=%d" % m] + opts, cwd=d, timeout=120)
            c.cov["evaluations"] += 1
            if r1["rc"] != 0:
                continue          # a size too small for an indivisible chunk is refused (C04)
            first = "a.part1.pna" if os.path.exists(os.path.join(d, "a.part1.pna")) else "a.pna"
            r2 = cli.run_pna(["--quiet", "extract", first, "--out-dir", "out", "--password", PW], cwd=d, timeout=120)
            c.hist["split sweep (encrypted, small parts)"] = c.hist.get("split sweep (encrypted, small parts)", 0) + 1
            if r2["rc"] != 0:
                bad.append("%s: extract fails (rc %s): %s" % (cmd, r2["rc"], r2["err"][-160:].decode("utf-8", "replace")))
                continue
            got = snap(os.path.join(d, "out", "t"), "t")
            for p_, (k, data, mode, mtime, xs) in src.items():
                if k == "f" and (p_ not in got or got[p_][1] != data):
                    bad.append("%s: %r is missing or differs after extraction" % (cmd, p_))
                    break
    for b in bad[:3]:
        c.violations.append(("oracle", "C02 over part sizes: " + b, b, True))


UNPRIV = ["setpriv", "--reuid=65534", "--regid=65534", "--clear-groups"]


def unprivileged_histories(c, rnd, n):
    """create as root (owner root, modes 0600 / 0755 / 0640 / 04755 …), extract with --keep-permission as an UNPRIVILEGED user
    (setpriv to nobody): chown cannot succeed there, the mode bits must be restored all the same and the exit status must
    be 0 (fix 01b5387d: a failing chown skipped the chmod and both results were dropped — invisible to every run as root).
    Also the other direction of the property for such a user: create AND extract as nobody.  Implementation-side oracle
    only (Model/Fs.v has no owners).  Known finding keepperm-readonly-dir is replayed here."""
    if shutil.which("setpriv") is None or os.geteuid() != 0:
        c.notes.append("unprivileged histories skipped (needs root and setpriv)")
        return
    runs = 0
    with cli.Sandbox("C02u") as sb:
        os.chmod(sb.root, 0o777)
        pna = cli.pna_path()
        def as_nobody(args, cwd):
            p = subprocess.run(UNPRIV + [pna] + args, cwd=cwd, stdout=subprocess.PIPE, stderr=subprocess.PIPE, timeout=120,
                               env=dict(os.environ, HOME=cwd, TMPDIR=cwd))
            return p.returncode, p.stderr.decode("utf-8", "replace")[-300:]
        for i in range(n):
            d = sb.path("u%d" % i)
            os.makedirs(os.path.join(d, "t", "sub"))
            os.chmod(d, 0o777)
            modes = {}
            for j, rel in enumerate(["t/a", "t/b.sh", "t/sub/c", "t/sub/d"]):
                with open(os.path.join(d, rel), "wb") as f:
                    f.write(bytes(rnd.getrandbits(8) for _ in range(rnd.randint(0, 200))))
                modes[rel] = rnd.choice([0o600, 0o755, 0o640, 0o444, 0o700, 0o664, 0o4755, 0o2750])
            by_nobody = i % 2 == 1
            opts = rnd.choice([[], ["--solid"], ["--store"], ["--keep-dir"]])
            if by_nobody:
                subprocess.run(["chown", "-R", "65534:65534", os.path.join(d, "t")], check=True)
            for rel, m in modes.items():          # after the chown: giving a file away clears its setuid / setgid bits
                os.chmod(os.path.join(d, rel), m)
            if by_nobody:
                rc1, err1 = as_nobody(["--quiet", "create", "a.pna", "-r", "t", "--keep-permission"] + opts, d)
                # setuid / setgid bits survive a chown to another user only partly: restrict to what nobody can set itself
            else:
                r = cli.run_pna(["--quiet", "create", "a.pna", "-r", "t", "--keep-permission"] + opts, cwd=d, timeout=120)
                rc1, err1 = r["rc"], r["err"].decode("utf-8", "replace")[-300:]
                os.chmod(os.path.join(d, "a.pna"), 0o644)
            rc2, err2 = as_nobody(["--quiet", "extract", "a.pna", "--out-dir", "out", "--keep-permission"], d) if rc1 == 0 else (None, "")
            runs += 2
            hist = "pna create a.pna -r t --keep-permission %s (as %s; modes %s) ; pna extract a.pna --out-dir out --keep-permission (as nobody)" % (
                " ".join(opts), "nobody" if by_nobody else "root", {k: oct(v) for k, v in modes.items()})
            msgs = []
            if rc1 != 0:
                msgs.append("create fails (rc %s): %s" % (rc1, err1))
            elif rc2 != 0:
                msgs.append("extract as an unprivileged user fails (rc %s): %s" % (rc2, err2))
            else:
                for rel, m in modes.items():
                    q = os.path.join(d, "out", rel)
                    if not os.path.exists(q):
                        msgs.append("%s is missing after extraction" % rel)
                        continue
                    got = stat.S_IMODE(os.lstat(q).st_mode)
                    # an unprivileged chmod keeps setuid only on files it owns and clears setgid for foreign groups: compare the
                    # rwx bits always, the special bits when the extracting user wrote the archive's owner too
                    want = m if by_nobody else m & 0o777
                    got_c = got if by_nobody else got & 0o777
                    if by_nobody:
                        want, got_c = want & 0o5777, got_c & 0o5777
                    if got_c != want:
                        msgs.append("mode of %s is %o after extract --keep-permission as an unprivileged user, archived %o" % (rel, got, m))
            for mm in msgs[:3]:
                c.violations.append(("oracle", mm, hist, True))
        # known finding: a read-only directory with --keep-dir --keep-permission as an unprivileged user
        d = sb.path("ro")
        os.makedirs(os.path.join(d, "t", "ro"))
        os.chmod(d, 0o777)
        with open(os.path.join(d, "t", "ro", "a"), "w") as f:
            f.write("a")
        os.chmod(os.path.join(d, "t", "ro"), 0o555)
        subprocess.run(["chown", "-R", "65534:65534", os.path.join(d, "t")], check=True)
        rc1, _ = as_nobody(["--quiet", "create", "a.pna", "-r", "t", "--keep-dir", "--keep-permission"], d)
        rc2, err2 = as_nobody(["--quiet", "extract", "a.pna", "--out-dir", "o", "--keep-permission"], d)
        runs += 2
        ok = rc1 == 0 and rc2 == 0 and os.path.exists(os.path.join(d, "o", "t", "ro", "a"))
        if not ok:
            what = ("`pna create a.pna -r t --keep-dir --keep-permission` then `pna extract a.pna --out-dir o --keep-permission` as an "
                    "unprivileged user on a tree with a read-only directory (mode 555) holding a file: the directory's mode is applied as "
                    "soon as the directory entry is extracted, the file beneath it then cannot be created (PermissionDenied, exit 1); as "
                    "root the same archive extracts completely")
            listed = [f for f in core.load_findings("C02") if f["id"] == "keepperm-readonly-dir"]
            if listed:
                print("KNOWN-FINDING: property=C02 %s (keepperm-readonly-dir)" % what)
            else:
                c.violations.append(("oracle", "extract --keep-permission as an unprivileged user fails on a read-only directory: " + err2,
                                     what, True))
        else:
            c.notes.append("known finding keepperm-readonly-dir no longer reproduces (extract rc %s): remove it from known_findings.txt" % rc2)
        subprocess.run(["chmod", "-R", "u+rwx", d], check=False)
        # a read-only FILE that carries a user.* attribute, --keep-permission --keep-xattr on both sides, as nobody (fix
        # a5539992: the attributes used to be set after the mode, which an unprivileged user may not do on a 0444 file)
        d = sb.path("rx")
        os.makedirs(os.path.join(d, "t"))
        os.chmod(d, 0o777)
        if xattr_supported(d):
            for name, mode in (("ro", 0o444), ("rw", 0o644), ("x", 0o500)):
                q = os.path.join(d, "t", name)
                with open(q, "wb") as f:
                    f.write(name.encode())
                os.setxattr(q, "user.k", b"v-" + name.encode())
                os.chmod(q, mode)
            subprocess.run(["chown", "-R", "65534:65534", os.path.join(d, "t")], check=True)
            rc1, err1 = as_nobody(["--quiet", "create", "a.pna", "-r", "t", "--keep-permission", "--keep-xattr"], d)
            rc2, err2 = as_nobody(["--quiet", "extract", "a.pna", "--out-dir", "o", "--keep-permission", "--keep-xattr"], d) if rc1 == 0 else (None, "")
            runs += 2
            hist = "as nobody: files t/ro (0444), t/rw (0644), t/x (0500) each with user.k ; pna create a.pna -r t --keep-permission --keep-xattr ; pna extract a.pna --out-dir o --keep-permission --keep-xattr"
            if rc1 != 0 or rc2 != 0:
                c.violations.append(("oracle", "create / extract --keep-permission --keep-xattr as an unprivileged user fails (rc %s / %s): %s" % (rc1, rc2, err2 or err1), hist, True))
            else:
                for name, mode in (("ro", 0o444), ("rw", 0o644), ("x", 0o500)):
                    q = os.path.join(d, "o", "t", name)
                    try:
                        got = (stat.S_IMODE(os.lstat(q).st_mode), os.getxattr(q, "user.k"))
                    except OSError as ex:
                        got = (None, str(ex).encode())
                    if got != (mode, b"v-" + name.encode()):
                        c.violations.append(("oracle", "t/%s: mode / user.k after extraction as an unprivileged user are %s, archived (%o, v-%s)" % (name, got, mode, name), hist, True))
                        break
        subprocess.run(["chown", "-R", "0:0", sb.root], check=False)
    c.cov["evaluations"] += runs
    c.hist["runs as an unprivileged user"] = runs


def run(tier, seed, replay=None):
    c = Check("C02", tier, seed)
    c.rule = ("histories = generated tree x option vector (pairwise-covering over {compression, cipher+kdf, solid, split, transport, "
              "keep-dir, keep-timestamp, keep-permission, keep-xattr, which side gets the keep flags} in quick, random in thorough); "
              "a history is non-trivial if distinct")
    c.assumptions = ["compressor and KDF laws (premises of C02_create_archive_extract; --split: C04)",
                     "directory and symbolic-link timestamps are not part of the reproduced tree (the tool never restores them)",
                     "the walk order of the `ignore` crate is taken from the archive (oracle permutation)"]
    c.proofs()
    histories(c, tier, seed)
    unprivileged_histories(c, random.Random(seed + 77), 6 if tier == "quick" else 60)
    link_root_histories(c, random.Random(seed + 78), 8 if tier == "quick" else 80)
    split_sweep(c, random.Random(seed + 79), 60 if tier == "quick" else 270)
    return c.finish("proof", ["Coq 8.16.1 kernel and VM", "ExtrOcamlBasic extraction + modelrun/driver.ml", "harness dump",
                              "vlib/cli.py snapshots", "Model/Fs.v as a description of the file system calls"])
