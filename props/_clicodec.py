"""clicodec area (C15, CLI half): correspondence step for the CLI's textual codecs
(ACE / platform text, xattr value parser and printers, part file names, chmod modes).
Wire into a property module with:   from props import _clicodec;  _clicodec.step(c)"""

RULE = ("clicodec cases = every ACE flag set x every permission set of at most two bits x 6 owner kinds x allow/deny, "
        "20 000 random full-width ACEs, sweeps of 1024 permission sets per line (quick: all 2^16 sets with no flag and with every flag; "
        "thorough: all 2^22 flag/permission sets for a named user and for the owner, on the implementation AND the model side), "
        "every platform kind, printed / hand-written / mutated ACE texts through both parsers; every single byte "
        "(thorough: every two-byte string) printed in hex and base64 and parsed back, every string of length <= 3 (4) over "
        "{0 a F + - = g / e-acute} after the prefixes 0x 0s 0 0X 0S and none, generated and mutated value texts; listed and "
        "generated file-name shapes (dotless, dotted, multi-dot, hidden, part-like, unicode) x 14 directory shapes x part numbers "
        "{0,1,2,9,10,99,100,2^32}; every canonical chmod mode (512 numeric + 3x8x8 symbolic) parsed and applied, "
        "hand-written and mutated mode texts. ")

ASSUMPTIONS = [
    "ACE owner names are non-empty and contain no ':' (named user / named group); unknown platform names are not one of the "
    "reserved names and contain no ':'",
    "part-name laws are stated for paths whose last component is a file name (not empty, '.', '..'); "
    "remove_part(with_part p n) = p additionally needs p not to be a part name itself (remove_part p = p)",
    "the xattr text form (quoted, escaped output; raw input) is asymmetric by design and not claimed as an inverse pair",
]

TRUSTED = ["harness/src/bin/clicodec.rs", "cli/src/verif_hooks.rs + cli/src/command/verif_hooks.rs wrappers"]


def step(c):
    c.rule += RULE
    c.assumptions += ASSUMPTIONS
    return c.correspondence("clicodec", ["clicodec"], gen_prop="C15")
